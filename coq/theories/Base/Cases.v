(* generic helper for correspondence case files: indices of the cases on which a check fails *)
From Coq Require Import List Arith.
Import ListNotations.

Fixpoint mismatches_from {A} (bad : A -> bool) (l : list A) (i : nat) : list nat :=
  match l with
  | [] => []
  | x :: r => if bad x then i :: mismatches_from bad r (S i) else mismatches_from bad r (S i)
  end.
Definition mismatches {A} (bad : A -> bool) (l : list A) : list nat := mismatches_from bad l 0.

Lemma mismatches_from_nil {A} (bad : A -> bool) l : forall i,
  mismatches_from bad l i = [] -> forall x, In x l -> bad x = false.
Proof.
  induction l as [|y r IH]; intros i H x Hx; [destruct Hx|].
  simpl in H. destruct (bad y) eqn:E; [discriminate|].
  destruct Hx as [->|Hx]; [exact E|]. eapply IH; eauto.
Qed.
