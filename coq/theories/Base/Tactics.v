From Coq Require Export Lia ZArith NArith Bool List.
From Coq Require Export ZifyBool ZifyNat ZifyN.
Ltac Zify.zify_post_hook ::= Z.div_mod_to_equations.
