(* Transport of byte strings from the Go harness into Coq: seven bytes per primitive
   63-bit integer literal (little endian).  Only generated case files use this; models and
   theorems never mention Uint63. *)
From Coq Require Import Uint63.
From KM Require Import Base.Bytes.

Fixpoint le_bytes (k : nat) (n : N) : bs :=
  match k with O => [] | S k' => (n mod 256) :: le_bytes k' (n / 256) end.

Fixpoint unpack (len : nat) (ws : list int) : bs :=
  match ws with
  | [] => []
  | w :: r => let k := Nat.min len 7 in
              le_bytes k (Z.to_N (Uint63.to_Z w)) ++ unpack (len - k) r
  end.

Definition N_of_int (w : int) : N := Z.to_N (Uint63.to_Z w).
Definition Z_of_int (w : int) : Z := Uint63.to_Z w.

Example unpack_ex : unpack 9 [1633771873%uint63 (* "aaaa" *) ; 25186%uint63] = [97;97;97;97;0;0;0;98;98].
Proof. vm_compute. reflexivity. Qed.
