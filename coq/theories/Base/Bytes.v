(* Byte strings as lists of N (one N per byte), with the few helpers every model uses. *)
From Coq Require Export List NArith ZArith Bool Lia.
Export ListNotations.
Open Scope N_scope.

Definition bs := list N.

Fixpoint has (p : N -> bool) (s : bs) : bool :=
  match s with [] => false | x :: r => p x || has p r end.

Fixpoint bs_eqb (a b : bs) : bool :=
  match a, b with
  | [], [] => true
  | x :: a', y :: b' => (x =? y) && bs_eqb a' b'
  | _, _ => false
  end.

Lemma bs_eqb_eq a : forall b, bs_eqb a b = true <-> a = b.
Proof.
  induction a as [|x a IH]; destruct b as [|y b]; simpl; split; intro H; try discriminate; auto.
  - apply andb_true_iff in H. destruct H as [H1 H2]. apply N.eqb_eq in H1. apply IH in H2. congruence.
  - inversion H; subst. rewrite N.eqb_refl. simpl. apply IH. reflexivity.
Qed.

Lemma bs_eqb_refl a : bs_eqb a a = true.
Proof. apply bs_eqb_eq. reflexivity. Qed.

Lemma bs_eqb_neq a b : bs_eqb a b = false <-> a <> b.
Proof.
  split; intro H.
  - intro E. apply bs_eqb_eq in E. congruence.
  - destruct (bs_eqb a b) eqn:E; auto. apply bs_eqb_eq in E. contradiction.
Qed.

Fixpoint prefix_b (p s : bs) : bool :=
  match p, s with
  | [], _ => true
  | x :: p', y :: s' => (x =? y) && prefix_b p' s'
  | _ :: _, [] => false
  end.

Lemma prefix_b_spec p : forall s, prefix_b p s = true <-> exists t, s = p ++ t.
Proof.
  induction p as [|x p IH]; intros s; simpl.
  - split; eauto.
  - destruct s as [|y s].
    + split; [discriminate|]. intros [t H]. discriminate.
    + rewrite andb_true_iff, N.eqb_eq, IH. split.
      * intros [-> [t ->]]. eauto.
      * intros [t H]. inversion H; subst. eauto.
Qed.

Definition suffix_b (p s : bs) : bool := prefix_b (rev p) (rev s).

Lemma suffix_b_spec p s : suffix_b p s = true <-> exists t, s = t ++ p.
Proof.
  unfold suffix_b. rewrite prefix_b_spec. split; intros [t H].
  - exists (rev t). apply (f_equal (@rev N)) in H. rewrite rev_involutive, rev_app_distr, rev_involutive in H. exact H.
  - exists (rev t). subst s. rewrite rev_app_distr. reflexivity.
Qed.

Fixpoint mem_bs (x : bs) (l : list bs) : bool :=
  match l with [] => false | y :: r => bs_eqb x y || mem_bs x r end.

Lemma mem_bs_In x l : mem_bs x l = true <-> In x l.
Proof.
  induction l as [|y r IH]; simpl; [split; [discriminate|tauto]|].
  rewrite orb_true_iff, bs_eqb_eq, IH. split; intros [H|H]; auto.
Qed.

Lemma has_false_Forall p s : has p s = false <-> Forall (fun c => p c = false) s.
Proof.
  induction s as [|x r IH]; simpl.
  - split; auto.
  - rewrite orb_false_iff, IH. split.
    + intros [A B]. constructor; auto.
    + intros H. inversion H; subst. auto.
Qed.

Lemma has_true_exists p s : has p s = true <-> exists c, In c s /\ p c = true.
Proof.
  induction s as [|x r IH]; simpl.
  - split; [discriminate|]. intros [c [[] _]].
  - rewrite orb_true_iff, IH. split.
    + intros [H|[c [H1 H2]]]; eauto.
    + intros [c [[->|H1] H2]]; eauto.
Qed.

(* list-of-N index lookup used by the case evaluators *)
Fixpoint nth_opt {A} (l : list A) (n : nat) : option A :=
  match l, n with
  | [], _ => None
  | x :: _, O => Some x
  | _ :: r, S n' => nth_opt r n'
  end.
