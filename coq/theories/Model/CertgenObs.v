(* C02 — comparison of a decoded real certificate with the model's certdesc (used by the
   generated case file CasesC02.v; executable definitions only) *)
From Coq Require Import ZArith.
From KM Require Import Base.Bytes Model.Auth Model.Certgen Model.CertgenCases Model.CertgenEnv.
From KM Require Proofs.CertgenSpec.
From KM Require Model.Seal.
Open Scope N_scope.

(* what the harness read out of the response *)
Record observed := {
  o_issued : bool;
  o_error : bool;               (* status >= 400 *)
  o_ssh : bool;
  o_names : list bs;            (* ValidPrincipals / [CN] *)
  o_keyid : bs;
  o_key : N;                    (* index of the submitted key the certified key equals; 999 = none *)
  o_user_type : bool;           (* SSH UserCert / X.509 BasicConstraintsValid *)
  o_is_ca : bool;
  o_eku_client : bool;
  o_eku_pkinit : bool;
  o_exts : list (bs * bs);
  o_signer : N;                 (* the published key it verifies under (key names of Model/Seal.v): 1 the main CA key,
                                   2 the Ed25519 CA key; 0: under none of the keys the server publishes *)
  o_orgs : list bs;             (* sorted *)
  o_groups : list bs;           (* sorted *)
  o_methods : list bs;          (* sorted *)
  o_krb : option (bs * bs);
  o_other_names : list bs }.    (* every other identity found in the decoded certificate, tagged ("dns:...", "email:...",
                                   "uri:...", "ip:...", "dirname", "othername:<oid>", "ou:...", "cn#2:...", "critical:...") *)

Fixpoint list_bs_eqb (a b : list bs) : bool :=
  match a, b with
  | [], [] => true
  | x :: a', y :: b' => bs_eqb x y && list_bs_eqb a' b'
  | _, _ => false
  end.

Definition opt_pair_eqb (a b : option (bs * bs)) : bool :=
  match a, b with
  | None, None => true
  | Some (x1, x2), Some (y1, y2) => bs_eqb x1 y1 && bs_eqb x2 y2
  | _, _ => false
  end.

Definition opt_bs_eqb (a b : option bs) : bool :=
  match a, b with
  | None, None => true
  | Some x, Some y => bs_eqb x y
  | _, _ => false
  end.

(* same finite map: same size (the model's keys are distinct) and every observed pair is there *)
Definition exts_eqb (model obs : list (bs * bs)) : bool :=
  (N.of_nat (length model) =? N.of_nat (length obs)) &&
  forallb (fun kv => opt_bs_eqb (lookup model (fst kv)) (Some (snd kv))) obs.

Definition has_eku (e : eku) (l : list eku) : bool :=
  existsb (fun x => match x, e with EkuClientAuth, EkuClientAuth => true | EkuPkinitClient, EkuPkinitClient => true | _, _ => false end) l.

Definition desc_matches (d : certdesc) (o : observed) : bool :=
  o_issued o && Bool.eqb (d_ssh d) (o_ssh o) && list_bs_eqb (d_names d) (o_names o) &&
  bs_eqb (d_keyid d) (o_keyid o) && (d_key d =? o_key o) &&
  Bool.eqb (d_user_type d) (o_user_type o) && Bool.eqb (d_is_ca d) (o_is_ca o) &&
  Bool.eqb (has_eku EkuClientAuth (d_ekus d)) (o_eku_client o) &&
  Bool.eqb (has_eku EkuPkinitClient (d_ekus d)) (o_eku_pkinit o) &&
  exts_eqb (d_exts d) (o_exts o) && (d_signer d =? o_signer o) &&
  list_bs_eqb (d_orgs d) (o_orgs o) && list_bs_eqb (d_groups d) (o_groups o) &&
  list_bs_eqb (d_methods d) (o_methods o) && opt_pair_eqb (d_krb d) (o_krb o) &&
  list_bs_eqb (d_other_names d) (o_other_names o).

Definition outcome_matches (r : outcome) (o : observed) : bool :=
  match r with
  | Refused code => negb (o_issued o) && Bool.eqb (400 <=? code) (o_error o)
  | Issued _ d => desc_matches d o
  end.

(* one issuance request of the C02 harness: a valid session cookie for subject `c_user` carrying
   the U2F bit, POST /certgen/<c_target> *)
Record c02case := {
  k_host : bs; k_ed_ca : bool;
  k_extra : list N;                           (* keymaster_public_keys_filename: key names, in file order (9 = a foreign key) *)
  k_templates : list (bs * bs); k_realm : option bs;
  k_expansions : list (bs * (option bs));     (* the shell-expansion oracle for this user *)
  k_groups : option (list bs); k_methods : option (list bs);   (* what the directory answers for this user *)
  k_user : bs; k_target : bs; k_type : N; k_key : option (N * bool); k_add_groups : bool;
  k_env : environ;                            (* the variables set in the daemon's process environment while the request
                                                 was served (named like the variables the configured templates use,
                                                 with foreign values); no input of certgen_env *)
  k_obs : observed }.

Fixpoint lookup_opt (m : list (bs * option bs)) (k : bs) : option bs :=
  match m with
  | [] => None
  | (k', v) :: r => if bs_eqb k' k then v else lookup_opt r k
  end.

(* the key material of the case: the configuration's key files unsealed with the right passphrase
   by the sealing model, starting from the configured public-key list *)
Definition c02_keycfg (c : c02case) : Seal.cfg :=
  {| Seal.right_pass := key_pass; Seal.main_key := 1; Seal.main_res := Seal.FGood; Seal.role_ok := true;
     Seal.ed_file := if k_ed_ca c then Some (key_pass, 2, Seal.FGood) else None; Seal.extra_pubkeys := k_extra c |}.
Definition c02_server (c : c02case) : server :=
  {| s_keys := fst (Seal.unseal_ca (c02_keycfg c) (Seal.sealed_init (c02_keycfg c)) key_pass);
     s_cfg := [sU2F]; s_name := fun _ => k_user c; s_host := k_host c; s_addr := s_port443;
     s_templates := k_templates c; s_realm := k_realm c;
     s_groups := fun _ => k_groups c; s_methods := fun _ => k_methods c |}.

Definition c02_outcome (c : c02case) : outcome :=
  let st := c02_server c in
  let q := {| q_method := HPost; q_origin := NoOrigin; q_tls := None;
              q_cookie := Some (with_claims (tok 1 bU2F) (issuer_of st) [issuer_of st]); q_basic := None;
              q_target := k_target c; q_type := type_of_index (k_type c); q_form_ok := true;
              q_key := k_key c; q_add_groups := k_add_groups c |} in
  (* k_expansions is shell.Expand on every template string under the mapper that knows the authenticated user
     only; the handler runs in a daemon whose environment is k_env c (Model/CertgenEnv.v certgen_env) *)
  certgen_env (fun _ t => lookup_opt (k_expansions c) t) (k_env c) st 0%Z true q.

(* the model's signer is among what the model's server publishes (SSH: KeymasterPublicKeys,
   X.509: caCertDer) - always true by c02_binding, evaluated all the same *)
Definition c02_model_published (c : c02case) : bool :=
  match c02_outcome c with
  | Issued _ d => Seal.mem (d_signer d) (published_ssh (c02_server c)) && Seal.mem (d_signer d) (published_x509 (c02_server c))
  | Refused _ => true
  end.

Definition c02_bad (c : c02case) : bool :=
  negb (outcome_matches (c02_outcome c) (k_obs c) && c02_model_published c).

(* ---- the property's predicate on the OBSERVED answer of a case (evaluated by the generated case file
   on every case on which implementation and model differ).  It is written against the SPECIFICATION
   (Proofs/CertgenSpec.v spec_ext; the request of a case is a valid U2F session of k_user), not against
   certgen: the conclusions of c02_binding, c02_other_user_refused, c02_extensions and
   c02_failed_expansion_refused evaluated on what came back.
   0 = the observation satisfies the property; 1 = a certificate for a request on behalf of another
   name; 2 = the certificate does not name exactly the authenticated user; 3 = it does not certify the
   submitted key; 4 = not an end-entity user certificate; 5 = does not verify under what the server
   publishes; 6 = the SSH extension map is not exactly the five standard names plus every configured
   template expanded for the user (a template that cannot be expanded: nothing may be issued);
   7 = neither a certificate nor an error; 8 = the certificate carries a further identity beside the
   authenticated user's name *)
Definition is_some {A} (o : option A) : bool := match o with Some _ => true | None => false end.
Definition exts_violate (expand : bs -> bs -> option bs) (tpl : list (bs * bs)) (user : bs) (obs : list (bs * bs)) : bool :=
  negb (forallb (fun kv => is_some (expand (fst kv) user) && is_some (expand (snd kv) user)) tpl) ||
  negb (forallb (fun kv => opt_bs_eqb (CertgenSpec.spec_ext expand tpl user (fst kv)) (Some (snd kv))) obs) ||
  negb (forallb (fun k => opt_bs_eqb (CertgenSpec.spec_ext expand tpl user k) (lookup obs k))
                (std5 ++ map (fun kv => match expand (fst kv) user with Some k => k | None => [] end) tpl)).
Definition c02_violation (c : c02case) : N :=
  let o := k_obs c in
  let st := c02_server c in
  if negb (o_issued o) then (if o_error o then 0 else 7)
  else if negb (bs_eqb (k_user c) (k_target c)) then 1
  else if negb (list_bs_eqb (o_names o) [k_user c]) then 2
  else if negb (list_bs_eqb (o_other_names o) []) then 8
  else if negb (match k_key c with Some (k, _) => o_key o =? k | None => false end) then 3
  else if negb (o_user_type o) || o_is_ca o || (negb (o_ssh o) && negb (o_eku_client o)) then 4
  else if negb (Seal.mem (o_signer o) (if o_ssh o then published_ssh st else published_x509 st)) then 5
  else if o_ssh o && exts_violate (fun t _ => lookup_opt (k_expansions c) t) (k_templates c) (k_user c) (o_exts o) then 6
  else 0.
(* (index, violation class) of every mismatching case *)
Fixpoint c02_diffv_from (l : list c02case) (i : nat) : list (nat * N) :=
  match l with
  | [] => []
  | c :: r => if c02_bad c then (i, c02_violation c) :: c02_diffv_from r (S i) else c02_diffv_from r (S i)
  end.
Definition c02_filter_violating (l : list (nat * N)) : list (nat * N) := filter (fun p => negb (snd p =? 0)) l.
