(* C13, layer B — a splitter for the conservative URL grammar
       "https://" host [":" port] ["/" path]
   host  = one or more of a-z 0-9 - .      port = one or more digits
   path  = "/" followed by any of A-Z a-z 0-9 - . _ ~ /
   On this grammar "the host" of the raw string is unambiguous (no user-info, no escapes, no
   backslashes, no case folding); the correspondence check compares net/url.Parse with this
   splitter component by component on generated members and near-misses of the grammar. *)
From KM Require Import Base.Bytes Model.Redirect.

Definition is_lower (c : N) : bool := (97 <=? c) && (c <=? 122).
Definition is_upper (c : N) : bool := (65 <=? c) && (c <=? 90).
Definition is_digit (c : N) : bool := (48 <=? c) && (c <=? 57).
Definition COLON : N := 58.
Definition SLASH : N := 47.
Definition is_hostc (c : N) : bool := is_lower c || is_digit c || (c =? 45) || (c =? DOT).
Definition is_pathc (c : N) : bool :=
  is_lower c || is_upper c || is_digit c || (c =? 45) || (c =? DOT) || (c =? 95) || (c =? 126) || (c =? SLASH).

Fixpoint span (p : N -> bool) (s : bs) : bs * bs :=
  match s with
  | [] => ([], [])
  | c :: r => if p c then let '(a, b) := span p r in (c :: a, b) else ([], s)
  end.

Definition https_pfx : bs := https ++ [COLON; SLASH; SLASH].

Definition mkp (host hostport path : bs) : parsed :=
  {| scheme := https; opaque := false; uhost := hostport; rawquery := []; upath := path; hostname := host |}.

Definition path_ok (p : bs) : bool :=
  match p with [] => true | c :: _ => (c =? SLASH) && forallb is_pathc p end.

Definition plain_split (s : bs) : option parsed :=
  if negb (prefix_b https_pfx s) then None else
  let rest := skipn 8 s in
  let '(host, r1) := span is_hostc rest in
  if is_nil host then None else
  match r1 with
  | [] => Some (mkp host host [])
  | c :: r1' =>
      if c =? COLON then
        let '(port, r2) := span is_digit r1' in
        if is_nil port then None
        else if path_ok r2 then Some (mkp host (host ++ COLON :: port) r2) else None
      else if path_ok r1 then Some (mkp host host r1) else None
  end.

(* comparison used by the correspondence check *)
Definition parsed_eqb (a b : parsed) : bool :=
  bs_eqb (scheme a) (scheme b) && Bool.eqb (opaque a) (opaque b) && bs_eqb (uhost a) (uhost b) &&
  bs_eqb (rawquery a) (rawquery b) && bs_eqb (upath a) (upath b) && bs_eqb (hostname a) (hostname b).
(* member = the harness built the string as a member of the grammar: it must be split, and
   whenever the splitter accepts a string net/url must have delivered the same components *)
Definition split_bad (c : bs * bool * option parsed) : bool :=
  let '(raw, member, p) := c in
  match plain_split raw with
  | None => member
  | Some u => match p with None => true | Some v => negb (parsed_eqb u v) end
  end.
