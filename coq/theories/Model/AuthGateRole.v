(* C06 — the ISSUERS of X.509 client certificates, next to the gate that reads them.

   checkAuth tells an IP-restricted (role requesting) certificate from a plain keymaster user certificate
   by ONE thing only: is chain[1] of the verified chain the role-requesting CA certificate
   (getUsernameIfKeymasterSigned, Model/AuthGate.v km_walk: [ch_role_ca]).  It never looks for the address
   delegation extension.  That an extension-carrying certificate is never taken for a plain keymaster
   certificate is therefore a guarantee of gate AND issuers together: it holds because every endpoint that
   puts the extension into a certificate signs it under the role CA, whatever the key it certifies and
   whatever signers the server has loaded.  This file models the issuers:

   * cmd/keymasterd/roleRequestingCert.go withParamsGenerateRoleRequestingCert (used by
     /v1/getRoleRequestingCert and /v1/refreshRoleRequestingCert): certgen.GenIPRestrictedX509Cert under
     state.selfRoleCaCertDer / state.Signer - [mint_role];
   * cmd/keymasterd/certgen.go getSignerX509CAForPublic (used by /certgen/ and the AWS role endpoint): always
     the primary signer and its CA certificate, certgen.GenUserX509Cert / the AWS template never carry the
     address delegation extension - [mint_user];
   * what crypto/x509 builds for such a leaf against the service port's client-CA pool of main()
     (state.caCertDer - the Ed25519 CA when an Ed25519 signer is configured, the main CA - plus the role CA):
     one chain [leaf, certificate of the issuing CA] - [verified_chains];
   * KeymasterPublicKeys holds the key of every local signer (signerPublicKeyToKeymasterKeys): the issuer key
     of each of the three CAs is trusted.

   [mint_role_by_key_type] is NOT the code of the tree: the issuer chosen by the type of the certified key the
   way the SSH path chooses its signer (Ed25519 keys under the Ed25519 CA).  Kept to show that the statement
   needs the issuer model: Props/C06.v c06_role_issuer_by_key_type_refuted. *)
From Coq Require Import ZArith List Bool String.
From KM Require Import Base.Bytes Model.Auth Model.AuthGate Model.Routes Model.GateObs.
From KM Require Model.IPExt.
Import ListNotations.
Open Scope N_scope.

(* the public key a certificate is asked for, as certgen.ValidatePublicKeyStrength sorts it: RSA of at least
   2048 bits with e >= 65537, ECDSA on a curve of at least 255 bits, Ed25519; everything else is refused *)
Inductive keytype := KRsa | KP256 | KP384 | KP521 | KEd25519 | KWeak.
Definition key_accepted (k : keytype) : bool := match k with KWeak => false | _ => true end.

Inductive issuer := IRoleCA | IMainCA | IEdCA.
Definition issuer_eqb (a b : issuer) : bool :=
  match a, b with IRoleCA, IRoleCA | IMainCA, IMainCA | IEdCA, IEdCA => true | _, _ => false end.

(* which CA signs, as a function of the certified key's type and of "an Ed25519 signer is loaded" *)
Definition issuer_choice := keytype -> bool -> issuer.
(* withParamsGenerateRoleRequestingCert: state.selfRoleCaCertDer, state.Signer *)
Definition mint_role : issuer_choice := fun _ _ => IRoleCA.
(* getSignerX509CAForPublic: "v0... always return the primary signer" *)
Definition mint_user : issuer_choice := fun _ _ => IMainCA.
(* NOT the code: the role certificate of an Ed25519 key under the Ed25519 CA when there is one *)
Definition mint_role_by_key_type : issuer_choice :=
  fun k has_ed => match k with KEd25519 => if has_ed then IEdCA else IRoleCA | _ => IRoleCA end.

(* the endpoints that hand out X.509 client certificates *)
Inductive endpoint := EGetRole | ERefreshRole | ECertgen | EAwsRole.

(* a certificate as far as the gate will look at it *)
Record minted := {
  m_issuer : issuer;
  m_ext : option (list IPExt.family);   (* the address delegation extension, if the issuer put one in *)
  m_cn : N; m_key : N; m_nb : Z }.

Definition issue_gen (role_choice : issuer_choice) (e : endpoint) (k : keytype) (has_ed : bool)
           (cn key : N) (nb : Z) (ext : list IPExt.family) : option minted :=
  if negb (key_accepted k) then None
  else Some match e with
            | EGetRole | ERefreshRole =>
                {| m_issuer := role_choice k has_ed; m_ext := Some ext; m_cn := cn; m_key := key; m_nb := nb |}
            | ECertgen | EAwsRole =>
                {| m_issuer := mint_user k has_ed; m_ext := None; m_cn := cn; m_key := key; m_nb := nb |}
            end.
(* the code of the current tree *)
Definition issue := issue_gen mint_role.

(* the client-CA pool of the service port: the Ed25519 CA is there iff an Ed25519 signer is loaded *)
Definition issuer_in_pool (has_ed : bool) (i : issuer) : bool := match i with IEdCA => has_ed | _ => true end.
Definition chain_of (i : issuer) : chain :=
  {| ch_len2 := true; ch_role_ca := issuer_eqb i IRoleCA; ch_key_trusted := true |}.
Definition verified_chains (has_ed : bool) (i : issuer) : list chain :=
  if issuer_in_pool has_ed i then [chain_of i] else [].

(* the circumstances of a presentation: the TCP peer and the environment bits of getUsernameIfIPRestricted *)
Record pres := {
  pr_peer : IPExt.peer; pr_ip_error : bool; pr_auto_error : bool; pr_automation : bool; pr_revoked : bool }.

(* the connection state of a request that presents [m] in a handshake with the service port *)
Definition present (has_ed : bool) (m : minted) (p : pres) : tlsx :=
  {| x_chains := verified_chains has_ed (m_issuer m); x_cn := m_cn m; x_key := m_key m; x_nb := m_nb m;
     x_ip_error := pr_ip_error p; x_ext := m_ext m; x_peer := pr_peer p;
     x_auto_error := pr_auto_error p; x_automation := pr_automation p; x_revoked := pr_revoked p |}.

(* the conclusion of c06_ip_extension_never_plain for a request whose only credential is the certificate, as a
   boolean on an OBSERVED admission level: exactly the IP-certificate level, and the peer inside a block the
   certificate carries (Proofs/AuthGateRole.v role_conclusion_iff) *)
Definition role_conclusion (c : tlsx) (l : N) : bool := (l =? bIPCert) && peer_insideb c.

(* ------------------------------------------------------------------------------------------
   Evaluation on observed cases (work/C06/CasesC06.v, written by harness/kmd/c06_role.go). *)

Definition keytype_of (n : N) : keytype :=
  if n =? 0 then KRsa else if n =? 1 then KP256 else if n =? 2 then KP384 else if n =? 3 then KP521
  else if n =? 4 then KEd25519 else KWeak.
Definition endpoint_of (n : N) : endpoint :=
  if n =? 0 then EGetRole else if n =? 1 then ERefreshRole else if n =? 2 then ECertgen else EAwsRole.
Definition issuer_code (i : issuer) : N := match i with IRoleCA => 0 | IMainCA => 1 | IEdCA => 2 end.
Definition chain_eqb (a b : chain) : bool :=
  Bool.eqb (ch_len2 a) (ch_len2 b) && Bool.eqb (ch_role_ca a) (ch_role_ca b) && Bool.eqb (ch_key_trusted a) (ch_key_trusted b).
Fixpoint chains_eqb (a b : list chain) : bool :=
  match a, b with
  | [], [] => true
  | x :: r, y :: s => chain_eqb x y && chains_eqb r s
  | _, _ => false
  end.
Definition och (len2 role trusted : bool) : chain := {| ch_len2 := len2; ch_role_ca := role; ch_key_trusted := trusted |}.
