(* C06 — the ISSUERS of X.509 client certificates, next to the gate that reads them.

   checkAuth tells an IP-restricted (role requesting) certificate from a plain keymaster user certificate
   by ONE thing only: is chain[1] of the verified chain the role-requesting CA certificate
   (getUsernameIfKeymasterSigned, Model/AuthGate.v km_walk: [ch_role_ca]).  It never looks for the address
   delegation extension.  That an extension-carrying certificate is never taken for a plain keymaster
   certificate is therefore a guarantee of gate AND issuers together: it holds because every endpoint that
   puts the extension into a certificate signs it under the role CA, whatever the key it certifies and
   whatever signers the server has loaded.  This file models the issuers:

   * cmd/keymasterd/roleRequestingCert.go withParamsGenerateRoleRequestingCert (used by
     /v1/getRoleRequestingCert and /v1/refreshRoleRequestingCert): certgen.GenIPRestrictedX509Cert under
     state.selfRoleCaCertDer / state.Signer - [mint_role];
   * cmd/keymasterd/certgen.go getSignerX509CAForPublic (used by /certgen/ and the AWS role endpoint): always
     the primary signer and its CA certificate, certgen.GenUserX509Cert / the AWS template never carry the
     address delegation extension - [mint_user];
   * what crypto/x509 builds for such a leaf against the service port's client-CA pool of main()
     (state.caCertDer - the Ed25519 CA when an Ed25519 signer is configured, the main CA - plus the role CA):
     one chain [leaf, certificate of the issuing CA] - [verified_chains];
   * KeymasterPublicKeys holds the key of every local signer (signerPublicKeyToKeymasterKeys): the issuer key
     of each of the three CAs is trusted.

   [mint_role_by_key_type] is NOT the code of the tree: the issuer chosen by the type of the certified key the
   way the SSH path chooses its signer (Ed25519 keys under the Ed25519 CA).  Kept to show that the statement
   needs the issuer model: Props/C06.v c06_role_issuer_by_key_type_refuted. *)
From Coq Require Import ZArith List Bool String.
From KM Require Import Base.Bytes Model.Auth Model.AuthGate Model.Routes Model.GateObs Model.RouteCases.
From KM Require Model.IPExt.
Import ListNotations.
Open Scope N_scope.

(* the public key a certificate is asked for, as certgen.ValidatePublicKeyStrength sorts it: RSA of at least
   2048 bits with e >= 65537, ECDSA on a curve of at least 255 bits, Ed25519; everything else is refused *)
Inductive keytype := KRsa | KP256 | KP384 | KP521 | KEd25519 | KWeak.
Definition key_accepted (k : keytype) : bool := match k with KWeak => false | _ => true end.

Inductive issuer := IRoleCA | IMainCA | IEdCA.
Definition issuer_eqb (a b : issuer) : bool :=
  match a, b with IRoleCA, IRoleCA | IMainCA, IMainCA | IEdCA, IEdCA => true | _, _ => false end.

(* which CA signs, as a function of the certified key's type and of "an Ed25519 signer is loaded" *)
Definition issuer_choice := keytype -> bool -> issuer.
(* withParamsGenerateRoleRequestingCert: state.selfRoleCaCertDer, state.Signer *)
Definition mint_role : issuer_choice := fun _ _ => IRoleCA.
(* getSignerX509CAForPublic: "v0... always return the primary signer" *)
Definition mint_user : issuer_choice := fun _ _ => IMainCA.
(* NOT the code: the role certificate of an Ed25519 key under the Ed25519 CA when there is one *)
Definition mint_role_by_key_type : issuer_choice :=
  fun k has_ed => match k with KEd25519 => if has_ed then IEdCA else IRoleCA | _ => IRoleCA end.

(* the endpoints that hand out X.509 client certificates *)
Inductive endpoint := EGetRole | ERefreshRole | ECertgen | EAwsRole.

(* a certificate as far as the gate will look at it *)
Record minted := {
  m_issuer : issuer;
  m_ext : option (list IPExt.family);   (* the address delegation extension, if the issuer put one in *)
  m_cn : N; m_key : N; m_nb : Z }.

Definition issue_gen (role_choice : issuer_choice) (e : endpoint) (k : keytype) (has_ed : bool)
           (cn key : N) (nb : Z) (ext : list IPExt.family) : option minted :=
  if negb (key_accepted k) then None
  else Some match e with
            | EGetRole | ERefreshRole =>
                {| m_issuer := role_choice k has_ed; m_ext := Some ext; m_cn := cn; m_key := key; m_nb := nb |}
            | ECertgen | EAwsRole =>
                {| m_issuer := mint_user k has_ed; m_ext := None; m_cn := cn; m_key := key; m_nb := nb |}
            end.
(* the code of the current tree *)
Definition issue := issue_gen mint_role.

(* the client-CA pool of the service port: the Ed25519 CA is there iff an Ed25519 signer is loaded *)
Definition issuer_in_pool (has_ed : bool) (i : issuer) : bool := match i with IEdCA => has_ed | _ => true end.
Definition chain_of (i : issuer) : chain :=
  {| ch_len2 := true; ch_role_ca := issuer_eqb i IRoleCA; ch_key_trusted := true |}.
Definition verified_chains (has_ed : bool) (i : issuer) : list chain :=
  if issuer_in_pool has_ed i then [chain_of i] else [].

(* the circumstances of a presentation: the TCP peer and the environment bits of getUsernameIfIPRestricted *)
Record pres := {
  pr_peer : IPExt.peer; pr_ip_error : bool; pr_auto_error : bool; pr_automation : bool; pr_revoked : bool }.

(* the connection state of a request that presents [m] in a handshake with the service port *)
Definition present (has_ed : bool) (m : minted) (p : pres) : tlsx :=
  {| x_chains := verified_chains has_ed (m_issuer m); x_cn := m_cn m; x_key := m_key m; x_nb := m_nb m;
     x_ip_error := pr_ip_error p; x_ext := m_ext m; x_peer := pr_peer p;
     x_auto_error := pr_auto_error p; x_automation := pr_automation p; x_revoked := pr_revoked p |}.

(* the conclusion of c06_ip_extension_never_plain for a request whose only credential is the certificate, as a
   boolean on an OBSERVED admission level: exactly the IP-certificate level, and the peer inside a block the
   certificate carries (Proofs/AuthGateRole.v role_conclusion_iff) *)
Definition role_conclusion (c : tlsx) (l : N) : bool := (l =? bIPCert) && peer_insideb c.

(* ------------------------------------------------------------------------------------------
   Evaluation on observed cases (work/C06/CasesC06.v, written by harness/kmd/c06_role.go). *)

Definition keytype_of (n : N) : keytype :=
  if n =? 0 then KRsa else if n =? 1 then KP256 else if n =? 2 then KP384 else if n =? 3 then KP521
  else if n =? 4 then KEd25519 else KWeak.
Definition endpoint_of (n : N) : endpoint :=
  if n =? 0 then EGetRole else if n =? 1 then ERefreshRole else if n =? 2 then ECertgen else EAwsRole.
Definition issuer_code (i : issuer) : N := match i with IRoleCA => 0 | IMainCA => 1 | IEdCA => 2 end.
Definition chain_eqb (a b : chain) : bool :=
  Bool.eqb (ch_len2 a) (ch_len2 b) && Bool.eqb (ch_role_ca a) (ch_role_ca b) && Bool.eqb (ch_key_trusted a) (ch_key_trusted b).
Fixpoint chains_eqb (a b : list chain) : bool :=
  match a, b with
  | [], [] => true
  | x :: r, y :: s => chain_eqb x y && chains_eqb r s
  | _, _ => false
  end.
Definition och (len2 role trusted : bool) : chain := {| ch_len2 := len2; ch_role_ca := role; ch_key_trusted := trusted |}.

(* one certificate asked from a real endpoint: what was asked and of which server, and what the harness FOUND
   OUT about the answer from the bytes (signature checked against each CA of the server, the extension looked
   up by OID, the chains crypto/x509 verified against the service port's pool classified with the gate's own
   three questions) *)
Record rcert := RCert {
  rc_ep : N; rc_kt : N; rc_ed : bool;
  rc_cn : N; rc_blocks : list IPExt.netblock; rc_automation : bool;
  rc_minted : bool;             (* 200 and a certificate in the body *)
  rc_issuer : N;                (* 0 role CA, 1 main CA, 2 Ed25519 CA, 3 none of them *)
  rc_has_ext : bool;
  rc_chains : list chain }.

Definition model_cert (choice : issuer_choice) (c : rcert) : option minted :=
  issue_gen choice (endpoint_of (rc_ep c)) (keytype_of (rc_kt c)) (rc_ed c) (rc_cn c) 9 0%Z (IPExt.ext_of (rc_blocks c)).

Definition rcert_bad (c : rcert) : bool :=
  match model_cert mint_role c with
  | None => rc_minted c
  | Some m => negb (rc_minted c && (issuer_code (m_issuer m) =? rc_issuer c) &&
                    Bool.eqb (match m_ext m with Some _ => true | None => false end) (rc_has_ext c) &&
                    chains_eqb (verified_chains (rc_ed c) (m_issuer m)) (rc_chains c))
  end.

(* the connection state of a presentation of certificate [c] from [peer]: chains from the MODEL's issuer *)
Definition rtls (c : rcert) (peer : IPExt.peer) : option tlsx :=
  match model_cert mint_role c with
  | None => None
  | Some m => Some (present (rc_ed c) m {| pr_peer := peer; pr_ip_error := false; pr_auto_error := false;
                                           pr_automation := rc_automation c; pr_revoked := false |})
  end.
(* the same from what was OBSERVED about the certificate (the property's predicate only reads extension and peer) *)
Definition otls (c : rcert) (peer : IPExt.peer) : tlsx :=
  {| x_chains := rc_chains c; x_cn := rc_cn c; x_key := 9; x_nb := 0%Z; x_ip_error := false;
     x_ext := if rc_has_ext c then Some (IPExt.ext_of (rc_blocks c)) else None; x_peer := peer;
     x_auto_error := false; x_automation := rc_automation c; x_revoked := false |}.
Definition rreq (t : option tlsx) (m : N) : reqx :=
  {| q_meth := meth_of m; q_origin := NoOrigin; q_tls := t; q_cred := no_cred |}.

Inductive rcase :=
| RMint (c : rcert)
  (* checkAuth(mask) on a request whose only credential is the certificate *)
| RGate (c : rcert) (peer : IPExt.peer) (mask meth adm user lvl code : N)
  (* the same through a route of the service mux: logged identity, effects *)
| RRoute (c : rcert) (peer : IPExt.peer) (key : string) (webui meth target user eff : N).

Definition role_bad (now : Z) (rc : rcase) : bool :=
  match rc with
  | RMint c => rcert_bad c
  | RGate c peer mask meth adm user lvl code =>
      match check_auth now true [] mask (rreq (rtls c peer) meth) with
      | Admit mu ml _ => negb ((adm =? 1) && (mu =? user) && (ml =? lvl))
      | Refuse mcode => negb ((adm =? 0) && (mcode =? code))
      end
  | RRoute c peer key webui meth target user eff =>
      match find_row key with
      | None => true
      | Some r =>
          let '(id, effs) := run (mkenv now webui [] target 0) (rreq (rtls c peer) meth) (rt_steps r) None in
          let mu := match id with Some (u', _) => u' | None => 0 end in
          negb ((if has_auth (rt_steps r) && negb (user =? 255) then mu =? user else true) &&
                (N.land eff (effs_code effs) =? eff))
      end
  end.

(* the property on the OBSERVATION: a certificate that was found to carry the address extension let its holder
   in at another level than the IP-certificate level or from a peer outside its blocks; through a route: an
   identity was logged / an effect seen from outside the blocks or on a route whose mask takes no IP certificates *)
Definition role_violating (now : Z) (rc : rcase) : bool :=
  role_bad now rc &&
  match rc with
  | RMint c => false
  | RGate c peer mask meth adm user lvl code =>
      rc_has_ext c && (adm =? 1) && negb (role_conclusion (otls c peer) lvl)
  | RRoute c peer key webui meth target user eff =>
      rc_has_ext c &&
      match find_row key with
      | Some r =>
          match rt_gate r with
          | GMask mk _ =>
              ((has_auth (rt_steps r) && negb (user =? 0) && negb (user =? 255)) || negb (eff =? 0)) &&
              negb (hasb (mask_val webui mk) bIPCert && peer_insideb (otls c peer))
          | _ => false
          end
      | None => negb (eff =? 0)
      end
  end.
