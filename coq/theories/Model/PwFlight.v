(* C07 — password logins that OVERLAP in time.

   cmd/keymasterd/app.go  loginHandler: reprocessUsername (lower-casing), then
                          checkUserPassword: passwordChecker.PasswordAuthenticate(username, password)
                          - one call per login, with the login's OWN password; while the backend takes
                          its time (an LDAPS handshake and bind, an exec, a bcrypt run) other logins - of
                          the same user with other passwords, of other users - arrive, are put to the
                          backend too, and are answered in any order.

   A history is an INTERLEAVING: a login arrives ([FStart]: the question (normalised name, password) is
   put to the backend), the backend answers the question of one of the logins in flight ([FAnswer]: by
   the table it holds at that moment; the login ends with that verdict), the backend's table is edited
   ([FSet] / [FDrop]).  The state keeps the logins in flight and everything the backend was asked. *)
From Coq Require Import List NArith Bool.
From KM Require Import Base.Bytes Model.PwCache Model.PwBackend.
Import ListNotations.
Open Scope N_scope.

Inductive fop :=
| FStart (id : N) (raw : bs) (pw : N)   (* login number id arrives: name as typed, password number *)
| FAnswer (id : N)                      (* the backend answers the question of login id *)
| FSet (u : bs) (pw : N)                (* the backend now holds pw for u *)
| FDrop (u : bs).                       (* the backend no longer knows u *)

Record flight := mkFl { fl_id : N; fl_user : bs; fl_pw : N }.

Record fstate := mkF { f_table : content;            (* what the backend holds *)
                       f_pending : list flight;      (* logins waiting for the backend's answer *)
                       f_asked : list (bs * N) }.    (* every (user, password) put to the backend so far *)

Definition finit (f : content) : fstate := mkF f [] [].

Fixpoint find_flight (id : N) (l : list flight) : option flight :=
  match l with
  | [] => None
  | x :: r => if fl_id x =? id then Some x else find_flight id r
  end.

Fixpoint drop_flight (id : N) (l : list flight) : list flight :=
  match l with
  | [] => []
  | x :: r => if fl_id x =? id then r else x :: drop_flight id r
  end.

(* what an op does to the backend's table: a function of the edits alone *)
Definition fedit (f : content) (o : fop) : content :=
  match o with
  | FSet u p => set_user u p f
  | FDrop u => remove_user u f
  | _ => f
  end.

Definition table_after (f : content) (ops : list fop) : content := fold_left fedit ops f.

(* the questions a history puts to the backend: one per login, the login's own (normalised name, password) *)
Definition question (o : fop) : list (bs * N) :=
  match o with FStart _ raw pw => [(normalise raw, pw)] | _ => [] end.
Definition questions (ops : list fop) : list (bs * N) := flat_map question ops.

(* the machine of the code; the output of a step: the logins that END at it, with their verdicts *)
Definition fstep (s : fstate) (o : fop) : fstate * list (N * bool) :=
  match o with
  | FStart id raw pw =>
      (mkF (f_table s) (f_pending s ++ [mkFl id (normalise raw) pw]) (f_asked s ++ [(normalise raw, pw)]), [])
  | FAnswer id =>
      match find_flight id (f_pending s) with
      | Some x => (mkF (f_table s) (drop_flight id (f_pending s)) (f_asked s),
                   [(id, file_accepts (f_table s) (fl_user x) (fl_pw x))])
      | None => (s, [])
      end
  | _ => (mkF (fedit (f_table s) o) (f_pending s) (f_asked s), [])
  end.

Definition frun (s : fstate) (ops : list fop) : fstate := fold_left (fun s o => fst (fstep s o)) ops s.

Fixpoint fouts (s : fstate) (ops : list fop) : list (N * bool) :=
  match ops with
  | [] => []
  | o :: r => let '(s1, x) := fstep s o in x ++ fouts s1 r
  end.

(* ------------------------------------------------------------------ NOT the code: a single flight keyed
   by the user name.  A login that arrives while a question about its user is waiting for the answer
   does not ask the backend; it waits for that answer and takes it.  Kept for the refutation
   [c07_single_flight_refuted]. *)
Record gstate := mkG { g_base : fstate; g_follow : list (N * N) }.   (* (follower, leader) *)

Definition ginit (f : content) : gstate := mkG (finit f) [].

Fixpoint leader_of (u : bs) (l : list flight) : option N :=
  match l with
  | [] => None
  | x :: r => if bs_eqb (fl_user x) u then Some (fl_id x) else leader_of u r
  end.

Definition gstep (s : gstate) (o : fop) : gstate * list (N * bool) :=
  match o with
  | FStart id raw pw =>
      match leader_of (normalise raw) (f_pending (g_base s)) with
      | Some l => (mkG (g_base s) (g_follow s ++ [(id, l)]), [])
      | None => (mkG (fst (fstep (g_base s) o)) (g_follow s), [])
      end
  | FAnswer id =>
      match fstep (g_base s) o with
      | (b, [(_, v)]) =>
          (mkG b (filter (fun fl => negb (snd fl =? id)) (g_follow s)),
           (id, v) :: map (fun fl => (fst fl, v)) (filter (fun fl => snd fl =? id) (g_follow s)))
      | (b, _) => (mkG b (g_follow s), [])
      end
  | _ => (mkG (fst (fstep (g_base s) o)) (g_follow s), [])
  end.

Fixpoint gouts (s : gstate) (ops : list fop) : list (N * bool) :=
  match ops with
  | [] => []
  | o :: r => let '(s1, x) := gstep s o in x ++ gouts s1 r
  end.

Definition grun (s : gstate) (ops : list fop) : gstate := fold_left (fun s o => fst (gstep s o)) ops s.

(* ------------------------------------------------------------------ case-file evaluation *)
(* the backend's table at the start, the interleaving as the harness drove it, what was observed: the verdict
   of every login (by number; accepted = status 200 AND the password-level cookie issued), the distinct
   (user, password) pairs the backend was asked with the number of times *)
Definition fcase := (content * list fop * list (N * bool) * list (bs * N * N))%type.

Fixpoint verdict_of (id : N) (l : list (N * bool)) : option bool :=
  match l with
  | [] => None
  | (i, v) :: r => if i =? id then Some v else verdict_of id r
  end.

Definition pair_eqb (a b : bs * N) : bool := bs_eqb (fst a) (fst b) && (snd a =? snd b).

Definition fcase_model (c : fcase) : list (N * bool) :=
  let '(f, ops, _, _) := c in fouts (finit f) ops.

(* every login the model ends is observed with the model's verdict and nothing else is observed; the backend
   was asked about the pairs of the logins and about nothing else (as sets) *)
Definition fcase_ok (c : fcase) : bool :=
  let '(f, ops, obs, asked) := c in
  let m := fouts (finit f) ops in
  let q := f_asked (frun (finit f) ops) in
  (length m =? length obs)%nat &&
  forallb (fun iv => obool_eqb (verdict_of (fst iv) obs) (Some (snd iv))) m &&
  forallb (fun p => existsb (fun a => pair_eqb (fst a) p) asked) q &&
  forallb (fun a => existsb (pair_eqb (fst a)) q) asked.

(* the property's predicate on the OBSERVATION: a login observed ACCEPTED ([dir = true]) although the
   backend's verdict on its own (user, password) at the moment of its answer is a refusal, or observed
   REFUSED ([dir = false]) although that verdict is an acceptance *)
Definition fcase_violates (dir : bool) (c : fcase) : bool :=
  let '(_, _, obs, _) := c in
  existsb (fun iv => Bool.eqb (snd iv) (negb dir) && obool_eqb (verdict_of (fst iv) obs) (Some dir)) (fcase_model c).

(* an accepted login whose pair was never put to the backend *)
Definition fcase_not_asked (c : fcase) : bool :=
  let '(f, ops, obs, asked) := c in
  existsb (fun o => match o with
                    | FStart id raw pw => obool_eqb (verdict_of id obs) (Some true) &&
                                          negb (existsb (fun a => pair_eqb (fst a) (normalise raw, pw)) asked)
                    | _ => false
                    end) ops.
