(* C12 (and the OpenID consumers of C04) — cmd/keymasterd/idp_oidc.go
     idpOpenIDCAuthorizationHandler   -> authorize
     idpOpenIDCValidCodeVerifier      -> pkce_ok
     idpOpenIDCTokenHandler           -> token_endpoint   (the checks in the code's order)
     idpOpenIDCUserinfoHandler        -> Tokens.c_userinfo
     idpOpenIDCJWKSHandler            -> jwks_of          (one JWK per loaded public key)
     idpOpenIDCDiscoveryHandler       -> advertised_algs  (id_token_signing_alg_values_supported)
   cmd/keymasterd/config.go  loadSignersFromPemData, signerPublicKeyToKeymasterKeys -> load, server_of
   cmd/keymasterd/jwt.go     publicToPreferedJoseSigAlgo -> alg_of
   cmd/keymasterd/2fa_totp.go encryptWithPublicKeys / decryptWithPublicKeys -> can_seal / can_open
   and the whole token life cycle as a history of operations against a server that keeps no
   token state (every artefact is a self-contained signed token): exec / valid.
   External facts carried in the requests: whom checkAuth authenticated (C01/C06), whether the
   redirect URI passed CanRedirectToURL (C13), whether the requested audience was allowed,
   BASE64URL(SHA256(verifier)) (crypto/sha256), credentials after url.QueryUnescape. *)
From Coq Require Import String ZArith NArith List Bool.
From KM Require Import Base.Bytes Model.Tokens.
Import ListNotations.
Open Scope Z_scope.

(* OpenIDConnectClientConfig: client_id, client_secret, allow_client_chose_audiences (may this client
   name, in the authorization request's "audience" parameter, an extra audience for the ACCESS token) *)
(* cl_other: EVERY other scalar option of the client's configuration entry (the bool and string fields
   of OpenIDConnectClientConfig besides the three above, as (field name, value) pairs - the harness finds
   them by reflection over the struct of the current tree).  Nothing below reads it: who is the client and
   how it proves that is decided by cl_id and cl_secret alone, for every value of every other option
   (Props/C12.v c12_release_ignores_options, c12_secret_client_needs_secret). *)
Record client := { cl_id : bs; cl_secret : bs; cl_allow_aud : bool; cl_other : list (bs * bs) }.

Definition with_other (c : client) (o : list (bs * bs)) : client :=
  {| cl_id := cl_id c; cl_secret := cl_secret c; cl_allow_aud := cl_allow_aud c; cl_other := o |}.

Record idp := { srv : server; clients : list client }.

(* the same daemon with the other options of every client replaced (f: client -> its new options) *)
Definition reopt (f : client -> list (bs * bs)) (i : idp) : idp :=
  {| srv := srv i; clients := map (fun c => with_other c (f c)) (clients i) |}.

(* idpOpenIDCGetClientConfig: first match *)
Fixpoint find_client (id : bs) (l : list client) : option client :=
  match l with
  | [] => None
  | c :: r => if bs_eqb (cl_id c) id then Some c else find_client id r
  end.

(* ---------------------------------------------------------------- signers, KeymasterPublicKeys, JWKS *)

(* the key types the daemon can be configured with: its signer (ssh_ca_filename: RSA of any size
   or ECDSA), the optional Ed25519 SSH CA next to it, and the public keys of sibling instances
   (keymaster_public_keys_filename, anything ssh.ParseAuthorizedKey yields; KOther = a type
   publicToPreferedJoseSigAlgo has no algorithm for) *)
Inductive keytype := KRsa | KP256 | KP384 | KP521 | KEd25519 | KOther.

(* algorithm codes as harness/kmd/tokens.go tokAlgCodes writes them *)
Definition a_RS256 : N := 1.
Definition a_ES256 : N := 2.
Definition a_ES384 : N := 3.
Definition a_ES512 : N := 4.
Definition a_EdDSA : N := 5.
Definition a_invalid : N := 99.

(* jwt.go publicToPreferedJoseSigAlgo *)
Definition alg_of (t : keytype) : N :=
  match t with
  | KRsa => a_RS256 | KP256 => a_ES256 | KP384 => a_ES384 | KP521 => a_ES512 | KEd25519 => a_EdDSA
  | KOther => a_invalid
  end.

Definition keytype_eqb (x y : keytype) : bool :=
  match x, y with
  | KRsa, KRsa | KP256, KP256 | KP384, KP384 | KP521, KP521 | KEd25519, KEd25519 | KOther, KOther => true
  | _, _ => false
  end.

(* a public key: pk_id stands for its SSH fingerprint (getKeyFingerprint), which is also its kid *)
Record pubkey := { pk_id : N; pk_type : keytype }.

Definition pubkey_eqb (x y : pubkey) : bool := (pk_id x =? pk_id y)%N && keytype_eqb (pk_type x) (pk_type y).

Record keyconf := {
  kc_file : list pubkey;        (* keymaster_public_keys_filename, in file order *)
  kc_ed : option pubkey;        (* ed25519_ca_keyfilename *)
  kc_signer : pubkey }.         (* ssh_ca_filename *)

(* config.go loadSignersFromPemData: the type switches on the two private keys *)
Definition signer_type_ok (t : keytype) : bool :=
  match t with KRsa | KP256 | KP384 | KP521 => true | _ => false end.
Definition ed_type_ok (t : keytype) : bool := match t with KEd25519 => true | _ => false end.

(* config.go signerPublicKeyToKeymasterKeys: append unless a key with that fingerprint is there *)
Definition add_key (keys : list pubkey) (k : pubkey) : list pubkey :=
  if existsb (pubkey_eqb k) keys then keys else keys ++ [k].

(* KeymasterPublicKeys after start-up: the file, then the Ed25519 CA, then the signer.
   None: the daemon refuses to start with these key files (a signer that is neither RSA nor ECDSA,
   an Ed25519 file holding another key) or - KOther as signer: an ECDSA key on a curve without SSH /
   JOSE support, e.g. P-224 - starts but can sign nothing, not even a session cookie
   (publicToPreferedJoseSigAlgo: "invalid pub key"), so no request reaches the code below. *)
Definition load (kc : keyconf) : option (list pubkey) :=
  if negb (signer_type_ok (pk_type (kc_signer kc))) then None
  else match kc_ed kc with
  | Some e => if ed_type_ok (pk_type e) then Some (add_key (add_key (kc_file kc) e) (kc_signer kc)) else None
  | None => Some (add_key (kc_file kc) (kc_signer kc))
  end.

(* the server record of Model/Tokens.v for a loaded key list *)
Definition server_of (issuer userinfo : bs) (keys : list pubkey) (signer : pubkey) : server :=
  {| s_issuer := issuer; s_keys := map (fun k => (pk_id k, alg_of (pk_type k))) keys;
     s_signer := pk_id signer; s_signer_alg := alg_of (pk_type signer); s_userinfo := userinfo |}.

(* idpOpenIDCJWKSHandler: one JWK per entry of KeymasterPublicKeys, kid = fingerprint; no key is
   left out, whatever its type *)
Definition jwks_of (keys : list pubkey) : list (N * keytype) := map (fun k => (pk_id k, pk_type k)) keys.

(* what a relying party does with an ID token: select the published key(s) by kid, the key's
   type must be the one the header algorithm belongs to, the signature must be intact *)
Definition under_jwks (set : list (N * keytype)) (t : token) : bool :=
  negb (t_tampered t) && existsb (fun e => (fst e =? t_signer t)%N && (alg_of (snd e) =? t_alg t)%N) set.

(* idpOpenIDCDiscoveryHandler: id_token_signing_alg_values_supported (a constant of the code) *)
Definition advertised_algs : list N := [a_RS256; a_ES256; a_ES384].
Definition advertised (a : N) : bool := existsb (N.eqb a) advertised_algs.

(* NOT the code: a JWKS handler that publishes only keys of advertised algorithms (refuted in
   Props/C12.v: a P-521 signer drops out and its ID tokens verify nowhere) *)
Definition jwks_filtered (keys : list pubkey) : list (N * keytype) :=
  filter (fun e => advertised (alg_of (snd e))) (jwks_of keys).

(* 2fa_totp.go encryptWithPublicKeys: the PKCE box key is wrapped (RSA-OAEP) for every RSA key of
   KeymasterPublicKeys, "cannot encrypt with any key" when there is none; decryptWithPublicKeys
   unwraps with state.Signer only if that is an RSA key.  RSA keys are exactly those whose
   preferred algorithm is RS256. *)
Definition can_seal (st : server) : bool := existsb (fun e => (snd e =? a_RS256)%N) (s_keys st).
Definition can_open (st : server) : bool :=
  (s_signer_alg st =? a_RS256)%N &&
  existsb (fun e => (fst e =? s_signer st)%N && (snd e =? a_RS256)%N) (s_keys st).

(* ---------------------------------------------------------------- authorization step *)

Record areq := {
  ar_method_ok : bool;       (* GET or POST *)
  ar_response_type : bs;
  ar_client : bs;
  ar_scope : bs;
  ar_scope_openid : bool;    (* "openid" is one of the space-separated scope words *)
  ar_redirect : bs;
  ar_redirect_ok : bool;     (* CanRedirectToURL (C13) *)
  ar_challenge : bs;
  ar_method : bs;
  ar_audience : bs;          (* r.Form.Get("audience"): the FIRST value sent, [] when absent *)
  ar_audience_ok : bool;     (* CorsOriginAllowed(audience): an https URL whose host is under one of the
                                client's allowed_redirect_domains (C13); RequestedAudienceIsAllowed is
                                the client's own flag cl_allow_aud *)
  ar_nonce : bs;
  ar_jti : bs }.             (* genRandomString() *)

Definition m_S256 : bs := b "S256".
Definition m_plain : bs := b "plain".
Definition rt_code : bs := b "code".
Definition gt_authcode : bs := b "authorization_code".

Definition nonempty (s : bs) : bool := match s with [] => false | _ => true end.

(* [user] is whom checkAuth authenticated.  None = 4xx, nothing is minted. *)
Definition authorize (i : idp) (now : Z) (user : bs) (r : areq) : option token :=
  if negb (ar_method_ok r) then None
  else if negb (bs_eqb (ar_response_type r) rt_code) then None
  else if negb (nonempty (ar_client r)) then None
  else if negb (ar_scope_openid r) then None
  else match find_client (ar_client r) (clients i) with
  | None => None
  | Some c =>
    if negb (ar_redirect_ok r) then None
    else if nonempty (ar_challenge r) && nonempty (ar_method r) && negb (bs_eqb (ar_method r) m_S256) then None
    else if nonempty (ar_challenge r) && negb (can_seal (srv i)) then None      (* 500: no RSA key to wrap for *)
    else if nonempty (ar_audience r) && negb (cl_allow_aud c && ar_audience_ok r) then None
    else if (Z.of_nat (length (ar_nonce r)) <? 6) && nonempty (ar_nonce r) then None
    else Some (p_code (srv i) now (ar_client r) user (ar_scope r) (ar_redirect r) (ar_nonce r) (ar_jti r)
                      (ar_challenge r) (ar_method r)
                      (if nonempty (ar_audience r) then [ar_audience r] else []))
  end.

(* the same authorization request with another audience parameter (and the verdict on it) *)
Definition with_audience (r : areq) (aud : bs) (ok : bool) : areq :=
  {| ar_method_ok := ar_method_ok r; ar_response_type := ar_response_type r; ar_client := ar_client r;
     ar_scope := ar_scope r; ar_scope_openid := ar_scope_openid r; ar_redirect := ar_redirect r;
     ar_redirect_ok := ar_redirect_ok r; ar_challenge := ar_challenge r; ar_method := ar_method r;
     ar_audience := aud; ar_audience_ok := ok; ar_nonce := ar_nonce r; ar_jti := ar_jti r |}.

(* ---------------------------------------------------------------- token endpoint *)

(* how the request reached the daemon - both chosen by the caller: the Host header (r.Host, [] when
   empty) and the TLS handshake's server name (None: r.TLS = nil; Some n: r.TLS.ServerName = n, [] when the
   caller sent no SNI).  Go's TLS server completes the handshake with its default certificate for any
   name.  Nothing below reads it: the issuer written into tokens, expected by userinfo and published by
   the discovery document is s_issuer of the CONFIGURATION (Props/C12.v c12_issuer_ignores_request). *)
Record conn := { cn_host : bs; cn_sni : option bs }.
Definition conn_none : conn := {| cn_host := []; cn_sni := None |}.

Record treq := {
  tr_conn : conn;
  tr_post : bool;
  tr_grant : bs;
  tr_redirect : bs;              (* r.Form.Get("redirect_uri"): the FIRST value sent, [] when absent *)
  tr_code : token;
  tr_verifier : bs;
  tr_vhash : bs;                 (* BASE64URL(SHA256(tr_verifier)) *)
  tr_basic : option (bs * bs);   (* Authorization: Basic, after url.QueryUnescape *)
  tr_form_client : bs;
  tr_form_secret : bs }.

(* idpOpenIDCValidCodeVerifier: unwrap the box key (RSA signer only), open the sealed box with the
   code's jti, then RFC 7636 4.6 *)
Definition pkce_ok (st : server) (k : codejwt) (verifier vhash : bs) : bool :=
  match c_sealed k with
  | None => false
  | Some (n, chal, meth) =>
      if negb (can_open st) then false
      else if negb (bs_eqb n (c_jti k)) then false
      else if bs_eqb meth [] || bs_eqb meth m_plain then bs_eqb verifier chal
      else if bs_eqb meth m_S256 then bs_eqb vhash chal
      else false
  end.

Inductive tresult := Release (idt act : token) | Refuse (status : Z).

(* who the caller claims to be, and the secret it shows: Some (client id, secret) or the status *)
Definition caller (r : treq) : (bs * bs) + Z :=
  match tr_basic r with
  | Some (id, pw) => inl (id, pw)
  | None =>
      if negb (nonempty (tr_form_secret r)) && negb (nonempty (tr_verifier r)) then inr 401
      else if negb (nonempty (tr_form_client r)) then inr 401
      else inl (tr_form_client r, tr_form_secret r)
  end.

(* [lax] = false is the code.  [lax] = true is NOT the code: the "redirect_uri is optional for
   PKCE requests" reading of OAuth 2.1 (refuted in Props/C12.v). *)
Definition token_endpoint_gen (lax : bool) (i : idp) (now : Z) (r : treq) : tresult :=
  if negb (tr_post r) then Refuse 400
  else if negb (bs_eqb (tr_grant r) gt_authcode) then Refuse 400
  else if negb (nonempty (tr_redirect r)) && negb (lax && nonempty (tr_verifier r)) then Refuse 400
  else if negb (verify (srv i) (tr_code r)) then Refuse 400
  else match dec_code (t_claims (tr_code r)) with
  | None => Refuse 400
  | Some k =>
    match caller r with
    | inr s => Refuse s
    | inl (id, pass) =>
      match find_client id (clients i) with
      | None => Refuse 400
      | Some c =>
        if nonempty (tr_verifier r) && nonempty (cl_secret c) then Refuse 401   (* PKCE only for secret-less clients *)
        else
          let valid := nonempty (tr_verifier r) && pkce_ok (srv i) k (tr_verifier r) (tr_vhash r) in
          let valid := if negb valid && nonempty pass then bs_eqb pass (cl_secret c) else valid in
          if negb valid then Refuse 401
          else if negb (bs_eqb id (c_sub k)) then Refuse 401
          else if c_exp k <? unix now then Refuse 401
          else if negb (lax && negb (nonempty (tr_redirect r))) && negb (bs_eqb (c_redirect k) (tr_redirect r)) then Refuse 401
          else if negb (bs_eqb (c_type k) k_code) then Refuse 401
          else Release (p_id (srv i) now id k) (p_access (srv i) now k)
      end
    end
  end.

Definition token_endpoint : idp -> Z -> treq -> tresult := token_endpoint_gen false.

(* NOT the code: an ID token whose audience list also takes the code's access_audience, i.e. the
   audience the client chose for the ACCESS token (refuted in Props/C12.v: the ID token then names a
   second party next to the client) *)
Definition p_id_widened (st : server) (now : Z) (client : bs) (k : codejwt) : token :=
  sign st (enc_id {| i_iss := s_issuer st; i_sub := c_username k; i_aud := client :: c_access_aud k;
                     i_exp := c_auth_exp k; i_iat := unix now; i_nonce := c_nonce k |}).

(* ---------------------------------------------------------------- histories *)

Inductive op :=
| OLogin (now : Z) (user : bs) (level : Z)                 (* any path ending in setNewAuthCookie *)
| OCliToken (now : Z) (user : bs) (life : Z)               (* ShowAuthTokenHandler *)
| OUpsert (now : Z) (user : bs) (dtype : Z) (data : bs) (exp : Z)
| OAuthorize (now : Z) (user : bs) (r : areq)              (* user = whom checkAuth authenticated *)
| OToken (now : Z) (r : treq)
| OUserinfo (now : Z) (t : token)
| OSession (now : Z) (required : Z) (t : token)
| OUpdate (now : Z) (newlevel : Z) (t : token)
| OCliVerify (now : Z) (t : token)
| OCliSend (now : Z) (cli_level : Z) (session_user : bs) (t : token)
| OGetSigned (now : Z) (p : rpath) (user : bs) (prim cache : option row).
  (* GetSigned(user, type) with the rows the two stores hold in that slot; p = which arm of the
     select answered *)

(* what the server answers: accepted?, the signed artefacts in the response, whom it names *)
Record out := { o_ok : bool; o_emitted : list token; o_user : option bs }.

Definition refused : out := {| o_ok := false; o_emitted := []; o_user := None |}.

Definition exec (i : idp) (o : op) : out :=
  match o with
  | OLogin now u l => {| o_ok := true; o_emitted := [p_session (srv i) now u l auth_life]; o_user := Some u |}
  | OCliToken now u life => {| o_ok := true; o_emitted := [p_cli (srv i) now u life]; o_user := Some u |}
  | OUpsert now u dt d e => {| o_ok := true; o_emitted := [p_storage (srv i) now u dt d e]; o_user := Some u |}
  | OAuthorize now u r =>
      match authorize i now u r with
      | Some t => {| o_ok := true; o_emitted := [t]; o_user := Some u |}
      | None => refused
      end
  | OToken now r =>
      match token_endpoint i now r with
      | Release idt act => {| o_ok := true; o_emitted := [idt; act]; o_user := None |}
      | Refuse _ => refused
      end
  | OUserinfo now t =>
      match c_userinfo (srv i) now t with
      | Some u => {| o_ok := true; o_emitted := []; o_user := Some u |}
      | None => refused
      end
  | OSession now req t =>
      match c_session (srv i) now req t with
      | Some a => {| o_ok := true; o_emitted := []; o_user := Some (ai_user a) |}
      | None => refused
      end
  | OUpdate now l t =>
      match c_update (srv i) now l t with
      | Some t' => {| o_ok := true; o_emitted := [t']; o_user := None |}
      | None => refused
      end
  | OCliVerify now t => if c_cli_verify (srv i) now t then {| o_ok := true; o_emitted := []; o_user := None |} else refused
  | OCliSend now l u t =>
      match c_cli_send (srv i) now l u t with
      | Some t' => {| o_ok := true; o_emitted := [t']; o_user := Some u |}
      | None => refused
      end
  | OGetSigned now p u prim cache =>
      match get_signed_via p (srv i) now u prim cache with
      | Some _ => {| o_ok := true; o_emitted := []; o_user := Some u |}
      | None => refused
      end
  end.

(* the signed artefact an operation presents *)
Definition presented (o : op) : list token :=
  match o with
  | OToken _ r => [tr_code r]
  | OUserinfo _ t | OSession _ _ t | OUpdate _ _ t | OCliVerify _ t | OCliSend _ _ _ t => [t]
  | OGetSigned _ p _ prim cache => match answering_row p prim cache with Some r => [r_jws r] | None => [] end
  | _ => []
  end.

(* Symbolic unforgeability: in a history, a presented token that verifies under the server's
   keys is one the server emitted earlier.  (Everything else about the requests is free.) *)
Fixpoint valid (i : idp) (past : list token) (ops : list op) : Prop :=
  match ops with
  | [] => True
  | o :: rest =>
      (forall t, In t (presented o) -> verify (srv i) t = true -> In t past) /\
      valid i (past ++ o_emitted (exec i o)) rest
  end.

(* ---------------------------------------------------------------- producers x consumers (C04) *)

Inductive kind := KSession | KCli | KStorage | KCode | KAccess | KId.

(* every artefact the server can emit, with ALL its parameters free (user names, nonces, scopes,
   redirect URIs, data strings, levels, lifetimes: whatever a requester can influence, and more) *)
Inductive artefact :=
| ASession (user : bs) (level dur : Z)
| ACli (user : bs) (life : Z)
| AStorage (user : bs) (dtype : Z) (data : bs) (exp : Z)
| ACode (client user scope redirect nonce jti chal meth : bs) (access_aud : list bs)
| AAccess (k : codejwt)
| AId (client : bs) (k : codejwt).

Definition kind_of (a : artefact) : kind :=
  match a with
  | ASession _ _ _ => KSession | ACli _ _ => KCli | AStorage _ _ _ _ => KStorage
  | ACode _ _ _ _ _ _ _ _ _ => KCode | AAccess _ => KAccess | AId _ _ => KId
  end.

Definition emit (st : server) (now : Z) (a : artefact) : token :=
  match a with
  | ASession u l d => p_session st now u l d
  | ACli u life => p_cli st now u life
  | AStorage u dt d e => p_storage st now u dt d e
  | ACode cl u sc red n j ch m aa => p_code st now cl u sc red n j ch m aa
  | AAccess k => p_access st now k
  | AId cl k => p_id st now cl k
  end.

(* every place where keymasterd honours a signed artefact *)
Inductive consumer :=
| CSession (required : Z)                       (* checkAuth, cookie branch *)
| CUpdate (newlevel : Z)                        (* updateAuthJWTWithNewAuthLevel *)
| CCliVerify                                    (* VerifyAuthTokenHandler *)
| CCliSend (cli_level : Z) (session_user : bs)  (* SendAuthDocumentHandler *)
| CStorage (p : rpath) (user : bs) (col_exp : Z) (other : option row)
    (* GetSigned answered through arm p: the token sits, with expiration column col_exp, in the
       slot of the store that answers; the other store holds [other] *)
| CToken (r : treq)                             (* token endpoint; the code of [r] is replaced *)
| CUserinfo.

Definition consumes (c : consumer) : kind :=
  match c with
  | CSession _ | CUpdate _ => KSession
  | CCliVerify | CCliSend _ _ => KCli
  | CStorage _ _ _ _ => KStorage
  | CToken _ => KCode
  | CUserinfo => KAccess
  end.

Definition with_code (r : treq) (t : token) : treq :=
  {| tr_conn := tr_conn r; tr_post := tr_post r; tr_grant := tr_grant r; tr_redirect := tr_redirect r; tr_code := t;
     tr_verifier := tr_verifier r; tr_vhash := tr_vhash r; tr_basic := tr_basic r;
     tr_form_client := tr_form_client r; tr_form_secret := tr_form_secret r |}.

Definition op_of (now : Z) (c : consumer) (t : token) : op :=
  match c with
  | CSession req => OSession now req t
  | CUpdate l => OUpdate now l t
  | CCliVerify => OCliVerify now t
  | CCliSend l u => OCliSend now l u t
  | CStorage p u col other =>
      let r := Some {| r_col_exp := col; r_jws := t |} in
      match p with
      | PPrimary => OGetSigned now p u r other
      | PCache => OGetSigned now p u other r
      end
  | CToken r => OToken now (with_code r t)
  | CUserinfo => OUserinfo now t
  end.

Definition accepts (i : idp) (now : Z) (c : consumer) (t : token) : bool := o_ok (exec i (op_of now c t)).

(* ---------------------------------------------------------------- the two identity channels of a token request *)

(* A token request can name a client twice: in the Authorization: Basic header ([tr_basic], id and
   secret) and in the body ([tr_form_client] / [tr_form_secret]); the two may name different
   registered clients.  idpOpenIDCTokenHandler takes BOTH the identity and the secret from the header
   whenever r.BasicAuth() finds one, and from the body only otherwise ([caller]); whatever the other
   channel says is not looked at.  A request therefore authenticates as at most ONE client, and that
   client is the one the code's subject is compared with and the ID token's audience is set to. *)
Definition authenticated_client (r : treq) : option bs :=
  match caller r with inl (id, _) => Some id | inr _ => None end.

(* the same request with other body credentials / another header *)
Definition with_form (r : treq) (fc fs : bs) : treq :=
  {| tr_conn := tr_conn r; tr_post := tr_post r; tr_grant := tr_grant r; tr_redirect := tr_redirect r; tr_code := tr_code r;
     tr_verifier := tr_verifier r; tr_vhash := tr_vhash r; tr_basic := tr_basic r;
     tr_form_client := fc; tr_form_secret := fs |}.
Definition with_basic (r : treq) (h : option (bs * bs)) : treq :=
  {| tr_conn := tr_conn r; tr_post := tr_post r; tr_grant := tr_grant r; tr_redirect := tr_redirect r; tr_code := tr_code r;
     tr_verifier := tr_verifier r; tr_vhash := tr_vhash r; tr_basic := h;
     tr_form_client := tr_form_client r; tr_form_secret := tr_form_secret r |}.

Definition with_conn (r : treq) (cn : conn) : treq :=
  {| tr_conn := cn; tr_post := tr_post r; tr_grant := tr_grant r; tr_redirect := tr_redirect r; tr_code := tr_code r;
     tr_verifier := tr_verifier r; tr_vhash := tr_vhash r; tr_basic := tr_basic r;
     tr_form_client := tr_form_client r; tr_form_secret := tr_form_secret r |}.

Definition ch_is_release (r : tresult) : bool := match r with Release _ _ => true | Refuse _ => false end.

(* NOT the code: a variant of the handler in which the "code was issued to this client" test looks
   at the body's client_id when there is one, while the client is still authenticated from the
   header.  Kept only for c04_body_subject_reading_refuted. *)
Definition token_endpoint_body_subject (i : idp) (now : Z) (r : treq) : tresult :=
  if negb (tr_post r) then Refuse 400
  else if negb (bs_eqb (tr_grant r) gt_authcode) then Refuse 400
  else if negb (nonempty (tr_redirect r)) then Refuse 400
  else if negb (verify (srv i) (tr_code r)) then Refuse 400
  else match dec_code (t_claims (tr_code r)) with
  | None => Refuse 400
  | Some k =>
    match caller r with
    | inr s => Refuse s
    | inl (id, pass) =>
      match find_client id (clients i) with
      | None => Refuse 400
      | Some c =>
        if nonempty (tr_verifier r) && nonempty (cl_secret c) then Refuse 401
        else
          let valid := nonempty (tr_verifier r) && pkce_ok (srv i) k (tr_verifier r) (tr_vhash r) in
          let valid := if negb valid && nonempty pass then bs_eqb pass (cl_secret c) else valid in
          if negb valid then Refuse 401
          else if negb (bs_eqb (if nonempty (tr_form_client r) then tr_form_client r else id) (c_sub k)) then Refuse 401
          else if c_exp k <? unix now then Refuse 401
          else if negb (bs_eqb (c_redirect k) (tr_redirect r)) then Refuse 401
          else if negb (bs_eqb (c_type k) k_code) then Refuse 401
          else Release (p_id (srv i) now id k) (p_access (srv i) now k)
      end
    end
  end.

(* ---------------------------------------------------------------- the request's Host / SNI at the other endpoints *)

(* idpOpenIDCUserinfoHandler reached over connection [cn]: the issuer and the userinfo URL the token is
   checked against are those of the configuration *)
Definition userinfo_endpoint (i : idp) (now : Z) (cn : conn) (t : token) : option bs := c_userinfo (srv i) now t.

(* idpOpenIDCDiscoveryHandler reached over connection [cn]: (issuer, userinfo_endpoint) of the document *)
Definition discovery (i : idp) (cn : conn) : bs * bs := (s_issuer (srv i), s_userinfo (srv i)).

(* NOT the code: an issuer that follows the name the caller used when Host and SNI agree on a name other
   than the configured one (refuted in Props/C12.v: the caller then chooses the ID token's iss) *)
Definition issuer_for (st : server) (own_name : bs) (cn : conn) : bs :=
  match cn_sni cn with
  | Some n => if nonempty n && nonempty (cn_host cn) && bs_eqb (cn_host cn) n && negb (bs_eqb n own_name)
              then b "https://" ++ cn_host cn else s_issuer st
  | None => s_issuer st
  end.

(* NOT the code: a client option (any member of cl_other, here: any at all) that lets a client WITH a
   secret use PKCE, the rest of the handler unchanged - the verifier then authenticates such a client on
   its own (refuted in Props/C12.v) *)
Definition token_endpoint_pkce_option (i : idp) (now : Z) (r : treq) : tresult :=
  if negb (tr_post r) then Refuse 400
  else if negb (bs_eqb (tr_grant r) gt_authcode) then Refuse 400
  else if negb (nonempty (tr_redirect r)) then Refuse 400
  else if negb (verify (srv i) (tr_code r)) then Refuse 400
  else match dec_code (t_claims (tr_code r)) with
  | None => Refuse 400
  | Some k =>
    match caller r with
    | inr s => Refuse s
    | inl (id, pass) =>
      match find_client id (clients i) with
      | None => Refuse 400
      | Some c =>
        if nonempty (tr_verifier r) && nonempty (cl_secret c) && negb (match cl_other c with [] => false | _ => true end) then Refuse 401
        else
          let valid := nonempty (tr_verifier r) && pkce_ok (srv i) k (tr_verifier r) (tr_vhash r) in
          let valid := if negb valid && nonempty pass then bs_eqb pass (cl_secret c) else valid in
          if negb valid then Refuse 401
          else if negb (bs_eqb id (c_sub k)) then Refuse 401
          else if c_exp k <? unix now then Refuse 401
          else if negb (bs_eqb (c_redirect k) (tr_redirect r)) then Refuse 401
          else if negb (bs_eqb (c_type k) k_code) then Refuse 401
          else Release (p_id (srv i) now id k) (p_access (srv i) now k)
      end
    end
  end.
