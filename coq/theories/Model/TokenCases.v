(* Comparison helpers for the C04 / C12 correspondence case files (evaluated by vm_compute on the
   observations the Go harness made on the real code).  Claims are compared up to claims holding
   the Go zero value (omitempty) and up to the clock-dependent claims named per consumer. *)
From Coq Require Import String ZArith NArith List Bool.
From KM Require Import Base.Bytes Base.Cases Model.Tokens Model.OIDC.
Import ListNotations.
Open Scope Z_scope.

Fixpoint list_bs_eqb (a c : list bs) : bool :=
  match a, c with
  | [], [] => true
  | x :: a', y :: c' => bs_eqb x y && list_bs_eqb a' c'
  | _, _ => false
  end.

Definition jval_eqb (x y : jval) : bool :=
  match x, y with
  | VStr a, VStr c => bs_eqb a c
  | VInt a, VInt c => a =? c
  | VList a, VList c => list_bs_eqb a c
  | VSealed n1 c1 m1, VSealed n2 c2 m2 => bs_eqb n1 n2 && bs_eqb c1 c2 && bs_eqb m1 m2
  | VSealed _ _ _, VStr _ | VStr _, VSealed _ _ _ => true   (* opaque ciphertext on one side *)
  | _, _ => false
  end.

Definition nonzero (v : jval) : bool :=
  match v with VStr [] => false | VInt 0 => false | VList [] => false | _ => true end.

Definition canon (dropped : list string) (c : claimset) : claimset :=
  filter (fun kv => nonzero (snd kv) && negb (existsb (String.eqb (fst kv)) dropped)) c.

Definition claims_sub (a c : claimset) : bool :=
  forallb (fun kv => match lookup (fst kv) c with Some v => jval_eqb v (snd kv) | None => false end) a.

Definition claims_eqb (dropped : list string) (a c : claimset) : bool :=
  let a' := canon dropped a in let c' := canon dropped c in
  Nat.eqb (length a') (length c') && claims_sub a' c' && claims_sub c' a'.

Fixpoint all2 {A B} (f : A -> B -> bool) (l : list A) (m : list B) : bool :=
  match l, m with
  | [], [] => true
  | x :: l', y :: m' => f x y && all2 f l' m'
  | _, _ => false
  end.

(* claims of a re-issued artefact that depend on the clock reading inside the handler *)
Definition clock_claims (c : consumer) : list string :=
  match c with
  | CCliSend _ _ => ["iat"; "nbf"; "exp"]
  | CToken _ => ["iat"]
  | _ => []
  end%string.

(* one observation: accepted?, whom the answer named (when the harness can see it), claims of the
   signed artefacts in the response *)
Definition out_matches (c : consumer) (o : out) (ok : bool) (user : option bs) (emitted : list claimset) : bool :=
  Bool.eqb (o_ok o) ok &&
  match user, o_user o with
  | Some u, Some u' => bs_eqb u u'
  | Some _, None => false
  | None, _ => true
  end &&
  all2 (fun t cl => claims_eqb (clock_claims c) (t_claims t) cl) (o_emitted o) emitted.

(* the observation agrees with the model for one of the two clock readings taken around the call *)
Definition case_bad (i : idp) (toks : list token)
           (k : nat * consumer * Z * Z * bool * option bs * list claimset) : bool :=
  let '(ti, c, t0, t1, ok, user, emitted) := k in
  match nth_opt toks ti with
  | None => true
  | Some t =>
      negb (out_matches c (exec i (op_of t0 c t)) ok user emitted ||
            out_matches c (exec i (op_of t1 c t)) ok user emitted)
  end.

(* byte-corrupted artefacts, one batch per consumer: base token, consumer, clock readings at the
   start and the end of the batch, and one byte per corrupted token (bit 0: the harness found the
   decoded segments altered, bit 1: the implementation accepted).  The model's verdict on the base
   token with the tampered flag set accordingly must be the observed one at one of the readings. *)
Definition batch_mismatches (i : idp) (toks : list token) (k : nat * consumer * Z * Z * bs) : list nat :=
  let '(ti, c, t0, t1, v) := k in
  match nth_opt toks ti with
  | None => [O]
  | Some t =>
      let mk (tam : bool) := {| t_signer := t_signer t; t_alg := t_alg t; t_tampered := tam; t_claims := t_claims t |} in
      let a0 := accepts i t0 c (mk false) in let a1 := accepts i t1 c (mk false) in
      let b0 := accepts i t0 c (mk true) in let b1 := accepts i t1 c (mk true) in
      KM.Base.Cases.mismatches (fun x : N =>
        let ok := (2 <=? x)%N in
        if N.odd x then negb (Bool.eqb b0 ok || Bool.eqb b1 ok) else negb (Bool.eqb a0 ok || Bool.eqb a1 ok)) v
  end.
