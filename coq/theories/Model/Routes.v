(* C06 — the handlers registered on the service multiplexer (cmd/keymasterd/app.go main()),
   each as the ordered list of the checks it performs before its protected effect, next to the
   gate the design declares for it (DESIGN.md appendix A).  The step lists follow the handler
   code from top to bottom; the correspondence check probes every route of the regenerated mux
   and compares admission and observed effects with [run]. *)
From Coq Require Import ZArith List Bool String.
From KM Require Import Base.Bytes Model.Auth Model.AuthGate.
Import ListNotations.
Open Scope N_scope.

(* mask expression passed to checkAuth *)
Inductive mask := MWebUI | MWebUIX509 | MAny | MIPCert.
Definition mask_val (webui : N) (m : mask) : N :=
  match m with
  | MWebUI => webui                       (* state.getRequiredWebUIAuthLevel() *)
  | MWebUIX509 => N.lor webui bKMX509     (* ... | AuthTypeKeymasterX509 *)
  | MAny => bAny
  | MIPCert => bIPCert
  end.
Definition mask_eqb (a b : mask) : bool :=
  match a, b with MWebUI, MWebUI | MWebUIX509, MWebUIX509 | MAny, MAny | MIPCert, MIPCert => true | _, _ => false end.

(* protected effects (the statement's list) *)
Inductive eff :=
| ESigned     (* signed material leaves the server: certificate, session cookie, token, code *)
| ERead       (* profile / token data of a user is shown *)
| EChange     (* a row of user_profile / expiring_signed_user_data changes *)
| EStart.     (* a second-factor transaction is started (challenge map, push) *)
Definition state_changing (e : eff) : bool := match e with EChange | EStart => true | _ => false end.
Definition eff_code (e : eff) : N := match e with ESigned => 1 | ERead => 2 | EChange => 4 | EStart => 8 end.

Inductive step :=
| SMeth (l : list meth)  (* refuse unless the method is one of l *)
| SAuth (m : mask)       (* checkAuth(w, r, mask); the identity let in is recorded *)
| SAdmin                 (* IsAdminUser(identity) *)
| SAutoAdmin             (* isAutomationAdmin(identity) *)
| SSelfOrAdminU2F        (* target user = identity, or IsAdminUserAndU2F(identity, level) *)
| SProfileTarget         (* no target user given, or IsAdminUser(identity) *)
| SSelf                  (* target user = identity *)
| SOwn                   (* the route's own credential verifies (authorization code + client secret,
                            bearer token, presigned STS identity, provider exchange) *)
| SPassword              (* user name + password verify through the limiter (login) *)
| SCheck                 (* any other test of parameters, configuration or stored state *)
| SEff (e : eff).

Record envx := {
  e_now : Z;
  e_limiter : bool;            (* password attempt limiter lets this request through *)
  e_webui : N;                 (* getRequiredWebUIAuthLevel() *)
  e_deny : list N;             (* Config.DenyTrustData.KeyDenyFPsshSha256 *)
  e_admin : N -> bool;         (* IsAdminUser *)
  e_autoadmin : N -> bool;     (* isAutomationAdmin *)
  e_target : N;                (* user named in the path / form (0 = none) *)
  e_own : bool;                (* the route's own credential verifies *)
  e_check : bool }.            (* the remaining tests succeed *)

Definition ident := option (N * N).       (* (user, level) let in by checkAuth *)

Fixpoint run (env : envx) (q : reqx) (steps : list step) (id : ident) : ident * list eff :=
  match steps with
  | [] => (id, [])
  | s :: r =>
    match s with
    | SEff e => let '(i, es) := run env q r id in (i, e :: es)
    | SMeth l => if existsb (meth_eqb (q_meth q)) l then run env q r id else (id, [])
    | SAuth m =>
        match check_auth (e_now env) (e_limiter env) (e_deny env) (mask_val (e_webui env) m) q with
        | Admit u l _ => run env q r (Some (u, l))
        | Refuse _ => (id, [])
        end
    | SAdmin => match id with Some (u, _) => if e_admin env u then run env q r id else (id, []) | None => (id, []) end
    | SAutoAdmin => match id with Some (u, _) => if e_autoadmin env u then run env q r id else (id, []) | None => (id, []) end
    | SSelfOrAdminU2F =>
        match id with
        | Some (u, l) => if (e_target env =? u) || (e_admin env u && hasb l bU2F) then run env q r id else (id, [])
        | None => (id, [])
        end
    | SProfileTarget =>
        match id with
        | Some (u, _) => if (e_target env =? 0) || e_admin env u then run env q r id else (id, [])
        | None => (id, [])
        end
    | SSelf => match id with Some (u, _) => if e_target env =? u then run env q r id else (id, []) | None => (id, []) end
    | SOwn => if e_own env then run env q r id else (id, [])
    | SPassword =>
        (* the login handler looks at the submitted name and password only, whatever cookie comes along *)
        match k_basic (q_cred q) with
        | Some b => if e_limiter env && negb (b_err b) && b_ok b then run env q r (Some (b_user b, bPassword)) else (id, [])
        | None => (id, [])
        end
    | SCheck => if e_check env then run env q r id else (id, [])
    end
  end.

(* ---- the declared gate of a route (specification side) ---- *)
Inductive extra := XNone | XAdmin | XAutoAdmin | XSelfOrAdminU2F | XProfile | XSelf.
Definition extra_eqb (a b : extra) : bool :=
  match a, b with
  | XNone, XNone | XAdmin, XAdmin | XAutoAdmin, XAutoAdmin | XSelfOrAdminU2F, XSelfOrAdminU2F
  | XProfile, XProfile | XSelf, XSelf => true
  | _, _ => false
  end.
Inductive gate :=
| GPublic                      (* no protected effect at all *)
| GOwn                         (* the route's own credential *)
| GPassword                    (* a verified password (the issuer of sessions) *)
| GMask (m : mask) (x : extra).

Definition extra_ok (x : extra) (env : envx) (u l : N) : Prop :=
  match x with
  | XNone => True
  | XAdmin => e_admin env u = true
  | XAutoAdmin => e_autoadmin env u = true
  | XSelfOrAdminU2F => e_target env = u \/ (e_admin env u = true /\ hasb l bU2F = true)
  | XProfile => e_target env = 0 \/ e_admin env u = true
  | XSelf => e_target env = u
  end.

(* the request carries a currently valid credential of a kind and level the endpoint accepts *)
Definition accepts (env : envx) (q : reqx) (g : gate) : Prop :=
  match g with
  | GPublic => False
  | GOwn => e_own env = true
  | GPassword => exists b, k_basic (q_cred q) = Some b /\ b_ok b = true
  | GMask m x => exists u l, proves (e_now env) (e_deny env) q u l /\ hasb l (mask_val (e_webui env) m) = true /\
                             (q_meth q <> GET -> origin_ok q) /\ extra_ok x env u l
  end.

Record row := { rt_key : string; rt_gate : gate; rt_steps : list step }.

Definition gp := [GET; POST].
Open Scope string_scope.
Definition route_table : list row := [
  {| rt_key := "runtimeState.certGenHandler"; rt_gate := GMask MAny XSelf;
     rt_steps := [SAuth MAny; SCheck; SSelf; SMeth [POST]; SCheck; SEff ESigned] |};
  {| rt_key := "runtimeState.publicPathHandler"; rt_gate := GPublic; rt_steps := [] |};
  {| rt_key := "runtimeState.loginHandler"; rt_gate := GPassword;
     rt_steps := [SMeth gp; SCheck; SPassword; SCheck; SEff ESigned] |};
  {| rt_key := "runtimeState.logoutHandler"; rt_gate := GPublic; rt_steps := [] |};
  {| rt_key := "runtimeState.profileHandler"; rt_gate := GMask MWebUI XProfile;
     rt_steps := [SAuth MWebUI; SProfileTarget; SCheck; SEff ERead] |};
  {| rt_key := "runtimeState.usersHandler"; rt_gate := GMask MWebUIX509 XAdmin;
     rt_steps := [SAuth MWebUIX509; SAdmin; SCheck; SEff ERead] |};
  {| rt_key := "runtimeState.addUserHandler"; rt_gate := GMask MWebUIX509 XAdmin;
     rt_steps := [SAuth MWebUIX509; SAdmin; SMeth [POST]; SCheck; SEff EChange] |};
  {| rt_key := "runtimeState.deleteUserHandler"; rt_gate := GMask MWebUIX509 XAdmin;
     rt_steps := [SAuth MWebUIX509; SAdmin; SMeth [POST]; SCheck; SEff EChange] |};
  {| rt_key := "runtimeState.generateBootstrapOTP"; rt_gate := GMask MWebUIX509 XAdmin;
     rt_steps := [SAuth MWebUIX509; SAdmin; SMeth [POST]; SCheck; SEff EChange] |};
  {| rt_key := "runtimeState.idpOpenIDCDiscoveryHandler"; rt_gate := GPublic; rt_steps := [] |};
  {| rt_key := "runtimeState.idpOpenIDCJWKSHandler"; rt_gate := GPublic; rt_steps := [] |};
  {| rt_key := "runtimeState.idpOpenIDCAuthorizationHandler"; rt_gate := GMask MWebUI XNone;
     rt_steps := [SAuth MWebUI; SMeth gp; SCheck; SEff ESigned] |};
  {| rt_key := "runtimeState.idpOpenIDCTokenHandler"; rt_gate := GOwn;
     rt_steps := [SMeth [POST]; SOwn; SEff ESigned] |};
  {| rt_key := "runtimeState.idpOpenIDCUserinfoHandler"; rt_gate := GOwn;
     rt_steps := [SOwn; SEff ERead] |};
  {| rt_key := """/static/"""; rt_gate := GPublic; rt_steps := [] |};
  {| rt_key := """/static/compiled/"""; rt_gate := GPublic; rt_steps := [] |};
  {| rt_key := """/custom_static/"""; rt_gate := GPublic; rt_steps := [] |};
  {| rt_key := "runtimeState.u2fRegisterRequest"; rt_gate := GMask MWebUI XSelfOrAdminU2F;
     rt_steps := [SCheck; SAuth MWebUI; SSelfOrAdminU2F; SCheck; SEff EChange] |};
  (* POST only since fix 8abc791 (the method test comes after the body and the profile were read) *)
  {| rt_key := "runtimeState.u2fRegisterResponse"; rt_gate := GMask MWebUI XSelfOrAdminU2F;
     rt_steps := [SCheck; SAuth MWebUI; SSelfOrAdminU2F; SCheck; SMeth [POST]; SCheck; SEff EChange] |};
  {| rt_key := "runtimeState.u2fSignRequest"; rt_gate := GMask MAny XNone;
     rt_steps := [SAuth MAny; SCheck; SEff EStart] |};
  {| rt_key := "runtimeState.u2fSignResponse"; rt_gate := GMask MAny XNone;
     rt_steps := [SAuth MAny; SCheck; SEff ESigned] |};
  {| rt_key := "runtimeState.webauthnBeginRegistration"; rt_gate := GMask MWebUI XSelfOrAdminU2F;
     rt_steps := [SCheck; SAuth MWebUI; SSelfOrAdminU2F; SCheck; SEff EChange] |};
  {| rt_key := "runtimeState.webauthnFinishRegistration"; rt_gate := GMask MWebUI XSelfOrAdminU2F;
     rt_steps := [SCheck; SAuth MWebUI; SSelfOrAdminU2F; SCheck; SMeth [POST]; SCheck; SEff EChange] |};
  {| rt_key := "runtimeState.webauthnAuthLogin"; rt_gate := GMask MAny XNone;
     rt_steps := [SAuth MAny; SCheck; SEff EStart] |};
  (* POST only since the fix "only finish WebAuthn logins by POST" (the method test follows checkAuth) *)
  {| rt_key := "runtimeState.webauthnAuthFinish"; rt_gate := GMask MAny XNone;
     rt_steps := [SAuth MAny; SMeth [POST]; SCheck; SEff EChange; SEff ESigned] |};
  {| rt_key := "runtimeState.VIPAuthHandler"; rt_gate := GMask MAny XNone;
     rt_steps := [SMeth gp; SCheck; SAuth MAny; SCheck; SEff ESigned] |};
  {| rt_key := "runtimeState.u2fTokenManagerHandler"; rt_gate := GMask MWebUI XSelfOrAdminU2F;
     rt_steps := [SAuth MWebUI; SMeth [POST]; SCheck; SSelfOrAdminU2F; SCheck; SEff EChange] |};
  {| rt_key := "runtimeState.oauth2DoRedirectoToProviderHandler"; rt_gate := GPublic; rt_steps := [] |};
  {| rt_key := "runtimeState.oauth2RedirectPathHandler"; rt_gate := GOwn;
     rt_steps := [SCheck; SOwn; SEff ESigned] |};
  {| rt_key := "runtimeState.serveClientConfHandler"; rt_gate := GPublic; rt_steps := [] |};
  {| rt_key := "runtimeState.vipPushStartHandler"; rt_gate := GMask MAny XNone;
     rt_steps := [SCheck; SAuth MAny; SCheck; SEff EStart] |};
  {| rt_key := "runtimeState.VIPPollCheckHandler"; rt_gate := GMask MAny XNone;
     rt_steps := [SCheck; SMeth gp; SCheck; SAuth MAny; SCheck; SEff ESigned] |};
  {| rt_key := "runtimeState.GenerateNewTOTP"; rt_gate := GMask MWebUI XNone;
     rt_steps := [SAuth MWebUI; SCheck; SEff EChange] |};
  {| rt_key := "runtimeState.validateNewTOTP"; rt_gate := GMask MWebUI XNone;
     rt_steps := [SAuth MWebUI; SMeth [POST]; SCheck; SEff EChange] |};
  {| rt_key := "runtimeState.totpTokenManagerHandler"; rt_gate := GMask MWebUI XSelfOrAdminU2F;
     rt_steps := [SAuth MWebUI; SMeth [POST]; SCheck; SSelfOrAdminU2F; SCheck; SEff EChange] |};
  {| rt_key := "runtimeState.verifyTOTPHandler"; rt_gate := GMask MWebUI XNone;
     rt_steps := [SAuth MWebUI; SMeth [POST]; SCheck; SEff EChange] |};
  {| rt_key := "runtimeState.TOTPAuthHandler"; rt_gate := GMask MAny XNone;
     rt_steps := [SAuth MAny; SMeth [POST]; SCheck; SEff EChange; SEff ESigned] |};
  {| rt_key := "runtimeState.Okta2FAuthHandler"; rt_gate := GMask MAny XNone;
     rt_steps := [SAuth MAny; SMeth [POST]; SCheck; SEff ESigned] |};
  {| rt_key := "runtimeState.oktaPushStartHandler"; rt_gate := GMask MAny XNone;
     rt_steps := [SMeth gp; SAuth MAny; SCheck; SEff EStart] |};
  (* the poll handler makes the same ValidateUserPush call as the start handler: it sends a push
     when none is pending *)
  {| rt_key := "runtimeState.oktaPollCheckHandler"; rt_gate := GMask MAny XNone;
     rt_steps := [SMeth gp; SAuth MAny; SCheck; SEff EStart; SEff ESigned] |};
  {| rt_key := "runtimeState.requestAwsRoleCertificateHandler"; rt_gate := GOwn;
     rt_steps := [SOwn; SEff ESigned] |};
  {| rt_key := "runtimeState.BootstrapOtpAuthHandler"; rt_gate := GMask MAny XNone;
     rt_steps := [SMeth gp; SCheck; SAuth MAny; SCheck; SEff EChange; SEff ESigned] |};
  {| rt_key := "runtimeState.SendAuthDocumentHandler"; rt_gate := GMask MWebUI XNone;
     rt_steps := [SMeth gp; SCheck; SAuth MWebUI; SCheck; SEff ESigned] |};
  {| rt_key := "runtimeState.ShowAuthTokenHandler"; rt_gate := GMask MWebUI XNone;
     rt_steps := [SMeth gp; SCheck; SAuth MWebUI; SCheck; SEff ESigned] |};
  {| rt_key := "runtimeState.VerifyAuthTokenHandler"; rt_gate := GPublic; rt_steps := [] |};
  {| rt_key := "runtimeState.roleRequetingCertGenHandler"; rt_gate := GMask MWebUIX509 XAutoAdmin;
     rt_steps := [SAuth MWebUIX509; SAutoAdmin; SMeth [POST]; SCheck; SEff ESigned] |};
  {| rt_key := "runtimeState.refreshRoleRequestingCertGenHandler"; rt_gate := GMask MIPCert XNone;
     rt_steps := [SAuth MIPCert; SMeth [POST]; SCheck; SEff ESigned] |};
  {| rt_key := "runtimeState.defaultPathHandler"; rt_gate := GPublic; rt_steps := [] |}
].
Close Scope string_scope.

(* the u2f token manager before it insisted on POST (kept for c06_old_manage_refuted) *)
Definition manage_u2f_old_steps : list step :=
  [SAuth MWebUI; SCheck; SSelfOrAdminU2F; SCheck; SEff EChange].

(* the two registration-finish handlers before they insisted on POST (kept for c06_old_register_finish_refuted) *)
Definition register_finish_old_steps : list step :=
  [SCheck; SAuth MWebUI; SSelfOrAdminU2F; SCheck; SEff EChange].

(* the WebAuthn login finish before it insisted on POST (kept for c06_old_auth_finish_refuted) *)
Definition auth_finish_old_steps : list step :=
  [SAuth MAny; SCheck; SEff EChange; SEff ESigned].

(* ---- the login route as ISSUER of sessions (loginHandler) ----
   What the handler reads: the method, the Authorization: Basic header if the request has one
   (r.BasicAuth() comes first), else the username / password fields of the form.  Everything else the
   request carries comes along and must NOT count: an auth_cookie (of the same user or of another one,
   of any level, valid or not), a client certificate, Origin/Referer, the clock.  The session it mints
   names the user whose password was verified, at the password level and nothing more: second-factor
   bits are earned at the second-factor endpoints, by the user the session belongs to. *)
Record loginq := {
  lq_req : reqx;               (* method, Origin/Referer, client certificate, auth_cookie; k_basic is the
                                  Authorization: Basic header *)
  lq_form : option basicx }.   (* both form fields present and non-empty: b_user is the name after the CR/LF
                                  stripping and reprocessUsername, b_ok / b_err the backend's verdict *)

(* the credential of the login route *)
Definition login_credential (lq : loginq) : option basicx :=
  match k_basic (q_cred (lq_req lq)) with
  | Some b => Some b
  | None => lq_form lq
  end.

Inductive login_out :=
| LRefuse (code : N)           (* no Set-Cookie for auth_cookie *)
| LMint (sub level : N).       (* setNewAuthCookie(w, sub, level) *)

(* the level of the session a request arrives with (what checkAuth would let its cookie in with) *)
Definition open_session_level (now : Z) (q : reqx) : N :=
  match k_cookie (q_cred q) with
  | Some t => if token_ok now t && negb (t_exp t <? now)%Z then t_level t else 0
  | None => 0
  end.

(* [carry = false] is the code of the tree.  [carry = true] is NOT: a handler that keeps the factors of
   the session the request arrives with (kept to show that the statements below are sharp) *)
Definition login_handler_gen (carry : bool) (now : Z) (limiter_ok : bool) (lq : loginq) : login_out :=
  match q_meth (lq_req lq) with
  | OTHER => LRefuse 405
  | _ =>
      match login_credential lq with
      | None => LRefuse 401
      | Some b =>
          if negb limiter_ok then LRefuse 429
          else if b_err b then LRefuse 500
          else if negb (b_ok b) then LRefuse 401
          else LMint (b_user b) (if carry then N.lor bPassword (open_session_level now (lq_req lq)) else bPassword)
      end
  end.
Definition login_handler := login_handler_gen false.

(* the session cookie made of a minted (sub, level): signed by this server, for this server *)
Definition session_token (sub level : N) (nbf exp iat : Z) : token :=
  {| t_signer_trusted := true; t_alg_allowed := true; t_tampered := false; t_iss_ok := true; t_aud_ok := true;
     t_kind := 0; t_nbf := nbf; t_exp := exp; t_iat := iat; t_sub := sub; t_level := level |}.

(* specification side: a session for [u] at level [l] may be minted for this login request *)
Definition login_spec (lq : loginq) (u l : N) : Prop :=
  l = bPassword /\ exists b, login_credential lq = Some b /\ b_ok b = true /\ u = b_user b.

(* ---- structural checkers (decidable; soundness is proved in Proofs/AuthGate.v) ---- *)

Record flags := { f_auth : option mask; f_extras : list extra; f_own : bool; f_pw : bool }.
Definition flags0 := {| f_auth := None; f_extras := []; f_own := false; f_pw := false |}.

Definition eff_allowed (g : gate) (f : flags) : bool :=
  match g with
  | GPublic => false
  | GOwn => f_own f
  | GPassword => f_pw f
  | GMask m x =>
      match f_auth f with
      | Some m' => mask_eqb m m' && (extra_eqb x XNone || existsb (extra_eqb x) (f_extras f))
      | None => false
      end
  end.

Definition step_flags (s : step) (f : flags) : flags :=
  match s with
  | SAuth m => {| f_auth := Some m; f_extras := []; f_own := f_own f; f_pw := false |}
  | SPassword => {| f_auth := None; f_extras := []; f_own := f_own f; f_pw := true |}
  | SAdmin => {| f_auth := f_auth f; f_extras := XAdmin :: f_extras f; f_own := f_own f; f_pw := f_pw f |}
  | SAutoAdmin => {| f_auth := f_auth f; f_extras := XAutoAdmin :: f_extras f; f_own := f_own f; f_pw := f_pw f |}
  | SSelfOrAdminU2F => {| f_auth := f_auth f; f_extras := XSelfOrAdminU2F :: f_extras f; f_own := f_own f; f_pw := f_pw f |}
  | SProfileTarget => {| f_auth := f_auth f; f_extras := XProfile :: f_extras f; f_own := f_own f; f_pw := f_pw f |}
  | SSelf => {| f_auth := f_auth f; f_extras := XSelf :: f_extras f; f_own := f_own f; f_pw := f_pw f |}
  | SOwn => {| f_auth := f_auth f; f_extras := f_extras f; f_own := true; f_pw := f_pw f |}
  | _ => f
  end.

(* every effect of the step list is behind the checks the declared gate demands *)
Fixpoint guarded (g : gate) (f : flags) (steps : list step) : bool :=
  match steps with
  | [] => true
  | SEff _ :: r => eff_allowed g f && guarded g f r
  | s :: r => guarded g (step_flags s f) r
  end.

(* every state-changing effect is behind a checkAuth AND a method test that excludes GET:
   then the Origin/Referer comparison of checkAuth covers it *)
Fixpoint csrf_safe_from (authed noget : bool) (steps : list step) : bool :=
  match steps with
  | [] => true
  | SEff e :: r => (negb (state_changing e) || (authed && noget)) && csrf_safe_from authed noget r
  | SAuth _ :: r => csrf_safe_from true noget r
  | SMeth l :: r => csrf_safe_from authed (noget || negb (existsb (meth_eqb GET) l)) r
  | _ :: r => csrf_safe_from authed noget r
  end.
Definition csrf_safe (steps : list step) : bool := csrf_safe_from false false steps.

Definition has_state_change (steps : list step) : bool :=
  existsb (fun s => match s with SEff e => state_changing e | _ => false end) steps.

(* routes whose state-changing effect is reachable by GET *)
Definition get_state_changers : list string :=
  map rt_key (filter (fun r => negb (csrf_safe (rt_steps r))) route_table).

Definition find_row (k : string) : option row :=
  find (fun r => String.eqb (rt_key r) k) route_table.
