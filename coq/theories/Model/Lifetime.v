(* C03 — certificate lifetime arithmetic: cmd/keymasterd/certgen.go certGenHandler (duration
   parse result, 24h cap, clamp to IssuedAt+24h), lib/certgen GenSSHCertFileString (unsigned
   epoch arithmetic) and GenUserX509Cert / GenIPRestrictedX509Cert (NotBefore/NotAfter).
   All times in nanoseconds since the epoch unless the name ends in _s. *)
From Coq Require Import ZArith Bool.
Open Scope Z_scope.

Definition NS : Z := 1000000000.
Definition two64 : Z := 18446744073709551616.

(* the duration certGenHandler passes on:  [requested] is what time.ParseDuration returned
   (None: no duration field, the default is the maximum); None as result = HTTP 400.
   now1 is the clock reading inside time.Until. *)
Definition handler_duration (maxc : Z) (requested : option Z) (iat now1 : Z) : option Z :=
  let clamp d := let maxd := iat + maxc - now1 in if d >? maxd then maxd else d in
  match requested with
  | None => Some (clamp maxc)
  | Some d => if d >? maxc then None
              else if d <=? 0 then None          (* non-positive requests are refused *)
              else Some (clamp d)
  end.

(* the same before the fix: negative and zero requests went through *)
Definition handler_duration_old (maxc : Z) (requested : option Z) (iat now1 : Z) : option Z :=
  let clamp d := let maxd := iat + maxc - now1 in if d >? maxd then maxd else d in
  match requested with
  | None => Some (clamp maxc)
  | Some d => if d >? maxc then None else Some (clamp d)
  end.

(* uint64(duration.Seconds()): truncation toward zero; a negative value is reinterpreted
   modulo 2^64 (amd64 behaviour; the Go spec leaves it implementation-defined) *)
Definition u64_of_secs (d : Z) : Z := (Z.quot d NS) mod two64.

(* GenSSHCertFileString: ValidAfter, ValidBefore (uint64 arithmetic); now2 = its clock reading *)
Definition ssh_window (now2 d : Z) : Z * Z :=
  let cur := (now2 / NS) mod two64 in (cur, (cur + u64_of_secs d) mod two64).

(* GenUserX509Cert / GenIPRestrictedX509Cert *)
Definition x509_window (now2 d : Z) : Z * Z := (now2, now2 + d).

(* correspondence on observed SSH certificates: there is a clock reading in the recorded
   interval [t0, t1] (seconds) for which the model yields the observed fields *)
Definition ssh_obs_ok (maxc : Z) (requested : option Z) (iat_s t0_s t1_s : Z)
           (issued : bool) (va vb : Z) : bool :=
  match handler_duration maxc requested (iat_s * NS) (t0_s * NS),
        handler_duration maxc requested (iat_s * NS) ((t1_s + 1) * NS) with
  | None, _ | _, None => negb issued
  | Some dhi, Some dlo =>
      issued && (t0_s <=? va) && (va <=? t1_s) &&
      (* ValidBefore - ValidAfter lies between the durations for the latest and earliest clock *)
      (let lo := (va + Z.quot dlo NS) in let hi := (va + Z.quot dhi NS) in
       (lo - 1 <=? vb) && (vb <=? hi + 1))
  end.

(* a session as certGenHandler sees it: (authenticated-at instant, level).  jwt.go
   updateAuthJWTWithNewAuthLevel re-signs the SAME claims with a new level: every second-factor
   handler goes through it, however late in the life of the session. *)
Definition session := (Z * Z)%type.
Definition upgrade (s : session) (level : Z) : session := (fst s, Z.lor (snd s) level).
Definition upgrades (s : session) (levels : list Z) : session := List.fold_left upgrade levels s.
(* a variant that stamps the upgrade instant (what a re-issue through the login path would do) *)
Definition upgrade_restamp (now : Z) (s : session) (level : Z) : session := (now, Z.lor (snd s) level).
