(* C03 — certificate lifetime arithmetic: cmd/keymasterd/certgen.go certGenHandler (duration
   parse result, 24h cap, clamp to IssuedAt+24h), lib/certgen GenSSHCertFileString (unsigned
   epoch arithmetic) and GenUserX509Cert / GenIPRestrictedX509Cert (NotBefore/NotAfter).
   All times in nanoseconds since the epoch unless the name ends in _s. *)
From Coq Require Import ZArith Bool.
Open Scope Z_scope.

Definition NS : Z := 1000000000.
Definition two64 : Z := 18446744073709551616.

(* the duration certGenHandler passes on:  [requested] is what time.ParseDuration returned
   (None: no duration field, the default is the maximum); None as result = HTTP 400.
   now1 is the clock reading inside time.Until. *)
Definition handler_duration (maxc : Z) (requested : option Z) (iat now1 : Z) : option Z :=
  let clamp d := let maxd := iat + maxc - now1 in if d >? maxd then maxd else d in
  match requested with
  | None => Some (clamp maxc)
  | Some d => if d >? maxc then None
              else if d <=? 0 then None          (* non-positive requests are refused *)
              else Some (clamp d)
  end.

(* the same before the fix: negative and zero requests went through *)
Definition handler_duration_old (maxc : Z) (requested : option Z) (iat now1 : Z) : option Z :=
  let clamp d := let maxd := iat + maxc - now1 in if d >? maxd then maxd else d in
  match requested with
  | None => Some (clamp maxc)
  | Some d => if d >? maxc then None else Some (clamp d)
  end.

(* uint64(duration.Seconds()): truncation toward zero; a negative value is reinterpreted
   modulo 2^64 (amd64 behaviour; the Go spec leaves it implementation-defined) *)
Definition u64_of_secs (d : Z) : Z := (Z.quot d NS) mod two64.

(* GenSSHCertFileString: ValidAfter, ValidBefore (uint64 arithmetic); now2 = its clock reading *)
Definition ssh_window (now2 d : Z) : Z * Z :=
  let cur := (now2 / NS) mod two64 in (cur, (cur + u64_of_secs d) mod two64).

(* GenUserX509Cert / GenIPRestrictedX509Cert *)
Definition x509_window (now2 d : Z) : Z * Z := (now2, now2 + d).

(* correspondence on observed SSH certificates: there is a clock reading in the recorded
   interval [t0, t1] (seconds) for which the model yields the observed fields *)
Definition ssh_obs_ok (maxc : Z) (requested : option Z) (iat_s t0_s t1_s : Z)
           (issued : bool) (va vb : Z) : bool :=
  match handler_duration maxc requested (iat_s * NS) (t0_s * NS),
        handler_duration maxc requested (iat_s * NS) ((t1_s + 1) * NS) with
  | None, _ | _, None => negb issued
  | Some dhi, Some dlo =>
      issued && (t0_s <=? va) && (va <=? t1_s) &&
      (* ValidBefore - ValidAfter lies between the durations for the latest and earliest clock *)
      (let lo := (va + Z.quot dlo NS) in let hi := (va + Z.quot dhi NS) in
       (lo - 1 <=? vb) && (vb <=? hi + 1))
  end.

(* a session as certGenHandler sees it: (authenticated-at instant, level).  jwt.go
   updateAuthJWTWithNewAuthLevel re-signs the SAME claims with a new level: every second-factor
   handler goes through it, however late in the life of the session. *)
Definition session := (Z * Z)%type.
Definition upgrade (s : session) (level : Z) : session := (fst s, Z.lor (snd s) level).
Definition upgrades (s : session) (levels : list Z) : session := List.fold_left upgrade levels s.
(* a variant that stamps the upgrade instant (what a re-issue through the login path would do) *)
Definition upgrade_restamp (now : Z) (s : session) (level : Z) : session := (now, Z.lor (snd s) level).

(* ---------------------------------------------------------------------------------------------
   every issuing path as one function *)
(* the operator's configuration as the lifetime code could see it: the value the loader stored for
   every numeric / duration knob (numbered in reflection order over AppConfigFile).  On the current
   tree no issuing path reads any of them; the parameter is carried so that the theorems say so:
   they hold for EVERY configuration. *)
Definition config := list (N * Z).

(* how the authenticated-at instant of the presented credential is derived (app.go checkAuth) *)
Inductive cred :=
| Cookie (iat : Z)          (* session cookie: the iat claim (kept by every level upgrade) *)
| KmCert (not_before : Z)   (* keymaster-signed client certificate: its NotBefore *)
| IpCert (not_before : Z)   (* IP-restricted certificate: its NotBefore *)
| Basic.                    (* password on the request itself: authenticated now *)
Definition issued_at (c : cred) (now0 : Z) : Z :=
  match c with Cookie t => t | KmCert t => t | IpCert t => t | Basic => now0 end.

(* the three compiled limits (regenerated: Consts.v, and the probe of the cloud-role template) *)
Record limits := { maxc : Z; maxrole : Z; awslife : Z }.

Inductive ipath := CertgenSSH | CertgenX509 | Role | Refresh | Aws.
Definition is_certgen (p : ipath) : bool := match p with CertgenSSH | CertgenX509 => true | _ => false end.
Definition path_limit (L : limits) (p : ipath) : Z :=
  match p with CertgenSSH | CertgenX509 => maxc L | Role | Refresh => maxrole L | Aws => awslife L end.

(* the duration each issuing path hands to its generator.  certgen: parse result / default, cap,
   clamp to the authenticated-at instant; role and refresh: the constant (the duration form field is
   documented but not read); cloud-role: the literal of the template.  None = refused. *)
Definition effective_duration (cfg : config) (L : limits) (p : ipath) (req : option Z) (c : cred)
           (now0 now1 : Z) : option Z :=
  match p with
  | CertgenSSH | CertgenX509 => handler_duration (maxc L) req (issued_at c now0) now1
  | Role | Refresh => Some (maxrole L)
  | Aws => Some (awslife L)
  end.

(* validity window in ns (SSH certificates have whole seconds) *)
Definition effective_window (cfg : config) (L : limits) (p : ipath) (req : option Z) (c : cred)
           (now0 now1 now2 : Z) : option (Z * Z) :=
  match effective_duration cfg L p req c now0 now1 with
  | None => None
  | Some d => Some (match p with
                    | CertgenSSH => let '(va, vb) := ssh_window now2 d in (va * NS, vb * NS)
                    | _ => x509_window now2 d
                    end)
  end.

Definition sane (L : limits) : Prop :=
  0 < maxc L < two64 * NS / 4 /\ 0 < maxrole L < two64 * NS / 4 /\ 0 < awslife L < two64 * NS / 4.


(* correspondence on observed certificates of any path: there is a clock reading in the recorded
   interval [t0, t1] (seconds) for which the model yields the observed validity fields (seconds);
   supersedes ssh_obs_ok (which is the /certgen/ + cookie instance) *)
Definition window_obs_ok (cfg : config) (L : limits) (p : ipath) (req : option Z) (c : cred)
           (t0_s t1_s : Z) (issued : bool) (va vb : Z) : bool :=
  match effective_duration cfg L p req c (t0_s * NS) (t0_s * NS),
        effective_duration cfg L p req c ((t1_s + 1) * NS) ((t1_s + 1) * NS) with
  | None, _ | _, None => negb issued
  | Some dhi, Some dlo =>
      issued && (t0_s <=? va) && (va <=? t1_s) &&
      (let lo := (va + Z.quot dlo NS) in let hi := (va + Z.quot dhi NS) in
       (lo - 1 <=? vb) && (vb <=? hi + 1))
  end.

(* ---------------------------------------------------------------------------------------------
   the issuing CA certificate's own validity: a component of the server state.  keymasterd makes its
   CA certificates itself when it is unsealed, NotBefore = the wall clock of that moment (which may
   have been ahead and stepped back since), NotAfter years later; a CA certificate may also be about
   to expire.  getSignerX509CAForPublic / generateRoleRequestingCert / generateRoleCert hand the
   parsed CA certificate to the generators, which use its subject and key identifiers only: every
   bound of the property is counted from the moment of issuance, so the model carries the CA
   validity and IGNORES it - the theorems are stated for EVERY CA validity. *)
Definition ca_validity := (Z * Z)%type.      (* (NotBefore, NotAfter) of the issuing CA certificate, ns *)
Definition effective_window_ca (ca : ca_validity) (cfg : config) (L : limits) (p : ipath) (req : option Z)
           (c : cred) (now0 now1 now2 : Z) : option (Z * Z) :=
  effective_window cfg L p req c now0 now1 now2.
Definition window_obs_ok_ca (ca : ca_validity) (cfg : config) (L : limits) (p : ipath) (req : option Z)
           (c : cred) (t0_s t1_s : Z) (issued : bool) (va vb : Z) : bool :=
  window_obs_ok cfg L p req c t0_s t1_s issued va vb.

(* NOT the code: a generator that nests the new certificate's validity inside the issuer's (NotBefore
   raised to the CA's, the duration counted from there, the end clamped to the CA's end) *)
Definition x509_window_nested (ca_nb ca_na now2 d : Z) : Z * Z :=
  let nb := Z.max now2 ca_nb in (nb, Z.min (nb + d) ca_na).

(* the property's own predicate on an OBSERVATION (seconds; t1_s = the clock right after the answer):
   the certificate starts after the moment it was handed out, or it ends later than that moment plus
   the requested duration (when the request is one the handler serves) / the path's limit, or - on
   /certgen/ - later than the authenticated-at instant plus the cap without being born expired.
   One second of clock granularity and one of rounding are allowed, as in the correspondence. *)
Definition obs_limit (L : limits) (p : ipath) (req : option Z) : Z :=
  match req with
  | Some r => if is_certgen p && (0 <? r) && (r <=? maxc L) then r else path_limit L p
  | None => path_limit L p
  end.
Definition obs_starts_in_future (t1_s va : Z) : bool := t1_s + 1 <? va.
Definition obs_ends_too_late (L : limits) (p : ipath) (req : option Z) (c : cred) (t1_s va vb : Z) : bool :=
  (t1_s + 1 + Z.quot (obs_limit L p req) NS + 1 <? vb) ||
  (is_certgen p && (Z.max va (Z.quot (issued_at c ((t1_s + 1) * NS)) NS + Z.quot (maxc L) NS + 1) + 1 <? vb)).

(* decoding of the harness's small codes *)
Definition path_of (n : Z) : ipath :=
  if n =? 0 then CertgenSSH else if n =? 1 then CertgenX509 else if n =? 2 then Role
  else if n =? 3 then Refresh else Aws.
Definition cred_of (kind t_s : Z) : cred :=
  if kind =? 0 then Cookie (t_s * NS) else if kind =? 1 then KmCert (t_s * NS)
  else if kind =? 2 then IpCert (t_s * NS) else Basic.
