(* C07 — the htpassword and command backends over TIME: the backend's source of truth (the htpasswd
   file; the table the external command consults — its data file or the script itself) is edited
   between logins, and the login handler must consult what is there NOW.

   lib/pwauth/htpassword/impl.go  passwordAuthenticate: ioutil.ReadFile(filename) at every call,
                                  authutil.CheckHtpasswdUserPassword on those bytes
   lib/pwauth/command/impl.go     passwordAuthenticate: exec.Command(command, username) at every call,
                                  password on stdin, exit 0 = accepted, exit 1 = refused
   cmd/keymasterd/app.go          reprocessUsername (lower-casing), checkUserPassword

   State: the current content of the file (user -> password) and the file's metadata as stat(2)
   shows it (size, modification time, inode generation).  An edit is made in some WAY ([how]): the
   size the new file has, the modification time it carries afterwards (restored to the old one by
   os.Chtimes / cp -p / rsync -t, fresh, or set back), whether the file was rewritten in place
   (truncate + write) or replaced atomically (temporary file + rename: a new inode).  The way is an
   op component; the machine of the code never looks at it. *)
From Coq Require Import List NArith ZArith Bool.
From KM Require Import Base.Bytes Model.PwCache.
Import ListNotations.
Open Scope N_scope.

(* how an edit leaves the file: replaced by rename?, size afterwards, mtime afterwards *)
Record how := mkHow { h_renamed : bool; h_size : N; h_mtime : Z }.

Inductive bop :=
| BLogin (raw : bs) (pw : N)               (* POST to the login handler: name as typed, password number *)
| BChangePw (h : how) (u : bs) (pw : N)    (* u's line rewritten with the hash of pw (no-op on the content if u has no line) *)
| BRemoveUser (h : how) (u : bs)           (* u's line dropped *)
| BAddUser (h : how) (u : bs) (pw : N).    (* a line for u added (no-op on the content if u has one) *)

Definition content := list (bs * N).

Fixpoint lookup (u : bs) (f : content) : option N :=
  match f with
  | [] => None
  | (v, p) :: r => if bs_eqb v u then Some p else lookup u r
  end.

Fixpoint remove_user (u : bs) (f : content) : content :=
  match f with
  | [] => []
  | (v, p) :: r => if bs_eqb v u then remove_user u r else (v, p) :: remove_user u r
  end.

Definition set_user (u : bs) (p : N) (f : content) : content := (u, p) :: remove_user u f.

(* the backend's verdict on a file content: u has a line and it holds the hash of pw *)
Definition file_accepts (f : content) (u : bs) (pw : N) : bool :=
  match lookup u f with Some p => p =? pw | None => false end.

(* what an edit does to the content: a function of the edit alone, never of the way it is made *)
Definition edit (f : content) (o : bop) : content :=
  match o with
  | BLogin _ _ => f
  | BChangePw _ u p => match lookup u f with Some _ => set_user u p f | None => f end
  | BRemoveUser _ u => remove_user u f
  | BAddUser _ u p => match lookup u f with Some _ => f | None => set_user u p f end
  end.

(* the user an edit is about *)
Definition subject (o : bop) : option bs :=
  match o with
  | BLogin _ _ => None
  | BChangePw _ u _ | BRemoveUser _ u | BAddUser _ u _ => Some u
  end.

Definition how_of (o : bop) : option how :=
  match o with
  | BLogin _ _ => None
  | BChangePw h _ _ | BRemoveUser h _ | BAddUser h _ _ => Some h
  end.

(* app.go reprocessUsername + checkUserPassword: the backend is asked about the normalised name
   ([backend_login] of Model/PwCache.v takes the password as a byte string; here it is one number) *)
Definition pw_of (p : bs) : N := match p with [x] => x | _ => 0 end.
Definition blogin (f : content) (raw : bs) (pw : N) : bool :=
  backend_login (fun u p => file_accepts f u (pw_of p)) raw [pw].

Record bstate := mkB { b_content : content; b_size : N; b_mtime : Z; b_ino : N }.

Definition binit (f : content) (size : N) (mtime : Z) : bstate := mkB f size mtime 0.

Definition touch (s : bstate) (f : content) (h : how) : bstate :=
  mkB f (h_size h) (h_mtime h) (if h_renamed h then b_ino s + 1 else b_ino s).

(* the machine of the code: every login reads the file (runs the command) afresh *)
Definition bstep (s : bstate) (o : bop) : bstate * option bool :=
  match o with
  | BLogin raw pw => (s, Some (blogin (b_content s) raw pw))
  | _ => match how_of o with
         | Some h => (touch s (edit (b_content s) o) h, None)
         | None => (s, None)
         end
  end.

Fixpoint bouts (s : bstate) (ops : list bop) : list (option bool) :=
  match ops with
  | [] => []
  | o :: r => let '(s1, x) := bstep s o in x :: bouts s1 r
  end.

Definition brun (s : bstate) (ops : list bop) : bstate := fold_left (fun s o => fst (bstep s o)) ops s.

(* the content of the file after a history, from the edits alone *)
Definition content_after (f : content) (ops : list bop) : content := fold_left edit ops f.

(* ------------------------------------------------------------------ NOT the code: a backend that
   keeps the parsed file in memory and reads it again only when stat shows another size or another
   modification time.  Kept for the refutation [c07_backend_stat_cache_refuted]. *)
Record cstate := mkC { c_file : bstate; c_loaded : option (content * N * Z) }.

Definition cinit (f : content) (size : N) (mtime : Z) : cstate := mkC (binit f size mtime) None.

Definition cstep (s : cstate) (o : bop) : cstate * option bool :=
  match o with
  | BLogin raw pw =>
      let f := c_file s in
      let fresh := (b_content f, b_size f, b_mtime f) in
      let held := match c_loaded s with
                  | Some (c, sz, mt) => if (sz =? b_size f) && (mt =? b_mtime f)%Z then (c, sz, mt) else fresh
                  | None => fresh
                  end in
      (mkC f (Some held), Some (blogin (fst (fst held)) raw pw))
  | _ => (mkC (fst (bstep (c_file s) o)) (c_loaded s), None)
  end.

Fixpoint couts (s : cstate) (ops : list bop) : list (option bool) :=
  match ops with
  | [] => []
  | o :: r => let '(s1, x) := cstep s o in x :: couts s1 r
  end.

(* ------------------------------------------------------------------ case-file evaluation *)
(* backend kind (0 htpassword, 1 command with a data file, 2 command whose script holds the table),
   the file at the start (content, size, mtime), the history, the verdict of every login as observed *)
Definition bcase := (nat * (content * N * Z) * list bop * list (option bool))%type.

Definition bcase_model (c : bcase) : list (option bool) :=
  let '(_, (f, size, mtime), ops, _) := c in bouts (binit f size mtime) ops.

Fixpoint outs_eqb (a b : list (option bool)) : bool :=
  match a, b with
  | [], [] => true
  | x :: a', y :: b' => obool_eqb x y && outs_eqb a' b'
  | _, _ => false
  end.

Definition bcase_ok (c : bcase) : bool :=
  let '(_, _, _, outs) := c in outs_eqb (bcase_model c) outs.

(* the property's predicate on the OBSERVATION: some login was answered otherwise than the content
   of the file at that moment says ([accepted] = true: accepted although the file refuses, i.e. an old
   password / a removed user; false: refused although the file accepts) *)
Fixpoint verdict_against (accepted : bool) (model obs : list (option bool)) : bool :=
  match model, obs with
  | Some m :: model', Some o :: obs' =>
      (Bool.eqb o accepted && Bool.eqb m (negb accepted)) || verdict_against accepted model' obs'
  | _ :: model', _ :: obs' => verdict_against accepted model' obs'
  | _, _ => false
  end.

Definition bcase_violates (accepted : bool) (c : bcase) : bool :=
  let '(_, _, _, outs) := c in verdict_against accepted (bcase_model c) outs.
