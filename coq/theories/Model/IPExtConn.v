(* C11 — the connection a request arrives on (cmd/keymasterd/app.go checkAuth ->
   getUsernameIfIPRestricted).  The handler sees r.TLS (crypto/tls ConnectionState) and r.RemoteAddr.
   Of the connection state the code reads VerifiedChains (is there a chain the TLS layer verified
   against the client-CA pool) and NOTHING else: in particular not DidResume (was the handshake a
   resumption of an earlier session).  The verdict on an IP-restricted certificate is a function of
   (the certificate's extension, the TCP peer of THIS connection): it takes neither the resumption
   flag nor anything the server remembers of earlier requests. *)
From KM Require Import Base.Bytes Model.IPExt.

Record connstate := { cs_verified : bool;    (* len(r.TLS.VerifiedChains) > 0, leaf = the certificate *)
                      did_resume : bool }.   (* r.TLS.DidResume *)

Record request := { rq_conn : connstate; rq_peer : peer; rq_cert : rcert }.

(* everything the same server has answered before this request *)
Definition history := list request.

Definition auth_ip (h : history) (conn : connstate) (c : rcert) (p : peer) : bool :=
  cs_verified conn && verify_ip (rc_ext c) p.

Definition auth_req (h : history) (r : request) : bool := auth_ip h (rq_conn r) (rq_cert r) (rq_peer r).

(* a sequence of requests on one server: the verdict of each, every request seeing all earlier ones *)
Fixpoint run (h : history) (rs : list request) : list bool :=
  match rs with
  | [] => []
  | r :: t => auth_req h r :: run (h ++ [r]) t
  end.

(* ---------------------------------------------------------------------------------------------
   NOT the code - the variant the property excludes: a verdict cache.  A certificate that passed the
   full evaluation is remembered; a later request on a RESUMED session presenting a remembered
   certificate is let in without looking at the peer address. *)
Fixpoint blocks_raw_eqb (x y : list (bs * N)) : bool :=
  match x, y with
  | [], [] => true
  | (a, n) :: x', (b, m) :: y' => bs_eqb a b && (n =? m) && blocks_raw_eqb x' y'
  | _, _ => false
  end.
Fixpoint ext_eqb (x y : list family) : bool :=
  match x, y with
  | [], [] => true
  | (f, a) :: x', (g, b) :: y' => bs_eqb f g && blocks_raw_eqb a b && ext_eqb x' y'
  | _, _ => false
  end.
Definition rcert_eqb (a b : rcert) : bool := bs_eqb (rc_cn a) (rc_cn b) && ext_eqb (rc_ext a) (rc_ext b).

Definition step_cached (cache : list rcert) (r : request) : list rcert * bool :=
  if negb (cs_verified (rq_conn r)) then (cache, false)
  else if did_resume (rq_conn r) && existsb (rcert_eqb (rq_cert r)) cache then (cache, true)
  else if verify_ip (rc_ext (rq_cert r)) (rq_peer r) then (rq_cert r :: cache, true)
  else (cache, false).

Definition cache_of (h : history) : list rcert := fold_left (fun c r => fst (step_cached c r)) h [].

Definition auth_ip_cached (h : history) (conn : connstate) (c : rcert) (p : peer) : bool :=
  snd (step_cached (cache_of h) {| rq_conn := conn; rq_peer := p; rq_cert := c |}).

(* correspondence helper: one observed step = (blocks as requested, verified, resumed, peer, let in) *)
Definition obs_step := (list netblock * bool * bool * peer * bool)%type.
Definition req_of (s : obs_step) : request :=
  let '(bl, v, d, p, _) := s in
  {| rq_conn := {| cs_verified := v; did_resume := d |}; rq_peer := p; rq_cert := mint_request [] bl |}.
Definition obs_of (s : obs_step) : bool := let '(_, _, _, _, o) := s in o.
Fixpoint bools_eqb (x y : list bool) : bool :=
  match x, y with
  | [], [] => true
  | a :: x', b :: y' => Bool.eqb a b && bools_eqb x' y'
  | _, _ => false
  end.
(* the sequence disagrees with the model *)
Definition seq_bad (s : list obs_step) : bool := negb (bools_eqb (run [] (map req_of s)) (map obs_of s)).
(* the property predicate on the observation: some request of the sequence was let in although its
   connection carries no verified chain or its peer lies in none of the requested netblocks *)
Definition step_violates (s : obs_step) : bool :=
  let '(bl, v, _, p, o) := s in o && negb (v && existsb (fun b => contains b p) bl).
Definition seq_violates (s : list obs_step) : bool := existsb step_violates s.
