(* C10 — lib/certgen ValidatePublicKeyStrength (after the modulus-size fix) *)
From KM Require Import Base.Bytes.

Inductive curve := P224 | P256 | P384 | P521.
Definition curve_bits (c : curve) : N :=
  match c with P224 => 224 | P256 => 256 | P384 => 384 | P521 => 521 end.

Inductive keydesc :=
| RSA (modulus_bits exponent : N)
| ECDSA (c : curve)
| Ed25519
| OtherKey.          (* DSA, X25519, anything else the parsers can deliver *)

Definition validate (k : keydesc) : bool :=
  match k with
  | RSA bits e => negb (bits <? 2048) && negb (e <? 65537)
  | ECDSA c => negb (curve_bits c <? 255)
  | Ed25519 => true
  | OtherKey => false
  end.

(* before the fix the RSA test was on the size in bytes: ceil(bits/8) < 256 *)
Definition validate_old (k : keydesc) : bool :=
  match k with
  | RSA bits e => negb ((bits + 7) / 8 <? 256) && negb (e <? 65537)
  | other => validate other
  end.

(* every issuing pipeline: parse ; validate ; sign *)
Inductive outcome := Signed (k : keydesc) | ClientError | ServerError.
Definition pipeline (parsed : option keydesc) : outcome :=
  match parsed with
  | None => ClientError
  | Some k => if validate k then Signed k else ClientError
  end.

(* correspondence on the predicate: (kind, a, b, observed verdict) with
   kind 0 = RSA a=bits b=exponent, 1 = ECDSA a=curve bits, 2 = Ed25519, 3 = other *)
Definition desc_of (kind a b : N) : keydesc :=
  if kind =? 0 then RSA a b
  else if kind =? 1 then
    (if a =? 224 then ECDSA P224 else if a =? 256 then ECDSA P256
     else if a =? 384 then ECDSA P384 else if a =? 521 then ECDSA P521 else OtherKey)
  else if kind =? 2 then Ed25519 else OtherKey.
Definition c10_bad (c : N * N * N * bool) : bool :=
  let '(kind, a, b, obs) := c in negb (Bool.eqb (validate (desc_of kind a b)) obs).

(* ---------------------------------------------------------------------------------------------
   The parse step made explicit.  A submitted key file / parameter is turned into a key TWICE on
   the SSH path of the code: once by the validator (getValidSSHPublicKey: a regular expression, then
   a parser, then the strength predicate) and once by the signer (certgen.GenSSHCertFileString
   parses the text it is handed again).  The other five paths parse once and sign the object they
   validated.  So the parse step has two outputs: the key the strength check is applied to and the
   key that ends up in the certificate.  A key is (identity, description): two different keys may
   have the same description. *)
Definition pkey := (N * keydesc)%type.
Record parse_out := { validated : option pkey; signed : option pkey }.

Definition pipeline2 (p : parse_out) : outcome :=
  match validated p with
  | None => ClientError
  | Some kv => if validate (snd kv)
               then match signed p with Some ks => Signed (snd ks) | None => ServerError end
               else ClientError
  end.

Definition pkey_eqb (x y : pkey) : bool := fst x =? fst y.
(* the two parsers agree on which key the input holds *)
Definition agree (p : parse_out) : Prop := signed p = validated p.
Definition agreeb (p : parse_out) : bool :=
  match signed p, validated p with
  | Some s, Some v => pkey_eqb s v
  | None, None => true
  | _, _ => false
  end.

(* the six issuing paths *)
Inductive kpath := KSsh | KX509 | KKube | KRole | KRefresh | KAws.
Definition parses_twice (p : kpath) : bool := match p with KSsh => true | _ => false end.
(* [v] what the validator's parser delivers, [s] what the signer's second parser delivers (only
   consulted on a path that parses twice) *)
Definition pipeline_of (p : kpath) (v s : option pkey) : outcome :=
  pipeline2 {| validated := v; signed := if parses_twice p then s else v |}.

(* correspondence: (validated, certified, class) with a key as (identity, kind, a, b); identity 0 =
   a key outside the harness's table *)
Definition pkey_of (k : N * N * N * N) : pkey := let '(id, kind, a, b) := k in (id, desc_of kind a b).
Definition c10_file_bad (c : option (N * N * N * N) * option (N * N * N * N) * N) : bool :=
  let '(v, s, cls) := c in
  (* the certified key is only observable when a certificate came back *)
  match pipeline2 {| validated := option_map pkey_of v;
                     signed := if cls =? 0 then option_map pkey_of s else option_map pkey_of v |} with
  | Signed _ => negb (cls =? 0) && negb (cls =? 1)     (* Ed25519 without an Ed25519 CA: 422 *)
  | ClientError => negb (cls =? 1)
  | ServerError => true
  end.
Definition c10_agree_bad (c : option (N * N * N * N) * option (N * N * N * N) * N) : bool :=
  let '(v, s, cls) := c in
  (cls =? 0) && negb (agreeb {| validated := option_map pkey_of v; signed := option_map pkey_of s |}).

(* ---------------------------------------------------------------------------------------------
   The configuration dimension: the operator's key deny list (Config.DenyTrustData, fingerprints of
   the SSH wire form of a key).  A fingerprint exists only for keys that HAVE an SSH wire form:
   ssh.NewPublicKey refuses ECDSA P-224, X25519 and every unknown type - exactly the weak / unknown
   keys.  So a look-up has three results, and where in the pipeline it runs matters.
   [fp] = the fingerprint of the submitted key (an identity), None = the key has no SSH form. *)
Record kconfig := { deny_list : list N }.
Inductive deny_res := NotDenied | Denied | NoFingerprint.
(* the look-up as a helper on top of getKeyFingerprint does it: nothing to do for an empty list *)
Definition deny_lookup (cfg : kconfig) (fp : option N) : deny_res :=
  match deny_list cfg with
  | nil => NotDenied
  | l => match fp with
         | None => NoFingerprint
         | Some f => if existsb (N.eqb f) l then Denied else NotDenied
         end
  end.

(* The issuing pipeline under a configuration.  [consults]: whether this path looks at the deny list at
   all when it issues (the code as it stands only consults it when a certificate is PRESENTED; the bit
   is observed per path on every run).  The look-up runs AFTER the strength check, on the key that is
   about to be signed: a refused key never reaches it. *)
Definition pipeline_cfg (consults : bool) (cfg : kconfig) (p : kpath) (v s : option pkey) (fp : option N) : outcome :=
  match pipeline_of p v s with
  | Signed k =>
      if consults then
        match deny_lookup cfg fp with
        | NotDenied => Signed k
        | Denied => ClientError           (* 403 *)
        | NoFingerprint => ServerError    (* a strong key without an SSH form: cannot happen for RSA / P-256.. / Ed25519 *)
        end
      else Signed k
  | o => o
  end.

(* the other order: look-up first, failure of the fingerprint helper answered like an internal error *)
Definition pipeline_deny_first (cfg : kconfig) (p : kpath) (v s : option pkey) (fp : option N) : outcome :=
  match v with
  | None => ClientError
  | Some _ =>
      match deny_lookup cfg fp with
      | NoFingerprint => ServerError
      | Denied => ClientError
      | NotDenied => pipeline_of p v s
      end
  end.

(* correspondence: (path, parsed key as (kind, a, b) or None, fingerprint identity or None, deny list,
   consults bit of the path, observed class 0 issued / 1 client error / 2 other) *)
Definition kpath_of (n : N) : kpath :=
  if n =? 0 then KSsh else if n =? 1 then KX509 else if n =? 2 then KKube else if n =? 3 then KRole
  else if n =? 4 then KRefresh else KAws.
Definition cfg_case := (N * option (N * N * N) * option N * list N * bool * N)%type.
Definition cfg_model (c : cfg_case) : outcome :=
  let '(p, k, fp, dl, consults, _) := c in
  let v := option_map (fun d => let '(kind, a, b) := d in (1, desc_of kind a b)) k in
  pipeline_cfg consults {| deny_list := dl |} (kpath_of p) v v fp.
Definition c10_cfg_bad (c : cfg_case) : bool :=
  let '(_, _, _, _, _, cls) := c in
  match cfg_model c with
  | Signed _ => negb (cls =? 0) && negb (cls =? 1)     (* Ed25519 without an Ed25519 CA: 4xx *)
  | ClientError => negb (cls =? 1)
  | ServerError => negb (cls =? 2)
  end.
(* the property's own predicate on the observation: the submitted key is weak / unknown / unparsable and
   the answer is not a client error (a certificate, a 5xx, a panic) *)
Definition cfg_weak (c : cfg_case) : bool :=
  let '(_, k, _, _, _, _) := c in
  match k with None => true | Some (kind, a, b) => negb (validate (desc_of kind a b)) end.
Definition c10_cfg_violates (c : cfg_case) : bool :=
  let '(_, _, _, _, _, cls) := c in cfg_weak c && negb (cls =? 1).
