(* C10 — lib/certgen ValidatePublicKeyStrength (after the modulus-size fix) *)
From KM Require Import Base.Bytes.

Inductive curve := P224 | P256 | P384 | P521.
Definition curve_bits (c : curve) : N :=
  match c with P224 => 224 | P256 => 256 | P384 => 384 | P521 => 521 end.

Inductive keydesc :=
| RSA (modulus_bits exponent : N)
| ECDSA (c : curve)
| Ed25519
| OtherKey.          (* DSA, X25519, anything else the parsers can deliver *)

Definition validate (k : keydesc) : bool :=
  match k with
  | RSA bits e => negb (bits <? 2048) && negb (e <? 65537)
  | ECDSA c => negb (curve_bits c <? 255)
  | Ed25519 => true
  | OtherKey => false
  end.

(* before the fix the RSA test was on the size in bytes: ceil(bits/8) < 256 *)
Definition validate_old (k : keydesc) : bool :=
  match k with
  | RSA bits e => negb ((bits + 7) / 8 <? 256) && negb (e <? 65537)
  | other => validate other
  end.

(* every issuing pipeline: parse ; validate ; sign *)
Inductive outcome := Signed (k : keydesc) | ClientError | ServerError.
Definition pipeline (parsed : option keydesc) : outcome :=
  match parsed with
  | None => ClientError
  | Some k => if validate k then Signed k else ClientError
  end.

(* correspondence on the predicate: (kind, a, b, observed verdict) with
   kind 0 = RSA a=bits b=exponent, 1 = ECDSA a=curve bits, 2 = Ed25519, 3 = other *)
Definition desc_of (kind a b : N) : keydesc :=
  if kind =? 0 then RSA a b
  else if kind =? 1 then
    (if a =? 224 then ECDSA P224 else if a =? 256 then ECDSA P256
     else if a =? 384 then ECDSA P384 else if a =? 521 then ECDSA P521 else OtherKey)
  else if kind =? 2 then Ed25519 else OtherKey.
Definition c10_bad (c : N * N * N * bool) : bool :=
  let '(kind, a, b, obs) := c in negb (Bool.eqb (validate (desc_of kind a b)) obs).
