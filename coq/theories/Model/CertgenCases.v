(* C01 — the finite enumeration the correspondence check runs through the real handler:
   configuration index x credential shape x certificate type x HTTP method x sealed.
   The harness (harness/kmd/c01.go) builds the same tables in the same order and ships only the
   observed result classes; everything here is recomputed by Coq from the case index. *)
From Coq Require Import ZArith.
From KM Require Import Base.Bytes Model.Auth Model.Certgen.
From KM Require Model.Seal.
Open Scope N_scope.

(* ---- configurations: index < 512 = the subset of the nine proto strings with that bit mask,
   in the order of api.go; 512.. = lists that are not subsets (order, duplicates, unknown and
   near-miss strings) *)
Definition all_methods : list bs :=
  [sPassword; sFederated; sU2F; sVIP; sIPCert; sTOTP; sOkta; sBootstrap; sCLI].
Fixpoint subset_from (l : list bs) (i : N) (mask : N) : list bs :=
  match l with
  | [] => []
  | s :: r => (if N.testbit mask i then [s] else []) ++ subset_from r (i + 1) mask
  end.
Definition x_u2f : bs := [117;50;102].   (* "u2f" *)
Definition x_FIDO2 : bs := [70;73;68;79;50].   (* "FIDO2" *)
Definition x_Password : bs := [80;97;115;115;119;111;114;100].   (* "Password" *)
Definition x_password_sp : bs := [112;97;115;115;119;111;114;100;32].   (* "password " *)
Definition x_totp : bs := [116;111;116;112].   (* "totp" *)
Definition x_KMX509 : bs := [75;101;121;109;97;115;116;101;114;88;53;48;57].   (* "KeymasterX509" *)
Definition x_unknown : bs := [117;110;107;110;111;119;110].   (* "unknown" *)
Definition exotic_cfgs : list (list bs) :=
  [ rev all_methods;
    [sOkta; sTOTP];
    [sTOTP; sPassword];
    [sTOTP; sTOTP];
    [x_unknown; sTOTP];
    [sTOTP; x_unknown];
    [sIPCert; sTOTP];
    [sCLI; sVIP; sOkta];
    [x_u2f];
    [x_FIDO2];
    [x_Password];
    [x_password_sp];
    [x_totp];
    [x_KMX509];
    [[]];
    [sFederated; sBootstrap; x_unknown] ].
Definition n_cfgs : N := 512 + 16.
Definition cfg_of_index (i : N) : list bs :=
  if i <? 512 then subset_from all_methods 0 i
  else nth (N.to_nat (i - 512)) exotic_cfgs [].

(* ---- names: subject / target numbers used by the shapes *)
Definition n_alice : bs := [97;108;105;99;101].
Definition n_bob : bs := [98;111;98].
Definition n_svc : bs := [115;118;99;45;97;117;116;111;109;97;116;105;111;110].   (* "svc-automation" *)
Definition n_mallory : bs := [109;97;108;108;111;114;121].
Definition n_Alice : bs := [65;108;105;99;101].
Definition n_alice_slash : bs := [97;108;105;99;101;47].
Definition case_name (u : N) : bs :=
  if u =? 1 then n_alice else if u =? 2 then n_bob else if u =? 3 then n_svc
  else if u =? 4 then n_mallory else if u =? 5 then n_Alice else if u =? 6 then []
  else if u =? 7 then n_alice_slash else [63].

(* ---- the server's identity: HostIdentity of the harness configuration; the listen address is a
   dimension (index 0 = ":443", the issuer is then "https://keymaster.example"; 1 = ":8443") *)
Definition case_host : bs := [107;101;121;109;97;115;116;101;114;46;101;120;97;109;112;108;101].   (* "keymaster.example" *)
Definition s_port8443 : bs := [58;56;52;52;51].   (* ":8443" *)
Definition addr_of_index (a : N) : bs := if a =? 0 then s_port443 else s_port8443.
Definition case_issuer (a : N) : bs := s_https ++ case_host ++ (if a =? 0 then [] else s_port8443).
Definition iss0 : bs := case_issuer 0.
Definition other_issuer : bs := [104;116;116;112;115;58;47;47;111;116;104;101;114;46;101;120;97;109;112;108;101].   (* "https://other.example" *)

(* ---- credential shapes; times are relative to now = 0 *)
Definition tok (sub level : N) : wtoken :=
  {| w_signer_trusted := true; w_alg_allowed := true; w_tampered := false; w_iss := iss0;
     w_aud := [iss0]; w_kind := 0; w_nbf := (-100)%Z; w_exp := 3600%Z; w_iat := (-100)%Z;
     w_sub := sub; w_level := level |}.
Definition with_times (t : wtoken) (nbf exp : Z) : wtoken :=
  {| w_signer_trusted := w_signer_trusted t; w_alg_allowed := w_alg_allowed t; w_tampered := w_tampered t;
     w_iss := w_iss t; w_aud := w_aud t; w_kind := w_kind t; w_nbf := nbf; w_exp := exp;
     w_iat := w_iat t; w_sub := w_sub t; w_level := w_level t |}.
Definition with_claims (t : wtoken) (iss : bs) (aud : list bs) : wtoken :=
  {| w_signer_trusted := w_signer_trusted t; w_alg_allowed := w_alg_allowed t; w_tampered := w_tampered t;
     w_iss := iss; w_aud := aud; w_kind := w_kind t; w_nbf := w_nbf t; w_exp := w_exp t;
     w_iat := w_iat t; w_sub := w_sub t; w_level := w_level t |}.
(* signature side and kind; iss / aud: true = this server's issuer, false = some unrelated issuer *)
Definition with_flags (t : wtoken) (trusted alg tampered iss aud : bool) (kind : N) : wtoken :=
  {| w_signer_trusted := trusted; w_alg_allowed := alg; w_tampered := tampered;
     w_iss := if iss then w_iss t else other_issuer; w_aud := if aud then w_aud t else [other_issuer];
     w_kind := kind; w_nbf := w_nbf t; w_exp := w_exp t;
     w_iat := w_iat t; w_sub := w_sub t; w_level := w_level t |}.

(* what a request carries beside the certificate: (auth_cookie, Basic header) *)
Definition creds := (option wtoken * option basic)%type.
Definition NoCr : creds := (None, None).
Definition Ck (t : wtoken) : creds := (Some t, None).
Definition bas (u : N) (ok err : bool) : basic := {| b_user := u; b_ok := ok; b_err := err |}.
Definition Ba (u : N) (ok err : bool) : creds := (None, Some (bas u ok err)).
Definition CkBa (t : wtoken) (u : N) (ok err : bool) : creds := (Some t, Some (bas u ok err)).

Definition cert (chain2 : bool) (iss : issuer) (trusted : bool) (cn : N) (denied iperr ipvalid autom : bool) : tlsinfo :=
  {| c_chain2 := chain2; c_issuer := iss; c_issuer_key_trusted := trusted; c_cn := cn; c_denied := denied;
     c_not_before := (-50)%Z; c_ip_error := iperr; c_ip_valid := ipvalid; c_automation := autom;
     c_revoked := false |}.

Record shape := {
  h_origin : origin; h_tls : option tlsinfo; h_creds : creds; h_target : N; h_limiter_ok : bool;
  h_addr : N }.               (* index of the server's listen address *)
Definition sh (c : creds) (target : N) : shape :=
  {| h_origin := NoOrigin; h_tls := None; h_creds := c; h_target := target; h_limiter_ok := true; h_addr := 0 |}.
Definition sh_tls (c : tlsinfo) (cr : creds) (target : N) : shape :=
  {| h_origin := NoOrigin; h_tls := Some c; h_creds := cr; h_target := target; h_limiter_ok := true; h_addr := 0 |}.
Definition sh_origin (o : origin) (c : creds) (target : N) : shape :=
  {| h_origin := o; h_tls := None; h_creds := c; h_target := target; h_limiter_ok := true; h_addr := 0 |}.

(* addresses and netblocks of the IP-certificate shapes *)
Definition ipv4 (a b c d : N) : N := ((a * 256 + b) * 256 + c) * 256 + d.
Definition a_loopback : N := ipv4 127 0 0 1.
Definition a_inside : N := ipv4 10 9 8 7.
Definition a_outside : N := ipv4 192 168 1 1.
Definition a_elsewhere : N := ipv4 203 0 113 9.
Definition blocks10 : list (N * N) := [(ipv4 10 0 0 0, 8)].
Definition blocks127 : list (N * N) := [(ipv4 127 0 0 0, 8)].
Definition on_peer (a : N) : conn := {| n_peer := a; n_xff := []; n_xreal := None; n_forwarded := None |}.
Definition fwd (a : N) (xff : list N) (xreal forwarded : option N) : conn :=
  {| n_peer := a; n_xff := xff; n_xreal := xreal; n_forwarded := forwarded |}.
(* an automation certificate with these blocks presented on this connection *)
Definition ip_shape (iss : issuer) (blocks : list (N * N)) (cn : conn) (target : N) : shape :=
  sh_tls (with_ip_valid (cert true iss true 3 false false false true) (ip_valid (Some blocks) cn)) NoCr target.

Definition u2f_cookie (sub : N) : creds := Ck (tok sub bU2F).
Definition bad_token : wtoken := with_flags (tok 1 bU2F) false true false true true 0.
Definition bad_cookie : creds := Ck bad_token.

Definition shapes : list shape :=
  [ (* 0 *) sh NoCr 1;
    (* 1 *) sh (Ba 1 true false) 1;
    (* 2 *) sh (Ba 1 false false) 1;
    (* 3 *) sh (Ba 2 true false) 1;
    (* 4 submitted as "Alice", normalised by reprocessUsername *) sh (Ba 1 true false) 1;
    (* 5 limiter exhausted *)
      {| h_origin := NoOrigin; h_tls := None; h_creds := Ba 1 true false; h_target := 1; h_limiter_ok := false; h_addr := 0 |};
    (* 6..16 one factor bit each *)
    sh (Ck (tok 1 bPassword)) 1; sh (Ck (tok 1 bFederated)) 1; sh (Ck (tok 1 bU2F)) 1;
    sh (Ck (tok 1 bVIP)) 1; sh (Ck (tok 1 bIPCert)) 1; sh (Ck (tok 1 bTOTP)) 1;
    sh (Ck (tok 1 bOkta)) 1; sh (Ck (tok 1 bBootstrap)) 1; sh (Ck (tok 1 bKMX509)) 1;
    sh (Ck (tok 1 bCLI)) 1; sh (Ck (tok 1 bFIDO2)) 1;
    (* 17..24 pairs *)
    sh (Ck (tok 1 (N.lor bPassword bU2F))) 1; sh (Ck (tok 1 (N.lor bPassword bVIP))) 1;
    sh (Ck (tok 1 (N.lor bPassword bTOTP))) 1; sh (Ck (tok 1 (N.lor bPassword bOkta))) 1;
    sh (Ck (tok 1 (N.lor bPassword bBootstrap))) 1; sh (Ck (tok 1 (N.lor bPassword bFIDO2))) 1;
    sh (Ck (tok 1 (N.lor bFederated bTOTP))) 1; sh (Ck (tok 1 (N.lor bPassword bCLI))) 1;
    (* 25..29 all named bits, none, unnamed bit 0, bit 16 alone, bit 16 + U2F *)
    sh (Ck (tok 1 4094)) 1; sh (Ck (tok 1 0)) 1; sh (Ck (tok 1 1)) 1;
    sh (Ck (tok 1 65536)) 1; sh (Ck (tok 1 (65536 + 8))) 1;
    (* 30..33 expired 30 s / 1 h ago, not valid for another 30 s / 1 h *)
    sh (Ck (with_times (tok 1 bU2F) (-7200) (-30))) 1; sh (Ck (with_times (tok 1 bU2F) (-7200) (-3600))) 1;
    sh (Ck (with_times (tok 1 bU2F) 30 3600)) 1; sh (Ck (with_times (tok 1 bU2F) 3600 7200)) 1;
    (* 34..37 issuer / audience *)
    sh (Ck (with_claims (tok 1 bU2F) other_issuer [iss0])) 1;
    sh (Ck (with_claims (tok 1 bU2F) iss0 [other_issuer])) 1;
    sh (Ck (with_claims (tok 1 bU2F) iss0 [])) 1;
    sh (Ck (with_claims (tok 1 bU2F) iss0 [other_issuer; iss0])) 1;
    (* 38..40 other token kinds *)
    sh (Ck (with_flags (tok 1 bU2F) true true false true true 1)) 1;
    sh (Ck (with_flags (tok 1 bU2F) true true false true true 2)) 1;
    sh (Ck (with_flags (tok 1 bU2F) true true false true true 3)) 1;
    (* 41..46 foreign key, alg none, HS256 keyed with the public key, flipped signature,
       altered payload, garbage *)
    sh bad_cookie 1;
    sh (Ck (with_flags (tok 1 bU2F) false false false true true 0)) 1;
    sh (Ck (with_flags (tok 1 bU2F) false false false true true 0)) 1;
    sh (Ck (with_flags (tok 1 bU2F) true true true true true 0)) 1;
    sh (Ck (with_flags (tok 1 4094) true true true true true 0)) 1;
    sh (Ck (with_flags (tok 1 bU2F) false false true false false 3)) 1;
    (* 47..50 somebody else's name in the URL *)
    sh (u2f_cookie 2) 1; sh (u2f_cookie 1) 5; sh (u2f_cookie 1) 6; sh (u2f_cookie 1) 7;
    (* 51..55 keymaster-issued client certificates *)
    sh_tls (cert true MainCA true 1 false false false false) NoCr 1;
    sh_tls (cert false MainCA true 1 false false false false) NoCr 1;
    sh_tls (cert true OtherCA false 1 false false false false) NoCr 1;
    sh_tls (cert true MainCA true 1 true false false false) NoCr 1;
    sh_tls (cert true MainCA true 2 false false false false) NoCr 1;
    (* 56..60 IP-restricted automation certificates (role CA) *)
    sh_tls (cert true RoleCA true 3 false false true true) NoCr 3;
    sh_tls (cert true RoleCA true 3 false false false true) NoCr 3;
    sh_tls (cert true RoleCA true 3 false false false true) NoCr 3;
    sh_tls (cert true RoleCA true 4 false false true false) NoCr 4;
    sh_tls (cert true RoleCA true 3 false true false true) NoCr 3;
    (* 61..63 a client certificate and a cookie together: the certificate decides *)
    sh_tls (cert true RoleCA true 3 false false true true) (u2f_cookie 3) 3;
    sh_tls (cert true MainCA true 1 false false false false) (u2f_cookie 1) 1;
    sh_tls (cert true OtherCA false 1 false false false false) (u2f_cookie 1) 1;
    (* 64..65 address extension in a certificate signed by the main CA *)
    sh_tls (cert true MainCA true 3 false false true true) NoCr 3;
    sh_tls (cert true MainCA true 3 false false false true) NoCr 3;
    (* 66..70 Origin / Referer *)
    sh_origin CrossOrigin (u2f_cookie 1) 1; sh_origin SameOrigin (u2f_cookie 1) 1;
    sh_origin BadOrigin (u2f_cookie 1) 1; sh_origin SameOrigin (u2f_cookie 1) 1;
    sh_origin CrossOrigin (u2f_cookie 1) 1;
    (* 71..73 two cookies (the last one counts), cookie next to basic auth (the cookie counts) *)
    sh bad_cookie 1; sh (u2f_cookie 1) 1; sh (CkBa bad_token 1 true false) 1;
    (* 74..82 the client address of an IP-restricted certificate is the TCP peer, whatever the
       forwarding headers claim: loopback / outside / inside peers x X-Forwarded-For / X-Real-Ip /
       Forwarded naming an address inside or outside the blocks *)
    ip_shape RoleCA blocks10 (on_peer a_loopback) 3;
    ip_shape RoleCA blocks10 (fwd a_loopback [a_inside] None None) 3;
    ip_shape RoleCA blocks10 (fwd a_loopback [] (Some a_inside) None) 3;
    ip_shape RoleCA blocks10 (fwd a_loopback [a_inside; a_elsewhere] (Some a_inside) None) 3;
    ip_shape RoleCA blocks10 (fwd a_outside [a_inside] (Some a_inside) None) 3;
    ip_shape RoleCA blocks10 (fwd a_inside [a_outside] (Some a_outside) None) 3;
    ip_shape RoleCA blocks10 (fwd a_loopback [] None (Some a_inside)) 3;
    ip_shape MainCA blocks10 (fwd a_loopback [a_inside] (Some a_inside) None) 3;
    ip_shape RoleCA blocks127 (fwd a_loopback [a_outside] (Some a_outside) None) 3 ].
Definition n_shapes : N := Eval vm_compute in N.of_nat (length shapes).
Definition default_shape : shape := sh NoCr 1.

(* 0 ssh, 1 x509, 2 x509-kubernetes, 3 bogus, 4 ssh with an ssh-ed25519 user key *)
Definition type_of_index (i : N) : certtype :=
  if (i =? 0) || (i =? 4) then TSsh else if i =? 1 then TX509 else if i =? 2 then TKube else TBogus.
Definition ed_key_of_index (i : N) : bool := i =? 4.
Definition method_of_index (i : N) : hmethod :=
  if i =? 0 then HPost else if i =? 1 then HGet else HOther.

(* ---- which signers are loaded: 0 main signer only (unsealed), 1 nothing (sealed), 2 main and
   Ed25519 signer (unsealed), 3 Ed25519 signer only (sealed: the main signer is what unseals).
   The states are those of the sealing model: a configuration with / without an Ed25519 file whose
   own main key is listed in keymaster_public_keys_filename, freshly loaded, after the right
   passphrase, or half-loaded. *)
Definition key_pass : bs := [112].
Definition key_cfg (with_ed : bool) : Seal.cfg :=
  {| Seal.right_pass := key_pass; Seal.main_key := 1; Seal.main_res := Seal.FGood; Seal.role_ok := true;
     Seal.ed_file := if with_ed then Some (key_pass, 2, Seal.FGood) else None; Seal.extra_pubkeys := [1] |}.
Definition case_keys (ks : N) : Seal.state :=
  if ks =? 0 then fst (Seal.unseal_ca (key_cfg false) (Seal.sealed_init (key_cfg false)) key_pass)
  else if ks =? 2 then fst (Seal.unseal_ca (key_cfg true) (Seal.sealed_init (key_cfg true)) key_pass)
  else if ks =? 3 then Seal.half_loaded (key_cfg true)
  else Seal.sealed_init (key_cfg false).

(* the server of the enumeration: no extension templates, no realm, no directory *)
Definition case_server_at (ks : N) (cfg : list bs) (addr : N) : server :=
  {| s_keys := case_keys ks; s_cfg := cfg; s_name := case_name; s_host := case_host; s_addr := addr_of_index addr;
     s_templates := []; s_realm := None;
     s_groups := fun _ => Some []; s_methods := fun _ => Some [] |}.
Definition case_server_ks (ks : N) (cfg : list bs) : server := case_server_at ks cfg 0.
Definition case_server (sealed : bool) (cfg : list bs) : server := case_server_ks (if sealed then 1 else 0) cfg.

Definition case_req (s : shape) (ty m : N) : certreq :=
  {| q_method := method_of_index m; q_origin := h_origin s; q_tls := h_tls s;
     q_cookie := fst (h_creds s); q_basic := snd (h_creds s);
     q_target := case_name (h_target s); q_type := type_of_index ty; q_form_ok := true;
     q_key := Some (0, ed_key_of_index ty); q_add_groups := false |}.

(* observable class of a response: 0 = an error status and no certificate, 1 = neither an error
   nor a certificate, 2 + 4*user + kind = a certificate (kind 0 SSH, 1 X.509) naming that user *)
Definition class_of (o : outcome) : N :=
  match o with
  | Refused c => if 400 <=? c then 0 else 1
  | Issued u d => 2 + 4 * u + (if d_ssh d then 0 else 1)
  end.

Definition no_expand (t u : bs) : option bs := Some t.

(* the last argument is the key state (0 / 1 = the unsealed / sealed server of the basic enumeration) *)
Definition outcome_of (s : shape) (cfg ty m ks : N) : outcome :=
  certgen no_expand (case_server_at ks (cfg_of_index cfg) (h_addr s)) 0%Z (h_limiter_ok s) (case_req s ty m).
Definition run_case (cfg shp ty m ks : N) : N :=
  class_of (outcome_of (nth (N.to_nat shp) shapes default_shape) cfg ty m ks).

(* ---- enumeration orders.
   full: index = (((cfg * n_shapes + shape) * 4 + type) * 3 + method) * 2 + sealed
   quick: block A = cfg * n_shapes + shape at (ssh, POST, unsealed) for every cfg and shape;
          block B = for the other 23 (type, method, sealed) combinations, every shape under the
          eight configurations quick_cfgs *)
(* block C of both tiers, the signer-state dimension: (key state, type) combinations beyond the basic
   product, POST: both signers loaded and only the Ed25519 signer loaded x {ssh with an ECDSA user
   key, ssh with an Ed25519 user key, x509}, and the Ed25519 user key on the two basic states *)
Definition ks_combos : list (N * N) := [(2, 0); (2, 4); (2, 1); (3, 0); (3, 4); (3, 1); (0, 4); (1, 4)].
Definition n_ks_combos : N := 8.
Definition coords := (N * N * N * N * N)%type.       (* configuration, shape, type, method, key state *)
Definition ks_coords (cfg shp combo : N) : coords :=
  let '(ks, ty) := nth (N.to_nat combo) ks_combos (0, 0) in (cfg, shp, ty, 0, ks).
Definition run_coords (c : coords) : N := let '(cfg, shp, ty, m, ks) := c in run_case cfg shp ty m ks.
Definition ks_case (cfg shp combo : N) : N := run_coords (ks_coords cfg shp combo).

Definition full_a_total : N := n_cfgs * n_shapes * 24.
Definition full_total : N := full_a_total + n_cfgs * n_shapes * n_ks_combos.
Definition full_coords (i : N) : coords :=
  if i <? full_a_total then
    let sealed := i mod 2 in let i := i / 2 in
    let m := i mod 3 in let i := i / 3 in
    let ty := i mod 4 in let i := i / 4 in
    let shp := i mod n_shapes in let cfg := i / n_shapes in
    (cfg, shp, ty, m, sealed)
  else
    let j := i - full_a_total in
    let combo := j mod n_ks_combos in let j := j / n_ks_combos in
    ks_coords (j / n_shapes) (j mod n_shapes) combo.
Definition full_case (i : N) : N := run_coords (full_coords i).

Definition quick_cfgs : list N := [0; 1; 4; 32; 96; 511; 513; 526].
Definition quick_a_total : N := n_cfgs * n_shapes.
Definition quick_b_total : N := 23 * 8 * n_shapes.
Definition quick_c_cfgs : list N := [1; 4; 511].
Definition quick_c_total : N := n_ks_combos * 3 * n_shapes.
Definition quick_total : N := quick_a_total + quick_b_total + quick_c_total.
Definition quick_coords (i : N) : coords :=
  if i <? quick_a_total then (i / n_shapes, i mod n_shapes, 0, 0, 0)
  else if quick_a_total + quick_b_total <=? i then
    let j := i - (quick_a_total + quick_b_total) in
    let shp := j mod n_shapes in let j := j / n_shapes in
    let c := j mod 3 in let combo := j / 3 in
    ks_coords (nth (N.to_nat c) quick_c_cfgs 0) shp combo
  else
    let j := i - quick_a_total in
    let shp := j mod n_shapes in let j := j / n_shapes in
    let c := j mod 8 in let combo := j / 8 + 1 in      (* combo 1..23; 0 is (ssh, POST, unsealed) *)
    let sealed := combo mod 2 in let m := (combo / 2) mod 3 in let ty := combo / 6 in
    (nth (N.to_nat c) quick_cfgs 0, shp, ty, m, sealed).
Definition quick_case (i : N) : N := run_coords (quick_coords i).

(* indices (from `start`) of the cases whose observed class differs from the model's *)
Fixpoint diff_from (f : N -> N) (obs : list N) (i : N) : list N :=
  match obs with
  | [] => []
  | o :: r => if f i =? o then diff_from f r (i + 1) else i :: diff_from f r (i + 1)
  end.

(* ---- block D: COMBINED credentials.  Every client-certificate kind x every state of the session
   cookie (valid at each factor level, expired, not yet valid, foreign issuer / audience, other kind,
   foreign key, unsigned, altered, no token at all) for the certificate's own user x Basic header
   {absent, good, wrong password}, and every cookie state for ANOTHER user; then the issuer /
   audience near-miss family (below) without a certificate.  At (ssh, POST, main signer). *)
Definition x_levels : list N :=
  [bPassword; bFederated; bU2F; bVIP; bIPCert; bTOTP; bOkta; bBootstrap; bKMX509; bCLI; bFIDO2].
Definition x_cookie_states (u : N) : list wtoken :=
  map (tok u) x_levels ++
  [ with_times (tok u bU2F) (-7200) (-30); with_times (tok u bU2F) (-7200) (-3600);
    with_times (tok u bTOTP) (-7200) (-30); with_times (tok u 4094) (-7200) (-3600);
    with_times (tok u bU2F) 30 3600; with_times (tok u bU2F) 3600 7200;
    with_times (tok u bU2F) (-100) (-1700000000);              (* no exp claim: expired in 1970 *)
    with_times (tok u bU2F) (-1700000000) 3600;                (* no nbf claim: valid *)
    with_times (tok u bTOTP) (-100) 2300000000;                (* expires in 2100: valid *)
    with_claims (tok u bU2F) other_issuer [iss0]; with_claims (tok u bU2F) iss0 [other_issuer];
    with_claims (tok u bU2F) iss0 []; with_claims (tok u bU2F) iss0 [other_issuer; iss0];
    with_flags (tok u bU2F) true true false true true 1; with_flags (tok u bU2F) true true false true true 2;
    with_flags (tok u bU2F) true true false true true 3;
    with_flags (tok u bU2F) false true false true true 0;      (* signed by a foreign key *)
    with_flags (tok u bU2F) false false false true true 0;     (* alg none *)
    with_flags (tok u bU2F) true true true true true 0;        (* signature bit flipped *)
    with_flags (tok u bU2F) false false true false false 3 ].  (* no token at all *)
(* (certificate, the URL name of the request = the user of the cookie that comes with it) *)
Definition x_certs : list (option tlsinfo * N) :=
  [ (None, 1);
    (Some (cert true MainCA true 1 false false false false), 1);    (* keymaster certificate of alice *)
    (Some (cert true RoleCA true 3 false false true true), 3);      (* automation certificate, peer inside *)
    (Some (cert true MainCA true 3 false false true true), 3);      (* address extension under the main CA, inside *)
    (Some (cert true MainCA true 3 false false false true), 3);     (* the same from outside: a keymaster certificate only *)
    (Some (cert true OtherCA false 1 false false false false), 1);  (* certificate of another client CA *)
    (Some (cert true RoleCA true 3 false false false true), 3);     (* automation certificate, peer outside *)
    (Some (cert true MainCA true 1 true false false false), 1);     (* keymaster certificate, key on the deny list *)
    (* certificates whose common name is the empty string (subject 6), requests for alice *)
    (Some (cert true MainCA true 6 false false false false), 1);    (* signed by the main CA: no identity, 403 *)
    (Some (cert true RoleCA true 6 false false true true), 1);      (* role CA, peer inside, "" listed as automation user: on to the cookie *)
    (Some (cert true MainCA true 6 false false true true), 1) ].    (* main CA with address extension, inside: on to the cookie *)
Definition x_basics : list (option basic) := [None; Some (bas 1 true false); Some (bas 1 false false)].
Definition x_other_user : N := 2.
Definition x_combo (c : option tlsinfo * N) : list shape :=
  let '(tl, u) := c in
  let mk (b : option basic) (ck : option wtoken) :=
    {| h_origin := NoOrigin; h_tls := tl; h_creds := (ck, b); h_target := u; h_limiter_ok := true; h_addr := 0 |} in
  flat_map (fun b => map (mk b) (None :: map Some (x_cookie_states u))) x_basics ++
  map (fun t => mk None (Some t)) (x_cookie_states x_other_user).

(* the near-miss family of an issuer string I: every string that is almost, but not, I *)
Definition upper_byte (c : N) : N := if (97 <=? c) && (c <=? 122) then c - 32 else c.
Definition near_misses (a : N) : list bs :=
  let I := case_issuer a in
  [ removelast I;                                  (* proper prefix: the last byte cut *)
    firstn 12 I;                                   (* proper prefix: "https://keym" *)
    I ++ [48];                                     (* extended by a digit *)
    I ++ [58;49];                                  (* ":1" appended: another port *)
    I ++ [46;97;117];                              (* ".au": another label *)
    I ++ [101;118;105;108];                        (* "evil": longer host name *)
    I ++ [47];                                     (* trailing slash *)
    I ++ [47;120];                                 (* a path *)
    I ++ [46];                                     (* trailing dot *)
    map upper_byte I;                              (* upper case *)
    s_https ++ map upper_byte (skipn 8 I);         (* host in upper case *)
    [104;116;116;112;58;47;47] ++ skipn 8 I;       (* scheme http *)
    32 :: I;                                       (* leading blank *)
    I ++ [32];                                     (* trailing blank *)
    [];                                            (* empty *)
    skipn 8 I;                                     (* no scheme *)
    other_issuer;                                  (* unrelated *)
    case_issuer (1 - a);                           (* the same host at the other listen address *)
    removelast I ++ [102] ].                       (* last byte replaced *)
Definition x_family (a : N) : list shape :=
  let I := case_issuer a in
  let mk (iss : bs) (aud : list bs) :=
    {| h_origin := NoOrigin; h_tls := None; h_creds := (Some (with_claims (tok 1 bU2F) iss aud), None);
       h_target := 1; h_limiter_ok := true; h_addr := a |} in
  mk I [I] ::
  flat_map (fun m => [mk m [I]; mk I [m]; mk m [m]; mk I [m; I]; mk I [I; m]]) (near_misses a).
Definition xshapes : list shape := Eval vm_compute in (flat_map x_combo x_certs ++ flat_map x_family [0; 1]).
Definition n_xshapes : N := Eval vm_compute in N.of_nat (length xshapes).
Definition quick_d_cfgs : list N := [0; 1; 16; 36].
(* thorough: every eighth subset and the sixteen other lists *)
Definition full_d_cfgs : list N := Eval vm_compute in (map (fun i => 8 * i + 4) (map N.of_nat (seq 0 64)) ++ map (fun i => 512 + i) (map N.of_nat (seq 0 16))).
Definition x_cases (cfgs : list N) : list (N * shape) := flat_map (fun cfg => map (pair cfg) xshapes) cfgs.
Definition run_xcase (c : N * shape) : N := class_of (outcome_of (snd c) (fst c) 0 0 0).

(* ---- the property's own predicate, as a decision procedure: does the request entitle user u to a
   certificate - unsealed server, POST, the URL names u, and some credential the request carries
   validly establishes u at a level the operator's list accepts?  (Proofs/Certgen.v entitled_iff:
   this decides the specification of Proofs/CertgenSpec.v.) *)
Definition valid_session_b (issuer : bs) (now : Z) (w : wtoken) : bool :=
  w_signer_trusted w && w_alg_allowed w && negb (w_tampered w) && bs_eqb (w_iss w) issuer &&
  aud0_is (w_aud w) issuer && (w_kind w =? 0) && (w_nbf w <=? now)%Z && (now <=? w_exp w)%Z.
Definition keymaster_cert_b (c : tlsinfo) : bool :=
  c_chain2 c && negb (match c_issuer c with RoleCA => true | _ => false end) && c_issuer_key_trusted c && negb (c_denied c).
Definition ip_cert_ok_b (c : tlsinfo) : bool :=
  negb (c_ip_error c) && c_ip_valid c && c_automation c && negb (c_revoked c).
Definition proved_levels (st : server) (now : Z) (q : certreq) (u : N) : list N :=
  match q_cookie q with
  | Some w => if valid_session_b (issuer_of st) now w && (w_sub w =? u) then [w_level w] else []
  | None => []
  end ++
  match q_basic q with
  | Some b => if b_ok b && negb (b_err b) && (b_user b =? u) then [bPassword] else []
  | None => []
  end ++
  match q_tls q with
  | Some c => if (c_cn c =? u) && negb (bs_eqb (s_name st u) []) then
                (if keymaster_cert_b c then [bKMX509] else []) ++ (if ip_cert_ok_b c then [bIPCert] else []) ++
                (if keymaster_cert_b c && ip_cert_ok_b c then [N.lor bKMX509 bIPCert] else [])
              else []
  | None => []
  end.
Definition entitled (st : server) (now : Z) (q : certreq) (u : N) : bool :=
  negb (s_sealed st) && match q_method q with HPost => true | _ => false end &&
  bs_eqb (q_target q) (s_name st u) && existsb (sufficient (s_cfg st)) (proved_levels st now q u).

(* the property evaluated on an OBSERVED class: 1 = a certificate for somebody the request does not
   entitle, 2 = neither an error nor a certificate, 0 = the observation satisfies the property *)
Definition obs_violation (st : server) (q : certreq) (o : N) : N :=
  if o =? 1 then 2
  else if 2 <=? o then (if entitled st 0%Z q ((o - 2) / 4) then 0 else 1)
  else 0.
Definition coords_violation (c : coords) (o : N) : N :=
  let '(cfg, shp, ty, m, ks) := c in
  let s := nth (N.to_nat shp) shapes default_shape in
  obs_violation (case_server_at ks (cfg_of_index cfg) (h_addr s)) (case_req s ty m) o.
(* one pass over the observed classes: (index, violation class) of every case whose observed class
   differs from the model's; class 0 = the observation still satisfies the property *)
Fixpoint diffv_from (cf : N -> coords) (obs : list N) (i : N) : list (N * N) :=
  match obs with
  | [] => []
  | o :: r => if run_coords (cf i) =? o then diffv_from cf r (i + 1)
              else (i, coords_violation (cf i) o) :: diffv_from cf r (i + 1)
  end.
Fixpoint xdiffv_from (cs : list (N * shape)) (obs : list N) (i : N) : list (N * N) :=
  match cs, obs with
  | c :: cr, o :: r =>
      if run_xcase c =? o then xdiffv_from cr r (i + 1)
      else let s := snd c in
           (i, obs_violation (case_server_at 0 (cfg_of_index (fst c)) (h_addr s)) (case_req s 0 0) o) :: xdiffv_from cr r (i + 1)
  | _, _ => []
  end.
Definition violating (l : list (N * N)) : list (N * N) := filter (fun p => negb (snd p =? 0)) l.
