(* C01 — the finite enumeration the correspondence check runs through the real handler:
   configuration index x credential shape x certificate type x HTTP method x sealed.
   The harness (harness/kmd/c01.go) builds the same tables in the same order and ships only the
   observed result classes; everything here is recomputed by Coq from the case index. *)
From Coq Require Import ZArith.
From KM Require Import Base.Bytes Model.Auth Model.Certgen.
From KM Require Model.Seal.
Open Scope N_scope.

(* ---- configurations: index < 512 = the subset of the nine proto strings with that bit mask,
   in the order of api.go; 512.. = lists that are not subsets (order, duplicates, unknown and
   near-miss strings) *)
Definition all_methods : list bs :=
  [sPassword; sFederated; sU2F; sVIP; sIPCert; sTOTP; sOkta; sBootstrap; sCLI].
Fixpoint subset_from (l : list bs) (i : N) (mask : N) : list bs :=
  match l with
  | [] => []
  | s :: r => (if N.testbit mask i then [s] else []) ++ subset_from r (i + 1) mask
  end.
Definition x_u2f : bs := [117;50;102].   (* "u2f" *)
Definition x_FIDO2 : bs := [70;73;68;79;50].   (* "FIDO2" *)
Definition x_Password : bs := [80;97;115;115;119;111;114;100].   (* "Password" *)
Definition x_password_sp : bs := [112;97;115;115;119;111;114;100;32].   (* "password " *)
Definition x_totp : bs := [116;111;116;112].   (* "totp" *)
Definition x_KMX509 : bs := [75;101;121;109;97;115;116;101;114;88;53;48;57].   (* "KeymasterX509" *)
Definition x_unknown : bs := [117;110;107;110;111;119;110].   (* "unknown" *)
Definition exotic_cfgs : list (list bs) :=
  [ rev all_methods;
    [sOkta; sTOTP];
    [sTOTP; sPassword];
    [sTOTP; sTOTP];
    [x_unknown; sTOTP];
    [sTOTP; x_unknown];
    [sIPCert; sTOTP];
    [sCLI; sVIP; sOkta];
    [x_u2f];
    [x_FIDO2];
    [x_Password];
    [x_password_sp];
    [x_totp];
    [x_KMX509];
    [[]];
    [sFederated; sBootstrap; x_unknown] ].
Definition n_cfgs : N := 512 + 16.
Definition cfg_of_index (i : N) : list bs :=
  if i <? 512 then subset_from all_methods 0 i
  else nth (N.to_nat (i - 512)) exotic_cfgs [].

(* ---- names: subject / target numbers used by the shapes *)
Definition n_alice : bs := [97;108;105;99;101].
Definition n_bob : bs := [98;111;98].
Definition n_svc : bs := [115;118;99;45;97;117;116;111;109;97;116;105;111;110].   (* "svc-automation" *)
Definition n_mallory : bs := [109;97;108;108;111;114;121].
Definition n_Alice : bs := [65;108;105;99;101].
Definition n_alice_slash : bs := [97;108;105;99;101;47].
Definition case_name (u : N) : bs :=
  if u =? 1 then n_alice else if u =? 2 then n_bob else if u =? 3 then n_svc
  else if u =? 4 then n_mallory else if u =? 5 then n_Alice else if u =? 6 then []
  else if u =? 7 then n_alice_slash else [63].

(* ---- credential shapes; times are relative to now = 0 *)
Definition tok (sub level : N) : token :=
  {| t_signer_trusted := true; t_alg_allowed := true; t_tampered := false; t_iss_ok := true;
     t_aud_ok := true; t_kind := 0; t_nbf := (-100)%Z; t_exp := 3600%Z; t_iat := (-100)%Z;
     t_sub := sub; t_level := level |}.
Definition with_times (t : token) (nbf exp : Z) : token :=
  {| t_signer_trusted := t_signer_trusted t; t_alg_allowed := t_alg_allowed t; t_tampered := t_tampered t;
     t_iss_ok := t_iss_ok t; t_aud_ok := t_aud_ok t; t_kind := t_kind t; t_nbf := nbf; t_exp := exp;
     t_iat := t_iat t; t_sub := t_sub t; t_level := t_level t |}.
Definition with_flags (t : token) (trusted alg tampered iss aud : bool) (kind : N) : token :=
  {| t_signer_trusted := trusted; t_alg_allowed := alg; t_tampered := tampered;
     t_iss_ok := iss; t_aud_ok := aud; t_kind := kind; t_nbf := t_nbf t; t_exp := t_exp t;
     t_iat := t_iat t; t_sub := t_sub t; t_level := t_level t |}.

Definition cert (chain2 : bool) (iss : issuer) (trusted : bool) (cn : N) (denied iperr ipvalid autom : bool) : tlsinfo :=
  {| c_chain2 := chain2; c_issuer := iss; c_issuer_key_trusted := trusted; c_cn := cn; c_denied := denied;
     c_not_before := (-50)%Z; c_ip_error := iperr; c_ip_valid := ipvalid; c_automation := autom;
     c_revoked := false |}.

Record shape := {
  h_origin : origin; h_tls : option tlsinfo; h_cred : cred; h_target : N; h_limiter_ok : bool }.
Definition sh (c : cred) (target : N) : shape :=
  {| h_origin := NoOrigin; h_tls := None; h_cred := c; h_target := target; h_limiter_ok := true |}.
Definition sh_tls (c : tlsinfo) (cr : cred) (target : N) : shape :=
  {| h_origin := NoOrigin; h_tls := Some c; h_cred := cr; h_target := target; h_limiter_ok := true |}.
Definition sh_origin (o : origin) (c : cred) (target : N) : shape :=
  {| h_origin := o; h_tls := None; h_cred := c; h_target := target; h_limiter_ok := true |}.

(* addresses and netblocks of the IP-certificate shapes *)
Definition ipv4 (a b c d : N) : N := ((a * 256 + b) * 256 + c) * 256 + d.
Definition a_loopback : N := ipv4 127 0 0 1.
Definition a_inside : N := ipv4 10 9 8 7.
Definition a_outside : N := ipv4 192 168 1 1.
Definition a_elsewhere : N := ipv4 203 0 113 9.
Definition blocks10 : list (N * N) := [(ipv4 10 0 0 0, 8)].
Definition blocks127 : list (N * N) := [(ipv4 127 0 0 0, 8)].
Definition on_peer (a : N) : conn := {| n_peer := a; n_xff := []; n_xreal := None; n_forwarded := None |}.
Definition fwd (a : N) (xff : list N) (xreal forwarded : option N) : conn :=
  {| n_peer := a; n_xff := xff; n_xreal := xreal; n_forwarded := forwarded |}.
(* an automation certificate with these blocks presented on this connection *)
Definition ip_shape (iss : issuer) (blocks : list (N * N)) (cn : conn) (target : N) : shape :=
  sh_tls (with_ip_valid (cert true iss true 3 false false false true) (ip_valid (Some blocks) cn)) NoCred target.

Definition u2f_cookie (sub : N) : cred := Cookie (tok sub bU2F).
Definition bad_cookie : cred := Cookie (with_flags (tok 1 bU2F) false true false true true 0).

Definition shapes : list shape :=
  [ (* 0 *) sh NoCred 1;
    (* 1 *) sh (Basic 1 true false) 1;
    (* 2 *) sh (Basic 1 false false) 1;
    (* 3 *) sh (Basic 2 true false) 1;
    (* 4 submitted as "Alice", normalised by reprocessUsername *) sh (Basic 1 true false) 1;
    (* 5 limiter exhausted *)
      {| h_origin := NoOrigin; h_tls := None; h_cred := Basic 1 true false; h_target := 1; h_limiter_ok := false |};
    (* 6..16 one factor bit each *)
    sh (Cookie (tok 1 bPassword)) 1; sh (Cookie (tok 1 bFederated)) 1; sh (Cookie (tok 1 bU2F)) 1;
    sh (Cookie (tok 1 bVIP)) 1; sh (Cookie (tok 1 bIPCert)) 1; sh (Cookie (tok 1 bTOTP)) 1;
    sh (Cookie (tok 1 bOkta)) 1; sh (Cookie (tok 1 bBootstrap)) 1; sh (Cookie (tok 1 bKMX509)) 1;
    sh (Cookie (tok 1 bCLI)) 1; sh (Cookie (tok 1 bFIDO2)) 1;
    (* 17..24 pairs *)
    sh (Cookie (tok 1 (N.lor bPassword bU2F))) 1; sh (Cookie (tok 1 (N.lor bPassword bVIP))) 1;
    sh (Cookie (tok 1 (N.lor bPassword bTOTP))) 1; sh (Cookie (tok 1 (N.lor bPassword bOkta))) 1;
    sh (Cookie (tok 1 (N.lor bPassword bBootstrap))) 1; sh (Cookie (tok 1 (N.lor bPassword bFIDO2))) 1;
    sh (Cookie (tok 1 (N.lor bFederated bTOTP))) 1; sh (Cookie (tok 1 (N.lor bPassword bCLI))) 1;
    (* 25..29 all named bits, none, unnamed bit 0, bit 16 alone, bit 16 + U2F *)
    sh (Cookie (tok 1 4094)) 1; sh (Cookie (tok 1 0)) 1; sh (Cookie (tok 1 1)) 1;
    sh (Cookie (tok 1 65536)) 1; sh (Cookie (tok 1 (65536 + 8))) 1;
    (* 30..33 expired 30 s / 1 h ago, not valid for another 30 s / 1 h *)
    sh (Cookie (with_times (tok 1 bU2F) (-7200) (-30))) 1; sh (Cookie (with_times (tok 1 bU2F) (-7200) (-3600))) 1;
    sh (Cookie (with_times (tok 1 bU2F) 30 3600)) 1; sh (Cookie (with_times (tok 1 bU2F) 3600 7200)) 1;
    (* 34..37 issuer / audience *)
    sh (Cookie (with_flags (tok 1 bU2F) true true false false true 0)) 1;
    sh (Cookie (with_flags (tok 1 bU2F) true true false true false 0)) 1;
    sh (Cookie (with_flags (tok 1 bU2F) true true false true false 0)) 1;
    sh (Cookie (with_flags (tok 1 bU2F) true true false true false 0)) 1;
    (* 38..40 other token kinds *)
    sh (Cookie (with_flags (tok 1 bU2F) true true false true true 1)) 1;
    sh (Cookie (with_flags (tok 1 bU2F) true true false true true 2)) 1;
    sh (Cookie (with_flags (tok 1 bU2F) true true false true true 3)) 1;
    (* 41..46 foreign key, alg none, HS256 keyed with the public key, flipped signature,
       altered payload, garbage *)
    sh bad_cookie 1;
    sh (Cookie (with_flags (tok 1 bU2F) false false false true true 0)) 1;
    sh (Cookie (with_flags (tok 1 bU2F) false false false true true 0)) 1;
    sh (Cookie (with_flags (tok 1 bU2F) true true true true true 0)) 1;
    sh (Cookie (with_flags (tok 1 4094) true true true true true 0)) 1;
    sh (Cookie (with_flags (tok 1 bU2F) false false true false false 3)) 1;
    (* 47..50 somebody else's name in the URL *)
    sh (u2f_cookie 2) 1; sh (u2f_cookie 1) 5; sh (u2f_cookie 1) 6; sh (u2f_cookie 1) 7;
    (* 51..55 keymaster-issued client certificates *)
    sh_tls (cert true MainCA true 1 false false false false) NoCred 1;
    sh_tls (cert false MainCA true 1 false false false false) NoCred 1;
    sh_tls (cert true OtherCA false 1 false false false false) NoCred 1;
    sh_tls (cert true MainCA true 1 true false false false) NoCred 1;
    sh_tls (cert true MainCA true 2 false false false false) NoCred 1;
    (* 56..60 IP-restricted automation certificates (role CA) *)
    sh_tls (cert true RoleCA true 3 false false true true) NoCred 3;
    sh_tls (cert true RoleCA true 3 false false false true) NoCred 3;
    sh_tls (cert true RoleCA true 3 false false false true) NoCred 3;
    sh_tls (cert true RoleCA true 4 false false true false) NoCred 4;
    sh_tls (cert true RoleCA true 3 false true false true) NoCred 3;
    (* 61..63 a client certificate and a cookie together: the certificate decides *)
    sh_tls (cert true RoleCA true 3 false false true true) (u2f_cookie 3) 3;
    sh_tls (cert true MainCA true 1 false false false false) (u2f_cookie 1) 1;
    sh_tls (cert true OtherCA false 1 false false false false) (u2f_cookie 1) 1;
    (* 64..65 address extension in a certificate signed by the main CA *)
    sh_tls (cert true MainCA true 3 false false true true) NoCred 3;
    sh_tls (cert true MainCA true 3 false false false true) NoCred 3;
    (* 66..70 Origin / Referer *)
    sh_origin CrossOrigin (u2f_cookie 1) 1; sh_origin SameOrigin (u2f_cookie 1) 1;
    sh_origin BadOrigin (u2f_cookie 1) 1; sh_origin SameOrigin (u2f_cookie 1) 1;
    sh_origin CrossOrigin (u2f_cookie 1) 1;
    (* 71..73 two cookies (the last one counts), cookie next to basic auth (the cookie counts) *)
    sh bad_cookie 1; sh (u2f_cookie 1) 1; sh bad_cookie 1;
    (* 74..82 the client address of an IP-restricted certificate is the TCP peer, whatever the
       forwarding headers claim: loopback / outside / inside peers x X-Forwarded-For / X-Real-Ip /
       Forwarded naming an address inside or outside the blocks *)
    ip_shape RoleCA blocks10 (on_peer a_loopback) 3;
    ip_shape RoleCA blocks10 (fwd a_loopback [a_inside] None None) 3;
    ip_shape RoleCA blocks10 (fwd a_loopback [] (Some a_inside) None) 3;
    ip_shape RoleCA blocks10 (fwd a_loopback [a_inside; a_elsewhere] (Some a_inside) None) 3;
    ip_shape RoleCA blocks10 (fwd a_outside [a_inside] (Some a_inside) None) 3;
    ip_shape RoleCA blocks10 (fwd a_inside [a_outside] (Some a_outside) None) 3;
    ip_shape RoleCA blocks10 (fwd a_loopback [] None (Some a_inside)) 3;
    ip_shape MainCA blocks10 (fwd a_loopback [a_inside] (Some a_inside) None) 3;
    ip_shape RoleCA blocks127 (fwd a_loopback [a_outside] (Some a_outside) None) 3 ].
Definition n_shapes : N := Eval vm_compute in N.of_nat (length shapes).
Definition default_shape : shape := sh NoCred 1.

(* 0 ssh, 1 x509, 2 x509-kubernetes, 3 bogus, 4 ssh with an ssh-ed25519 user key *)
Definition type_of_index (i : N) : certtype :=
  if (i =? 0) || (i =? 4) then TSsh else if i =? 1 then TX509 else if i =? 2 then TKube else TBogus.
Definition ed_key_of_index (i : N) : bool := i =? 4.
Definition method_of_index (i : N) : hmethod :=
  if i =? 0 then HPost else if i =? 1 then HGet else HOther.

(* ---- which signers are loaded: 0 main signer only (unsealed), 1 nothing (sealed), 2 main and
   Ed25519 signer (unsealed), 3 Ed25519 signer only (sealed: the main signer is what unseals).
   The states are those of the sealing model: a configuration with / without an Ed25519 file whose
   own main key is listed in keymaster_public_keys_filename, freshly loaded, after the right
   passphrase, or half-loaded. *)
Definition key_pass : bs := [112].
Definition key_cfg (with_ed : bool) : Seal.cfg :=
  {| Seal.right_pass := key_pass; Seal.main_key := 1; Seal.main_res := Seal.FGood; Seal.role_ok := true;
     Seal.ed_file := if with_ed then Some (key_pass, 2, Seal.FGood) else None; Seal.extra_pubkeys := [1] |}.
Definition case_keys (ks : N) : Seal.state :=
  if ks =? 0 then fst (Seal.unseal_ca (key_cfg false) (Seal.sealed_init (key_cfg false)) key_pass)
  else if ks =? 2 then fst (Seal.unseal_ca (key_cfg true) (Seal.sealed_init (key_cfg true)) key_pass)
  else if ks =? 3 then Seal.half_loaded (key_cfg true)
  else Seal.sealed_init (key_cfg false).

(* the server of the enumeration: no extension templates, no realm, no directory *)
Definition case_server_ks (ks : N) (cfg : list bs) : server :=
  {| s_keys := case_keys ks; s_cfg := cfg; s_name := case_name; s_host := [];
     s_templates := []; s_realm := None;
     s_groups := fun _ => Some []; s_methods := fun _ => Some [] |}.
Definition case_server (sealed : bool) (cfg : list bs) : server := case_server_ks (if sealed then 1 else 0) cfg.

Definition case_req (s : shape) (ty m : N) : certreq :=
  {| q_method := method_of_index m; q_origin := h_origin s; q_tls := h_tls s; q_cred := h_cred s;
     q_target := case_name (h_target s); q_type := type_of_index ty; q_form_ok := true;
     q_key := Some (0, ed_key_of_index ty); q_add_groups := false |}.

(* observable class of a response: 0 = an error status and no certificate, 1 = neither an error
   nor a certificate, 2 + 4*user + kind = a certificate (kind 0 SSH, 1 X.509) naming that user *)
Definition class_of (o : outcome) : N :=
  match o with
  | Refused c => if 400 <=? c then 0 else 1
  | Issued u d => 2 + 4 * u + (if d_ssh d then 0 else 1)
  end.

Definition no_expand (t u : bs) : option bs := Some t.

(* the last argument is the key state (0 / 1 = the unsealed / sealed server of the basic enumeration) *)
Definition run_case (cfg shp ty m ks : N) : N :=
  let s := nth (N.to_nat shp) shapes default_shape in
  class_of (certgen no_expand (case_server_ks ks (cfg_of_index cfg)) 0%Z (h_limiter_ok s) (case_req s ty m)).

(* ---- enumeration orders.
   full: index = (((cfg * n_shapes + shape) * 4 + type) * 3 + method) * 2 + sealed
   quick: block A = cfg * n_shapes + shape at (ssh, POST, unsealed) for every cfg and shape;
          block B = for the other 23 (type, method, sealed) combinations, every shape under the
          eight configurations quick_cfgs *)
(* block C of both tiers, the signer-state dimension: (key state, type) combinations beyond the basic
   product, POST: both signers loaded and only the Ed25519 signer loaded x {ssh with an ECDSA user
   key, ssh with an Ed25519 user key, x509}, and the Ed25519 user key on the two basic states *)
Definition ks_combos : list (N * N) := [(2, 0); (2, 4); (2, 1); (3, 0); (3, 4); (3, 1); (0, 4); (1, 4)].
Definition n_ks_combos : N := 8.
Definition ks_case (cfg shp combo : N) : N :=
  let '(ks, ty) := nth (N.to_nat combo) ks_combos (0, 0) in run_case cfg shp ty 0 ks.

Definition full_a_total : N := n_cfgs * n_shapes * 24.
Definition full_total : N := full_a_total + n_cfgs * n_shapes * n_ks_combos.
Definition full_case (i : N) : N :=
  if i <? full_a_total then
    let sealed := i mod 2 in let i := i / 2 in
    let m := i mod 3 in let i := i / 3 in
    let ty := i mod 4 in let i := i / 4 in
    let shp := i mod n_shapes in let cfg := i / n_shapes in
    run_case cfg shp ty m sealed
  else
    let j := i - full_a_total in
    let combo := j mod n_ks_combos in let j := j / n_ks_combos in
    ks_case (j / n_shapes) (j mod n_shapes) combo.

Definition quick_cfgs : list N := [0; 1; 4; 32; 96; 511; 513; 526].
Definition quick_a_total : N := n_cfgs * n_shapes.
Definition quick_b_total : N := 23 * 8 * n_shapes.
Definition quick_c_cfgs : list N := [1; 4; 511].
Definition quick_c_total : N := n_ks_combos * 3 * n_shapes.
Definition quick_total : N := quick_a_total + quick_b_total + quick_c_total.
Definition quick_case (i : N) : N :=
  if i <? quick_a_total then run_case (i / n_shapes) (i mod n_shapes) 0 0 0
  else if quick_a_total + quick_b_total <=? i then
    let j := i - (quick_a_total + quick_b_total) in
    let shp := j mod n_shapes in let j := j / n_shapes in
    let c := j mod 3 in let combo := j / 3 in
    ks_case (nth (N.to_nat c) quick_c_cfgs 0) shp combo
  else
    let j := i - quick_a_total in
    let shp := j mod n_shapes in let j := j / n_shapes in
    let c := j mod 8 in let combo := j / 8 + 1 in      (* combo 1..23; 0 is (ssh, POST, unsealed) *)
    let sealed := combo mod 2 in let m := (combo / 2) mod 3 in let ty := combo / 6 in
    run_case (nth (N.to_nat c) quick_cfgs 0) shp ty m sealed.

(* indices (from `start`) of the cases whose observed class differs from the model's *)
Fixpoint diff_from (f : N -> N) (obs : list N) (i : N) : list N :=
  match obs with
  | [] => []
  | o :: r => if f i =? o then diff_from f r (i + 1) else i :: diff_from f r (i + 1)
  end.
