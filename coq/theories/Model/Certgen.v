(* C01 — cmd/keymasterd/certgen.go certGenHandler decision, on top of check_auth *)
From Coq Require Import ZArith.
From KM Require Import Base.Bytes Model.Auth.
Open Scope N_scope.

(* the acceptable-methods setting: the strings of lib/webapi/v0/proto/api.go *)
Inductive method := MPassword | MFederated | MU2F | MVIP | MIPCert | MTOTP | MOkta | MBootstrap | MCLI | MUnknown.

(* one turn of the sufficientAuthLevel loop *)
Definition method_ok (level : N) (m : method) : bool :=
  match m with
  | MPassword => true
  | MU2F => hasb level bU2F
  | MTOTP => hasb level bTOTP
  | MVIP => hasb level bVIP
  | MIPCert => hasb level bIPCert
  | MOkta => hasb level bOkta
  | MCLI => hasb level bCLI
  | MFederated | MBootstrap | MUnknown => false
  end.
Definition sufficient (cfg : list method) (level : N) : bool :=
  existsb (method_ok level) cfg || hasb level bU2F.

Inductive certtype := TSsh | TX509 | TKube | TBogus.

Record certreq := {
  q_req : request;
  q_target : N;              (* user named in the URL *)
  q_post : bool;
  q_type : certtype;
  q_form_ok : bool;          (* multipart form, duration and key all well formed and strong *)
}.

Inductive outcome := Issued (user : N) (t : certtype) | Refused (code : N).

Definition certgen (sealed : bool) (cfg : list method) (now : Z) (limiter_ok : bool) (q : certreq) : outcome :=
  if sealed then Refused 500 else
  match check_auth now limiter_ok bAny (q_req q) with
  | Refuse c => Refused c
  | Admit u level _ =>
      if negb (sufficient cfg level) then Refused 401
      else if negb (u =? q_target q) then Refused 403
      else if negb (q_post q) then Refused 405
      else if negb (q_form_ok q) then Refused 400
      else match q_type q with
           | TBogus => Refused 400
           | t => Issued u t
           end
  end.

(* specification: the operator-required authentication *)
Definition second_factor_bit (m : method) : option N :=
  match m with
  | MU2F => Some bU2F | MTOTP => Some bTOTP | MVIP => Some bVIP | MIPCert => Some bIPCert
  | MOkta => Some bOkta | MCLI => Some bCLI | _ => None
  end.
Definition qualifies (cfg : list method) (level : N) : Prop :=
  hasb level bU2F = true \/ In MPassword cfg \/
  exists m b, In m cfg /\ second_factor_bit m = Some b /\ hasb level b = true.

(* decoding of harness cases *)
Definition method_of_index (i : N) : method :=
  if i =? 0 then MPassword else if i =? 1 then MFederated else if i =? 2 then MU2F
  else if i =? 3 then MVIP else if i =? 4 then MIPCert else if i =? 5 then MTOTP
  else if i =? 6 then MOkta else if i =? 7 then MBootstrap else if i =? 8 then MCLI else MUnknown.
Fixpoint cfg_of_mask_from (n : nat) (i : N) (mask : N) : list method :=
  match n with
  | O => []
  | S n' => (if N.testbit mask i then [method_of_index i] else []) ++ cfg_of_mask_from n' (i + 1) mask
  end.
Definition cfg_of_mask (mask : N) : list method := cfg_of_mask_from 10 0 mask.
