(* C01 / C02 — cmd/keymasterd/certgen.go certGenHandler (decision and the certificate it has
   lib/certgen build), on top of Auth.check_auth.

   Subjects inside credentials are numbers (Auth.v); the server state carries s_name, the name
   string a subject number stands for, so that the handler's string comparison of the
   authenticated name with the raw URL segment, and everything written into the certificate,
   are about byte strings.  Parsers (multipart, duration, key formats, shell expansion, the
   directory's group lookup) run in front of the model and enter as inputs. *)
From Coq Require Import ZArith.
From KM Require Import Base.Bytes Model.Auth.
From KM Require Model.Seal.
Open Scope N_scope.

(* ---- the strings of lib/webapi/v0/proto/api.go (Obl_C01 re-proves them equal to the
   constants compiled from the current tree) *)
Definition sPassword : bs := [112;97;115;115;119;111;114;100].   (* "password" *)
Definition sFederated : bs := [102;101;100;101;114;97;116;101;100].   (* "federated" *)
Definition sU2F : bs := [85;50;70].   (* "U2F" *)
Definition sVIP : bs := [83;121;109;97;110;116;101;99;86;73;80].   (* "SymantecVIP" *)
Definition sIPCert : bs := [73;80;67;101;114;116;105;102;105;99;97;116;101].   (* "IPCertificate" *)
Definition sTOTP : bs := [84;79;84;80].   (* "TOTP" *)
Definition sOkta : bs := [79;107;116;97;50;70;65].   (* "Okta2FA" *)
Definition sBootstrap : bs := [66;111;111;116;115;116;114;97;112;79;84;80].   (* "BootstrapOTP" *)
Definition sCLI : bs := [87;101;98;97;117;116;104;70;111;114;67;76;73].   (* "WebauthForCLI" *)

(* (authData.AuthType & X) == X, as certGenHandler writes its tests *)
Definition has_all (level mask : N) : bool := N.land level mask =? mask.

(* ---- the sufficientAuthLevel loop, one turn: the seven `if` statements in source order *)
Definition loop_turn (level : N) (flag : bool) (pref : bs) : bool :=
  let flag := if bs_eqb pref sPassword then true else flag in
  let flag := if bs_eqb pref sU2F && has_all level bU2F then true else flag in
  let flag := if bs_eqb pref sTOTP && has_all level bTOTP then true else flag in
  let flag := if bs_eqb pref sVIP && has_all level bVIP then true else flag in
  let flag := if bs_eqb pref sIPCert && has_all level bIPCert then true else flag in
  let flag := if bs_eqb pref sOkta && has_all level bOkta then true else flag in
  let flag := if bs_eqb pref sCLI && has_all level bCLI then true else flag in
  flag.

(* the loop, then "if you have u2f you can always get the cert" *)
Definition sufficient (cfg : list bs) (level : N) : bool :=
  let flag := fold_left (loop_turn level) cfg false in
  if has_all level bU2F then true else flag.

(* ---- requests *)
Inductive hmethod := HGet | HPost | HOther.
Inductive certtype := TSsh | TX509 | TKube | TBogus.   (* form field "type"; absent = ssh *)

(* ---- the credentials a request carries beside the connection's client certificate.  They are a
   COMBINATION: the auth_cookie (the last one, if several are sent) and the Authorization: Basic
   header can both be present, next to a client certificate or not.

   The session cookie is the token as it is on the wire: its iss and aud claims are byte strings, and
   whether they denote this keymaster is decided by comparing them with the server's issuer string
   (token_of below), not an input. *)
Record wtoken := {
  w_signer_trusted : bool;    (* verifies under one of KeymasterPublicKeys *)
  w_alg_allowed : bool;       (* header alg is in the list derived from the trusted keys *)
  w_tampered : bool;
  w_iss : bs;                 (* claim iss *)
  w_aud : list bs;            (* claim aud *)
  w_kind : N;                 (* token_type: 0 keymaster_auth, 1 cli identity, other *)
  w_nbf : Z; w_exp : Z; w_iat : Z;
  w_sub : N; w_level : N }.

Record basic := {
  b_user : N;                 (* user name after reprocessUsername *)
  b_ok : bool;                (* the password backend accepts the pair *)
  b_err : bool }.             (* the password backend fails *)

Record certreq := {
  q_method : hmethod;
  q_origin : origin;
  q_tls : option tlsinfo;
  q_cookie : option wtoken;    (* the last cookie named auth_cookie; a value that is no JWT at all is a
                                  token without trusted signer *)
  q_basic : option basic;      (* Authorization: Basic *)
  q_target : bs;               (* r.URL.Path[len(certgenPath):], raw *)
  q_type : certtype;
  q_form_ok : bool;            (* multipart body parses; duration absent or parses into (0, 24h] (C03) *)
  q_key : option (N * bool);   (* Some (k, ed25519): pubkeyfile present, well formed for the requested
                                  type and strong enough (C10); k identifies the submitted key *)
  q_add_groups : bool }.       (* form field addGroups = "true" *)

(* ---- server state as far as the handler reads it.  The key material is the state record of the
   sealing model (Model/Seal.v: Signer, Ed25519Signer, caCertDer, KeymasterPublicKeys), so that
   C01, C02 and C09 speak about one state: which signers are loaded is a dimension of every
   theorem about certgen, and what the server publishes is what unsealing put there. *)
Record server := {
  s_keys : Seal.state;                   (* Signer / Ed25519Signer / caCertDer / selfRoleCaCertDer / KeymasterPublicKeys *)
  s_cfg : list bs;                       (* Config.Base.AllowedAuthBackendsForCerts *)
  s_name : N -> bs;                      (* the name a subject number stands for *)
  s_host : bs;                           (* HostIdentity *)
  s_addr : bs;                           (* Config.Base.HttpAddress *)
  s_templates : list (bs * bs);          (* Config.Base.SSHCertConfig.Extensions *)
  s_realm : option bs;                   (* state.KerberosRealm *)
  s_groups : bs -> option (list bs);     (* getUserGroups; None = the lookup failed *)
  s_methods : bs -> option (list bs) }.  (* getServiceMethods *)

(* jwt.go idpGetIssuer: "https://" + HostIdentity, followed by the listen address unless that is ":443" *)
Definition s_https : bs := [104;116;116;112;115;58;47;47].   (* "https://" *)
Definition s_port443 : bs := [58;52;52;51].   (* ":443" *)
Definition issuer_of (st : server) : bs :=
  s_https ++ s_host st ++ (if bs_eqb (s_addr st) s_port443 then [] else s_addr st).

(* getAuthInfoFromJWT: `inboundJWT.Issuer != issuer`, `len(Audience) < 1 || Audience[0] != issuer` - string
   equality with the server's issuer *)
Definition aud0_is (aud : list bs) (x : bs) : bool :=
  match aud with a :: _ => bs_eqb a x | [] => false end.
Definition token_of (issuer : bs) (w : wtoken) : token :=
  {| t_signer_trusted := w_signer_trusted w; t_alg_allowed := w_alg_allowed w; t_tampered := w_tampered w;
     t_iss_ok := bs_eqb (w_iss w) issuer; t_aud_ok := aud0_is (w_aud w) issuer;
     t_kind := w_kind w; t_nbf := w_nbf w; t_exp := w_exp w; t_iat := w_iat w;
     t_sub := w_sub w; t_level := w_level w |}.

(* what checkAuth's code after the certificate branch goes by: the auth_cookie if there is one -
   whatever it is worth, a cookie that does not verify is a refusal and no fall-through - and the
   Basic header only when the request carries no auth_cookie at all *)
Definition carried_cred (st : server) (q : certreq) : cred :=
  match q_cookie q with
  | Some w => Cookie (token_of (issuer_of st) w)
  | None => match q_basic q with
            | Some b => Basic (b_user b) (b_ok b) (b_err b)
            | None => NoCred
            end
  end.

(* `tlsAuthUser != ""`, `authData.Username != ""`: a client certificate whose common name is the empty
   string is no identity.  getUsernameIfKeymasterSigned's answer is dropped; getUsernameIfIPRestricted
   still runs on it - its user error is the 403, its internal error the 500 - and when it accepts the
   certificate (peer inside a block, "" configured as automation user, not revoked) the empty name is
   not returned either: the request goes on to the cookie code as if it had no certificate. *)
Definition without_km (c : tlsinfo) : tlsinfo :=
  {| c_chain2 := c_chain2 c; c_issuer := c_issuer c; c_issuer_key_trusted := false;
     c_cn := c_cn c; c_denied := c_denied c; c_not_before := c_not_before c; c_ip_error := c_ip_error c;
     c_ip_valid := c_ip_valid c; c_automation := c_automation c; c_revoked := c_revoked c |}.
Definition effective_tls (st : server) (q : certreq) : option tlsinfo :=
  match q_tls q with
  | Some c =>
      match s_name st (c_cn c) with
      | [] => match ip_restricted c with IpOk => None | _ => Some (without_km c) end
      | _ :: _ => Some c
      end
  | None => None
  end.

Definition auth_request (st : server) (q : certreq) : request :=
  {| r_get := match q_method q with HGet => true | _ => false end;
     r_origin := q_origin q; r_tls := effective_tls st q; r_cred := carried_cred st q |}.

Definition s_sealed (st : server) : bool := negb (Seal.is_some (Seal.signer (s_keys st))).   (* state.Signer == nil *)
Definition s_ed25519_ca (st : server) : bool := Seal.is_some (Seal.ed (s_keys st)).          (* state.Ed25519Signer != nil *)
(* the keys the two signers stand for (0 when absent; certgen never reaches a use of an absent one) *)
Definition main_key_of (st : server) : N := match Seal.signer (s_keys st) with Some k => k | None => 0 end.
Definition ed_key_of (st : server) : N := match Seal.ed (s_keys st) with Some k => k | None => 0 end.

(* ---- what lib/certgen puts into a certificate (the fields C02 names) *)
Inductive eku := EkuClientAuth | EkuPkinitClient.
Record certdesc := {
  d_ssh : bool;                 (* SSH certificate (else X.509) *)
  d_names : list bs;            (* ValidPrincipals / the subject common name *)
  d_keyid : bs;                 (* SSH KeyId *)
  d_key : N;                    (* the certified public key *)
  d_user_type : bool;           (* SSH: CertType = UserCert; X.509: BasicConstraintsValid *)
  d_is_ca : bool;
  d_ekus : list eku;
  d_exts : list (bs * bs);      (* SSH Permissions.Extensions, a map *)
  d_signer : N;                 (* the key that signed: a key name of Model/Seal.v *)
  d_orgs : list bs;
  d_groups : list bs;           (* group-list extension *)
  d_methods : list bs;          (* service-method extension *)
  d_krb : option (bs * bs);     (* PKINIT SAN: (realm, principal) *)
  d_other_names : list bs }.    (* every other identity the certificate carries: further principals or critical
                                   options (SSH); DNS / e-mail / URI / address / directory / other-name entries of
                                   the subject alternative name, further subject attributes, a second common
                                   name (X.509) *)

Inductive outcome := Issued (user : N) (c : certdesc) | Refused (code : N).

(* ---- association lists standing for Go maps *)
Fixpoint lookup (m : list (bs * bs)) (k : bs) : option bs :=
  match m with
  | [] => None
  | (k', v) :: r => if bs_eqb k' k then Some v else lookup r k
  end.
Fixpoint map_set (m : list (bs * bs)) (k v : bs) : list (bs * bs) :=
  match m with
  | [] => [(k, v)]
  | (k', v') :: r => if bs_eqb k' k then (k, v) :: r else (k', v') :: map_set r k v
  end.

Definition e_x11 : bs := [112;101;114;109;105;116;45;88;49;49;45;102;111;114;119;97;114;100;105;110;103].   (* "permit-X11-forwarding" *)
Definition e_agent : bs := [112;101;114;109;105;116;45;97;103;101;110;116;45;102;111;114;119;97;114;100;105;110;103].   (* "permit-agent-forwarding" *)
Definition e_port : bs := [112;101;114;109;105;116;45;112;111;114;116;45;102;111;114;119;97;114;100;105;110;103].   (* "permit-port-forwarding" *)
Definition e_pty : bs := [112;101;114;109;105;116;45;112;116;121].   (* "permit-pty" *)
Definition e_rc : bs := [112;101;114;109;105;116;45;117;115;101;114;45;114;99].   (* "permit-user-rc" *)
Definition std5 : list bs := [e_x11; e_agent; e_port; e_pty; e_rc].
Definition s_keymaster : bs := [107;101;121;109;97;115;116;101;114].   (* "keymaster" *)

Section Expand.
(* mvdan.cc/sh shell.Expand with the mapper USERNAME -> user, everything else -> "":
   expand template user = Some text, or None when the expansion reports an error *)
Variable expand : bs -> bs -> option bs.

(* expandSSHExtensions: userExtensions[key] = value for every configured pair, in order;
   the first expansion error aborts *)
Fixpoint expand_extensions (tpl : list (bs * bs)) (user : bs) (m : list (bs * bs)) : option (list (bs * bs)) :=
  match tpl with
  | [] => Some m
  | (k, v) :: r =>
      match expand k user with
      | None => None
      | Some k' => match expand v user with
                   | None => None
                   | Some v' => expand_extensions r user (map_set m k' v')
                   end
      end
  end.

(* GenSSHCertFileString: the five standard extensions, then every custom pair whose key is
   not empty (Go iterates the map; the keys of a map are distinct, so the order is immaterial) *)
Definition ssh_extensions (custom : list (bs * bs)) : list (bs * bs) :=
  fold_left (fun m kv => match fst kv with [] => m | _ => map_set m (fst kv) (snd kv) end) custom
            (map (fun k => (k, [])) std5).

Definition ssh_cert (st : server) (u : N) (user : bs) (q : certreq) : outcome :=
  match q_key q with
  | None => Refused 400
  | Some (k, ed) =>
      if ed && negb (s_ed25519_ca st) then Refused 422
      else match expand_extensions (s_templates st) user [] with
           | None => Refused 500
           | Some custom =>
               Issued u {| d_ssh := true; d_names := [user]; d_keyid := s_host st ++ [95] ++ user;
                           d_key := k; d_user_type := true; d_is_ca := false; d_ekus := [];
                           d_exts := ssh_extensions custom;
                           d_signer := if ed then ed_key_of st else main_key_of st;
                           d_orgs := []; d_groups := []; d_methods := []; d_krb := None; d_other_names := [] |}
           end
  end.

Definition x509_cert (st : server) (u : N) (user : bs) (q : certreq) (kube : bool) : outcome :=
  match (if kube || q_add_groups q then s_groups st user else Some []) with
  | None => Refused 500
  | Some user_groups =>
      match s_methods st user with
      | None => Refused 500
      | Some methods =>
          match q_key q with
          | None => Refused 400
          | Some (k, _) =>
              Issued u {| d_ssh := false; d_names := [user]; d_keyid := [];
                          d_key := k; d_user_type := true; d_is_ca := false;
                          d_ekus := [EkuClientAuth; EkuPkinitClient];
                          d_exts := [];
                          d_signer := main_key_of st;   (* getSignerX509CAForPublic: always the primary signer *)
                          d_orgs := if kube then user_groups else [s_keymaster];
                          d_groups := if q_add_groups q then user_groups else [];
                          d_methods := methods;
                          d_krb := match s_realm st with Some r => Some (r, user) | None => None end;
                          d_other_names := [] |}
          end
      end
  end.

(* certGenHandler, in source order *)
Definition certgen (st : server) (now : Z) (limiter_ok : bool) (q : certreq) : outcome :=
  if s_sealed st then Refused 500 else
  match check_auth now limiter_ok bAny (auth_request st q) with
  | Refuse c => Refused c
  | Admit u level _ =>
      if negb (sufficient (s_cfg st) level) then Refused 401
      else
        let user := s_name st u in
        if negb (bs_eqb user (q_target q)) then Refused 403
        else match q_method q with
             | HPost =>
                 if negb (q_form_ok q) then Refused 400
                 else match q_type q with
                      | TSsh => ssh_cert st u user q
                      | TX509 => x509_cert st u user q false
                      | TKube => x509_cert st u user q true
                      | TBogus => Refused 400
                      end
             | _ => Refused 405
             end
  end.
End Expand.

(* ---- the handler BEFORE the two repairs of this check (kept for the refutation witnesses):
   (1) checkAuth returned the url.Parse error of the Origin/Referer header without writing a
       response: the client saw an empty 200 (code 0 here = nothing written);
   (2) writeFailureResponse rendered the second-factor page for HTML clients holding a valid
       password or federated session without writing the 401 status (so: 200). *)
Definition old_status (html : bool) (st : server) (now : Z) (q : certreq) (code : N) : N :=
  if (code =? 401) && html then
    match carried_cred st q with
    | Cookie t =>
        if token_ok now t && negb (t_exp t <? now)%Z &&
           (hasb (t_level t) bPassword || hasb (t_level t) bFederated) then 200 else code
    | _ => code
    end
  else code.

Definition certgen_old (expand : bs -> bs -> option bs) (html : bool) (st : server) (now : Z)
                       (limiter_ok : bool) (q : certreq) : outcome :=
  let bad_origin := match q_method q, q_origin q with
                    | HGet, _ => false
                    | _, BadOrigin => true
                    | _, _ => false
                    end in
  if negb (s_sealed st) && bad_origin then Refused 0
  else match certgen expand st now limiter_ok q with
       | Refused c => Refused (old_status html st now q c)
       | r => r
       end.

(* lib/certgen before its repair: the two GeneralString tags of the PKINIT name were patched at
   fixed offsets, right only while the whole value is shorter than 128 bytes, i.e. while
   len(realm) + len(user) < 97; beyond that the extension no longer decodes *)
Definition krb_san_old (realm user : bs) : option (bs * bs) :=
  if N.of_nat (length realm + length user) <? 97 then Some (realm, user) else None.

(* what the server publishes: /public/sshca (and the JWKS) serve KeymasterPublicKeys,
   /public/x509ca serves caCertDer *)
Definition published_ssh (st : server) : list N := Seal.pubkeys (s_keys st).
Definition published_x509 (st : server) : list N := Seal.ca_ders (s_keys st).

(* ---- the client address.  getUsernameIfIPRestricted evaluates the netblocks of an IP-restricted
   certificate against r.RemoteAddr, the TCP peer of the connection that presented the certificate.
   Forwarding headers (X-Forwarded-For, X-Real-Ip, Forwarded) are part of the request but no input
   of the decision: ip_valid does not look at them. *)
Record conn := {
  n_peer : N;                  (* IPv4 address of r.RemoteAddr, as a number *)
  n_xff : list N;              (* addresses listed in X-Forwarded-For *)
  n_xreal : option N;          (* X-Real-Ip *)
  n_forwarded : option N }.    (* Forwarded: for=... *)
Definition in_block (a : N) (b : N * N) : bool :=
  let '(net, len) := b in (len <=? 32) && (N.shiftr a (32 - len) =? N.shiftr net (32 - len)).
(* blocks = None: the certificate has no address extension *)
Definition ip_valid (blocks : option (list (N * N))) (cn : conn) : bool :=
  match blocks with Some l => existsb (in_block (n_peer cn)) l | None => false end.
Definition with_ip_valid (c : tlsinfo) (v : bool) : tlsinfo :=
  {| c_chain2 := c_chain2 c; c_issuer := c_issuer c; c_issuer_key_trusted := c_issuer_key_trusted c;
     c_cn := c_cn c; c_denied := c_denied c; c_not_before := c_not_before c; c_ip_error := c_ip_error c;
     c_ip_valid := v; c_automation := c_automation c; c_revoked := c_revoked c |}.
(* the request as the handler sees it on a connection: the certificate's address test is the one
   of its blocks against the peer *)
Definition on_conn (q : certreq) (blocks : option (list (N * N))) (cn : conn) : certreq :=
  {| q_method := q_method q; q_origin := q_origin q;
     q_tls := match q_tls q with Some c => Some (with_ip_valid c (ip_valid blocks cn)) | None => None end;
     q_cookie := q_cookie q; q_basic := q_basic q; q_target := q_target q; q_type := q_type q; q_form_ok := q_form_ok q;
     q_key := q_key q; q_add_groups := q_add_groups q |}.

(* the same request carrying other credentials beside its client certificate *)
Definition with_creds (q : certreq) (ck : option wtoken) (b : option basic) : certreq :=
  {| q_method := q_method q; q_origin := q_origin q; q_tls := q_tls q;
     q_cookie := ck; q_basic := b; q_target := q_target q; q_type := q_type q; q_form_ok := q_form_ok q;
     q_key := q_key q; q_add_groups := q_add_groups q |}.

Definition without_tls (q : certreq) : certreq :=
  {| q_method := q_method q; q_origin := q_origin q; q_tls := None;
     q_cookie := q_cookie q; q_basic := q_basic q; q_target := q_target q; q_type := q_type q; q_form_ok := q_form_ok q;
     q_key := q_key q; q_add_groups := q_add_groups q |}.

(* ---- user-name normalisation (app.go reprocessUsername) and the two places that mint a
   password credential from a submitted name (loginHandler, checkAuth's basic-auth branch) *)
Definition lower_byte (c : N) : N := if (65 <=? c) && (c <=? 90) then c + 32 else c.
Section Normalise.
Variable okta_filter : option (bs -> bs).     (* oktaUsernameFilterRE.ReplaceAll(.., nil), when configured *)
Definition normalise (disable_normalisation : bool) (name : bs) : bs :=
  let name := if disable_normalisation then name else map lower_byte name in
  match okta_filter with Some f => f name | None => name end.
End Normalise.
