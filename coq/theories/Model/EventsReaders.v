(* C20 — readers of the monitoring daemon's history.

   eventmon/eventrecorder/impl.go eventLoop answers a history request with `*getEventsList(&lastEvents)`:
   the Events struct is copied, its map and the per-user slices are the CACHED read-out itself, and the
   save timer later writes that very read-out to the history file.  A reader (eventmon/httpd's
   handlers, any consumer of RequestEventsChannel) therefore holds the loop's cache; whatever it does
   to the map or to the slices' backing arrays it does to what the next reader sees and to what is
   saved.  A reader is modelled by its effect on the value it was handed: any function on the
   read-out (an over-approximation of what Go lets it do through the map and the slice headers).

   Executable definitions only; proofs are in Proofs/EventsReaders.v. *)
From KM Require Import Base.Bytes Model.Events.

Inductive lop2 :=
| LOp (o : lop)                     (* the loop's own operations (LRequest = a reader that only looks) *)
| LRead (f : rstate -> rstate).     (* a reader that leaves f(read-out) where the read-out was *)

Definition lstep2 (st : lstate) (o : lop2) : lstate :=
  match o with
  | LOp o => lstep st o
  | LRead f => let (st', snap) := l_get st in
               mkL (l_map st') (Some (f snap)) (l_file st') (l_armed st')
  end.
Definition lrun2 (ops : list lop2) (st : lstate) : lstate := fold_left lstep2 ops st.

(* the loop's operations of a history with every reader taken out *)
Fixpoint drop_reads (ops : list lop2) : list lop :=
  match ops with
  | [] => []
  | LOp LRequest :: r => drop_reads r
  | LOp o :: r => o :: drop_reads r
  | LRead _ :: r => drop_reads r
  end.

(* the usual filter-in-place idiom  `out := s[:0]; for _, x := range s { if keep(x) { out = append(out, x) } }`
   as seen through the ORIGINAL slice header: the kept entries have moved to the front, the rest of
   the backing array is what it was *)
Definition compact_in_place (keep : ev -> bool) (l : ulist) : ulist :=
  let k := filter keep l in k ++ skipn (length k) l.

(* the property on the observations of a recorder life with readers (no loop, no cache involved):
   every answer and every saved file is the history recorded so far, in order — across restarts *)
Fixpoint seg_obs_violates (m : rstate) (seg : list (lop * lobs)) : bool * rstate :=
  match seg with
  | [] => (false, m)
  | (o, ob) :: r =>
      let m' := match o with
                | LRec x => match rop_event x with Some _ => rstep m x | None => m end
                | _ => m
                end in
      let bad := match ob with
                 | LAnswer d | LFile d => negb (dump_matches d m')
                 | LNone => false
                 end in
      let (b, mf) := seg_obs_violates m' r in (bad || b, mf)
  end.
Fixpoint reader_obs_violates_from (m : rstate) (segs : list (list (lop * lobs))) : bool :=
  match segs with
  | [] => false
  | seg :: r => let (b, m') := seg_obs_violates m seg in b || reader_obs_violates_from m' r
  end.
Definition reader_obs_violates (segs : list (list (lop * lobs))) : bool := reader_obs_violates_from [] segs.
