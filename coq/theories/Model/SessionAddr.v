(* C05 — the client address of a request.

   Every request reaches the handlers with an address: r.RemoteAddr (host:port of the TCP peer) and
   whatever a proxy or the client itself wrote into X-Forwarded-For / X-Real-IP / Forwarded.  None of
   the second-factor handlers may let it decide anything: whose session a request runs in comes from
   the cookies (or the verified client certificate), whose value is presented comes from the value,
   and the replay guards are kept per USER (state.localAuthData[user], the persisted
   LastSuccessfullTOTPCounter of the user's profile, totpLocalRateLimit[user].lastSuccessCounter).

   This file carries the address OUTSIDE the operations of Model.Session: a request is a pair
   (address, operation), `step_at` is `step` on the operation.  That the address is ignored is then
   true by construction — which is the point: it is what the correspondence compares the real
   handlers against (the harness sends the requests of a history from different RemoteAddr values,
   with and without forwarding headers; the case file evaluates `run_obs_at` on the (address,
   operation) list).  The contrast is the second half of the file: the replay guard of
   validateUserTOTP written out with its two memories (the persisted counter and the in-memory one),
   the in-memory one reached through a KEY FUNCTION `key : user -> address -> K`.  Proofs.SessionAddr:
   with a key that ignores the address an accepted step is never accepted again, whatever addresses and
   `cached` flags the requests carry; with the key (user, address) it is.                        *)
From Coq Require Import List NArith ZArith Bool.
From KM Require Import Model.Session.
Import ListNotations.

(* the address as the handler sees it: an opaque number (the harness numbers the distinct
   (RemoteAddr, forwarding headers) combinations it uses; 0 is the address every request had before) *)
Definition addr := N.
Definition areq := (addr * op)%type.

Definition step_at (k : config) (s : st) (r : areq) : st * option cookie :=
  let '(_, o) := r in step k s o.

Fixpoint run_at (k : config) (s : st) (l : list areq) : st * list (option cookie) :=
  match l with
  | [] => (s, [])
  | r :: t => let (s1, out) := step_at k s r in
              let (s2, outs) := run_at k s1 t in (s2, out :: outs)
  end.

Definition step_obs_at (k : config) (s : st) (r : areq) : st * obs :=
  let '(_, o) := r in step_obs k s o.

Fixpoint run_obs_at (k : config) (s : st) (l : list areq) : list obs :=
  match l with
  | [] => []
  | r :: t => let (s1, ob) := step_obs_at k s r in ob :: run_obs_at k s1 t
  end.

(* the operations of a history, the addresses forgotten *)
Definition ops_of (l : list areq) : list op := map snd l.
Definition addrs_of (l : list areq) : list addr := map fst l.

(* ------------------------------------------------------------------------------------------------
   The replay guard of validateUserTOTP (2fa_totp.go), with the key of the in-memory record explicit.

     profile, fromCache := LoadUserProfile(user)
     rl := totpLocalRateLimit[KEY]
     counter := the step whose code matches (none: refused)
     last := max(profile.LastSuccessfullTOTPCounter, rl.lastSuccessCounter)
     if counter <= last: refused
     if !fromCache { profile.LastSuccessfullTOTPCounter = counter; SaveUserProfile (error: refused) }
     rl.lastSuccessCounter = counter; totpLocalRateLimit[KEY] = rl
     accepted

   In the code KEY = the user name.  The model takes any key type K with a boolean equality and any
   key function of (user, client address). *)
Record greq := {
  g_user : N;            (* the authenticated user of the request *)
  g_addr : addr;         (* where the request comes from *)
  g_cached : bool;       (* the profile came from the cache database: nothing is written back *)
  g_fault : bool;        (* SaveUserProfile fails *)
  g_code : option Z      (* the step the presented code matches for this user's secret, if any *)
}.

Section Guard.
Variable K : Type.
Variable keq : K -> K -> bool.
Variable key : N -> addr -> K.

Record gst := {
  persisted : N -> Z;    (* profile.LastSuccessfullTOTPCounter, per user *)
  mem : K -> Z           (* totpLocalRateLimit[key].lastSuccessCounter *)
}.

Definition ginit : gst := {| persisted := fun _ => 0%Z; mem := fun _ => 0%Z |}.

(* the value the guard compares with, for a request of user u from address a *)
Definition glast (s : gst) (u : N) (a : addr) : Z := Z.max (persisted s u) (mem s (key u a)).

Definition gstep (s : gst) (r : greq) : gst * bool :=
  match g_code r with
  | None => (s, false)
  | Some c =>
      if (c <=? glast s (g_user r) (g_addr r))%Z then (s, false)
      else if negb (g_cached r) && g_fault r then (s, false)
      else
        let kk := key (g_user r) (g_addr r) in
        ({| persisted := if g_cached r then persisted s
                         else fun x => if N.eqb x (g_user r) then c else persisted s x;
            mem := fun x => if keq x kk then c else mem s x |}, true)
  end.

Fixpoint grun (s : gst) (l : list greq) : gst * list bool :=
  match l with
  | [] => (s, [])
  | r :: t => let (s1, b) := gstep s r in
              let (s2, bs) := grun s1 t in (s2, b :: bs)
  end.
End Guard.

Arguments persisted {K}.
Arguments mem {K}.
Arguments ginit {K}.
Arguments glast {K}.
Arguments gstep {K}.
Arguments grun {K}.

(* the two keys: the user (the code), and (user, client address) *)
Definition key_user (u : N) (_ : addr) : N := u.

(* how the guard under the user key sits in Model.Session: `last_totp` is the value the guard compares with
   (the larger of the two counters), `saved_totp` the persisted counter *)
Definition g_rel (s : st) (g : gst N) : Prop :=
  forall u a, last_totp s u = glast key_user g u a /\ saved_totp s u = persisted g u.
Definition key_user_addr (u : N) (a : addr) : N * N := (u, a).
Definition pair_eqb (x y : N * N) : bool := N.eqb (fst x) (fst y) && N.eqb (snd x) (snd y).

(* the code of user 1 for step 100, presented twice while profiles come from the cache: from address 0,
   then from address 1 *)
Definition w_guard_two_addresses : list greq :=
  [ {| g_user := 1%N; g_addr := 0%N; g_cached := true; g_fault := false; g_code := Some 100%Z |};
    {| g_user := 1%N; g_addr := 1%N; g_cached := true; g_fault := false; g_code := Some 100%Z |} ].
