(* C20 — the audit stream of keymasterd and the history of the monitoring daemon.

   Notifier   keymasterd/eventnotifier/impl.go   handleConnection, publishCert, transmitEvent
   Issuing    cmd/keymasterd/certgen.go postAuthSSHCertHandler / postAuthX509CertHandler,
              roleRequestingCert.go withParamsGenerateRoleRequestingCert (role + refresh),
              awsRole.go generateRoleCert (after the fix: it publishes like the others)
   Recorder   eventmon/eventrecorder/impl.go     recordEvent, expireOldEvents, getEventsList +
              saveEvents, loadEvents (after the fix: the saved slice is walked from its last
              element so that the rebuilt list has the saved order)

   Executable definitions only; proofs are in Proofs/Events.v. *)
From Coq Require Import String.
From KM Require Import Base.Bytes.
Open Scope N_scope.

(* ------------------------------------------------------------------ events (proto/eventmon EventV0) *)

Inductive event :=
| ECert (ty : N) (data : bs)        (* ty 0 = "SSHCert", 1 = "X509Cert"; data = CertData *)
| EAuth (authType : N) (user : bs)  (* 0 = Password (the only one the harness drives) *)
| EWebLogin (user : bs)
| ESPLogin (url user : bs).

Definition event_eqb (a b : event) : bool :=
  match a, b with
  | ECert t d, ECert t' d' => (t =? t') && bs_eqb d d'
  | EAuth t u, EAuth t' u' => (t =? t') && bs_eqb u u'
  | EWebLogin u, EWebLogin u' => bs_eqb u u'
  | ESPLogin l u, ESPLogin l' u' => bs_eqb l l' && bs_eqb u u'
  | _, _ => false
  end.

Fixpoint events_eqb (a b : list event) : bool :=
  match a, b with
  | [], [] => true
  | x :: a', y :: b' => event_eqb x y && events_eqb a' b'
  | _, _ => false
  end.

(* ------------------------------------------------------------------ notifier *)

(* one connected subscriber: the buffered channel made by handleConnection.  `buf` is the
   channel content (oldest first), `got` what the connection goroutine has already taken out
   (ghost: the subscriber's received stream), `live` = still in the transmitChannels map *)
Record chan := mkChan { cap : nat; live : bool; buf : list event; got : list event }.

Definition delivered (c : chan) : list event := got c ++ buf c.

Inductive send_outcome := Delivered | Dropped | Blocked | Skipped.

(* select { case ch <- e: default: } *)
Definition try_send (e : event) (c : chan) : send_outcome * chan :=
  if negb (live c) then (Skipped, c)
  else if (length (buf c) <? cap c)%nat
       then (Delivered, mkChan (cap c) (live c) (buf c ++ [e]) (got c))
       else (Dropped, c).

(* a plain `ch <- e` (what the code would be without the default branch); kept for contrast *)
Definition blocking_send (e : event) (c : chan) : send_outcome * chan :=
  if negb (live c) then (Skipped, c)
  else if (length (buf c) <? cap c)%nat
       then (Delivered, mkChan (cap c) (live c) (buf c ++ [e]) (got c))
       else (Blocked, c).

Definition nstate := list chan.

(* transmitEvent / publishCert: one non-blocking send per registered channel, under the mutex *)
Fixpoint publish_with (send : event -> chan -> send_outcome * chan) (e : event) (s : nstate)
  : list send_outcome * nstate :=
  match s with
  | [] => ([], [])
  | c :: r => let (o, c') := send e c in
              let (os, r') := publish_with send e r in (o :: os, c' :: r')
  end.
Definition publish := publish_with try_send.

Fixpoint update_nth {A} (i : nat) (f : A -> A) (l : list A) : list A :=
  match l, i with
  | [], _ => []
  | x :: r, O => f x :: r
  | x :: r, S j => x :: update_nth j f r
  end.

(* the connection goroutine takes the oldest buffered event *)
Definition recv_chan (c : chan) : chan :=
  match buf c with
  | [] => c
  | e :: r => mkChan (cap c) (live c) r (got c ++ [e])
  end.
Definition unsub_chan (c : chan) : chan := mkChan (cap c) false (buf c) (got c).

Inductive nop :=
| NPub (e : event)
| NRecv (i : nat)        (* subscriber i's goroutine takes one event (if any) *)
| NSub (capacity : nat)  (* handleConnection: make(chan, bufferLength) and register it *)
| NUnsub (i : nat).      (* connection closed: delete from the map *)

Definition nstep (s : nstate) (o : nop) : nstate :=
  match o with
  | NPub e => snd (publish e s)
  | NRecv i => update_nth i recv_chan s
  | NSub k => s ++ [mkChan k true [] []]
  | NUnsub i => update_nth i unsub_chan s
  end.
Definition nrun (ops : list nop) (s : nstate) : nstate := fold_left nstep ops s.

Fixpoint pubs (ops : list nop) : list event :=
  match ops with
  | [] => []
  | NPub e :: r => e :: pubs r
  | _ :: r => pubs r
  end.

(* subscriber i's queue has a free slot whenever something is published (a reader that may lag,
   but never by more than the capacity) *)
Fixpoint never_full (i : nat) (ops : list nop) (s : nstate) : bool :=
  match ops with
  | [] => true
  | o :: r =>
      (match o with
       | NPub _ => match nth_error s i with Some c => (length (buf c) <? cap c)%nat | None => false end
       | _ => true
       end) && never_full i r (nstep s o)
  end.

(* correspondence for subscribers on the production connection path: n subscribers, the publishes
   and reads in the order they happened, the stream each was handed.  Each queue always had room,
   so each stream is the whole publication sequence — same events, same bytes, same order. *)
Definition stream_history_ok (c : nat * list nop * list (list event)) : bool :=
  let '(n, ops, obs) := c in
  let s0 := nrun (repeat (NSub 16) n) [] in
  let s := nrun ops s0 in
  Nat.eqb (length obs) n &&
  forallb (fun i => never_full i ops s0) (seq 0 n) &&
  (fix go (chs : nstate) (obs : list (list event)) : bool :=
     match chs, obs with
     | [], [] => true
     | ch :: chs', o :: obs' => events_eqb (delivered ch) o && events_eqb (pubs ops) o && go chs' obs'
     | _, _ => false
     end) s obs.

(* the number of channel operations of one publish: what the caller waits for *)
Definition publish_cost (e : event) (s : nstate) : nat := length (fst (publish e s)).

(* ------------------------------------------------------------------ issuing paths as effect lists *)

Inductive path := PSsh | PX509 | PK8s | PRole | PRefresh | PAws.
Definition cert_type (p : path) : N := match p with PSsh => 0 | _ => 1 end.

Inductive effect := Sign (c : bs) | Publish (e : event) | Respond (c : bs).

(* certificate bytes c (the SSH wire form / the DER) are what the signer returns; every path
   publishes them and then writes them (armoured) to the response *)
Definition issue_effects (p : path) (c : bs) : list effect :=
  [Sign c; Publish (ECert (cert_type p) c); Respond c].

(* before the fix the cloud-role path had no publish call at all *)
Definition issue_effects_old (p : path) (c : bs) : list effect :=
  match p with
  | PAws => [Sign c; Respond c]
  | _ => issue_effects p c
  end.

(* effect list of one row of the regenerated signing_sites table; `pub` is the table's verdict
   about the Publish* call that follows the signing call in the same function *)
Definition site_effects (ty : N) (pub : string) (c : bs) : list effect :=
  if String.eqb pub "same-bytes-before-response" then [Sign c; Publish (ECert ty c); Respond c]
  else if String.eqb pub "after-response" then [Sign c; Respond c; Publish (ECert ty c)]
  else if String.eqb pub "other-bytes" then [Sign c; Publish (ECert ty (0 :: c)); Respond c]
  else [Sign c; Respond c].

(* decidable form of "a publish of exactly c follows the signature of c and precedes every
   response": scan with a phase counter 0 = nothing yet, 1 = signed, 2 = published *)
Fixpoint trace_scan (c : bs) (phase : N) (tr : list effect) : bool :=
  match tr with
  | [] => false
  | Sign c' :: r => if (phase =? 0) && bs_eqb c' c then trace_scan c 1 r else trace_scan c phase r
  | Publish (ECert _ d) :: r =>
      if (phase =? 1) && bs_eqb d c then trace_scan c 2 r else trace_scan c phase r
  | Publish _ :: r => trace_scan c phase r
  | Respond c' :: r => (phase =? 2) && bs_eqb c' c
  end.
Definition trace_ok (c : bs) (tr : list effect) : bool := trace_scan c 0 tr.

Definition site_row_ok (r : string * string * string * string) : bool :=
  let '(_, _, class, pub) := r in
  String.eqb class "ca-init" || String.eqb pub "same-bytes-before-response".

(* ------------------------------------------------------------------ the daemon's event-producing operations *)

Inductive dop :=
| DIssue (p : path) (ok : bool) (c : bs)   (* request on path p; ok = answered 200 with certificate bytes c *)
| DLogin (user : bs) (ok html : bool)      (* password login; html = browser (Accept: text/html) with password-only web UI *)
| DSPLogin (url user : bs) (ok : bool)     (* OpenID Connect authorization for a service provider *)
| DRecv (i : nat) | DSub (capacity : nat) | DUnsub (i : nat).

Definition dop_effects (o : dop) : list effect :=
  match o with
  | DIssue p true c => issue_effects p c
  | DLogin u true html => Publish (EAuth 0 u) :: (if html then [Publish (EWebLogin u)] else [])
  | DSPLogin l u true => [Publish (ESPLogin l u)]
  | _ => []
  end.

Fixpoint published (tr : list effect) : list event :=
  match tr with
  | [] => []
  | Publish e :: r => e :: published r
  | _ :: r => published r
  end.

Definition dop_nops (o : dop) : list nop :=
  match o with
  | DRecv i => [NRecv i]
  | DSub k => [NSub k]
  | DUnsub i => [NUnsub i]
  | _ => map NPub (published (dop_effects o))
  end.

Definition dstep (s : nstate) (o : dop) : nstate := nrun (dop_nops o) s.
Definition drun (ops : list dop) (s : nstate) : nstate := fold_left dstep ops s.

(* what the harness can see of a state: per subscriber the channel length, and the stream it
   has read so far *)
Definition buf_lengths (s : nstate) : list nat := map (fun c => length (buf c)) s.

(* ------------------------------------------------------------------ recorder *)

Open Scope Z_scope.

(* eventrecorder.EventType *)
Record ev := mkEv { ctime : Z; authType : N; life : N; url : bs; ssh : bool; web : bool;
                    x509 : bool; vip : N }.

Definition ev_eqb (a b : ev) : bool :=
  (ctime a =? ctime b) && (authType a =? authType b)%N && (life a =? life b)%N &&
  bs_eqb (url a) (url b) && Bool.eqb (ssh a) (ssh b) && Bool.eqb (web a) (web b) &&
  Bool.eqb (x509 a) (x509 b) && (vip a =? vip b)%N.

Fixpoint evs_eqb (a b : list ev) : bool :=
  match a, b with
  | [], [] => true
  | x :: a', y :: b' => ev_eqb x y && evs_eqb a' b'
  | _, _ => false
  end.

Definition retention : Z := 31 * 24 * 3600.        (* durationMonth, seconds *)
Definition min_ctime (now : Z) : Z := now - retention.
Definition is_old (m : Z) (e : ev) : bool := ctime e <? m.
Definition fresh (m : Z) (e : ev) : bool := m <=? ctime e.

(* a user's events, NEWEST FIRST (the linked list seen from eventsList.newest along .older) *)
Definition ulist := list ev.

(* recordEvent: link the new event in front of `newest` *)
Definition push (e : ev) (l : ulist) : ulist := e :: l.

(* expireOldEvents: starts at eventsList.oldest and walks along .newer, unlinking every event
   whose CreateTime < minCreateTime, and stops at the first one that is not *)
Fixpoint drop_old (m : Z) (oldest_first : list ev) : list ev :=
  match oldest_first with
  | [] => []
  | e :: r => if is_old m e then drop_old m r else e :: r
  end.
Definition expire (m : Z) (l : ulist) : ulist := rev (drop_old m (rev l)).

(* getEventsList: from .newest along .older, appended to a slice; saveEvents writes it *)
Definition save (l : ulist) : list ev := l.

(* loadEvents: every kept element is linked in front of `newest`.  The repaired loader walks the
   saved slice from its last (oldest) element to its first; the old one walked it forwards *)
Definition link_kept (m : Z) (acc : ulist) (e : ev) : ulist := if is_old m e then acc else e :: acc.
Definition load (m : Z) (saved : list ev) : ulist := fold_left (link_kept m) (rev saved) [].
Definition load_old (m : Z) (saved : list ev) : ulist := fold_left (link_kept m) saved [].

(* recordCertEvent's rounding of the lifetime (whole seconds s = uint32(lifetime.Seconds()+0.5)) *)
Definition round_life (s : N) : N :=
  (if 3600 <=? s then
     let h := s / 3600 in let hp := (s + 60) / 3600 in if h <? hp then hp * 3600 else s
   else if 60 <=? s then
     let m := s / 60 in let mp := (s + 1) / 60 in if m <? mp then mp * 60 else s
   else s)%N.
Definition life_of_ms (ms : N) : N := round_life ((ms + 500) / 1000)%N.

(* eventsMap: user name -> list *)
Definition rstate := list (bs * ulist).

Fixpoint lookup (u : bs) (s : rstate) : option ulist :=
  match s with
  | [] => None
  | (k, l) :: r => if bs_eqb k u then Some l else lookup u r
  end.
Definition events_of (u : bs) (s : rstate) : ulist :=
  match lookup u s with Some l => l | None => [] end.

Fixpoint record (u : bs) (e : ev) (s : rstate) : rstate :=
  match s with
  | [] => [(u, push e [])]
  | (k, l) :: r => if bs_eqb k u then (k, push e l) :: r else (k, l) :: record u e r
  end.

Definition map_lists (f : ulist -> ulist) (s : rstate) : rstate := map (fun kl => (fst kl, f (snd kl))) s.

Inductive rop :=
| RAuth (now : Z) (u : bs) (aty vipty : N)
| RCert (now : Z) (u : bs) (life_ms : N) (is_ssh is_x509 : bool)
| RSP (now : Z) (u sp : bs)
| RWeb (now : Z) (u : bs)
| RExpire (now : Z)
| RReload (now : Z)      (* getEventsList; saveEvents; then a new recorder's loadEvents at `now` *)
| RGet.                  (* getEventsList *)

Definition rop_event (o : rop) : option (bs * ev) :=
  match o with
  | RAuth now u a v => Some (u, mkEv now a 0 [] false false false v)
  | RCert now u ms s x => Some (u, mkEv now 0 (life_of_ms ms) [] s false x 0)
  | RSP now u sp => Some (u, mkEv now 0 0 sp false false false 0)
  | RWeb now u => Some (u, mkEv now 0 0 [] false true false 0)
  | _ => None
  end.

Definition rstep (s : rstate) (o : rop) : rstate :=
  match rop_event o with
  | Some (u, e) => record u e s
  | None =>
      match o with
      | RExpire now => map_lists (expire (min_ctime now)) s
      | RReload now => map_lists (fun l => load (min_ctime now) (save l)) s
      | _ => s
      end
  end.
Definition rrun (ops : list rop) (s : rstate) : rstate := fold_left rstep ops s.

(* the same machine with the loader as it was before the fix *)
Definition rstep_old (s : rstate) (o : rop) : rstate :=
  match o with
  | RReload now => map_lists (fun l => load_old (min_ctime now) (save l)) s
  | _ => rstep s o
  end.

(* expireOldEvents' return value *)
Definition expire_changed (now : Z) (s : rstate) : bool :=
  existsb (fun kl => negb (Nat.eqb (length (expire (min_ctime now) (snd kl))) (length (snd kl)))) s.

(* the clock reading an operation carries *)
Definition rop_clock (o : rop) : option Z :=
  match o with
  | RAuth n _ _ _ | RCert n _ _ _ _ | RSP n _ _ | RWeb n _ | RExpire n | RReload n => Some n
  | RGet => None
  end.

(* ------------------------------------------------------------------ correspondence helpers *)

(* an observed dump (user, events newest first) against a model state: same users, same lists *)
Definition dump_matches (obs : list (bs * list ev)) (s : rstate) : bool :=
  Nat.eqb (length obs) (length s) &&
  forallb (fun ul => match lookup (fst ul) s with Some l => evs_eqb l (snd ul) | None => false end) obs.

(* run a recorder history and compare every observation: RExpire -> changed flag, RReload/RGet -> dump *)
Inductive robs := ONone | OChanged (b : bool) | ODump (d : list (bs * list ev)).

Fixpoint rcheck (s : rstate) (ops : list (rop * robs)) : bool :=
  match ops with
  | [] => true
  | (o, ob) :: r =>
      let pre_ok := match o, ob with
                    | RExpire now, OChanged b => Bool.eqb (expire_changed now s) b
                    | _, _ => true
                    end in
      let s' := rstep s o in
      let post_ok := match ob with ODump d => dump_matches d s' | _ => true end in
      pre_ok && post_ok && rcheck s' r
  end.

(* a notifier history with the observation after each step: channel lengths of all subscribers,
   and at the end the streams read by each *)
Fixpoint nats_eqb (a b : list nat) : bool :=
  match a, b with
  | [], [] => true
  | x :: a', y :: b' => Nat.eqb x y && nats_eqb a' b'
  | _, _ => false
  end.

(* lens = None: the harness took no snapshot after this step (it is in the middle of one
   request, e.g. draining its probe subscriber) *)
Fixpoint dcheck (s : nstate) (ops : list (dop * option (list nat))) : option nstate :=
  match ops with
  | [] => Some s
  | (o, lens) :: r =>
      let s' := dstep s o in
      match lens with
      | Some l => if nats_eqb (buf_lengths s') l then dcheck s' r else None
      | None => dcheck s' r
      end
  end.

(* final comparison: the stream each subscriber has read, and what is still buffered *)
Fixpoint streams_match (s : nstate) (obs : list (list event * list event)) : bool :=
  match s, obs with
  | [], [] => true
  | c :: s', (g, b) :: obs' => events_eqb (got c) g && events_eqb (buf c) b && streams_match s' obs'
  | _, _ => false
  end.

(* one whole notifier history: every snapshot agrees and the final streams agree *)
Definition dhistory_ok (ops : list (dop * option (list nat))) (final : list (list event * list event)) : bool :=
  match dcheck [] ops with
  | Some s => streams_match s final
  | None => false
  end.

(* ------------------------------------------------------------------ the recorder's event loop *)

(* eventLoop keeps a cached read-out (`lastEvents`), a save timer armed 5 s after the last change,
   and the history file.  Every change must drop the cache; a read-out or the save recompute it
   when it is missing (getEventsList(&lastEvents)). *)
Record lstate := mkL { l_map : rstate; l_cache : option rstate; l_file : option rstate; l_armed : bool }.

Inductive lop :=
| LRec (o : rop)        (* an event arrives on one of the five channels *)
| LHourly (now : Z)     (* hourly timer: expireOldEvents *)
| LRequest              (* a history request: answers with the (cached) read-out *)
| LSave.                (* the save timer fires *)

(* getEventsList(&lastEvents) *)
Definition l_get (st : lstate) : lstate * rstate :=
  match l_cache st with
  | Some c => (st, c)
  | None => (mkL (l_map st) (Some (l_map st)) (l_file st) (l_armed st), l_map st)
  end.

Definition lstep (st : lstate) (o : lop) : lstate :=
  match o with
  | LRec r =>
      match rop_event r with
      | Some _ => mkL (rstep (l_map st) r) None (l_file st) true
      | None => st
      end
  | LHourly now =>
      if expire_changed now (l_map st)
      then mkL (map_lists (expire (min_ctime now)) (l_map st)) None (l_file st) true
      else st
  | LRequest => fst (l_get st)
  | LSave =>
      if l_armed st
      then let (st', snap) := l_get st in mkL (l_map st') (l_cache st') (Some snap) false
      else st
  end.
Definition lrun (ops : list lop) (st : lstate) : lstate := fold_left lstep ops st.

(* a freshly started recorder: newEventRecorder loads the file, the loop computes the read-out once *)
Definition l_start (now : Z) (file : option rstate) : lstate :=
  let m := match file with Some f => map_lists (fun l => load (min_ctime now) l) f | None => [] end in
  mkL m (Some m) file false.

(* correspondence: requests are compared with the answer, saves with the file content *)
Inductive lobs := LNone | LAnswer (d : list (bs * list ev)) | LFile (d : list (bs * list ev)).

Fixpoint lcheck (st : lstate) (ops : list (lop * lobs)) : bool :=
  match ops with
  | [] => true
  | (o, ob) :: r =>
      let ans_ok := match o, ob with
                    | LRequest, LAnswer d => dump_matches d (snd (l_get st))
                    | _, _ => true
                    end in
      let st' := lstep st o in
      let file_ok := match ob with
                     | LFile d => match l_file st' with Some f => dump_matches d f | None => false end
                     | _ => true
                     end in
      ans_ok && file_ok && lcheck st' r
  end.

(* a daemon life with restarts: each segment starts from the file the previous one left *)
Fixpoint lcheck_segs (file : option rstate) (now : Z) (segs : list (list (lop * lobs))) : bool :=
  match segs with
  | [] => true
  | seg :: r =>
      let st0 := l_start now file in
      lcheck st0 seg && lcheck_segs (l_file (lrun (map fst seg) st0)) now r
  end.

(* ================================================================== added for the stalled-subscriber and crash/fault cases *)
Open Scope N_scope.

(* ------------------------------------------------------------------ a stalled subscriber *)

(* the notifier as the subscribers other than j see it *)
Definition others (j : nat) (s : nstate) : nstate := firstn j s ++ skipn (S j) s.

(* subscriber j's reader is stalled: its connection goroutine never takes another event *)
Fixpoint stalled (j : nat) (ops : list nop) : bool :=
  match ops with
  | [] => true
  | NRecv i :: r => negb (Nat.eqb i j) && stalled j r
  | _ :: r => stalled j r
  end.

Fixpoint mem_nat (x : nat) (l : list nat) : bool :=
  match l with [] => false | y :: r => Nat.eqb x y || mem_nat x r end.

Fixpoint is_subseq (a b : list event) : bool :=
  match a, b with
  | [], _ => true
  | _ :: _, [] => false
  | x :: a', y :: b' => if event_eqb x y then is_subseq a' b' else is_subseq a b'
  end.

(* correspondence with stalled subscribers: n subscribers on the production connection path; the
   ones listed in `stalled_subs` stop reading (their connection goroutine holds one event and
   blocks on the connection); `blocked` = indices of operations that did not return in time.
   Model: no operation blocks; a healthy subscriber (room at every publish) is handed the whole
   publication sequence; a stalled one exactly what the model's queue accepted. *)
Definition stream_history_ok2 (c : nat * list nat * list nop * list (list event) * list nat) : bool :=
  let '(n, stalled_subs, ops, obs, blocked) := c in
  let s0 := nrun (repeat (NSub 16) n) [] in
  let s := nrun ops s0 in
  match blocked with [] => true | _ => false end &&
  Nat.eqb (length obs) n &&
  forallb (fun i => mem_nat i stalled_subs || never_full i ops s0) (seq 0 n) &&
  (fix go (i : nat) (chs : nstate) (obs : list (list event)) : bool :=
     match chs, obs with
     | [], [] => true
     | ch :: chs', o :: obs' =>
         events_eqb (delivered ch) o &&
         (mem_nat i stalled_subs || events_eqb (pubs ops) o) && go (S i) chs' obs'
     | _, _ => false
     end) 0%nat s obs.

(* the property's own predicate on the observation of such a case: some operation did not
   terminate, or a healthy subscriber was not handed exactly the published sequence, or a stalled
   one was handed something that is not a subsequence of it *)
Definition stream_obs_violates (c : nat * list nat * list nop * list (list event) * list nat) : bool :=
  let '(n, stalled_subs, ops, obs, blocked) := c in
  match blocked with [] => false | _ => true end ||
  (fix go (i : nat) (obs : list (list event)) : bool :=
     match obs with
     | [] => false
     | o :: obs' =>
         (if mem_nat i stalled_subs then negb (is_subseq o (pubs ops)) else negb (events_eqb (pubs ops) o))
         || go (S i) obs'
     end) 0%nat obs.

(* ------------------------------------------------------------------ the history file on disk *)

(* a tiny file system: names -> contents.  A file holds a complete document (one generation of the
   history, as written by gob) or something the decoder rejects (empty, a prefix, other bytes). *)
Inductive fcontent := FWhole (g : rstate) | FTorn.
Definition fsys := list (bs * fcontent).

Fixpoint fs_get (n : bs) (fs : fsys) : option fcontent :=
  match fs with
  | [] => None
  | (k, c) :: r => if bs_eqb k n then Some c else fs_get n r
  end.
Fixpoint fs_del (n : bs) (fs : fsys) : fsys :=
  match fs with
  | [] => []
  | (k, c) :: r => if bs_eqb k n then fs_del n r else (k, c) :: fs_del n r
  end.
Definition fs_set (n : bs) (c : fcontent) (fs : fsys) : fsys := (n, c) :: fs_del n fs.

(* fsutil.createRenamingWriter: tmpFilename := filename + "~" *)
Definition tmp_name (f : bs) : bs := f ++ [126].

Inductive fstep :=
| FOpenTrunc (n : bs)              (* os.OpenFile(n, O_CREATE|O_TRUNC|O_WRONLY): exists, empty *)
| FWrite (n : bs)                  (* bufio spills a full buffer: a proper prefix of the document *)
| FWriteLast (n : bs) (g : rstate) (* Flush: the document is complete *)
| FSync (n : bs)
| FClose
| FRename (a b : bs)               (* atomic; fails (no effect) when a does not exist *)
| FRemove (n : bs).

Definition fs_step (fs : fsys) (s : fstep) : fsys :=
  match s with
  | FOpenTrunc n => fs_set n FTorn fs
  | FWrite n => fs_set n FTorn fs
  | FWriteLast n g => fs_set n (FWhole g) fs
  | FSync _ | FClose => fs
  | FRename a b => match fs_get a fs with Some c => fs_set b c (fs_del a fs) | None => fs end
  | FRemove n => fs_del n fs
  end.
Definition fs_run (l : list fstep) (fs : fsys) : fsys := fold_left fs_step l fs.

(* saveEvents (eventrecorder/impl.go) over fsutil.CreateRenamingWriter / RenamingWriter.Close:
   open "<f>~", gob through bufio (Write..., Flush), then Close = fsync, close, rename "<f>~" -> f,
   and the deferred os.Remove("<f>~") *)
Definition save_prog (f : bs) (g : rstate) : list fstep :=
  let t := tmp_name f in
  [FOpenTrunc t; FWrite t; FWriteLast t g; FSync t; FClose; FRename t f; FRemove t].

(* the error path: when the open fails nothing else happens; after any later failure (a write
   error sets `abort`, fsync / close / rename errors return from close()) the deferred
   os.Remove("<f>~") still runs *)
Definition save_cleanup (f : bs) (k : nat) : list fstep :=
  match k with O => [] | S _ => [FRemove (tmp_name f)] end.

(* how a save ends: it completes, the process dies before step k, or step k fails *)
Inductive stop := Completes | CrashAt (k : nat) | FaultAt (k : nat).

Definition run_save (prog : list fstep) (cleanup : nat -> list fstep) (st : stop) (fs : fsys) : fsys :=
  match st with
  | Completes => fs_run prog fs
  | CrashAt k => fs_run (firstn k prog) fs
  | FaultAt k => fs_run (cleanup k) (fs_run (firstn k prog) fs)
  end.

(* the "move the previous generation aside first" shape: the live file is renamed away before the
   final rename puts the new generation in place *)
Definition bak_name (f : bs) : bs := f ++ [46; 111; 108; 100].
Definition save_prog_aside (f : bs) (g : rstate) : list fstep :=
  let t := tmp_name f in
  [FOpenTrunc t; FWrite t; FWriteLast t g; FRename f (bak_name f); FSync t; FClose; FRename t f; FRemove t].

(* newEventRecorder -> loadEvents(filename): a missing file is a first start, an undecodable one an
   error (New fails), otherwise the generation in the file *)
Inductive loaded := LFirstStart | LGen (g : rstate) | LRefused.
Definition startup_load (fs : fsys) (f : bs) : loaded :=
  match fs_get f fs with
  | None => LFirstStart
  | Some (FWhole g) => LGen g
  | Some FTorn => LRefused
  end.
(* ... and the recorder it starts *)
Definition startup (now : Z) (fs : fsys) (f : bs) : option lstate :=
  match startup_load fs f with
  | LFirstStart => Some (l_start now None)
  | LGen g => Some (l_start now (Some g))
  | LRefused => None
  end.

(* correspondence for fault / crash cases: generations are told apart by a tag user; the observed
   class is 0 = previous generation, 1 = new generation, 2 = started empty, 3 = refused to start *)
Definition gen_tag (k : N) : rstate := [([k], [])].
Definition loaded_class (l : loaded) : N :=
  match l with
  | LGen g => match g with
              | [(u, _)] => if bs_eqb u [1] then 0 else if bs_eqb u [2] then 1 else 4
              | _ => 4
              end
  | LFirstStart => 2
  | LRefused => 3
  end.
Definition save_case_fs (had : bool) : fsys := if had then [([102], FWhole (gen_tag 1))] else [].
Definition save_case_class (had : bool) (st : stop) : N :=
  loaded_class (startup_load (run_save (save_prog [102] (gen_tag 2)) (save_cleanup [102]) st (save_case_fs had)) [102]).
(* case = (had a previous generation, Some stop | None = some instant of a complete save, observed class) *)
Definition save_case_ok (c : bool * option stop * N) : bool :=
  let '(had, st, obs) := c in
  match st with
  | Some s => save_case_class had s =? obs
  | None => existsb (fun k => save_case_class had (CrashAt k) =? obs) (seq 0 9)
  end.
(* the property on the observation: with a previous generation the restart comes back with it or
   with the new one; without one, empty or the new one *)
Definition save_obs_violates (c : bool * option stop * N) : bool :=
  let '(had, _, obs) := c in
  negb ((obs =? 1) || (if had then obs =? 0 else obs =? 2)).

(* start-up cases: the directory as a list of (name, content) codes — name 0 = the history file f,
   1 = f~, k = f with another suffix; content 0 = the good generation, 1 = another complete
   generation, anything else = something the decoder rejects *)
Definition case_name (k : N) : bs :=
  if k =? 0 then [102] else if k =? 1 then tmp_name [102] else [102; 46; k].
Definition case_content (k : N) : fcontent :=
  if k =? 0 then FWhole (gen_tag 1) else if k =? 1 then FWhole (gen_tag 2) else FTorn.
Definition startup_case_fs (l : list (N * N)) : fsys :=
  fold_left (fun fs nc => fs_set (case_name (fst nc)) (case_content (snd nc)) fs) l [].
Definition startup_case_ok (c : list (N * N) * N) : bool :=
  loaded_class (startup_load (startup_case_fs (fst c)) [102]) =? snd c.
(* the property on the observation: a start on a good history file comes back with it *)
Definition startup_obs_violates (c : list (N * N) * N) : bool :=
  existsb (fun nc => (fst nc =? 0) && (snd nc =? 0)) (fst c) && negb (snd c =? 0).

(* the property on the observations of a recorder history: a save and restart (RReload) must come
   back with the entries of the state BEFORE it that are not older than the retention, same order.
   The state before is taken from the observations themselves (the last dump, plus what was
   recorded since), so that an earlier deviation is not blamed on the reload. *)
Fixpoint robs_violation (s : rstate) (ops : list (rop * robs)) : bool :=
  match ops with
  | [] => false
  | (o, ob) :: r =>
      let s' := rstep s o in
      match ob with
      | ODump d => (match o with RReload _ => negb (dump_matches d s') | _ => false end) || robs_violation d r
      | _ => robs_violation s' r
      end
  end.
