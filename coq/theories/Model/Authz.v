(* C08 — who may act on whose profile.  Follows, handler by handler and comparison by
   comparison:
     cmd/keymasterd/app.go            _IsAdminUser, IsAdminUserAndU2F, isAutomationUser,
                                      profileHandler, u2fTokenManagerHandler
     cmd/keymasterd/2fa_totp.go       GenerateNewTOTP, validateNewTOTP, totpTokenManagerHandler
     cmd/keymasterd/2fa_u2f.go        u2fRegisterRequest, u2fRegisterResponse
     cmd/keymasterd/2fa_webauthn.go   webauthnBeginRegistration, webauthnFinishRegistration
     cmd/keymasterd/adminHandlers.go  sendFailureToClientIfNonAdmin, ensurePostAndGetUsername,
                                      usersHandler, addUserHandler, deleteUserHandler,
                                      generateBootstrapOTP
     cmd/keymasterd/roleRequestingCert.go  isAutomationAdmin, roleRequetingCertGenHandler,
                                      parseRoleCertGenParams

   USER NAMES ARE BYTE STRINGS, compared byte by byte as Go's == does on the names as stored
   (the row key of user_profile, the subject of the session, the form value / path element):
   "jsmith" and "JSmith" are two accounts unless reprocessUsername folded them at login, which
   it does iff disable_username_normalization is off (a configuration field here).  Group names
   and the names given to tokens stay numbers (0 = a name the pattern refuses / the empty
   string).  Session levels are the AuthType bit masks of Model/Auth.v.  The verdict of IsAdminUser for the authenticated user
   (Model/AdminCache.v) and the directory's answer about the requested automation identity are
   inputs of a request.  Cryptographic verification of a submitted registration / one-time code
   is an input (`proof`).  A stored profile is reduced to what the handlers read and write. *)
From Coq Require Import ZArith NArith List Bool.
From KM Require Import Base.Bytes Model.Auth.
Import ListNotations.
Open Scope N_scope.

Definition mem (x : N) (l : list N) : bool := existsb (N.eqb x) l.

(* user names *)
Definition name := bs.
Definition empty (n : name) : bool := match n with [] => true | _ :: _ => false end.
Definition memn (x : name) (l : list name) : bool := existsb (bs_eqb x) l.

(* app.go reprocessUsername: strings.ToLower unless normalisation is disabled (names are ASCII) *)
Definition lower_byte (c : N) : N := if (65 <=? c) && (c <=? 90) then c + 32 else c.
Definition normalise (disable : bool) (n : name) : name := if disable then n else map lower_byte n.

Record cfg := {
  admin_users : list name;          (* Config.Base.AdminUsers *)
  admin_groups : list N;            (* Config.Base.AdminGroups *)
  automation_users : list name;     (* Config.Base.AutomationUsers *)
  automation_user_groups : list N;  (* Config.Base.AutomationUserGroups *)
  automation_admins : list name;    (* Config.Base.AutomationAdmins *)
  webui_required : N;               (* getRequiredWebUIAuthLevel() *)
  disable_normalisation : bool }.   (* Config.Base.DisableUsernameNormalization *)

(* the directory (getUserGroups): None = error, Some groups *)
Definition answer := option (list N).

(* _IsAdminUser *)
Definition raw_is_admin (c : cfg) (u : name) (dir : answer) : option bool :=
  if memn u (admin_users c) then Some true
  else match admin_groups c with
       | [] => Some false
       | _ :: _ =>
           match dir with
           | None => None
           | Some gs => Some (existsb (fun g => mem g gs) (admin_groups c))
           end
       end.

(* isAutomationUser: the directory is consulted even when no automation group is configured *)
Definition is_automation_user (c : cfg) (id : name) (dir : answer) : option bool :=
  if memn id (automation_users c) then Some true
  else match dir with
       | None => None
       | Some gs => Some (existsb (fun g => mem g gs) (automation_user_groups c))
       end.

(* isAutomationAdmin, given IsAdminUser's verdict *)
Definition is_automation_admin (c : cfg) (adm : bool) (u : name) : bool :=
  adm || memn u (automation_admins c).

(* IsAdminUserAndU2F, given IsAdminUser's verdict *)
Definition admin_and_u2f (adm : bool) (level : N) : bool := adm && hasb level bU2F.

(* ------------------------------------------------------------------ operations *)

Inductive action := Update | Disable | Enable | Delete | OtherAction.

Inductive op :=
| ViewProfile                 (* /profile/<target> *)
| ManageU2F (a : action)      (* /api/v0/manageU2FToken  username=<target> *)
| ManageTOTP (a : action)     (* /api/v0/manageTOTPToken username=<target> *)
| U2FRegBegin                 (* /u2f/RegisterRequest/<target> *)
| U2FRegFinish                (* /u2f/RegisterResponse/<target> *)
| WARegBegin                  (* /webauthn/RegisterRequest/<target> *)
| WARegFinish                 (* /webauthn/RegisterFinish/<target> *)
| TOTPGenerate                (* /api/v0/GenerateNewTOTP (no target parameter is read) *)
| TOTPValidate                (* /api/v0/ValidateNewTOTP *)
| ListUsers                   (* /users/ *)
| AddUser                     (* /admin/addUser     username=<target> *)
| DeleteUser                  (* /admin/deleteUser  username=<target> *)
| NewBootstrapOTP             (* /admin/newBoostrapOTP username=<target> *)
| RoleCert.                   (* /v1/getRoleRequestingCert identity=<identity> *)

Inductive decision := Allow | Deny.

(* whose profile the handler loads (and saves) *)
Definition effective_target (actor target : name) (o : op) : name :=
  match o with
  | ViewProfile => if empty target then actor else target
  | TOTPGenerate | TOTPValidate => actor
  | _ => target
  end.

(* the authorization test of each handler, as written there *)
Definition authorize (c : cfg) (adm : bool) (actor : name) (level : N) (target : name) (o : op) : decision :=
  match o with
  | ViewProfile =>
      if empty target then Allow                     (* assumedUser == "" -> own profile *)
      else if negb adm then Deny                    (* !state.IsAdminUser(authData.Username) *)
      else Allow
  | ManageU2F _ | ManageTOTP _ =>
      (* !hasAdminRights && assumedUser != authData.Username *)
      if negb (admin_and_u2f adm level) && negb (bs_eqb target actor) then Deny else Allow
  | U2FRegBegin | U2FRegFinish | WARegBegin | WARegFinish =>
      (* !IsAdminUserAndU2F(...) && authData.Username != assumedUser *)
      if negb (admin_and_u2f adm level) && negb (bs_eqb actor target) then Deny else Allow
  | TOTPGenerate | TOTPValidate => Allow            (* only authData.Username is ever used *)
  | ListUsers | AddUser | DeleteUser | NewBootstrapOTP =>
      if negb adm then Deny else Allow              (* sendFailureToClientIfNonAdmin *)
  | RoleCert =>
      if negb (is_automation_admin c adm actor) then Deny else Allow
  end.

(* ------------------------------------------------------------------ credentials *)

(* the credential shapes of the matrix: a valid session cookie (user, level), a verified keymaster
   client-certificate chain, and an IP-restricted automation certificate (role CA; none of these
   endpoints asks for AuthTypeIPCertificate, so it never lets anybody in here).  Model/Auth.v has
   the full checkAuth; Proofs/Authz.v relates the two *)
Inductive cred :=
| NoCred
| Session (user : name) (level : N)   (* a valid session cookie with this subject *)
| KMCert (user : name)
| IPCert (user : name)
| Login (typed : name) (level : N).   (* the session somebody got by logging in with this spelling of
                                         the name: the subject is what reprocessUsername made of it *)

(* the credential as checkAuth sees it *)
Definition resolve (c : cfg) (cr : cred) : cred :=
  match cr with
  | Login typed l => Session (normalise (disable_normalisation c) typed) l
  | x => x
  end.

Definition required_for (c : cfg) (o : op) : N :=
  match o with
  | ListUsers | AddUser | DeleteUser | NewBootstrapOTP | RoleCert =>
      N.lor (webui_required c) bKMX509
  | _ => webui_required c
  end.

Definition authenticate (required : N) (cr : cred) : option (name * N) :=
  match cr with
  | NoCred => None
  | Session u l => if hasb l required then Some (u, l) else None
  | KMCert u => if hasb required bKMX509 then Some (u, bKMX509) else None
  | IPCert _ => None
  | Login _ _ => None                 (* resolved before: see [resolve] and [step] *)
  end.

(* ------------------------------------------------------------------ profile store *)

(* the name of a token: a number (0 = empty / never given), or "Registered by <actor>" *)
Inductive tname := TN (n : N) | TRegBy (actor : name).
Record tok := { tk_name : tname; tk_enabled : bool }.
Definition tokens := list (Z * tok).                (* map[int64]*...AuthData, sorted by index *)

Record profile := {
  p_u2f : tokens;            (* U2fAuthData *)
  p_wa : tokens;             (* WebauthnData *)
  p_totp : tokens;           (* TOTPAuthData *)
  p_regchal : bool;          (* RegistrationChallenge != nil *)
  p_pending_totp : bool;     (* PendingTOTPSecret != nil *)
  p_wa_session : bool;       (* WebauthnSessionData != nil *)
  p_bootstrap : bool;        (* BootstrapOTP set *)
  p_registered : bool }.     (* UserHasRegistered2ndFactor *)

Definition empty_profile : profile :=
  {| p_u2f := []; p_wa := []; p_totp := []; p_regchal := false; p_pending_totp := false;
     p_wa_session := false; p_bootstrap := false; p_registered := false |}.

Definition store := list (name * profile).          (* table user_profile: the key is the name as stored *)

Fixpoint find (s : store) (u : name) : option profile :=
  match s with
  | [] => None
  | (k, p) :: r => if bs_eqb k u then Some p else find r u
  end.

(* LoadUserProfile: the default profile when there is no row *)
Definition load (s : store) (u : name) : profile :=
  match find s u with Some p => p | None => empty_profile end.

Fixpoint remove (s : store) (u : name) : store :=
  match s with
  | [] => []
  | (k, p) :: r => if bs_eqb k u then remove r u else (k, p) :: remove r u
  end.

(* SaveUserProfile (insert or replace) / DeleteUserProfile *)
Definition save (s : store) (u : name) (p : profile) : store := (u, p) :: remove s u.

Fixpoint tfind (l : tokens) (i : Z) : option tok :=
  match l with
  | [] => None
  | (k, t) :: r => if Z.eqb k i then Some t else tfind r i
  end.
Fixpoint tset (l : tokens) (i : Z) (t : tok) : tokens :=
  match l with
  | [] => []
  | (k, x) :: r => if Z.eqb k i then (k, t) :: r else (k, x) :: tset r i t
  end.
Fixpoint tdel (l : tokens) (i : Z) : tokens :=
  match l with
  | [] => []
  | (k, x) :: r => if Z.eqb k i then r else (k, x) :: tdel r i
  end.

(* the index a new token gets (CreatedAt.Unix()); the correspondence canonicalises it *)
Definition fresh_index : Z := 1000000%Z.
(* "Registered by <actor>" *)
Definition registered_by (actor : name) : tname := TRegBy actor.

(* the switch on "action" of the two token managers; name 0 stands for a name the pattern
   ^[-/.a-zA-Z0-9_ ]+$ refuses *)
Definition apply_action (a : action) (name : N) (l : tokens) (i : Z) (t : tok) : option tokens :=
  match a with
  | Update => if name =? 0 then None else Some (tset l i {| tk_name := TN name; tk_enabled := tk_enabled t |})
  | Disable => Some (tset l i {| tk_name := tk_name t; tk_enabled := false |})
  | Enable => Some (tset l i {| tk_name := tk_name t; tk_enabled := true |})
  | Delete => Some (tdel l i)
  | OtherAction => None
  end.

(* ------------------------------------------------------------------ requests *)

(* what the verifier behind a "finish" step says about the submitted material *)
Inductive proof := PMalformed | PWrong | PGood.

Inductive resp :=
| ROk          (* 2xx / 3xx *)
| RDenied      (* 401 / 403: not authenticated or not authorized *)
| RBad         (* other 4xx *)
| RErr.        (* 5xx *)

Record request := {
  r_cred : cred;
  r_post : bool;                 (* method = POST *)
  r_op : op;
  r_target : name;               (* username / path element / identity; [] = absent or empty *)
  r_index : option Z;            (* form value "index": None = absent or not a number *)
  r_name : N;                    (* form value "name" *)
  r_proof : proof;               (* finish steps *)
  r_adm : bool;                  (* IsAdminUser(authenticated user) at this moment *)
  r_dir_target : answer;         (* getUserGroups(identity) (RoleCert) *)
  r_params_ok : bool }.          (* RoleCert: netblocks and public key well formed and strong *)

Definition set_u2f (p : profile) (l : tokens) : profile :=
  {| p_u2f := l; p_wa := p_wa p; p_totp := p_totp p; p_regchal := p_regchal p;
     p_pending_totp := p_pending_totp p; p_wa_session := p_wa_session p;
     p_bootstrap := p_bootstrap p; p_registered := p_registered p |}.
Definition set_wa (p : profile) (l : tokens) : profile :=
  {| p_u2f := p_u2f p; p_wa := l; p_totp := p_totp p; p_regchal := p_regchal p;
     p_pending_totp := p_pending_totp p; p_wa_session := p_wa_session p;
     p_bootstrap := p_bootstrap p; p_registered := p_registered p |}.
Definition set_totp (p : profile) (l : tokens) : profile :=
  {| p_u2f := p_u2f p; p_wa := p_wa p; p_totp := l; p_regchal := p_regchal p;
     p_pending_totp := p_pending_totp p; p_wa_session := p_wa_session p;
     p_bootstrap := p_bootstrap p; p_registered := p_registered p |}.

(* what the handler does once authentication and authorization have passed; `t` is the
   effective target whose profile is loaded *)
Definition perform (c : cfg) (s : store) (r : request) (actor t : name) : store * resp :=
  let p := load s t in
  match r_op r with
  | ViewProfile => (s, ROk)
  | ManageU2F a =>
      match r_index r with
      | None => (s, RBad)
      | Some i =>
          match tfind (p_u2f p) i, tfind (p_wa p) i with
          | None, None => (s, RBad)
          | Some tk, _ =>
              match apply_action a (r_name r) (p_u2f p) i tk with
              | None => (s, RBad)
              | Some l => (save s t (set_u2f p l), ROk)
              end
          | None, Some tk =>
              match apply_action a (r_name r) (p_wa p) i tk with
              | None => (s, RBad)
              | Some l => (save s t (set_wa p l), ROk)
              end
          end
      end
  | ManageTOTP a =>
      match r_index r with
      | None => (s, RBad)
      | Some i =>
          match tfind (p_totp p) i with
          | None => (s, RBad)
          | Some tk =>
              match apply_action a (r_name r) (p_totp p) i tk with
              | None => (s, RBad)
              | Some l => (save s t (set_totp p l), ROk)
              end
          end
      end
  | U2FRegBegin =>
      (save s t {| p_u2f := p_u2f p; p_wa := p_wa p; p_totp := p_totp p; p_regchal := true;
                   p_pending_totp := p_pending_totp p; p_wa_session := p_wa_session p;
                   p_bootstrap := p_bootstrap p; p_registered := p_registered p |}, ROk)
  | U2FRegFinish =>
      match r_proof r with
      | PMalformed => (s, RBad)                              (* body is not JSON *)
      | pr =>
          if negb (p_regchal p) then (s, RBad)               (* "challenge not found" *)
          else match pr with
               | PGood =>
                   let name := if bs_eqb actor t then TN 0 else registered_by actor in
                   (save s t {| p_u2f := p_u2f p ++ [(fresh_index, {| tk_name := name; tk_enabled := true |})];
                                p_wa := p_wa p; p_totp := p_totp p; p_regchal := false;
                                p_pending_totp := p_pending_totp p; p_wa_session := p_wa_session p;
                                p_bootstrap := p_bootstrap p; p_registered := true |}, ROk)
               | _ => (s, RErr)                              (* "error verifying response", 500 *)
               end
      end
  | WARegBegin =>
      (save s t {| p_u2f := p_u2f p; p_wa := p_wa p; p_totp := p_totp p; p_regchal := p_regchal p;
                   p_pending_totp := p_pending_totp p; p_wa_session := true;
                   p_bootstrap := p_bootstrap p; p_registered := p_registered p |}, ROk)
  | WARegFinish =>
      if negb (p_wa_session p) then (s, RErr)                (* nil dereference: the handler panics *)
      else match r_proof r with
           | PGood =>
               (save s t (set_wa p (p_wa p ++ [(fresh_index, {| tk_name := TN 0; tk_enabled := true |})])), ROk)
           | _ => (s, RBad)
           end
  | TOTPGenerate =>
      (save s t {| p_u2f := p_u2f p; p_wa := p_wa p; p_totp := p_totp p; p_regchal := p_regchal p;
                   p_pending_totp := true; p_wa_session := p_wa_session p;
                   p_bootstrap := p_bootstrap p; p_registered := p_registered p |}, ROk)
  | TOTPValidate =>
      match r_proof r with
      | PMalformed => (s, RBad)                              (* OTP is not a number *)
      | pr =>
          if negb (p_pending_totp p) then (s, RBad)          (* "No pending Secrets" *)
          else match pr with
               | PGood =>
                   (save s t {| p_u2f := p_u2f p; p_wa := p_wa p;
                                p_totp := p_totp p ++ [(fresh_index, {| tk_name := TN 0; tk_enabled := true |})];
                                p_regchal := p_regchal p; p_pending_totp := false;
                                p_wa_session := p_wa_session p; p_bootstrap := p_bootstrap p;
                                p_registered := true |}, ROk)
               | _ => (s, RBad)
               end
      end
  | ListUsers => (s, ROk)
  | AddUser =>
      if empty t then (s, RBad)                               (* ensurePostAndGetUsername *)
      else match find s t with
           | Some _ => (s, RBad)                             (* "User exists in DB" *)
           | None => (save s t empty_profile, ROk)
           end
  | DeleteUser =>
      if empty t then (s, RBad) else (remove s t, ROk)
  | NewBootstrapOTP =>
      if empty t then (s, RBad)
      else match find s t with
           | None => (s, RBad)                               (* "User does not exist in DB" *)
           | Some q =>
               match p_u2f q, p_totp q with
               | [], [] =>
                   (save s t {| p_u2f := p_u2f q; p_wa := p_wa q; p_totp := p_totp q;
                                p_regchal := p_regchal q; p_pending_totp := p_pending_totp q;
                                p_wa_session := p_wa_session q; p_bootstrap := true;
                                p_registered := p_registered q |}, ROk)
               | _, _ => (s, RBad)                           (* 412 "User has U2F tokens registered" *)
               end
           end
  | RoleCert =>
      if empty t then (s, RBad)                               (* "Missing identity parameter" *)
      else match is_automation_user c t (r_dir_target r) with
           | None => (s, RErr)
           | Some false => (s, RBad)                         (* "requested role is not automation user" *)
           | Some true => if r_params_ok r then (s, ROk) else (s, RBad)
           end
  end.

(* does the handler refuse other methods than POST, and where: before or after the
   authorization test *)
Definition post_before_authz (o : op) : bool :=
  match o with ManageTOTP _ | TOTPValidate => true
  | ManageU2F _ => true   (* since fix 2b03847: tokens are only changed by POST *)
  | _ => false end.
Definition post_after_authz (o : op) : bool :=
  match o with AddUser | DeleteUser | NewBootstrapOTP | RoleCert => true
  | U2FRegFinish | WARegFinish => true   (* since fix 8abc791: a registration is only finished by POST *)
  | _ => false end.

Definition step (c : cfg) (s : store) (r : request) : store * resp :=
  match authenticate (required_for c (r_op r)) (resolve c (r_cred r)) with
  | None => (s, RDenied)
  | Some (actor, level) =>
      if post_before_authz (r_op r) && negb (r_post r) then (s, RBad)
      else match authorize c (r_adm r) actor level (r_target r) (r_op r) with
           | Deny => (s, RDenied)
           | Allow =>
               if post_after_authz (r_op r) && negb (r_post r) then (s, RBad)
               else perform c s r actor (effective_target actor (r_target r) (r_op r))
           end
  end.

Fixpoint run (c : cfg) (s : store) (l : list request) : store :=
  match l with
  | [] => s
  | r :: rest => run c (fst (step c s r)) rest
  end.

(* ------------------------------------------------------------------ comparison helpers for
   the correspondence case files *)
Definition tname_eqb (a b : tname) : bool :=
  match a, b with
  | TN x, TN y => x =? y
  | TRegBy x, TRegBy y => bs_eqb x y
  | _, _ => false
  end.
Definition tok_eqb (a b : tok) : bool := tname_eqb (tk_name a) (tk_name b) && Bool.eqb (tk_enabled a) (tk_enabled b).
Fixpoint tokens_eqb (a b : tokens) : bool :=
  match a, b with
  | [], [] => true
  | (i, x) :: r, (j, y) :: s => Z.eqb i j && tok_eqb x y && tokens_eqb r s
  | _, _ => false
  end.
Definition profile_eqb (a b : profile) : bool :=
  tokens_eqb (p_u2f a) (p_u2f b) && tokens_eqb (p_wa a) (p_wa b) && tokens_eqb (p_totp a) (p_totp b) &&
  Bool.eqb (p_regchal a) (p_regchal b) && Bool.eqb (p_pending_totp a) (p_pending_totp b) &&
  Bool.eqb (p_wa_session a) (p_wa_session b) && Bool.eqb (p_bootstrap a) (p_bootstrap b) &&
  Bool.eqb (p_registered a) (p_registered b).
Definition oprofile_eqb (a b : option profile) : bool :=
  match a, b with
  | None, None => true
  | Some x, Some y => profile_eqb x y
  | _, _ => false
  end.
(* two stores agree on every user of a list *)
Definition stores_agree (us : list name) (a b : store) : bool :=
  forallb (fun u => oprofile_eqb (find a u) (find b u)) us.
Definition resp_eqb (a b : resp) : bool :=
  match a, b with
  | ROk, ROk | RDenied, RDenied | RBad, RBad | RErr, RErr => true
  | _, _ => false
  end.

(* ------------------------------------------------------------------ the SECOND role-certificate path:
   /v1/refreshRoleRequestingCert (roleRequestingCert.go refreshRoleRequestingCertGenHandler,
   parseRefreshRoleCertGenParams): renewal of a role-requesting certificate by its holder.

     checkAuth(w, r, AuthTypeIPCertificate)         [authenticate_ip refresh_required; ip_cert_accepted: the
                                                     CN must be an automation user — 403 otherwise, 500 if
                                                     the directory fails]
     r.Method != "POST" -> 405
     identityName := authData.Username               the CN of the presented certificate — the form is
                                                     NOT consulted: [r_target] (the form's "identity",
                                                     body or query string; [] = absent or empty) is an
                                                     input of the request that this function never reads
     identityName == "" -> 400; isAutomationUser(identityName): error -> 500, no -> 400
     pubkey malformed / weak -> 400                  [r_params_ok]
     r.TLS == nil || no verified chain -> 400        "MUST only come from certificate"
     certificate for identityName, netblocks of the presented certificate; nothing is stored.

   On this path [r_dir_target] is the directory's answer about the identity the handler looks up, i.e.
   about the certificate's CN.  The third component of the result is the CN of the issued certificate. *)

Definition refresh_required : N := bIPCert.

(* checkAuth with the IP-restricted certificate as a credential: [IPCert u] is a verified chain to the
   role CA for CN u, presented from inside the certificate's netblocks (C11 is about that test) *)
Definition authenticate_ip (required : N) (cr : cred) : option (name * N) :=
  match cr with
  | IPCert u => if hasb required bIPCert && negb (empty u) then Some (u, bIPCert) else None
  | x => authenticate required x
  end.

(* app.go getUsernameIfIPRestricted, inside checkAuth: the CN of an IP-restricted certificate must itself be an
   automation user (isAutomationUser: error -> 500, no -> 403 "Bad username for ip restricted cert") — a
   certificate whose CN is not (or no longer) a configured automation identity is no credential *)
Definition ip_cert_accepted (c : cfg) (cr : cred) (dir : answer) : option bool :=
  match cr with
  | IPCert u => is_automation_user c u dir
  | _ => Some true
  end.

Definition from_ip_certificate (cr : cred) : bool := match cr with IPCert _ => true | _ => false end.

Definition refresh_step (c : cfg) (s : store) (r : request) : store * resp * option name :=
  match authenticate_ip refresh_required (resolve c (r_cred r)) with
  | None => (s, RDenied, None)
  | Some (actor, _) =>
      match ip_cert_accepted c (resolve c (r_cred r)) (r_dir_target r) with
      | None => (s, RErr, None)
      | Some false => (s, RDenied, None)
      | Some true =>
      if negb (r_post r) then (s, RBad, None)
      else if empty actor then (s, RBad, None)
      else match is_automation_user c actor (r_dir_target r) with
           | None => (s, RErr, None)
           | Some false => (s, RBad, None)
           | Some true =>
               if negb (r_params_ok r) then (s, RBad, None)
               else if negb (from_ip_certificate (resolve c (r_cred r))) then (s, RBad, None)
               else (s, ROk, Some actor)
           end
      end
  end.

(* NOT the server's code (contrast only): the identity is taken from the form when the form has one,
   and only checked to be an automation identity — nothing ties it to the presented certificate *)
Definition refresh_honours_form (c : cfg) (s : store) (r : request) : store * resp * option name :=
  match authenticate_ip refresh_required (resolve c (r_cred r)) with
  | None => (s, RDenied, None)
  | Some (actor, _) =>
      if negb (memn actor (automation_users c)) then (s, RDenied, None)   (* the gate's test, for holders configured by name *)
      else if negb (r_post r) then (s, RBad, None)
      else let id := if empty (r_target r) then actor else r_target r in
           if empty id then (s, RBad, None)
           else match is_automation_user c id (r_dir_target r) with
                | None => (s, RErr, None)
                | Some false => (s, RBad, None)
                | Some true =>
                    if negb (r_params_ok r) then (s, RBad, None)
                    else if negb (from_ip_certificate (resolve c (r_cred r))) then (s, RBad, None)
                    else (s, ROk, Some id)
                end
  end.

(* the two endpoints that issue role-requesting certificates, with the identity (CN) of the issued
   certificate: the minting endpoint names the requested identity (rvalue.Role = roleName) *)
Inductive rc_path := ViaMint | ViaRefresh.

Definition rolecert_issue (p : rc_path) (c : cfg) (s : store) (r : request) : store * resp * option name :=
  match p with
  | ViaMint =>
      let '(s', x) := step c s r in
      (s', x, if resp_eqb x ROk then Some (r_target r) else None)
  | ViaRefresh => refresh_step c s r
  end.

Definition oname_eqb (a b : option name) : bool :=
  match a, b with
  | None, None => true
  | Some x, Some y => bs_eqb x y
  | _, _ => false
  end.
