(* C16 — concurrent requests.  Handlers as sequences of atomic actions over
     the profile store      (storage.go LoadUserProfile / SaveUserProfile / DeleteUserProfile: each one
                             SQL statement, atomic; nothing spans two of them),
     the in-memory maps     (localAuthData, vipPushCookie, pendingOauth2 under RuntimeState.Mutex;
                             totpLocalRateLimit under totpLocalTateLimitMutex),
   a scheduler picks the next thread; `run` is the fold over an arbitrary schedule. *)
From KM Require Import Base.Bytes.
Open Scope N_scope.

(* ------------------------------------------------------------------ data *)
Record token := { t_idx : N; t_enabled : bool; t_name : N }.

Record profile := {
  toks : list token;        (* U2fAuthData: index -> (Enabled, Name) *)
  botp : option N;          (* BootstrapOTP (hash of the value), None = empty *)
  last_totp : N             (* LastSuccessfullTOTPCounter *)
}.

Definition default_profile : profile := {| toks := []; botp := None; last_totp := 0 |}.

Definition db := list (N * profile).

Fixpoint get (u : N) (d : db) : option profile :=
  match d with [] => None | (v, p) :: r => if v =? u then Some p else get u r end.
Fixpoint del (u : N) (d : db) : db :=
  match d with [] => [] | (v, p) :: r => if v =? u then del u r else (v, p) :: del u r end.
Definition put (u : N) (p : profile) (d : db) : db := (u, p) :: del u d.

Definition maps := list (N * N * N).     (* (map, key, value) *)
Fixpoint mget (m k : N) (s : maps) : option N :=
  match s with [] => None | (m', k', v) :: r => if (m' =? m) && (k' =? k) then Some v else mget m k r end.
Fixpoint mdel (m k : N) (s : maps) : maps :=
  match s with [] => [] | (m', k', v) :: r => if (m' =? m) && (k' =? k) then mdel m k r else (m', k', v) :: mdel m k r end.
Definition mset (m k v : N) (s : maps) : maps := (m, k, v) :: mdel m k s.

(* map identifiers and the mutex each belongs to *)
Definition M_localAuth : N := 0.
Definition M_vipPush : N := 1.
Definition M_pendingOauth2 : N := 2.
Definition M_totpRate : N := 3.
(* the signer state written by the unseal path after start-up, as one-slot maps (key 0):
   RuntimeState.Signer (absent = sealed) and RuntimeState.KeymasterPublicKeys (absent = no key published) *)
Definition M_signer : N := 4.
Definition M_pubkeys : N := 5.
Definition L_state : N := 0.          (* RuntimeState.Mutex *)
Definition L_totp : N := 1.           (* RuntimeState.totpLocalTateLimitMutex *)
Definition guard (m : N) : N := if m =? M_totpRate then L_totp else L_state.

(* ------------------------------------------------------------------ actions *)
Inductive act :=
| Load (u : N)                                   (* reg := (u, get u db) *)
| Check (c : option profile -> bool) (fail : N)  (* test on the loaded profile; on failure answer `fail` and return *)
| Soft (c : option profile -> bool) (fail : N)   (* as Check, but the handler goes on with its bookkeeping: later Save / Respond are skipped *)
| Save (u : N) (f : profile -> profile)          (* put u (f loaded) *)
| Del (u : N)
| Lock (l : N) | Unlock (l : N)
| MapGet (m k : N)                               (* mreg := mget m k *)
| CheckMap (c : option N -> bool) (fail : N)     (* test on mreg; on failure answer and return (releasing the mutex) *)
| MapSet (m k v : N)
| MapSetReg (m k d : N)                           (* write back the value this thread looked up earlier (mreg), or d if it found none *)
| MapDel (m k : N)
| Respond (x : N).

Record thread := {
  prog : list act;
  held : option N;                      (* mutex this thread holds *)
  alive : bool;                         (* false after a Soft failure *)
  reg : option (N * option profile);    (* last loaded (user, profile) *)
  mreg : option N;
  resp : option N
}.

Definition mk_thread (p : list act) : thread :=
  {| prog := p; held := None; alive := true; reg := None; mreg := None; resp := None |}.

Record world := {
  store : db;
  mem : maps;
  owner : list (N * nat);               (* mutex -> thread holding it *)
  threads : list thread;
  saved : list (N * profile)            (* ghost: everything ever saved *)
}.

Fixpoint owner_of (l : N) (o : list (N * nat)) : option nat :=
  match o with [] => None | (l', i) :: r => if l' =? l then Some i else owner_of l r end.
Fixpoint release (l : N) (o : list (N * nat)) : list (N * nat) :=
  match o with [] => [] | (l', i) :: r => if l' =? l then release l r else (l', i) :: release l r end.

Fixpoint upd {A} (l : list A) (i : nat) (x : A) : list A :=
  match l, i with
  | [], _ => []
  | _ :: r, O => x :: r
  | y :: r, S j => y :: upd r j x
  end.

Definition loaded (t : thread) : profile :=
  match reg t with Some (_, Some p) => p | _ => default_profile end.
Definition loaded_opt (t : thread) : option profile :=
  match reg t with Some (_, o) => o | None => None end.

Definition set_prog t p := {| prog := p; held := held t; alive := alive t; reg := reg t; mreg := mreg t; resp := resp t |}.
Definition first_resp (t : thread) (x : N) : option N := match resp t with Some y => Some y | None => Some x end.
(* return immediately: only the deferred / explicit Unlock of a held mutex is still executed *)
Definition fail_hard t x :=
  {| prog := match held t with Some l => [Unlock l] | None => [] end;
     held := held t; alive := false; reg := reg t; mreg := mreg t; resp := first_resp t x |}.
Definition fail_soft t r x :=
  {| prog := r; held := held t; alive := false; reg := reg t; mreg := mreg t; resp := first_resp t x |}.

Definition set_threads w ts := {| store := store w; mem := mem w; owner := owner w; threads := ts; saved := saved w |}.

(* one action of thread i; finished or blocked threads stutter *)
Definition step (w : world) (i : nat) : world :=
  match nth_error (threads w) i with
  | None => w
  | Some t =>
      match prog t with
      | [] => w
      | a :: r =>
          let t1 := set_prog t r in
          match a with
          | Load u =>
              set_threads w (upd (threads w) i
                {| prog := r; held := held t; alive := alive t; reg := Some (u, get u (store w)); mreg := mreg t; resp := resp t |})
          | Check c x =>
              if c (loaded_opt t) then set_threads w (upd (threads w) i t1)
              else set_threads w (upd (threads w) i (fail_hard t x))
          | Soft c x =>
              if c (loaded_opt t) then set_threads w (upd (threads w) i t1)
              else set_threads w (upd (threads w) i (fail_soft t r x))
          | Save u f =>
              if alive t then
                {| store := put u (f (loaded t)) (store w); mem := mem w; owner := owner w;
                   threads := upd (threads w) i t1; saved := (u, f (loaded t)) :: saved w |}
              else set_threads w (upd (threads w) i t1)
          | Del u =>
              {| store := del u (store w); mem := mem w; owner := owner w; threads := upd (threads w) i t1; saved := saved w |}
          | Lock l =>
              match owner_of l (owner w) with
              | Some _ => w
              | None =>
                  {| store := store w; mem := mem w; owner := (l, i) :: owner w;
                     threads := upd (threads w) i {| prog := r; held := Some l; alive := alive t; reg := reg t; mreg := mreg t; resp := resp t |};
                     saved := saved w |}
              end
          | Unlock l =>
              {| store := store w; mem := mem w;
                 owner := match owner_of l (owner w) with
                          | Some j => if Nat.eqb j i then release l (owner w) else owner w
                          | None => owner w
                          end;
                 threads := upd (threads w) i {| prog := r; held := None; alive := alive t; reg := reg t; mreg := mreg t; resp := resp t |};
                 saved := saved w |}
          | MapGet m k =>
              set_threads w (upd (threads w) i
                {| prog := r; held := held t; alive := alive t; reg := reg t; mreg := mget m k (mem w); resp := resp t |})
          | CheckMap c x =>
              if c (mreg t) then set_threads w (upd (threads w) i t1)
              else set_threads w (upd (threads w) i (fail_hard t x))
          | MapSet m k v =>
              {| store := store w; mem := mset m k v (mem w); owner := owner w; threads := upd (threads w) i t1; saved := saved w |}
          | MapSetReg m k d =>
              {| store := store w; mem := mset m k (match mreg t with Some v => v | None => d end) (mem w);
                 owner := owner w; threads := upd (threads w) i t1; saved := saved w |}
          | MapDel m k =>
              {| store := store w; mem := mdel m k (mem w); owner := owner w; threads := upd (threads w) i t1; saved := saved w |}
          | Respond x =>
              set_threads w (upd (threads w) i
                (if alive t then {| prog := r; held := held t; alive := alive t; reg := reg t; mreg := mreg t; resp := first_resp t x |} else t1))
          end
      end
  end.

Definition run (w : world) (sched : list nat) : world := fold_left step sched w.

Definition init_world (d : db) (s : maps) (progs : list (list act)) : world :=
  {| store := d; mem := s; owner := []; threads := map mk_thread progs; saved := [] |}.

(* ------------------------------------------------------------------ lock discipline *)
(* a program respects the discipline when every map action sits between Lock (guard m) and the
   matching Unlock, mutexes are not nested, and nothing is held at the end *)
Definition oN_eqb (a : option N) (b : N) : bool := match a with Some x => x =? b | None => false end.
Definition is_none {A} (a : option A) : bool := match a with None => true | Some _ => false end.

Fixpoint cs_ok (h : option N) (p : list act) : bool :=
  match p with
  | [] => is_none h
  | Lock l :: r => is_none h && cs_ok (Some l) r
  | Unlock l :: r => oN_eqb h l && cs_ok None r
  | MapGet m _ :: r => oN_eqb h (guard m) && cs_ok h r
  | MapSet m _ _ :: r => oN_eqb h (guard m) && cs_ok h r
  | MapSetReg m _ _ :: r => oN_eqb h (guard m) && cs_ok h r
  | MapDel m _ :: r => oN_eqb h (guard m) && cs_ok h r
  | _ :: r => cs_ok h r
  end.

Definition disciplined (p : list act) : bool := cs_ok None p.

(* the map a thread is about to access, and whether it is about to write it *)
Definition at_map (t : thread) : option (N * bool) :=
  match prog t with
  | MapGet m _ :: _ => Some (m, false)
  | MapSet m _ _ :: _ => Some (m, true)
  | MapSetReg m _ _ :: _ => Some (m, true)
  | MapDel m _ :: _ => Some (m, true)
  | _ => None
  end.

(* two different threads are about to access the same map and one of them writes *)
Definition data_race (w : world) : Prop :=
  exists i j ti tj m bi bj, i <> j /\ nth_error (threads w) i = Some ti /\ nth_error (threads w) j = Some tj /\
    at_map ti = Some (m, bi) /\ at_map tj = Some (m, bj) /\ (bi = true \/ bj = true).

(* ------------------------------------------------------------------ the handlers *)
Definition has_tok (idx : N) (o : option profile) : bool :=
  match o with Some p => existsb (fun t => t_idx t =? idx) (toks p) | None => false end.
Definition map_tok (idx : N) (f : token -> token) (p : profile) : profile :=
  {| toks := map (fun t => if t_idx t =? idx then f t else t) (toks p); botp := botp p; last_totp := last_totp p |}.
Definition del_tok (idx : N) (p : profile) : profile :=
  {| toks := filter (fun t => negb (t_idx t =? idx)) (toks p); botp := botp p; last_totp := last_totp p |}.
Definition set_botp (v : option N) (p : profile) : profile := {| toks := toks p; botp := v; last_totp := last_totp p |}.
Definition set_last (c : N) (p : profile) : profile := {| toks := toks p; botp := botp p; last_totp := c |}.
Definition is_some {A} (o : option A) : bool := match o with Some _ => true | None => false end.
Definition oN_eq (a b : option N) : bool := match a, b with Some x, Some y => x =? y | None, None => true | _, _ => false end.

(* app.go u2fTokenManagerHandler: Load; index known?; modify; Save *)
Definition tok_handler (u idx : N) (f : profile -> profile) : list act :=
  [Load u; Check (has_tok idx) 400; Save u f; Respond 200].

(* 2fa_totp.go validateUserTOTP, spacing part: test and set under its own mutex *)
Definition spacing_ok (now : N) (last : option N) : bool :=
  match last with None => true | Some l => l + 2 <=? now end.
Definition spacing (u now : N) : list act :=
  [Lock L_totp; MapGet M_totpRate u; CheckMap (spacing_ok now) 401; MapSet M_totpRate u now; Unlock L_totp].

Inductive hid :=
| HTokDisable (u idx : N) | HTokEnable (u idx : N) | HTokRename (u idx name : N) | HTokDelete (u idx : N)
| HDelUser (u : N)                   (* adminHandlers.go deleteUserHandler *)
| HAddUser (u : N)                   (* adminHandlers.go addUserHandler *)
| HBootAuth (u otp : N)              (* 2fa_bootstrapOTP.go BootstrapOtpAuthHandler *)
| HGenBoot (u otp : N)               (* adminHandlers.go generateBootstrapOTP *)
| HTotpAuth (u now counter : N) (valid : bool)   (* 2fa_totp.go TOTPAuthHandler -> validateUserTOTP *)
| HU2fSignReq (u chal : N)           (* 2fa_u2f.go u2fSignRequest *)
| HU2fSignResp (u c : N)             (* 2fa_u2f.go u2fSignResponse; c = the challenge the presented assertion answers *)
| HU2fSignRespOld (u c : N)          (* the same before the fix: delete outside the mutex *)
| HSpacing (u now : N)               (* only the spacing test-and-set *)
| HUnseal                            (* unseal.go unsealCA: already-unsealed test, load the signers, publish the keys, all under the mutex *)
| HUnsealSplit                       (* NOT the code: the key list is appended after the mutex was released *)
| HReadKeys                          (* a handler that serves the published keys: sealed test under the mutex, then reads the key list *)
| HOauthBegin (k st : N)             (* auth_oauth2.go oauth2DoRedirectoToProviderHandler: park the pending login k with state parameter st *)
| HOauthCallback (k st : N)          (* auth_oauth2.go oauth2RedirectPathHandler: look the pending login up, compare the state, (provider round trip), forget it *)
| HView (u : N)                      (* app.go profileHandler: a pure reader of the profile *)
| HLogin (u : N).                    (* app.go loginHandler after the password check: userHasU2FTokens, then the profile again; nothing written for a user with tokens *)

Definition has_enabled_tok (o : option profile) : bool :=
  match o with Some p => existsb t_enabled (toks p) | None => false end.

Definition handler (h : hid) : list act :=
  match h with
  | HTokDisable u idx => tok_handler u idx (map_tok idx (fun t => {| t_idx := t_idx t; t_enabled := false; t_name := t_name t |}))
  | HTokEnable u idx => tok_handler u idx (map_tok idx (fun t => {| t_idx := t_idx t; t_enabled := true; t_name := t_name t |}))
  | HTokRename u idx nm => tok_handler u idx (map_tok idx (fun t => {| t_idx := t_idx t; t_enabled := t_enabled t; t_name := nm |}))
  | HTokDelete u idx => tok_handler u idx (del_tok idx)
  | HDelUser u => [Del u; Respond 200]
  | HAddUser u => [Load u; Check (fun o => negb (is_some o)) 400; Save u (fun p => p); Respond 200]
  | HBootAuth u otp =>
      [Load u;
       Check (fun o => match o with Some p => match toks p with [] => is_some (botp p) | _ => false end | None => false end) 412;
       Check (fun o => match o with Some p => match botp p with Some v => v =? otp | None => false end | None => false end) 401;
       Save u (set_botp None); Respond 200]
  | HGenBoot u otp =>
      [Load u; Check (fun o => is_some o) 400;
       Check (fun o => match o with Some p => match toks p with [] => true | _ => false end | None => false end) 412;
       Save u (set_botp (Some otp)); Respond 200]
  | HTotpAuth u now counter valid =>
      [Load u] ++ spacing u now ++
      [Check (fun o => match o with Some p => negb (last_totp p =? counter) | None => true end) 401;
       Soft (fun o => valid && is_some o) 401;   (* a code matches only a TOTP token of the loaded profile *)
       Save u (set_last counter);
       Lock L_totp; MapSet M_totpRate u now; Unlock L_totp;
       Respond 200]
  | HU2fSignReq u chal =>
      [Load u; Check has_enabled_tok 400; Lock L_state; MapSet M_localAuth u chal; Unlock L_state; Respond 200]
  | HU2fSignResp u c =>
      [Load u; Check has_enabled_tok 400; Lock L_state; MapGet M_localAuth u; Unlock L_state;
       CheckMap is_some 400; CheckMap (fun m => oN_eq m (Some c)) 500;
       Lock L_state; MapDel M_localAuth u; Unlock L_state; Respond 200]
  | HU2fSignRespOld u c =>
      [Load u; Check has_enabled_tok 400; Lock L_state; MapGet M_localAuth u; Unlock L_state;
       CheckMap is_some 400; CheckMap (fun m => oN_eq m (Some c)) 500;
       MapDel M_localAuth u; Respond 200]
  | HSpacing u now => spacing u now ++ [Respond 200]
  | HUnseal =>
      [Lock L_state; MapGet M_signer 0; CheckMap (fun m => negb (is_some m)) 400;
       MapSet M_signer 0 1; MapSet M_pubkeys 0 1; Unlock L_state; Respond 200]
  | HUnsealSplit =>
      [Lock L_state; MapGet M_signer 0; CheckMap (fun m => negb (is_some m)) 400;
       MapSet M_signer 0 1; Unlock L_state; MapSet M_pubkeys 0 1; Respond 200]
  | HReadKeys =>
      (* 500: sealed; 299: answered as unsealed with an incomplete key set; 200: the keys *)
      [Lock L_state; MapGet M_signer 0; Unlock L_state; CheckMap is_some 500;
       MapGet M_pubkeys 0; CheckMap is_some 299; Respond 200]
  | HOauthBegin k st =>
      [Lock L_state; MapSet M_pendingOauth2 k st; Unlock L_state; Respond 200]
  | HOauthCallback k st =>
      [Lock L_state; MapGet M_pendingOauth2 k; Unlock L_state;
       CheckMap is_some 400; CheckMap (fun m => oN_eq m (Some st)) 400;
       Lock L_state; MapDel M_pendingOauth2 k; Unlock L_state; Respond 200]
  | HView u => [Load u; Respond 200]
  | HLogin u => [Load u; Load u; Respond 200]
  end.

(* a request that only reads the profile store and answers: nothing of it outlives it *)
Definition is_local (a : act) : bool :=
  match a with Load _ | Check _ _ | Soft _ _ | Respond _ => true | _ => false end.
Definition reader (p : list act) : bool := forallb is_local p.

(* app.go performStateCleanup: one pass of the periodic sweep over the in-memory maps (not a request:
   no answer), the expired keys `ks` of each map deleted inside ONE critical section *)
Definition sweep (ks : list (N * N)) : list act :=
  [Lock L_state] ++ map (fun mk => MapDel (fst mk) (snd mk)) ks ++ [Unlock L_state].

(* NOT the code: the callback's lookup-compare-delete moved into a method with a VALUE receiver.  Every call
   copies the state, its mutex included: Lock / Unlock act on the private copy `L_copy` while the map inside
   the copy is still the shared one. *)
Definition L_copy : N := 7.
Definition oauth_callback_copied (k st : N) : list act :=
  [Lock L_copy; MapGet M_pendingOauth2 k; CheckMap is_some 400; CheckMap (fun m => oN_eq m (Some st)) 400;
   MapDel M_pendingOauth2 k; Unlock L_copy; Respond 200].

(* NOT the code: u2fSignRequest handing the user's pending challenge out again.  The pending entry is looked
   up in one critical section (a helper that locks, reads localAuthData[user], unlocks) and the entry —
   the one found, or a new challenge `chal` if none was found — is stored in a SECOND critical section. *)
Definition u2f_signreq_reissue (u chal : N) : list act :=
  [Load u; Check has_enabled_tok 400; Lock L_state; MapGet M_localAuth u; Unlock L_state;
   Lock L_state; MapSetReg M_localAuth u chal; Unlock L_state; Respond 200].

(* ------------------------------------------------------------------ the answer ends the request *)
(* A request has been answered when no Respond is left in its program (it was executed, or an early
   return fixed the answer and cut the rest off). *)
Fixpoint has_respond (p : list act) : bool :=
  match p with [] => false | Respond _ :: _ => true | _ :: r => has_respond r end.
(* request i of the pool has been answered *)
Definition answered (w : world) (i : nat) : bool :=
  match nth_error (threads w) i with Some t => negb (has_respond (prog t)) | None => false end.
Definition is_store_write (a : act) : bool := match a with Save _ _ | Del _ => true | _ => false end.
(* every storage write of the program still has the Respond ahead of it *)
Fixpoint wa_ok (p : list act) : bool :=
  match p with [] => true | a :: r => (if is_store_write a then has_respond r else true) && wa_ok r end.
Fixpoint ends_in_respond (p : list act) : bool :=
  match p with [] => false | Respond _ :: [] => true | _ :: r => ends_in_respond r end.

(* NOT the code: the profile write handed to a goroutine and the request answered with an error when a
   time-out fires first — the abandoned write still happens *)
Definition tok_handler_abandoned (u idx : N) (f : profile -> profile) : list act :=
  [Load u; Check (has_tok idx) 400; Respond 500; Save u f].

(* ------------------------------------------------------------------ storage-operation granularity *)
(* the harness parks a request before every storage operation and before every Lock of an
   instrumented file; one scheduler entry lets one request run from its parking point to the next *)
Definition is_yield (a : act) : bool :=
  match a with Load _ | Save _ _ | Del _ | Lock _ => true | _ => false end.

Fixpoint burst (fuel : nat) (w : world) (i : nat) : world :=
  match fuel with
  | O => w
  | S f =>
      match nth_error (threads w) i with
      | Some t => match prog t with
                  | [] => w
                  | a :: _ => if is_yield a then w else burst f (step w i) i
                  end
      | None => w
      end
  end.

Definition fuel_of (w : world) (i : nat) : nat :=
  match nth_error (threads w) i with Some t => S (length (prog t)) | None => O end.

Definition seg (w : world) (i : nat) : world := let w1 := step w i in burst (fuel_of w1 i) w1 i.
Definition start (w : world) : world := fold_left (fun w i => burst (fuel_of w i) w i) (seq 0 (length (threads w))) w.
Definition run_seg (w : world) (sched : list nat) : world := fold_left seg sched (start w).

(* the same at the granularity the statement names: a request is pre-empted only at a storage operation *)
Definition is_syield (a : act) : bool :=
  match a with Load _ | Save _ _ | Del _ => true | _ => false end.

Fixpoint sburst (fuel : nat) (w : world) (i : nat) : world :=
  match fuel with
  | O => w
  | S f =>
      match nth_error (threads w) i with
      | Some t => match prog t with
                  | [] => w
                  | a :: _ => if is_syield a then w else sburst f (step w i) i
                  end
      | None => w
      end
  end.

Definition sseg (w : world) (i : nat) : world := let w1 := step w i in sburst (fuel_of w1 i) w1 i.
Definition sstart (w : world) : world := fold_left (fun w i => sburst (fuel_of w i) w i) (seq 0 (length (threads w))) w.
Definition run_sseg (w : world) (sched : list nat) : world := fold_left sseg sched (sstart w).

(* ------------------------------------------------------------------ outcomes and sequential orders *)
Definition tok_eqb (a b : token) : bool := (t_idx a =? t_idx b) && Bool.eqb (t_enabled a) (t_enabled b) && (t_name a =? t_name b).
Fixpoint toks_eqb (a b : list token) : bool :=
  match a, b with [], [] => true | x :: a', y :: b' => tok_eqb x y && toks_eqb a' b' | _, _ => false end.
Definition profile_eqb (a b : profile) : bool := toks_eqb (toks a) (toks b) && oN_eq (botp a) (botp b) && (last_totp a =? last_totp b).
Definition oprofile_eqb (a b : option profile) : bool :=
  match a, b with Some x, Some y => profile_eqb x y | None, None => true | _, _ => false end.

(* what a client and the next reader can see: the answers, the stored profiles of the users of
   interest, which challenges are outstanding *)
Definition outcome (users : list N) (w : world) : list (option N) * list (option profile) * list (option N) :=
  (map resp (threads w), map (fun u => get u (store w)) users, map (fun u => mget M_localAuth u (mem w)) users).

(* the answer of request i *)
Definition resp_at (w : world) (i : nat) : option N := match nth_error (threads w) i with Some t => resp t | None => None end.

Fixpoint list_eqb {A} (e : A -> A -> bool) (a b : list A) : bool :=
  match a, b with [], [] => true | x :: a', y :: b' => e x y && list_eqb e a' b' | _, _ => false end.

Definition outcome_eqb (a b : list (option N) * list (option profile) * list (option N)) : bool :=
  let '(r1, p1, c1) := a in let '(r2, p2, c2) := b in
  list_eqb oN_eq r1 r2 && list_eqb oprofile_eqb p1 p2 && list_eqb (fun x y => Bool.eqb (is_some x) (is_some y)) c1 c2.

Fixpoint to_end (fuel : nat) (w : world) (i : nat) : world :=
  match fuel with O => w | S f => to_end f (step w i) i end.
Definition run_serial (w : world) (order : list nat) : world :=
  fold_left (fun w i => to_end (fuel_of w i) w i) order w.

Fixpoint insert_all {A} (x : A) (l : list A) : list (list A) :=
  match l with [] => [[x]] | y :: r => (x :: l) :: map (cons y) (insert_all x r) end.
Fixpoint perms {A} (l : list A) : list (list A) :=
  match l with [] => [[]] | x :: r => flat_map (insert_all x) (perms r) end.

Definition serial_outcomes (users : list N) (w : world) : list (list (option N) * list (option profile) * list (option N)) :=
  map (fun o => outcome users (run_serial w o)) (perms (seq 0 (length (threads w)))).

Definition serializable_outcome (users : list N) (w0 w : world) : bool :=
  existsb (outcome_eqb (outcome users w)) (serial_outcomes users w0).
