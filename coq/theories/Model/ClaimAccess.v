(* C10 - "no malformed signed token makes a handler panic", the part that is keymaster's OWN code.
   cmd/keymasterd/jwt.go getAuthInfoFromJWT (and its two siblings updateAuthJWTWithNewAuthLevel,
   getStorageDataFromStorageStringDataJWT, which run the same tests): after go-jose has verified the
   signature and decoded the payload into the struct the function declares, keymaster's code compares
   fields and indexes Audience[0].  Go operations that can panic (index, unchecked type assertion,
   slicing) are modelled with an explicit Panic outcome, so "never panics" is a statement about the
   model and not a by-product of Gallina's totality.  The JSON decoder itself (go-jose's fork of
   encoding/json) is library code: modelled as the total function it is documented to be, and compared
   with the real one on type-confused claims. *)
From Coq Require Import ZArith NArith List Bool.
From KM Require Import Base.Bytes.
Import ListNotations.
Local Open Scope Z_scope.

(* a JSON value as encoding/json sees it *)
Inductive json :=
| JNull | JBool (v : bool) | JNum (integral : bool) (z : Z)   (* integral: written without fraction / exponent and within int64 *)
| JStr (s : bs) | JArr (l : list json) | JObj (m : list (bs * json)).

(* what a Go expression can do: a value, an error return, or a run-time panic *)
Inductive res (A : Type) := Ok (a : A) | Err | Panic.
Arguments Ok {A} a. Arguments Err {A}. Arguments Panic {A}.

(* the unchecked Go operations *)
Definition index0 {A} (l : list A) : res A := match l with [] => Panic | x :: _ => Ok x end.        (* l[0] *)
Definition assert_str (v : json) : res bs := match v with JStr s => Ok s | _ => Panic end.           (* v.(string) *)
Definition assert_str_ok (v : json) : res bs := match v with JStr s => Ok s | _ => Err end.          (* s, ok := v.(string) *)
Definition slice_to (s : bs) (n : nat) : res bs := if (n <=? length s)%nat then Ok (firstn n s) else Panic.  (* s[:n] *)

(* json.Unmarshal into a struct field (library; total: a value of the wrong JSON type is an error,
   null and an absent member leave the zero value) *)
Fixpoint jlookup (n : bs) (m : list (bs * json)) : option json :=
  match m with [] => None | (k, v) :: r => if bs_eqb n k then Some v else jlookup n r end.
(* the LAST occurrence of a duplicated member wins in encoding/json *)
Definition jfield (n : bs) (m : list (bs * json)) : option json := jlookup n (rev m).
Definition dec_str (v : option json) : option bs :=
  match v with None | Some JNull => Some [] | Some (JStr s) => Some s | Some _ => None end.
Definition dec_int (v : option json) : option Z :=
  match v with None | Some JNull => Some 0 | Some (JNum true z) => Some z | Some _ => None end.
Fixpoint dec_str_elems (l : list json) : option (list bs) :=
  match l with
  | [] => Some []
  | x :: r => match dec_str (Some x), dec_str_elems r with Some s, Some t => Some (s :: t) | _, _ => None end
  end.
Definition dec_strs (v : option json) : option (list bs) :=
  match v with None | Some JNull => Some [] | Some (JArr l) => dec_str_elems l | Some _ => None end.

(* app.go authInfoJWT *)
Record authclaims := { c_iss : bs; c_sub : bs; c_aud : list bs; c_exp : Z; c_nbf : Z; c_iat : Z; c_tt : bs; c_level : Z }.
Definition s_iss : bs := [105%N; 115%N; 115%N]. Definition s_sub : bs := [115%N; 117%N; 98%N]. Definition s_aud : bs := [97%N; 117%N; 100%N].
Definition s_exp : bs := [101%N; 120%N; 112%N]. Definition s_nbf : bs := [110%N; 98%N; 102%N]. Definition s_iat : bs := [105%N; 97%N; 116%N].
Definition s_tt : bs := [116%N; 111%N; 107%N; 101%N; 110%N; 95%N; 116%N; 121%N; 112%N; 101%N].
Definition s_level : bs := [97%N; 117%N; 116%N; 104%N; 95%N; 116%N; 121%N; 112%N; 101%N].
Definition dec_authclaims (payload : json) : option authclaims :=
  match payload with
  | JObj m =>
      match dec_str (jfield s_iss m), dec_str (jfield s_sub m), dec_strs (jfield s_aud m), dec_int (jfield s_exp m),
            dec_int (jfield s_nbf m), dec_int (jfield s_iat m), dec_str (jfield s_tt m), dec_int (jfield s_level m) with
      | Some i, Some s, Some a, Some e, Some n, Some t, Some k, Some l =>
          Some {| c_iss := i; c_sub := s; c_aud := a; c_exp := e; c_nbf := n; c_iat := t; c_tt := k; c_level := l |}
      | _, _, _, _, _, _, _, _ => None
      end
  | JNull => Some {| c_iss := []; c_sub := []; c_aud := []; c_exp := 0; c_nbf := 0; c_iat := 0; c_tt := []; c_level := 0 |}
  | _ => None
  end.

(* jwt.go getAuthInfoFromJWT after the signature has been verified: keymaster's OWN code on the
   structure of the claims.  (user, level, expires, issued-at) *)
Definition get_auth_info (issuer kind : bs) (now_s : Z) (payload : json) : res (bs * Z * Z * Z) :=
  match dec_authclaims payload with
  | None => Err
  | Some c =>
      if negb (bs_eqb (c_iss c) issuer) || negb (bs_eqb (c_tt c) kind) || (length (c_aud c) <? 1)%nat then Err
      else match index0 (c_aud c) with
           | Panic => Panic | Err => Err
           | Ok a0 => if negb (bs_eqb a0 issuer) || (now_s <? c_nbf c) then Err
                      else Ok (c_sub c, c_level c, c_exp c, c_iat c)
           end
  end.

(* the same without the length test in front of Audience[0] *)
Definition get_auth_info_unguarded (issuer kind : bs) (now_s : Z) (payload : json) : res (bs * Z * Z * Z) :=
  match dec_authclaims payload with
  | None => Err
  | Some c =>
      if negb (bs_eqb (c_iss c) issuer) || negb (bs_eqb (c_tt c) kind) then Err
      else match index0 (c_aud c) with
           | Panic => Panic | Err => Err
           | Ok a0 => if negb (bs_eqb a0 issuer) || (now_s <? c_nbf c) then Err
                      else Ok (c_sub c, c_level c, c_exp c, c_iat c)
           end
  end.

(* a header test written with an unchecked type assertion (the explicit-typing check of RFC 8725
   as one would write it over go-jose's ExtraHeaders), and with the comma-ok form *)
Definition s_typ : bs := [116%N; 121%N; 112%N].
Definition check_typ_unchecked (header : list (bs * json)) : res unit :=
  match jfield s_typ header with
  | None => Ok tt
  | Some v => match assert_str v with Panic => Panic | Err => Err | Ok _ => Ok tt end
  end.
Definition check_typ_checked (header : list (bs * json)) : res unit :=
  match jfield s_typ header with
  | None => Ok tt
  | Some v => match assert_str_ok v with Panic => Panic | Err => Err | Ok _ => Ok tt end
  end.

