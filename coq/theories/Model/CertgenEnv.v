(* C02 — the process environment of the daemon as an explicit component of a certificate request's
   surroundings.  certgen.go expandSSHExtensions hands mvdan.cc/sh shell.Expand a MAPPER, the function
   the expander asks for the value of every variable a template refers to:

       mapper := func(placeholderName string) string {
               switch placeholderName { case "USERNAME": return username }
               return "" }

   Here the expander is split accordingly: shexpand mapper template is shell.Expand with that mapper, an
   arbitrary function (an oracle of the model); the mapper is a function of the environment the daemon
   runs in AND of the authenticated user.  The mapper of the code (user_mapper) does not look at the
   environment.  Executable definitions only. *)
From Coq Require Import ZArith.
From KM Require Import Base.Bytes Model.Auth Model.Certgen.
Open Scope N_scope.

(* os.Environ(): NAME=value pairs; when a name occurs more than once the LAST pair is what a lookup
   returns (os.Getenv on a de-duplicated environment, mvdan.cc/sh expand.ListEnviron alike) *)
Definition environ := list (bs * bs).
Fixpoint env_get (env : environ) (name : bs) : option bs :=
  match env with
  | [] => None
  | (n, v) :: r => match env_get r name with
                   | Some x => Some x
                   | None => if bs_eqb n name then Some v else None
                   end
  end.

Definition v_USERNAME : bs := [85;83;69;82;78;65;77;69].   (* "USERNAME" *)

(* a mapper: environment -> authenticated user -> variable name -> value *)
Definition mapper := environ -> bs -> bs -> bs.

(* the mapper of expandSSHExtensions: USERNAME is the authenticated user, every other variable is
   empty; the environment is not consulted *)
Definition user_mapper : mapper :=
  fun _ user name => if bs_eqb name v_USERNAME then user else [].

(* NOT the code: the variables of the templates are USERNAME and, after it, the daemon's environment
   (a list lookup in which the last pair wins): a binding of the environment shadows the user *)
Definition env_mapper : mapper :=
  fun env user name =>
    match env_get env name with
    | Some v => v
    | None => if bs_eqb name v_USERNAME then user else []
    end.

Section ExpandEnv.
Variable shexpand : (bs -> bs) -> bs -> option bs.   (* shell.Expand(template, mapper): Some text / None = error *)

(* the expansion oracle of Model/Certgen.v (template, user) under a mapper and an environment *)
Definition expand_under (m : mapper) (env : environ) (template user : bs) : option bs :=
  shexpand (m env user) template.
(* ... with no environment in sight: the specification side *)
Definition expand_user (template user : bs) : option bs :=
  shexpand (fun name => if bs_eqb name v_USERNAME then user else []) template.

(* certGenHandler in a daemon whose process environment is env *)
Definition certgen_mapped (m : mapper) (env : environ) (st : server) (now : Z) (limiter_ok : bool) (q : certreq) : outcome :=
  certgen (expand_under m env) st now limiter_ok q.
Definition certgen_env := certgen_mapped user_mapper.           (* the code *)
Definition certgen_env_shadow := certgen_mapped env_mapper.     (* the variant in which the environment shadows the user *)
End ExpandEnv.

(* a toy expander for the witnesses: the template "$" is the value of USERNAME, "$H" the value of H,
   every other template is literal text *)
Definition toy_shexpand (m : bs -> bs) (t : bs) : option bs :=
  Some (if bs_eqb t [36] then m v_USERNAME else if bs_eqb t [36;72] then m [72] else t).
