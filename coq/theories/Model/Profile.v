(* C15, first clause — the CONTENT of a stored user profile.

   cmd/keymasterd/app.go: userProfile, u2fAuthData, webauthAuthData, totpAuthData, bootstrapOTPData;
   github.com/tstranex/u2f Challenge / Registration; github.com/duo-labs/webauthn Credential,
   Authenticator, SessionData.  SaveUserProfile writes gob.Encode(profile), LoadUserProfile decodes the
   stored bytes with gob.Decode INTO a profile whose U2fAuthData / TOTPAuthData are empty (made) maps.

   Representation
     map[int64]*T        gmap T  = option (list (Z * T)):  None = nil map, Some l = the map built by
                         assigning the pairs of l from left to right (a later pair overwrites an earlier
                         one with the same key); the order of l is not content.  Elements are values: gob
                         refuses a nil element ("encodeReflectValue: nil element"), the code stores none.
     []byte              gbytes  = option bs:  None = nil, Some [] = zero length, not nil
     [][]byte, []string  option (list ...)
     *T                  option T
     string              bs;  time.Time  Z (nanoseconds since the epoch; location and monotonic reading
                         are not content);  intN / uintN  Z;  bool  bool
     *u2f.Registration   option bs — a Registration is carried by its own MarshalBinary / UnmarshalBinary,
                         which is its Raw field
     SessionData.Extensions (map[string]interface{})  gbytes — opaque (None = nil map, Some [] = empty)

   What encoding/gob does to the content (package documentation, "Types and Values" / "Encoding Details";
   confirmed against the toolchain's gob by the harness on every run):
     * a struct field holding the zero value of its type is not transmitted — so a zero-length []byte,
       [][]byte or []string comes back nil; a nil map is not transmitted, an EMPTY map is (it comes back
       empty, not nil);
     * pointers are flattened: a nil pointer field is not transmitted; a pointer to a struct is (the struct
       is sent, possibly with no field) and comes back as a pointer; a pointer to a SLICE that is empty is
       not transmitted and comes back nil — gob cannot tell `&[][]byte{}` from a nil pointer;
     * elements of slices and maps are always transmitted; a zero-length []byte element comes back nil;
     * a field that is not transmitted keeps what the destination held: LoadUserProfile's destination
       holds empty U2fAuthData / TOTPAuthData maps, nil everywhere else. *)
From Coq Require Import List NArith ZArith Bool.
From KM Require Import Base.Bytes.
Import ListNotations.
Open Scope Z_scope.

Definition gbytes := option bs.
Definition gmap (A : Type) := option (list (Z * A)).

Record u2f_entry := mk_u2f {
  u_enabled : bool; u_created : Z; u_creator : bs; u_counter : Z; u_name : bs;
  u_registration : option bs }.

Record wa_entry := mk_wa {
  w_enabled : bool; w_created : Z; w_name : bs;
  w_id : gbytes; w_pubkey : gbytes; w_atttype : bs;               (* Credential *)
  w_aaguid : gbytes; w_signcount : Z; w_clone : bool }.           (* Credential.Authenticator *)

Record totp_entry := mk_totp {
  t_enabled : bool; t_created : Z; t_name : bs; t_secret : option (list gbytes);
  t_type : Z; t_validator : bs }.

Record bootstrap := mk_boot { b_expires : Z; b_hash : gbytes }.

Record challenge := mk_chal {
  c_challenge : gbytes; c_time : Z; c_appid : bs; c_facets : option (list bs) }.

Record session := mk_sess {
  s_challenge : bs; s_userid : gbytes; s_allowed : option (list gbytes); s_uv : bs; s_ext : gbytes }.

Record profile := mk_profile {
  U2fAuthData : gmap u2f_entry;
  RegistrationChallenge : option challenge;
  PendingTOTPSecret : option (option (list gbytes));
  LastSuccessfullTOTPCounter : Z;
  TOTPAuthData : gmap totp_entry;
  BootstrapOTP : bootstrap;
  UserHasRegistered2ndFactor : bool;
  WebauthnData : gmap wa_entry;
  WebauthnID : Z;
  DisplayName : bs;
  Username : bs;
  WebauthnSessionData : option session }.

(* ------------------------------------------------------------------ maps as association lists *)
Section Maps.
  Context {A : Type}.

  (* insert into a list sorted by key; an existing entry of that key STAYS *)
  Fixpoint ins_keep (k : Z) (v : A) (l : list (Z * A)) : list (Z * A) :=
    match l with
    | [] => [(k, v)]
    | (k', v') :: r =>
        if k <? k' then (k, v) :: l
        else if k =? k' then l
        else (k', v') :: ins_keep k v r
    end.

  (* sorted by key, one entry per key, the LAST pair of a key wins (the tail is inserted first) *)
  Fixpoint norm (l : list (Z * A)) : list (Z * A) :=
    match l with
    | [] => []
    | (k, v) :: r => ins_keep k v (norm r)
    end.

  Fixpoint sorted (l : list (Z * A)) : Prop :=
    match l with
    | a :: (b :: _) as r => fst a < fst b /\ sorted r
    | _ => True
    end.
End Maps.

Definition map_vals {A B} (f : A -> B) (l : list (Z * A)) : list (Z * B) :=
  map (fun kv => (fst kv, f (snd kv))) l.

(* ------------------------------------------------------------------ canonical form
   (harness/kmd/c15.go c15CanonValue: map entries in key order, nil = empty for maps and slices, a
   pointer to an empty slice = a nil pointer) *)
Definition cbytes (b : gbytes) : gbytes := match b with Some [] => None | _ => b end.

Definition clist {A} (f : A -> A) (l : option (list A)) : option (list A) :=
  match l with
  | None | Some [] => None
  | Some l => Some (map f l)
  end.

Definition cptr_list {A} (f : A -> A) (p : option (option (list A))) : option (option (list A)) :=
  match p with
  | None => None
  | Some l => match clist f l with None => None | Some l' => Some (Some l') end
  end.

Definition cmap {A} (f : A -> A) (m : gmap A) : gmap A :=
  match m with
  | None => None
  | Some l => match norm (map_vals f l) with [] => None | n => Some n end
  end.

Definition id_bs (b : bs) : bs := b.

Definition canon_u2f (e : u2f_entry) : u2f_entry :=
  mk_u2f (u_enabled e) (u_created e) (u_creator e) (u_counter e) (u_name e) (cbytes (u_registration e)).

Definition canon_wa (e : wa_entry) : wa_entry :=
  mk_wa (w_enabled e) (w_created e) (w_name e) (cbytes (w_id e)) (cbytes (w_pubkey e)) (w_atttype e)
        (cbytes (w_aaguid e)) (w_signcount e) (w_clone e).

Definition canon_totp (e : totp_entry) : totp_entry :=
  mk_totp (t_enabled e) (t_created e) (t_name e) (clist cbytes (t_secret e)) (t_type e) (t_validator e).

Definition canon_boot (b : bootstrap) : bootstrap := mk_boot (b_expires b) (cbytes (b_hash b)).

Definition canon_chal (c : challenge) : challenge :=
  mk_chal (cbytes (c_challenge c)) (c_time c) (c_appid c) (clist id_bs (c_facets c)).

Definition canon_sess (s : session) : session :=
  mk_sess (s_challenge s) (cbytes (s_userid s)) (clist cbytes (s_allowed s)) (s_uv s) (cbytes (s_ext s)).

Definition canon (p : profile) : profile :=
  mk_profile (cmap canon_u2f (U2fAuthData p))
             (option_map canon_chal (RegistrationChallenge p))
             (cptr_list cbytes (PendingTOTPSecret p))
             (LastSuccessfullTOTPCounter p)
             (cmap canon_totp (TOTPAuthData p))
             (canon_boot (BootstrapOTP p))
             (UserHasRegistered2ndFactor p)
             (cmap canon_wa (WebauthnData p))
             (WebauthnID p) (DisplayName p) (Username p)
             (option_map canon_sess (WebauthnSessionData p)).

(* ------------------------------------------------------------------ what gob carries
   gbytes / slices: a zero-length one is not sent (field) or sent as length 0 and decoded as nil
   (element): nil either way.  A Registration whose Raw is empty is the zero Registration: not sent. *)
Definition wbytes (b : gbytes) : gbytes := match b with Some [] => None | _ => b end.

Definition wlist {A} (f : A -> A) (l : option (list A)) : option (list A) :=
  match l with
  | None | Some [] => None
  | Some l => Some (map f l)
  end.

(* a pointer to a slice: flattened; the empty slice behind it is a zero value, nothing is sent *)
Definition wptr_list {A} (f : A -> A) (p : option (option (list A))) : option (option (list A)) :=
  match p with
  | None => None
  | Some l => match wlist f l with None => None | Some l' => Some (Some l') end
  end.

(* a map: nil is not sent; a non-nil map is sent with every element — also when it is empty; the decoded
   map has one entry per key (the representation chosen for it: in key order) *)
Definition wmap {A} (f : A -> A) (m : gmap A) : gmap A :=
  match m with
  | None => None
  | Some l => Some (norm (map_vals f l))
  end.

Definition wire_u2f (e : u2f_entry) : u2f_entry :=
  mk_u2f (u_enabled e) (u_created e) (u_creator e) (u_counter e) (u_name e) (wbytes (u_registration e)).

Definition wire_wa (e : wa_entry) : wa_entry :=
  mk_wa (w_enabled e) (w_created e) (w_name e) (wbytes (w_id e)) (wbytes (w_pubkey e)) (w_atttype e)
        (wbytes (w_aaguid e)) (w_signcount e) (w_clone e).

Definition wire_totp (e : totp_entry) : totp_entry :=
  mk_totp (t_enabled e) (t_created e) (t_name e) (wlist wbytes (t_secret e)) (t_type e) (t_validator e).

Definition wire_boot (b : bootstrap) : bootstrap := mk_boot (b_expires b) (wbytes (b_hash b)).

Definition wire_chal (c : challenge) : challenge :=
  mk_chal (wbytes (c_challenge c)) (c_time c) (c_appid c) (wlist id_bs (c_facets c)).

(* the extensions map is a map: an empty one is sent and comes back empty *)
Definition wire_sess (s : session) : session :=
  mk_sess (s_challenge s) (wbytes (s_userid s)) (wlist wbytes (s_allowed s)) (s_uv s) (s_ext s).

(* gob.Decode(gob.Encode(p)) into a zero userProfile (what the harness's c15CanonBytes does with the
   bytes of a stored row) *)
Definition gob_wire (p : profile) : profile :=
  mk_profile (wmap wire_u2f (U2fAuthData p))
             (option_map wire_chal (RegistrationChallenge p))       (* a pointer to a struct stays a pointer *)
             (wptr_list wbytes (PendingTOTPSecret p))
             (LastSuccessfullTOTPCounter p)
             (wmap wire_totp (TOTPAuthData p))
             (wire_boot (BootstrapOTP p))                           (* a struct field is always sent *)
             (UserHasRegistered2ndFactor p)
             (wmap wire_wa (WebauthnData p))
             (WebauthnID p) (DisplayName p) (Username p)
             (option_map wire_sess (WebauthnSessionData p)).

(* LoadUserProfile decodes into `defaultProfile`, whose U2fAuthData and TOTPAuthData are made maps: a map
   that was not transmitted (nil) is the empty map there *)
Definition made {A} (m : gmap A) : gmap A := match m with None => Some [] | _ => m end.

Definition load_defaults (p : profile) : profile :=
  mk_profile (made (U2fAuthData p)) (RegistrationChallenge p) (PendingTOTPSecret p)
             (LastSuccessfullTOTPCounter p) (made (TOTPAuthData p)) (BootstrapOTP p)
             (UserHasRegistered2ndFactor p) (WebauthnData p) (WebauthnID p) (DisplayName p) (Username p)
             (WebauthnSessionData p).

(* SaveUserProfile; LoadUserProfile *)
Definition gob_roundtrip (p : profile) : profile := load_defaults (gob_wire p).

(* ------------------------------------------------------------------ decidable equality *)
Definition bs_eq_dec : forall a b : bs, {a = b} + {a <> b} := list_eq_dec N.eq_dec.
Definition gbytes_eq_dec : forall a b : gbytes, {a = b} + {a <> b}.
Proof. decide equality; apply bs_eq_dec. Defined.
Definition gbl_eq_dec : forall a b : option (list gbytes), {a = b} + {a <> b}.
Proof. decide equality; apply list_eq_dec; apply gbytes_eq_dec. Defined.
Definition bsl_eq_dec : forall a b : option (list bs), {a = b} + {a <> b}.
Proof. decide equality; apply list_eq_dec; apply bs_eq_dec. Defined.

Definition u2f_eq_dec : forall a b : u2f_entry, {a = b} + {a <> b}.
Proof. decide equality; try apply gbytes_eq_dec; try apply bs_eq_dec; try apply Z.eq_dec; apply bool_dec. Defined.
Definition wa_eq_dec : forall a b : wa_entry, {a = b} + {a <> b}.
Proof. decide equality; try apply gbytes_eq_dec; try apply bs_eq_dec; try apply Z.eq_dec; apply bool_dec. Defined.
Definition totp_eq_dec : forall a b : totp_entry, {a = b} + {a <> b}.
Proof. decide equality; try apply gbl_eq_dec; try apply bs_eq_dec; try apply Z.eq_dec; apply bool_dec. Defined.
Definition boot_eq_dec : forall a b : bootstrap, {a = b} + {a <> b}.
Proof. decide equality; try apply gbytes_eq_dec; apply Z.eq_dec. Defined.
Definition chal_eq_dec : forall a b : challenge, {a = b} + {a <> b}.
Proof. decide equality; try apply gbytes_eq_dec; try apply bsl_eq_dec; try apply bs_eq_dec; apply Z.eq_dec. Defined.
Definition sess_eq_dec : forall a b : session, {a = b} + {a <> b}.
Proof. decide equality; try apply gbytes_eq_dec; try apply gbl_eq_dec; apply bs_eq_dec. Defined.

Definition gmap_eq_dec {A} (d : forall a b : A, {a = b} + {a <> b}) : forall a b : gmap A, {a = b} + {a <> b}.
Proof. decide equality. apply list_eq_dec. decide equality. apply Z.eq_dec. Defined.

Definition profile_eq_dec : forall a b : profile, {a = b} + {a <> b}.
Proof.
  decide equality;
    try apply Z.eq_dec; try apply bs_eq_dec; try apply bool_dec; try apply boot_eq_dec;
    try (apply gmap_eq_dec; first [apply u2f_eq_dec | apply totp_eq_dec | apply wa_eq_dec]).
  - decide equality. apply sess_eq_dec.
  - decide equality. apply gbl_eq_dec.
  - decide equality. apply chal_eq_dec.
Defined.

Definition profile_eqb (a b : profile) : bool := if profile_eq_dec a b then true else false.

(* ------------------------------------------------------------------ the tie: (saved, loaded) pairs
   A case is a profile handed to SaveUserProfile and what LoadUserProfile returned for that user
   afterwards (from the primary, or from the cache after a completed copy with the primary slow). *)
Definition pcase := (profile * profile)%type.

(* the model's prediction: what was loaded has the content of gob_roundtrip saved *)
Definition pcase_ok (c : pcase) : bool := profile_eqb (canon (gob_roundtrip (fst c))) (canon (snd c)).

(* the property's own conclusion on the observation: what was loaded has the content that was saved *)
Definition pcase_content_kept (c : pcase) : bool := profile_eqb (canon (fst c)) (canon (snd c)).

Fixpoint pmismatches_from (i : nat) (f : pcase -> bool) (l : list pcase) : list nat :=
  match l with
  | [] => []
  | c :: r => if f c then pmismatches_from (S i) f r else i :: pmismatches_from (S i) f r
  end.

Definition pmismatches := pmismatches_from 0.

(* the zero userProfile (what a failed LoadUserProfile is shipped as; a witness in Proofs/Profile.v) *)
Definition empty_profile : profile :=
  mk_profile None None None 0 None (mk_boot 0 None) false None 0 [] [] None.
