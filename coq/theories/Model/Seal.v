(* C09 — sealing.  Executable model of
     cmd/keymasterd/unseal.go   secretInjectorHandler, unsealCA, readyzHandler
     cmd/keymasterd/config.go   loadSignersFromPemData, signerPublicKeyToKeymasterKeys
   and of what any handler can emit while the signer is absent.

   Keys are names (N); a CA certificate / published public key is named by the key it
   belongs to (symbolic view: a signature made with key k verifies exactly against k).
   What the environment decides (does the passphrase decrypt the file, does the plaintext
   parse, can the CA certificates be generated) is data of the configuration record. *)
From KM Require Import Base.Bytes.
Open Scope N_scope.

Notation key := N (only parsing).

(* what loading the plaintext of a decrypted key file gives, step by step:
   getSignerFromPEMBytes fails | the type switch rejects the key (an Ed25519 key in the main file,
   an RSA/ECDSA key in the Ed25519 file) | generateCADer fails | everything succeeds *)
Inductive fileres := FGood | FUnparsable | FWrongType | FCaFails.
Definition file_ok (r : fileres) : bool := match r with FGood => true | _ => false end.

Record cfg := {
  right_pass : bs;                       (* passphrase of the armored main key file *)
  main_key   : key;
  main_res   : fileres;                  (* loading the plaintext of the main file (RSA/ECDSA signer expected) *)
  role_ok    : bool;                     (* generateSelfRoleRequestingCADer succeeds *)
  ed_file    : option (bs * key * fileres); (* optional Ed25519 file: its passphrase, key, loading its plaintext *)
  extra_pubkeys : list key               (* keymaster_public_keys_filename: any keys, any order, duplicates allowed *)
}.
Definition main_ok (c : cfg) : bool := file_ok (main_res c).

Record state := {
  signer  : option key;    (* RuntimeState.Signer *)
  ed      : option key;    (* RuntimeState.Ed25519Signer *)
  ca_ders : list key;      (* RuntimeState.caCertDer *)
  role_ca : option key;    (* RuntimeState.selfRoleCaCertDer *)
  pubkeys : list key;      (* RuntimeState.KeymasterPublicKeys *)
  ready_sent : nat         (* messages sent on SignerIsReady (capacity 1: a second send blocks for ever) *)
}.

Definition sealed_init (c : cfg) : state :=
  {| signer := None; ed := None; ca_ders := []; role_ca := None; pubkeys := extra_pubkeys c; ready_sent := 0 |}.

Definition set_signer s v := {| signer := v; ed := ed s; ca_ders := ca_ders s; role_ca := role_ca s; pubkeys := pubkeys s; ready_sent := ready_sent s |}.
Definition set_ed s v := {| signer := signer s; ed := v; ca_ders := ca_ders s; role_ca := role_ca s; pubkeys := pubkeys s; ready_sent := ready_sent s |}.
Definition set_ca_ders s v := {| signer := signer s; ed := ed s; ca_ders := v; role_ca := role_ca s; pubkeys := pubkeys s; ready_sent := ready_sent s |}.
Definition set_role_ca s v := {| signer := signer s; ed := ed s; ca_ders := ca_ders s; role_ca := v; pubkeys := pubkeys s; ready_sent := ready_sent s |}.
Definition set_pubkeys s v := {| signer := signer s; ed := ed s; ca_ders := ca_ders s; role_ca := role_ca s; pubkeys := v; ready_sent := ready_sent s |}.
Definition set_ready s v := {| signer := signer s; ed := ed s; ca_ders := ca_ders s; role_ca := role_ca s; pubkeys := pubkeys s; ready_sent := v |}.

Definition mem (k : key) (l : list key) : bool := existsb (N.eqb k) l.
Definition is_some {A} (o : option A) : bool := match o with Some _ => true | None => false end.
Definition okey_eqb (a b : option key) : bool :=
  match a, b with Some x, Some y => x =? y | None, None => true | _, _ => false end.

(* pgpDecryptFileData on both files with the one submitted passphrase *)
Definition decrypt_ok (c : cfg) (p : bs) : bool :=
  bs_eqb p (right_pass c) &&
  match ed_file c with Some (pe, _, _) => bs_eqb p pe | None => true end.

(* signerPublicKeyToKeymasterKeys: Ed25519 first, then the main signer, each only if its
   fingerprint is not yet listed *)
Definition add_key (k : key) (l : list key) : list key := if mem k l then l else l ++ [k].
Definition add_pubkeys (s : state) : list key :=
  let l1 := match ed s with Some e => add_key e (pubkeys s) | None => pubkeys s end in
  match signer s with Some k => add_key k l1 | None => l1 end.

(* ------------------------------------------------------------------ unsealCA, as written *)
(* returns the new state and whether nil (no error) was returned.  loadSignersFromPemData (after
   the repair) keeps everything it derives from the two files in local variables until the last
   check has passed; only then does it assign. *)
Definition unseal_ca (c : cfg) (s : state) (p : bs) : state * bool :=
  if is_some (signer s) then (s, false)                         (* "already unlocked" *)
  else if negb (bs_eqb p (right_pass c)) then (s, false)        (* main file does not decrypt *)
  else
    let ed_checked :=                                            (* Ed25519 file: decrypt, parse, type switch, CA *)
      match ed_file c with
      | None => Some None
      | Some (pe, e, r) =>
          if negb (bs_eqb p pe) then None
          else if negb (file_ok r) then None
          else Some (Some e)
      end in
    match ed_checked with
    | None => (s, false)
    | Some oe =>
        if negb (main_ok c) then (s, false)
        else if negb (role_ok c) then (s, false)
        else
          let s1 := match oe with
                    | Some e => set_ed (set_ca_ders s (ca_ders s ++ [e])) (Some e)
                    | None => s
                    end in
          let s2 := set_role_ca s1 (Some (main_key c)) in
          let s3 := set_signer (set_ca_ders s2 (ca_ders s2 ++ [main_key c])) (Some (main_key c)) in
          let s4 := set_pubkeys s3 (add_pubkeys s3) in
          (set_ready s4 (S (ready_sent s4)), true)
    end.

(* loadSignersFromPemData BEFORE the repair: the Ed25519 signer and its CA certificate were assigned
   before the main key was looked at, and the role CA field was overwritten by a failed generation *)
Definition unseal_ca_old (c : cfg) (s : state) (p : bs) : state * bool :=
  if is_some (signer s) then (s, false)
  else if negb (bs_eqb p (right_pass c)) then (s, false)
  else
    let after_ed :=
      match ed_file c with
      | None => Some s
      | Some (pe, e, r) =>
          if negb (bs_eqb p pe) then None
          else if negb (file_ok r) then None
          else Some (set_ed (set_ca_ders s (ca_ders s ++ [e])) (Some e))
      end in
    match after_ed with
    | None => (s, false)
    | Some s1 =>
        if negb (main_ok c) then (s1, false)                     (* the Ed25519 assignments stay *)
        else
          let s2 := set_role_ca s1 (if role_ok c then Some (main_key c) else None) in
          if negb (role_ok c) then (s2, false)
          else
            let s3 := set_signer (set_ca_ders s2 (ca_ders s2 ++ [main_key c])) (Some (main_key c)) in
            let s4 := set_pubkeys s3 (add_pubkeys s3) in
            (set_ready s4 (S (ready_sent s4)), true)
    end.

(* ------------------------------------------------------------------ secretInjectorHandler *)
(* What the handler sees of the connection is http.Request.TLS: nil (plain HTTP), or a
   tls.ConnectionState of which it reads two fields:
     PeerCertificates  the certificates the client PRESENTED during the handshake (whether or not anybody
                       verified them: with ClientAuth = RequestClientCert / RequireAnyClientCert the
                       handshake accepts any certificate, self-signed, of an unknown CA, expired),
     VerifiedChains    the chains crypto/tls BUILT from the presented leaf to a certificate of
                       Config.ClientCAs (only with VerifyClientCertIfGiven / RequireAndVerifyClientCert;
                       empty otherwise).
   Certificates are names (N); the handler never looks inside one except for the subject of
   VerifiedChains[0][0], which it logs. *)
Notation certid := N (only parsing).
Record connstate := { peer_certs : list certid; verified_chains : list (list certid) }.

Record inj := { i_conn : option connstate;   (* r.TLS *)
                i_field : option bs }.       (* r.Form["ssh_ca_password"][0] *)

Definition i_tls (r : inj) : bool := is_some (i_conn r).                                   (* r.TLS != nil *)
Definition i_chains (r : inj) : list (list certid) :=
  match i_conn r with Some cs => verified_chains cs | None => [] end.
Definition i_chain (r : inj) : bool := match i_chains r with [] => false | _ :: _ => true end.   (* len(r.TLS.VerifiedChains) >= 1 *)
Definition i_leaf (r : inj) : option certid :=                                               (* r.TLS.VerifiedChains[0][0] *)
  match i_chains r with (leaf :: _) :: _ => Some leaf | _ => None end.
Definition i_presented (r : inj) : list certid :=
  match i_conn r with Some cs => peer_certs cs | None => [] end.

(* an empty first chain makes VerifiedChains[0][0] panic (index out of range); net/http recovers the
   panic of a handler goroutine and closes the connection without an answer.  The harness marks a
   recovered panic with this number. *)
Definition code_panic : N := 599.

Definition inject_with (unseal : cfg -> state -> bs -> state * bool) (c : cfg) (s : state) (r : inj) : state * N :=
  if negb (i_tls r) then (s, 500)
  else if negb (i_chain r) then (s, 403)
  else match i_leaf r with
       | None => (s, code_panic)
       | Some _ =>
           match i_field r with
           | None => (s, 400)
           | Some p => let '(s', ok) := unseal c s p in (s', if ok then 200 else 400)
           end
       end.
Definition inject : cfg -> state -> inj -> state * N := inject_with unseal_ca.
Definition inject_old : cfg -> state -> inj -> state * N := inject_with unseal_ca_old.

(* the request an operator sends: the admin certificate, verified against the admin CA by the handshake *)
Definition admin_conn : connstate := {| peer_certs := [1]; verified_chains := [[1; 2]] |}.
Definition admin_inj (field : option bs) : inj := {| i_conn := Some admin_conn; i_field := field |}.

(* NOT the code — the variant the property excludes ("a presented certificate suffices"): the client
   identity is the leaf of the first non-empty verified chain, and when there is none the first
   certificate the peer presented. *)
Definition client_cert_or_presented (cs : connstate) : option certid :=
  match find (fun ch => match ch with [] => false | _ :: _ => true end) (verified_chains cs) with
  | Some (leaf :: _) => Some leaf
  | _ => match peer_certs cs with leaf :: _ => Some leaf | [] => None end
  end.
Definition inject_presented (c : cfg) (s : state) (r : inj) : state * N :=
  match i_conn r with
  | None => (s, 500)
  | Some cs =>
      match client_cert_or_presented cs with
      | None => (s, 403)
      | Some _ =>
          match i_field r with
          | None => (s, 400)
          | Some p => let '(s', ok) := unseal_ca c s p in (s', if ok then 200 else 400)
          end
      end
  end.

(* ------------------------------------------------------------------ the listener in front of the handler *)
(* crypto/tls, server side, as far as client certificates go (tls.Config.ClientAuth, Config.ClientCAs):
   what the client sends, what the handshake does with it, what ConnectionState the handler gets.
   A certificate is described by who issued it and whether it is inside its validity period; it
   verifies iff its issuer is in the pool and it has not expired. *)
Inductive clientauth := NoClientCert | RequestClientCert | RequireAnyClientCert | VerifyClientCertIfGiven | RequireAndVerifyClientCert.
Record cert := { c_id : certid; c_issuer : certid; c_expired : bool }.
Definition cert_verifies (pool : list certid) (x : cert) : bool := mem (c_issuer x) pool && negb (c_expired x).

(* None = the handshake fails, nothing reaches any handler *)
Definition handshake (policy : clientauth) (pool : list certid) (presented : option cert) : option connstate :=
  let unverified := Some {| peer_certs := match presented with Some x => [c_id x] | None => [] end; verified_chains := [] |} in
  let verified x := if cert_verifies pool x then Some {| peer_certs := [c_id x]; verified_chains := [[c_id x; c_issuer x]] |} else None in
  match policy, presented with
  | NoClientCert, _ => Some {| peer_certs := []; verified_chains := [] |}      (* no CertificateRequest is sent *)
  | RequestClientCert, _ => unverified
  | RequireAnyClientCert, None => None
  | RequireAnyClientCert, Some _ => unverified
  | VerifyClientCertIfGiven, None => unverified
  | VerifyClientCertIfGiven, Some x => verified x
  | RequireAndVerifyClientCert, None => None
  | RequireAndVerifyClientCert, Some x => verified x
  end.

(* a request over a listener with this policy: (reached the handler?, state, status) *)
Definition inject_over (policy : clientauth) (pool : list certid) (c : cfg) (s : state) (presented : option cert) (field : option bs)
  : bool * state * N :=
  match handshake policy pool presented with
  | None => (false, s, 0)
  | Some cs => let '(s', code) := inject c s {| i_conn := Some cs; i_field := field |} in (true, s', code)
  end.

Definition readyz (s : state) : N := if is_some (signer s) then 200 else 503.

(* what the harness can see of a state *)
Definition observe (s : state) : bool * bool * nat * nat * nat * bool :=
  (is_some (signer s), is_some (ed s), length (ca_ders s), length (pubkeys s), ready_sent s, is_some (role_ca s)).

Fixpoint inject_run (c : cfg) (s : state) (l : list inj) : list (N * N * (bool * bool * nat * nat * nat * bool)) :=
  match l with
  | [] => []
  | r :: rest => let '(s', code) := inject c s r in (code, readyz s', observe s') :: inject_run c s' rest
  end.

Fixpoint inject_all (c : cfg) (s : state) (l : list inj) : state :=
  match l with [] => s | r :: rest => inject_all c (fst (inject c s r)) rest end.

(* all key material derived from the decrypted files is in place *)
Definition completeb (c : cfg) (s : state) : bool :=
  okey_eqb (signer s) (Some (main_key c)) && mem (main_key c) (ca_ders s) && okey_eqb (role_ca s) (Some (main_key c))
  && mem (main_key c) (pubkeys s)
  && match ed_file c with
     | Some (_, e, _) => okey_eqb (ed s) (Some e) && mem e (ca_ders s) && mem e (pubkeys s)
     | None => true
     end.

(* ------------------------------------------------------------------ handlers on a state *)
(* Whatever a service handler does, the only way it produces a certificate, a session cookie or
   a token is one of the signing primitives, and each of them dereferences state.Signer
   (certgen.go, jwt.go, authToken.go, idp_oidc.go, roleRequestingCert.go, awsRole.go); the
   Ed25519 signer is used only behind certGenHandler's test of state.Signer.  A handler run is
   the sequence of primitives it reaches on a given request. *)
Inductive hstep :=
| HGuard                               (* locked nil test (sendFailureToClientIfLocked and the inline copies) *)
| HSign (kind : N) (cookie use_ed : bool)  (* sign an artefact of this kind; delivered in Set-Cookie or in the body *)
| HPlain (status : N)                  (* unsigned output: page, redirect, refusal, cookie deletion, nonce cookie *)
.

Inductive hclass := Done | Failed | Crashed.   (* ran to the end | refused with a 5xx itself | nil dereference *)

(* (class, artefacts (kind, signing key, in a cookie)) *)
Fixpoint run_handler (s : state) (p : list hstep) (acc : list (N * key * bool)) : hclass * list (N * key * bool) :=
  match p with
  | [] => (Done, acc)
  | HGuard :: r => if is_some (signer s) then run_handler s r acc else (Failed, acc)
  | HSign kd ck use_ed :: r =>
      match signer s with
      | None => (Crashed, acc)
      | Some k =>
          if use_ed then match ed s with
                         | Some e => run_handler s r (acc ++ [(kd, e, ck)])
                         | None => (Failed, acc)
                         end
          else run_handler s r (acc ++ [(kd, k, ck)])
      end
  | HPlain _ :: r => run_handler s r acc
  end.

Definition reaches_signing (p : list hstep) : bool :=
  existsb (fun h => match h with HSign _ _ _ => true | _ => false end) p.

Definition is_error (c : hclass) : bool := match c with Done => false | _ => true end.

(* ------------------------------------------------------------------ interleavings *)
(* unsealCA and a request as sequences of atomic actions on the shared state.  Atomicity of one
   action is the granularity of one Go assignment; mutual exclusion comes only from ALock. *)
Inductive act :=
| ALock | AUnlock
| ATest            (* if state.Signer != nil { return error } *)
| ADecrypt (p : bs)(* both pgpDecryptFileData calls *)
| ALoadEd          (* parse + type switch + generateCADer of the Ed25519 key, into locals *)
| ACheckMain       (* parse + type switch + generateCADer of the main key, into locals *)
| ACheckRole       (* generateSelfRoleRequestingCADer, into a local; return on error *)
| ASetCaEd | ASetEd
| ASetRoleCa       (* state.selfRoleCaCertDer = ... *)
| ASetCa | ASetSigner
| ASetPubkeys      (* signerPublicKeyToKeymasterKeys *)
| ASendReady
| AReadSigner      (* signerIsNull = (state.Signer == nil) *)
| AUse.            (* the handler body reads Signer, caCertDer, KeymasterPublicKeys without the lock *)

Definition unseal_body (p : bs) : list act :=
  [ATest; ADecrypt p; ALoadEd; ACheckMain; ACheckRole; ASetCaEd; ASetEd; ASetRoleCa; ASetCa; ASetSigner; ASetPubkeys; ASendReady].
Definition unseal_prog (p : bs) : list act := ALock :: unseal_body p ++ [AUnlock].
Definition request_prog (uses : nat) : list act := [ALock; AReadSigner; AUnlock] ++ repeat AUse uses.

Record thread := {
  prog : list act;            (* what is left to do *)
  aborted : bool;             (* an error return is pending: only the deferred Unlock still runs *)
  saw : option key;           (* request: the signer value read under the lock *)
  obs : list bool             (* request: at each use, was the material complete and the signer the one seen *)
}.

Definition mk_thread (p : list act) : thread := {| prog := p; aborted := false; saw := None; obs := [] |}.
Definition with_prog t p := {| prog := p; aborted := aborted t; saw := saw t; obs := obs t |}.
Definition abort t := {| prog := prog t; aborted := true; saw := saw t; obs := obs t |}.
Definition set_saw t v := {| prog := prog t; aborted := aborted t; saw := v; obs := obs t |}.
Definition add_obs t b := {| prog := prog t; aborted := aborted t; saw := saw t; obs := b :: obs t |}.

Definition exec (c : cfg) (a : act) (s : state) (t : thread) : state * thread :=
  match a with
  | ALock | AUnlock => (s, t)
  | ATest => if is_some (signer s) then (s, abort t) else (s, t)
  | ADecrypt p => if decrypt_ok c p then (s, t) else (s, abort t)
  | ALoadEd => match ed_file c with Some (_, _, r) => if file_ok r then (s, t) else (s, abort t) | None => (s, t) end
  | ASetCaEd => match ed_file c with Some (_, e, _) => (set_ca_ders s (ca_ders s ++ [e]), t) | None => (s, t) end
  | ASetEd => match ed_file c with Some (_, e, _) => (set_ed s (Some e), t) | None => (s, t) end
  | ACheckMain => if main_ok c then (s, t) else (s, abort t)
  | ACheckRole => if role_ok c then (s, t) else (s, abort t)
  | ASetRoleCa => (set_role_ca s (Some (main_key c)), t)
  | ASetCa => (set_ca_ders s (ca_ders s ++ [main_key c]), t)
  | ASetSigner => (set_signer s (Some (main_key c)), t)
  | ASetPubkeys => (set_pubkeys s (add_pubkeys s), t)
  | ASendReady => (set_ready s (S (ready_sent s)), t)
  | AReadSigner => (s, set_saw t (signer s))
  | AUse => match saw t with
            | None => (s, abort t)       (* the handler answered 500 after its test *)
            | Some k => (s, add_obs t (completeb c s && okey_eqb (signer s) (Some k)))
            end
  end.

(* the body of unsealCA run alone, between Lock and the deferred Unlock *)
Fixpoint run_body (c : cfg) (l : list act) (s : state) (t : thread) : state * thread :=
  match l with
  | [] => (s, t)
  | a :: r => if aborted t then (s, t) else let '(s', t') := exec c a s t in run_body c r s' t'
  end.

Record world := {
  st : state;
  lock : option nat;          (* index of the thread holding RuntimeState.Mutex *)
  threads : list thread;
  transitions : nat           (* ghost: number of steps that changed state.Signer *)
}.

Fixpoint upd {A} (l : list A) (i : nat) (x : A) : list A :=
  match l, i with
  | [], _ => []
  | _ :: r, O => x :: r
  | y :: r, S j => y :: upd r j x
  end.

Definition onat_eqb (a : option nat) (b : nat) : bool := match a with Some x => Nat.eqb x b | None => false end.

(* one step of thread i; a finished or blocked thread stutters *)
Definition step (c : cfg) (w : world) (i : nat) : world :=
  match nth_error (threads w) i with
  | None => w
  | Some t =>
      match prog t with
      | [] => w
      | ALock :: r =>
          match lock w with
          | None => {| st := st w; lock := Some i; threads := upd (threads w) i (with_prog t r); transitions := transitions w |}
          | Some _ => w
          end
      | AUnlock :: r =>
          {| st := st w; lock := if onat_eqb (lock w) i then None else lock w;
             threads := upd (threads w) i (with_prog t r); transitions := transitions w |}
      | a :: r =>
          if aborted t then {| st := st w; lock := lock w; threads := upd (threads w) i (with_prog t r); transitions := transitions w |}
          else let '(s', t') := exec c a (st w) t in
               {| st := s'; lock := lock w; threads := upd (threads w) i (with_prog t' r);
                  transitions := if okey_eqb (signer (st w)) (signer s') then transitions w else S (transitions w) |}
      end
  end.

Definition run (c : cfg) (w : world) (sched : list nat) : world := fold_left (step c) sched w.

(* a pool: any number of injections (each with its own passphrase) and of requests *)
Inductive job := JInject (p : bs) | JRequest (uses : nat).
Definition thread_of (j : job) : thread :=
  match j with JInject p => mk_thread (unseal_prog p) | JRequest n => mk_thread (request_prog n) end.
Definition init_world (s : state) (jobs : list job) : world :=
  {| st := s; lock := None; threads := map thread_of jobs; transitions := 0 |}.

(* ------------------------------------------------------------------ comparison with observations (case files) *)
Definition obs_eqb (a b : N * N * (bool * bool * nat * nat * nat * bool)) : bool :=
  let '(c1, r1, (s1, e1, n1, p1, y1, o1)) := a in
  let '(c2, r2, (s2, e2, n2, p2, y2, o2)) := b in
  (c1 =? c2) && (r1 =? r2) && Bool.eqb s1 s2 && Bool.eqb e1 e2 && Nat.eqb n1 n2 && Nat.eqb p1 p2 && Nat.eqb y1 y2 && Bool.eqb o1 o2.

Fixpoint inject_obs_eqb (l1 l2 : list (N * N * (bool * bool * nat * nat * nat * bool))) : bool :=
  match l1, l2 with
  | [], [] => true
  | a :: r1, b :: r2 => obs_eqb a b && inject_obs_eqb r1 r2
  | _, _ => false
  end.

Definition art_eqb (a b : N * N * bool) : bool :=
  let '(k1, y1, c1) := a in let '(k2, y2, c2) := b in (k1 =? k2) && (y1 =? y2) && Bool.eqb c1 c2.

Fixpoint arts_eqb (l1 l2 : list (N * N * bool)) : bool :=
  match l1, l2 with
  | [], [] => true
  | a :: r1, b :: r2 => art_eqb a b && arts_eqb r1 r2
  | _, _ => false
  end.

(* a state in which only the Ed25519 signer and its CA certificate are present (no unsealing path of
   the repaired code leads there; the handlers must refuse there all the same) *)
Definition half_loaded (c : cfg) : state :=
  match ed_file c with
  | Some (_, e, _) => set_ed (set_ca_ders (sealed_init c) [e]) (Some e)
  | None => sealed_init c
  end.

(* one probed request: the state is the freshly loaded one (mode 0), that state after one injection
   of the right passphrase (1), or the half-loaded one (2); p = the signing primitives the request
   reaches (as seen on the unsealed twin) *)
Definition route_case_ok (c : cfg) (mode : N) (p : list hstep) (err : bool) (arts : list (N * N * bool)) : bool :=
  let s := if mode =? 1 then fst (unseal_ca c (sealed_init c) (right_pass c))
           else if mode =? 2 then half_loaded c else sealed_init c in
  let '(cl, out) := run_handler s p [] in
  arts_eqb out arts &&
  (if is_some (signer s) then true else implb (reaches_signing p) err).

(* ------------------------------------------------------------------ other writers of the published-key list *)
(* RuntimeState.KeymasterPublicKeys is read by /public/sshca, the JWKS endpoint and the verification of
   the server's own cookies.  In the code its only writer after start-up is unsealCA (ASetPubkeys, an
   append under the mutex).  To state that publication is STABLE the interleaving model is opened to any
   further writer: an event EWrite f is one critical section `Lock; KeymasterPublicKeys = f state; Unlock`
   of some other goroutine (it can only run while the mutex is free; one write = one atomic action, so
   collapsing the section into one step loses nothing). *)
Inductive ev :=
| EThread (i : nat)                      (* thread i of the pool (an injection or a request) makes a step *)
| EWrite (f : state -> list key).        (* another writer's critical section *)

Definition step2 (c : cfg) (w : world) (e : ev) : world :=
  match e with
  | EThread i => step c w i
  | EWrite f =>
      match lock w with
      | None => {| st := set_pubkeys (st w) (f (st w)); lock := None; threads := threads w; transitions := transitions w |}
      | Some _ => w                      (* blocked on the mutex *)
      end
  end.
Definition run2 (c : cfg) (w : world) (evs : list ev) : world := fold_left (step2 c) evs w.

(* the keys of the signers that are loaded right now *)
Definition local_keys (s : state) : list key :=
  (match ed s with Some e => [e] | None => [] end) ++ (match signer s with Some k => [k] | None => [] end).

(* two writers that keep publication: appending a key, and re-reading the peer-key file with the local
   signers' keys taken IN THE SAME critical section *)
Definition w_append (k : key) : state -> list key := fun s => add_key k (pubkeys s).
Definition w_reload (file : list key) : state -> list key := fun s => fold_left (fun l k => add_key k l) file (local_keys s).

(* NOT a writer of the code — the variant the stability theorem excludes: a reloader that takes the local
   signers' keys in one critical section (ESnap), reads the file without the mutex, and REPLACES the list
   in a second critical section (EReplace) by snapshot + file keys *)
Record world3 := { w3 : world; snap : option (list key) }.
Inductive ev3 := E3 (e : ev) | ESnap | EReplace (file : list key).
Definition step3 (c : cfg) (x : world3) (e : ev3) : world3 :=
  match e with
  | E3 e => {| w3 := step2 c (w3 x) e; snap := snap x |}
  | ESnap => match lock (w3 x) with
             | None => {| w3 := w3 x; snap := Some (local_keys (st (w3 x))) |}
             | Some _ => x
             end
  | EReplace file =>
      match lock (w3 x), snap x with
      | None, Some l => {| w3 := step2 c (w3 x) (EWrite (fun _ => fold_left (fun a k => add_key k a) file l)); snap := None |}
      | _, _ => x
      end
  end.
Definition run3 (c : cfg) (x : world3) (evs : list ev3) : world3 := fold_left (step3 c) evs x.

(* ------------------------------------------------------------------ published keys observed over time (case file) *)
(* after the injection was answered 200 the published sets are fetched again and again: each poll reports
   the number of published keys and whether every key that signs was published and the server accepted
   its own fresh cookie.  The model: nothing but unsealCA writes the list, so every poll sees the state
   the injection left. *)
Definition poll_ok (c : cfg) (polls : list (nat * bool)) : bool :=
  let s := fst (unseal_ca c (sealed_init c) (right_pass c)) in
  forallb (fun p => Nat.eqb (fst p) (length (pubkeys s)) && Bool.eqb (snd p) (completeb c s)) polls.
(* the property's predicate on the observation: a poll at which a signing key was not published *)
Definition poll_violates (polls : list (nat * bool)) : bool := existsb (fun p => negb (snd p)) polls.

(* ------------------------------------------------------------------ the auto-unseal path, observed (case file) *)
(* tryAwsUnseal hands the stored secret to unsealCA (no TLS gate on this path); when the secret cannot be
   fetched or lacks the configured key unsealCA is not reached (handed = None) *)
Definition auto_state (c : cfg) (handed : option bs) : state :=
  match handed with Some p => fst (unseal_ca c (sealed_init c) p) | None => sealed_init c end.

Definition auto_case_ok (c : cfg) (handed : option bs) (ob : N * (bool * bool * nat * nat * nat * bool)) : bool :=
  let s := auto_state c handed in
  let '(rz, (s1, e1, n1, p1, y1, o1)) := ob in
  let '(s2, e2, n2, p2, y2, o2) := observe s in
  (rz =? readyz s) && Bool.eqb s1 s2 && Bool.eqb e1 e2 && Nat.eqb n1 n2 && Nat.eqb p1 p2 && Nat.eqb y1 y2 && Bool.eqb o1 o2.

(* the property's predicate on the observation: unsealed although the secret does not decrypt and load every
   configured key file (c09_auto_unseal_only_right_pass), or still sealed but not as it was
   (c09_auto_unseal_refused_unchanged) *)
Definition auto_good (c : cfg) (p : bs) : bool :=
  bs_eqb p (right_pass c) && main_ok c && role_ok c &&
  match ed_file c with Some (pe, _, r) => bs_eqb p pe && file_ok r | None => true end.
Definition auto_case_violates (c : cfg) (handed : option bs) (ob : N * (bool * bool * nat * nat * nat * bool)) : bool :=
  let '(rz, (sg, e, nca, npub, rdy, role)) := ob in
  let good := match handed with Some p => auto_good c p | None => false end in
  (sg && negb good) ||
  (negb sg && (e || role || negb (Nat.eqb nca 0) || negb (Nat.eqb rdy 0) || negb (Nat.eqb npub (length (extra_pubkeys c))) || negb (rz =? 503))).

(* ------------------------------------------------------------------ the property's predicate on an observed injection (case file) *)
(* c09_only_right_pass read on an observation: the server was sealed before the step and is unsealed after it.
   The step violates the property if the connection record had no verified chain with a leaf, or if the
   submitted field is not exactly the passphrase of the key file. *)
Definition inj_verified (r : inj) : bool := i_tls r && i_chain r && is_some (i_leaf r).
Definition inj_right_pass (c : cfg) (r : inj) : bool :=
  match i_field r with Some p => bs_eqb p (right_pass c) | None => false end.

(* walk the sequence with the OBSERVED signer flag: 1 = some step unsealed without a verified chain,
   2 = some step unsealed with a verified chain but not the right passphrase, 0 = neither *)
Fixpoint seq_violation (c : cfg) (sealed_before : bool) (ops : list inj)
                       (obs : list (N * N * (bool * bool * nat * nat * nat * bool))) : N :=
  match ops, obs with
  | r :: ops', (_, _, (sg, _, _, _, _, _)) :: obs' =>
      if sealed_before && sg && negb (inj_verified r) then 1
      else if sealed_before && sg && negb (inj_right_pass c r) then 2
      else seq_violation c (negb sg) ops' obs'
  | _, _ => 0
  end.

(* a request over a real listener (policy, client CA pool, presented certificate): observed
   (reached the handler, status, unsealed afterwards) against the model *)
Definition over_case_ok (policy : clientauth) (pool : list certid) (c : cfg) (presented : option cert) (field : option bs)
                        (ob : bool * N * bool) : bool :=
  let '(reached, s', code) := inject_over policy pool c (sealed_init c) presented field in
  let '(oreached, ocode, osigner) := ob in
  Bool.eqb reached oreached && (code =? ocode) && Bool.eqb (is_some (signer s')) osigner.
(* the property's predicate: unsealed although the presented certificate does not verify against the pool
   (or none was presented, or the policy verifies nothing), or the field is not the passphrase *)
Definition over_case_violates (policy : clientauth) (pool : list certid) (c : cfg) (presented : option cert) (field : option bs)
                              (ob : bool * N * bool) : bool :=
  let '(_, _, osigner) := ob in
  let verifying := match policy with VerifyClientCertIfGiven | RequireAndVerifyClientCert => true | _ => false end in
  let good_cert := match presented with Some x => cert_verifies pool x | None => false end in
  let good_pass := match field with Some p => bs_eqb p (right_pass c) | None => false end in
  osigner && negb (verifying && good_cert && good_pass).
