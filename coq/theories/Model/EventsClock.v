(* C20 — the recorder's retention test and the clock: entries stamped AHEAD of the checking clock.

   eventmon/eventrecorder/impl.go computes, in loadEvents and in expireOldEvents,

       minCreateTime := uint64(time.Now().Add(-durationMonth).Unix())
       ... savedEvent.CreateTime < minCreateTime  -> skipped / unlinked

   i.e. ONE subtraction on the signed clock reading (int64 seconds; negative before 1970-02-01),
   converted to uint64, and then a plain comparison of two uint64 values.  Model/Events.v works in Z
   (`min_ctime now = now - retention`, `is_old m e = ctime e <? m`): entry times and the clock are
   independent integers there, so an entry from the future (ctime e > now) is an ordinary value.
   This file adds the machine arithmetic next to it:

     * `min_ctime_u64`, `is_old_u64`      the code as written, on 64-bit words
     * `is_old_age`                       the variant "age := now - CreateTime (uint64); age > retention"
     * `expire_by`, `load_by`             expireOldEvents / loadEvents over ANY oldness test
     * `future_lost`, `robs_future_lost`  the property on observations (case files) *)
From Coq Require Import List ZArith Bool.
From KM Require Import Base.Bytes Model.Events.
Import ListNotations.
Open Scope Z_scope.

Definition two64 : Z := 2 ^ 64.
Definition u64 (z : Z) : Z := z mod two64.           (* conversion to uint64 / uint64 arithmetic *)

(* uint64(time.Now().Add(-durationMonth).Unix()) for the clock reading `now` (int64 seconds) *)
Definition min_ctime_u64 (now : Z) : Z := u64 (now - retention).
Definition is_old_u64 (now : Z) (e : ev) : bool := ctime e <? min_ctime_u64 now.

(* not in the tree: the age of the entry computed by an unsigned subtraction, then compared *)
Definition is_old_age (now : Z) (e : ev) : bool := retention <? u64 (now - ctime e).

(* expireOldEvents with the oldness test as a parameter: from `oldest` along `.newer`, unlink while
   the test says old, stop at the first entry for which it does not *)
Fixpoint drop_while_old (old : ev -> bool) (oldest_first : list ev) : list ev :=
  match oldest_first with
  | [] => []
  | e :: r => if old e then drop_while_old old r else e :: r
  end.
Definition expire_by (old : ev -> bool) (l : ulist) : ulist := rev (drop_while_old old (rev l)).

(* loadEvents with the oldness test as a parameter *)
Definition load_by (old : ev -> bool) (saved : list ev) : ulist :=
  fold_left (fun acc e => if old e then acc else e :: acc) (rev saved) [].

(* ------------------------------------------------------------------ property on observations *)

(* an entry of `before` whose creation time is later than the clock `now` of the reload / expiry
   is missing from the observed state `after` *)
Definition future_lost (now : Z) (before after : rstate) : bool :=
  existsb (fun kl => existsb (fun e => (now <? ctime e) && negb (existsb (ev_eqb e) (events_of (fst kl) after)))
                             (snd kl)) before.

(* walk a recorder history with its observations: at a reload the dump that comes with it, at an
   expiry the read-out taken directly after it (RGet), is checked for lost future entries.  The
   state "before" is taken from the observations (last dump + what was recorded since), so that an
   earlier deviation is not blamed on this step. *)
Fixpoint robs_future_lost (s : rstate) (pend : option (Z * rstate)) (ops : list (rop * robs)) : bool :=
  match ops with
  | [] => false
  | (o, ob) :: r =>
      let s' := rstep s o in
      match o, ob with
      | RReload n, ODump d => future_lost n s d || robs_future_lost d None r
      | RExpire n, _ => robs_future_lost s' (Some (n, s)) r
      | RGet, ODump d =>
          (match pend with Some (n, sb) => future_lost n sb d | None => false end) || robs_future_lost d None r
      | _, ODump d => robs_future_lost d None r
      | _, _ => robs_future_lost s' None r
      end
  end.
