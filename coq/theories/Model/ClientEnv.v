(* C19 — WHICH ssh-agent the client talks to, and where the private key ends up when there is none.

   lib/client/sshagent/agent.go  connectToDefaultSSHAgentLocation   net.Dial("unix", os.Getenv("SSH_AUTH_SOCK"))
                                 withAddedKeyUpsertCertIntoAgent, upsertCertIntoAgent (connect, then the upsert of Model/Client.v)
   cmd/keymaster/main.go         insertSSHCertIntoAgentORWriteToFilesystem (agent with lifetime, agent without lifetime, else files)

   The world is a list of paths with what each names (an agent with its identities, a socket that does not speak
   the protocol, a socket file nobody listens on, a regular file, a directory); the environment has SSH_AUTH_SOCK
   and the directories in which agents conventionally live (TMPDIR, HOME, XDG_RUNTIME_DIR).  The agent the client
   may use is a function of SSH_AUTH_SOCK alone. *)
From Coq Require Import String.
From KM Require Import Base.Bytes Model.Client.
Open Scope N_scope.

Record env := mkEnv {
  ev_auth_sock : option bs;      (* SSH_AUTH_SOCK; None: unset or empty *)
  ev_tmpdir : bs;                (* TMPDIR: ssh-agent binds $TMPDIR/ssh-XXXXXXXXXX/agent.<ppid> *)
  ev_home : bs;                  (* HOME *)
  ev_xdg : bs }.                 (* XDG_RUNTIME_DIR *)

Inductive node :=
| NAgent (a : agent)             (* a unix socket with an ssh-agent behind it *)
| NDeaf                          (* a unix socket whose listener does not speak the agent protocol *)
| NStale                         (* a socket file nobody listens on *)
| NFile                          (* a regular file *)
| NDir.                          (* a directory *)
Definition world := list (bs * node).

Fixpoint lookup (p : bs) (w : world) : option node :=
  match w with
  | [] => None
  | (q, nd) :: r => if bs_eqb q p then Some nd else lookup p r
  end.
Definition wupdate (p : bs) (nd : node) (w : world) : world :=
  map (fun x : bs * node => if bs_eqb (fst x) p then (fst x, nd) else x) w.

(* the agent the client may use: named by SSH_AUTH_SOCK, nothing else *)
Definition agent_of (e : env) : option bs := ev_auth_sock e.

(* connectToDefaultSSHAgentLocation: the dial succeeds when a listener is behind the path *)
Inductive conn := CAgent (p : bs) (a : agent) | CDeaf.
Definition connect (e : env) (w : world) : option conn :=
  match agent_of e with
  | None => None
  | Some p =>
      match lookup p w with
      | Some (NAgent a) => Some (CAgent p a)
      | Some NDeaf => Some CDeaf
      | _ => None
      end
  end.
Definition usable (e : env) (w : world) : bool :=
  match connect e w with Some (CAgent _ _) => true | _ => false end.

(* WithAddedKeyUpsertCertIntoAgent / UpsertCertIntoAgent: (world afterwards, did the call report success).
   Against a listener that does not speak the protocol the List call fails; without a connection
   the dial error is returned. *)
Definition world_upsert (e : env) (n : entry) (w : world) : world * bool :=
  match connect e w with
  | Some (CAgent p a) => (wupdate p (NAgent (upsert n a)) w, true)
  | Some CDeaf => (w, false)
  | None => (w, false)
  end.

(* insertSSHCertIntoAgentORWriteToFilesystem: the agent with a lifetime, again without, else two files *)
Definition install_ssh_env (e : env) (w : world) (suffix user : string) (s : signer) (k : keyid) (n : entry)
  : world * list sink :=
  let r1 := world_upsert e n w in
  let r2 := if snd r1 then r1 else world_upsert e n (fst r1) in
  (fst r2, install_ssh (snd r2) suffix user s k).

(* NOT the code: when SSH_AUTH_SOCK gives no connection, look for "the running agent" among the sockets
   under $TMPDIR/ssh-*/ and use the first that answers *)
Fixpoint bs_prefix (p s : bs) : bool :=
  match p, s with
  | [], _ => true
  | x :: p', y :: s' => (x =? y) && bs_prefix p' s'
  | _, _ => false
  end.
Definition ssh_dash : bs := [47; 115; 115; 104; 45].     (* "/ssh-" *)
Fixpoint discover (pre : bs) (w : world) : option (bs * agent) :=
  match w with
  | [] => None
  | (q, NAgent a) :: r => if bs_prefix pre q then Some (q, a) else discover pre r
  | _ :: r => discover pre r
  end.
Definition world_upsert_discover (e : env) (n : entry) (w : world) : world * bool :=
  match connect e w with
  | Some (CAgent p a) => (wupdate p (NAgent (upsert n a)) w, true)
  | Some CDeaf => (w, false)
  | None =>
      match discover (ev_tmpdir e ++ ssh_dash) w with
      | Some (q, a) => (wupdate q (NAgent (upsert n a)) w, true)
      | None => (w, false)
      end
  end.

(* ------------------------------------------------------------------ correspondence *)

(* observed: the listing of every agent of the scene (the designated one, if any, and every decoy) after the call *)
Definition agents_match (w : world) (obs : list (bs * agent)) : bool :=
  forallb (fun x : bs * agent => match lookup (fst x) w with Some (NAgent a) => same_entries a (snd x) | _ => false end) obs.

Definition opt_is (o : option bs) (p : bs) : bool := match o with Some q => bs_eqb q p | None => false end.
Definition holds_blob (b : bs) (a : agent) : bool := existsb (fun x => bs_eqb (e_blob x) b) a.

(* the property predicate on the observation: the new identity (private key + certificate) is in an agent that
   SSH_AUTH_SOCK does not name, and was not there before *)
Definition key_in_undesignated (e : env) (w : world) (n : entry) (obs : list (bs * agent)) : bool :=
  existsb (fun x : bs * agent =>
    negb (opt_is (agent_of e) (fst x)) && holds_blob (e_blob n) (snd x) &&
    negb (match lookup (fst x) w with Some (NAgent a) => holds_blob (e_blob n) a | _ => false end)) obs.

(* library level: (environment, world before, identity, success observed, agents after) *)
Definition wcase := (env * world * entry * bool * list (bs * agent))%type.
Definition wcheck (c : wcase) : bool :=
  let '(e, w, n, ok, obs) := c in
  let r := world_upsert e n w in Bool.eqb (snd r) ok && agents_match (fst r) obs.
Definition wviolates (c : wcase) : bool :=
  let '(e, w, n, ok, obs) := c in key_in_undesignated e w n obs.

(* client level: (environment, world before, key suffix, user, identity, agents after, files under HOME) *)
Definition icase := (env * world * string * string * entry * list (bs * agent) * list (string * N * bool))%type.
Definition icheck (c : icase) : bool :=
  let '(e, w, suffix, user, n, obs, files) := c in
  let r := install_ssh_env e w suffix user (make_signer KSshMain) KSshMain n in
  agents_match (fst r) obs && files_same (files_of (snd r)) files.
Definition private_file_open (files : list (string * N * bool)) : bool :=
  existsb (fun f : string * N * bool => snd f && negb (others_bits (snd (fst f)) =? 0)) files.
Definition iviolates (c : icase) : bool :=
  let '(e, w, suffix, user, n, obs, files) := c in key_in_undesignated e w n obs.
Definition iviolates_mode (c : icase) : bool :=
  let '(e, w, suffix, user, n, obs, files) := c in private_file_open files.

(* ------------------------------------------------------------------ property predicates on other observations *)
(* (what the soundness theorems conclude, evaluated on what was observed; used by the case files to tell a
   mismatch on which the observation itself breaks the property from one that only differs from the model) *)

(* agent histories: c19_agent_replace / c19_agent_replace_faulty on the listing before and after one installation *)
Definition lost_collateral (before after : agent) (n : entry) : bool :=
  existsb (fun x => negb (is_dup (e_comment n) x) && negb (bs_eqb (e_blob x) (e_blob n)) && negb (existsb (entry_eqb x) after)) before.
Definition upsert_obs_violates (before : agent) (n : entry) (ok : bool) (after : agent) : bool :=
  lost_collateral before after n ||
  (if ok then negb (Nat.eqb (length (filter (is_dup (e_comment n)) after)) 1)
   else holds_blob (e_blob n) after && negb (holds_blob (e_blob n) before)).
Fixpoint aviolates (prev : agent) (ops : list (aop * agent)) : bool :=
  match ops with
  | [] => false
  | (o, listing) :: r =>
      match o with
      | AForeign _ => false
      | AUpsert e => upsert_obs_violates prev e true listing
      | AUpsertF _ _ _ e _ ok => upsert_obs_violates prev e ok listing
      end || aviolates listing r
  end.

(* one client run: a request carries a private atom (codes 10..12), or a private file is open to group/others *)
Definition run_violates (c : N * bool * bool * bool * bool * string * list (N * list N) * list (string * N * bool) * list string) : bool :=
  let '(pc, agent_ok, ed_ok, k8s_ok, otp, user, wire, files, labels) := c in
  existsb (fun r : N * list N => existsb (fun a => (10 <=? a) && (a <=? 12)) (snd r)) wire || private_file_open files.
