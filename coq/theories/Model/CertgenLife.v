(* C01 over the LIFE of one server process: histories of requests (logins, second factors, certificate
   requests, any other route) and unseal operations on one RuntimeState.

     cmd/keymasterd/app.go      loginHandler (setNewAuthCookie), updateAuthCookieAuthlevel
     cmd/keymasterd/jwt.go      genNewSerializedAuthJWT, updateAuthJWTWithNewAuthLevel,
                                getJoseKeymastedVerifierList, getAuthInfoFromJWT
     cmd/keymasterd/2fa_*.go    the second-factor handlers (checkAuth, the factor's own test,
                                updateAuthCookieAuthlevel (level | factor))
     cmd/keymasterd/certgen.go  certGenHandler (Model/Certgen.v certgen, unchanged)
     cmd/keymasterd/unseal.go   secretInjectorHandler (Model/Seal.v inject, unchanged)

   A session token is a VALUE on the wire: which key signed it, which JWS algorithm its header names,
   and its claims.  What a server makes of it is a function of the token and of the server's CURRENT key
   list (`see`): the accepted-algorithm set is `map alg_of KeymasterPublicKeys` at the time of the request.
   The process state is the server record of Model/Certgen.v (whose key material is the state of the
   sealing model) and nothing else: no request leaves anything behind that a later request reads.  The list
   `p_minted` is the history's own bookkeeping of the token values the server handed out (so that a later
   operation can present "the cookie minted at step i"); no handler reads it. *)
From Coq Require Import ZArith.
From KM Require Import Base.Bytes Model.Auth Model.Certgen.
From KM Require Model.Seal.
Open Scope N_scope.

Record mtoken := {
  m_key : N;                  (* the key that signed (a key name of Model/Seal.v) *)
  m_alg : N;                  (* header alg *)
  m_tampered : bool;
  m_iss : bs; m_aud : list bs; m_kind : N;
  m_nbf : Z; m_exp : Z; m_iat : Z;
  m_sub : N; m_level : N }.

Definition set_keys (st : server) (ks : Seal.state) : server :=
  {| s_keys := ks; s_cfg := s_cfg st; s_name := s_name st; s_host := s_host st; s_addr := s_addr st;
     s_templates := s_templates st; s_realm := s_realm st; s_groups := s_groups st; s_methods := s_methods st |}.

Definition with_cookie (q : certreq) (ck : option wtoken) : certreq := with_creds q ck (q_basic q).

Section Life.
Variable alg_of : N -> N.     (* jwt.go publicToPreferedJoseSigAlgo: the JWS algorithm of a key (its type) *)
Variable expand : bs -> bs -> option bs.
Variable now : Z.             (* the clock reading of the history (histories are short against token lifetimes) *)
Variable life : Z.            (* lifetime of a freshly minted session *)

(* jwt.go getJoseKeymastedVerifierList: the algorithms of the keys listed NOW *)
Definition accepted_algs (ks : Seal.state) : list N := map alg_of (Seal.pubkeys ks).

(* jwt.ParseSigned(token, accepted algorithms) and JWTClaims (try every listed key) *)
Definition see (ks : Seal.state) (m : mtoken) : wtoken :=
  {| w_signer_trusted := Seal.mem (m_key m) (Seal.pubkeys ks);
     w_alg_allowed := Seal.mem (m_alg m) (accepted_algs ks);
     w_tampered := m_tampered m; w_iss := m_iss m; w_aud := m_aud m; w_kind := m_kind m;
     w_nbf := m_nbf m; w_exp := m_exp m; w_iat := m_iat m; w_sub := m_sub m; w_level := m_level m |}.

Record proc := {
  p_cfg : Seal.cfg;           (* the key files and passphrases (what an injection is judged against) *)
  p_srv : server;
  p_minted : list mtoken }.   (* ghost: the token values handed out so far, in order *)

Inductive hop :=
| OLogin (u : N) (pw_ok : bool)                      (* POST /api/v0/login; pw_ok = the password backend's answer *)
| OSecond (ref : nat) (bit : N) (factor_ok : bool)   (* a second-factor handler with the cookie minted at step ref *)
| OCertgen (ref : option nat) (q : certreq)          (* /certgen/ ; Some i: q carries the cookie minted at step i *)
| ORead (ref : option nat)                           (* any other route, with or without a minted token *)
| OInject (i : Seal.inj).                            (* /admin/inject *)

Inductive hout :=
| XNothing
| XMinted (m : mtoken)        (* Set-Cookie: auth_cookie = m *)
| XRefused                    (* an error, no cookie *)
| XCert (o : outcome)
| XInject (code : N).

Definition keys_of (p : proc) : Seal.state := s_keys (p_srv p).
Definition set_srv (p : proc) (st : server) : proc := {| p_cfg := p_cfg p; p_srv := st; p_minted := p_minted p |}.
Definition mint (p : proc) (m : mtoken) : proc * hout :=
  ({| p_cfg := p_cfg p; p_srv := p_srv p; p_minted := p_minted p ++ [m] |}, XMinted m).
(* a step that hands out nothing still occupies a position, so that "minted at step i" stays an index *)
Definition placeholder : mtoken :=
  {| m_key := 0; m_alg := 0; m_tampered := true; m_iss := []; m_aud := []; m_kind := 99;
     m_nbf := 0%Z; m_exp := 0%Z; m_iat := 0%Z; m_sub := 0; m_level := 0 |}.
Definition skip (p : proc) (o : hout) : proc * hout :=
  ({| p_cfg := p_cfg p; p_srv := p_srv p; p_minted := p_minted p ++ [placeholder] |}, o).

Definition presented (p : proc) (ref : option nat) : option wtoken :=
  match ref with
  | Some i => match nth_error (p_minted p) i with Some m => Some (see (keys_of p) m) | None => None end
  | None => None
  end.

(* genNewSerializedAuthJWT: signed with the main signer, algorithm of its key *)
Definition fresh_token (st : server) (u level : N) : mtoken :=
  {| m_key := main_key_of st; m_alg := alg_of (main_key_of st); m_tampered := false;
     m_iss := issuer_of st; m_aud := [issuer_of st]; m_kind := 0;
     m_nbf := now; m_exp := (now + life)%Z; m_iat := now; m_sub := u; m_level := level |}.
(* updateAuthJWTWithNewAuthLevel: the claims of the presented token with the new level, re-signed by the
   CURRENT main signer; the presented token is a value and stays what it is *)
Definition upgraded (st : server) (w : wtoken) (level : N) : mtoken :=
  {| m_key := main_key_of st; m_alg := alg_of (main_key_of st); m_tampered := false;
     m_iss := w_iss w; m_aud := w_aud w; m_kind := w_kind w;
     m_nbf := w_nbf w; m_exp := w_exp w; m_iat := w_iat w; m_sub := w_sub w; m_level := level |}.

(* the request of a second-factor handler as checkAuth sees it: POST, no foreign origin, the cookie *)
Definition second_request (st : server) (ck : option wtoken) : request :=
  {| r_get := false; r_origin := NoOrigin; r_tls := None;
     r_cred := match ck with Some w => Cookie (token_of (issuer_of st) w) | None => NoCred end |}.

Definition step (lim : bool) (p : proc) (o : hop) : proc * hout :=
  let st := p_srv p in
  match o with
  | OLogin u pw_ok =>
      if s_sealed st then skip p XRefused
      else if pw_ok then mint p (fresh_token st u bPassword) else skip p XRefused
  | OSecond ref bit factor_ok =>
      if s_sealed st then skip p XRefused
      else match presented p (Some ref) with
           | None => skip p XRefused
           | Some w =>
               match check_auth now lim bAny (second_request st (Some w)) with
               | Refuse _ => skip p XRefused
               | Admit u level _ =>
                   if factor_ok then mint p (upgraded st w (N.lor level bit)) else skip p XRefused
               end
           end
  | OCertgen ref q =>
      let q' := match ref with Some _ => with_cookie q (presented p ref) | None => q end in
      skip p (XCert (certgen expand st now lim q'))
  | ORead _ => skip p XNothing
  | OInject i =>
      let '(ks, code) := Seal.inject (p_cfg p) (keys_of p) i in
      skip (set_srv p (set_keys st ks)) (XInject code)
  end.

Fixpoint run (lim : bool) (p : proc) (h : list hop) : proc :=
  match h with [] => p | o :: r => run lim (fst (step lim p o)) r end.
Fixpoint outputs (lim : bool) (p : proc) (h : list hop) : list hout :=
  match h with [] => [] | o :: r => snd (step lim p o) :: outputs lim (fst (step lim p o)) r end.

Definition is_inject (o : hop) : bool := match o with OInject _ => true | _ => false end.

(* the process as the daemon starts: key files configured, nothing loaded but the peer keys *)
Definition boot (c : Seal.cfg) (st : server) : proc :=
  {| p_cfg := c; p_srv := set_keys st (Seal.sealed_init c); p_minted := [] |}.

(* ---- projection of an output for the case files: 0 nothing / refused, 1 a cookie was set,
   certificate classes as in Model/CertgenCases.v class_of (shifted by 10), inject status 200 -> 2 *)
Definition out_class (class_of : outcome -> N) (o : hout) : N :=
  match o with
  | XNothing => 0
  | XRefused => 0
  | XMinted _ => 1
  | XCert c => 10 + class_of c
  | XInject code => if code =? 200 then 2 else 3
  end.
End Life.
