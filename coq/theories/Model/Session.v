(* C05 — a session gains a factor only when its own user proves that factor.

   The state machine of the second-factor handlers of cmd/keymasterd over operation histories:

     loginHandler (app.go)                      Login       (with any auth_cookie values attached to the request)
     logoutHandler                              Logout      (the JWT stays valid: no server state)
     VIPAuthHandler (2fa_vip.go)                VipOtp
     vipPushStartHandler / startVIPPush         PushStart
     (the phone owner, via the VIP service)     Approve
     VIPPollCheckHandler                        Poll
     TOTPAuthHandler / validateUserTOTP         Totp
     u2fSignRequest / u2fSignResponse           U2fBegin / U2fFinish
     webauthnAuthLogin / webauthnAuthFinish     WaBegin / WaFinish
     generateBootstrapOTP (adminHandlers.go)    IssueOtp    (by an administrator)
     BootstrapOtpAuthHandler                    Bootstrap
     ShowAuthTokenHandler / SendAuthDocument    ShowTok / SendDoc   (authToken.go)
     time passing                               Tick
     Okta2FAuthHandler (2fa_okta.go)            OktaOtp
     oktaPushStartHandler / oktaPollCheckHandler  OktaPushStart / OktaPoll   (on lib/authenticators/okta)
     (the phone owner, via the Okta service)    OktaApprove
     a request with a client certificate / while profile writes fail / while the primary database is
     slow (profiles from the cache copy)        Req cert fault o / Cached o

   Every handler first runs checkAuth (app.go): of the auth_cookie values attached to the request
   the LAST one is verified and names the session (user, level); updateAuthCookieAuthlevel
   re-signs that same (last) cookie with  level' = level | bit.  Cookies and CLI tokens are signed
   and stateless: the adversary may attach anything the server ever issued, so an operation names
   cookies/tokens by their position in the list of everything issued so far.

   What an external verifier would answer is carried inside the operation together with whom that
   answer is about: an OTP or TOTP code names its owner, a hardware-token assertion names the
   owner of the key and the challenge it signs, a push transaction is approved by the owner of
   the phone it was sent to.  The ghost field `proved` records (user, factor) each time such a
   positive answer about `user` is obtained in a request of `user`'s own session; `spent` records
   one-time values at the moment they are accepted.  Neither is read by the handlers.          *)
From Coq Require Import List NArith ZArith Bool.
Import ListNotations.

(* ---- factors: bit indices of the AuthType* constants (app.go: AuthTypePassword = 1<<1, ...) ---- *)
Definition F_PW : N := 1.
Definition F_U2F : N := 3.
Definition F_VIP : N := 4.
Definition F_TOTP : N := 6.
Definition F_BOOT : N := 8.
Definition F_CLI : N := 10.
Definition F_FIDO2 : N := 11.
Definition F_X509 : N := 9.
Definition F_OKTA : N := 7.

Definition has (l f : N) : bool := N.testbit l f.
Definition add (l f : N) : N := N.lor l (2 ^ f).
Arguments has : simpl never.
Arguments add : simpl never.

(* an auth cookie: the signed claims sub, auth_type, iat, exp (seconds) *)
Record cookie := { cuser : N; clevel : N; ciat : Z; cexp : Z }.
Record token := { towner : N; texp : Z }.

(* one-time values *)
Inductive onetime :=
| OtTotp (owner : N) (stp : Z)
| OtBoot (owner : N) (serial : N)
| OtChal (id : N).

Definition onetime_eqb (a b : onetime) : bool :=
  match a, b with
  | OtTotp u s, OtTotp u' s' => N.eqb u u' && Z.eqb s s'
  | OtBoot u n, OtBoot u' n' => N.eqb u u' && N.eqb n n'
  | OtChal i, OtChal i' => N.eqb i i'
  | _, _ => false
  end.

(* what is enrolled for a user (fixed during a history) *)
Record devices := { has_totp : bool; has_u2f : bool; has_wa : bool; has_profile : bool }.

Record challenge := { chid : N; ch_wa : bool; chexp : Z }.   (* ch_wa: created by webauthnAuthLogin *)
Record boototp := { bserial : N; bexp : Z }.
Record vipentry := { vc : N; vuser : N; vtx : N; vexp : Z }.   (* vexp: pushPollTransaction.ExpiresAt *)

Record st := {
  issued : list cookie;                (* every auth cookie emitted so far, oldest first *)
  tokens : list token;                 (* every CLI token shown so far, oldest first *)
  vip : list vipentry;                 (* state.vipPushCookie, newest first *)
  txs : list (N * N);                  (* the VIP service: transaction -> user it was sent to *)
  approved : list N;                   (* the VIP service: approved transactions *)
  chal : N -> option challenge;        (* state.localAuthData *)
  last_totp : N -> Z;                  (* profile.LastSuccessfullTOTPCounter *)
  boot : N -> option boototp;          (* profile.BootstrapOTP *)
  proved : list (N * N * Z);           (* ghost: (user, factor, time of the verification) *)
  spent : list onetime;                (* ghost *)
  now : Z;                             (* seconds *)
  fresh : N;
  minted : list N;                     (* ghost: the id of every one-time value ever handed out (challenge,
                                          bootstrap OTP, push transaction), newest first *)
  okta : N -> option Z;                (* the Okta authenticator: recentAuth[user].expires (the cached answer of the
                                          last successful password check, with the user's state token) *)
  opush : N -> N;                      (* the Okta service: push verification of the user's current state token —
                                          0 not started, 1 waiting, 2 approved, 3 finished *)
  acks : N;                            (* number of requests answered 200 without a cookie or a new value *)
  saved_totp : N -> Z                  (* profile.LastSuccessfullTOTPCounter as PERSISTED; `last_totp` is the guard the
                                          validator applies: the larger of the persisted counter and the one kept in
                                          memory (totpLocalRateLimit[user].lastSuccessCounter) *)
}.

Definition upd {A} (m : N -> A) (u : N) (a : A) : N -> A := fun x => if N.eqb x u then a else m x.

Record config := {
  devs : N -> devices;
  webui : N;            (* getRequiredWebUIAuthLevel(): mask *)
  cookie_life : Z;      (* maxAgeSecondsAuthCookie *)
  sel_last : bool;      (* checkAuth authenticates the LAST auth_cookie of the request *)
  upg_last : bool;      (* updateAuthCookieAuthlevel re-signs the LAST auth_cookie of the request *)
  vip_life : Z;              (* maxAgeSecondsVIPCookie *)
  vip_expiry : bool;         (* getPushPollTransaction ignores an entry past its ExpiresAt (repaired) *)
  poll_checks_user : bool;   (* VIPPollCheckHandler compares the transaction's user (the repaired code) *)
  totp_monotone : bool;      (* validateUserTOTP refuses steps <= the last accepted one (repaired) *)
  chal_expiry : bool;        (* the finish handlers test the challenge's ExpiresAt (repaired) *)
  chal_delete_wa : bool;     (* u2fSignResponse deletes the challenge on the WebAuthn-key path (repaired) *)
  upgrade_checks_owner : bool;(* updateAuthCookieAuthlevel refuses a cookie of another user than the
                                 authenticated one (repaired) *)
  okta_on : bool;            (* state.passwordChecker is the Okta authenticator (password logins AND the Okta
                                second factor go to the Okta authn API) *)
  okta_life : Z;             (* lifetime of the cached primary response: expiresAt of the authn answer *)
  from_cache : bool;         (* the primary database does not answer in time: LoadUserProfile serves the copy in the
                                cache database and says so (fromCache) — set per request, see `Cached` *)
  totp_mem_guard : bool      (* validateUserTOTP also remembers the last accepted step in memory, so that the replay
                                guard holds while nothing can be persisted (repaired) *)
}.

(* the same code serving one request while the primary database is slow *)
Definition with_cache (k : config) : config :=
  {| devs := devs k; webui := webui k; cookie_life := cookie_life k; sel_last := sel_last k; upg_last := upg_last k;
     vip_life := vip_life k; vip_expiry := vip_expiry k; poll_checks_user := poll_checks_user k;
     totp_monotone := totp_monotone k; chal_expiry := chal_expiry k; chal_delete_wa := chal_delete_wa k;
     upgrade_checks_owner := upgrade_checks_owner k; okta_on := okta_on k; okta_life := okta_life k;
     from_cache := true; totp_mem_guard := totp_mem_guard k |}.

Definition init : st :=
  {| issued := []; tokens := []; vip := []; txs := []; approved := [];
     chal := fun _ => None; last_totp := fun _ => 0%Z; boot := fun _ => None;
     proved := []; spent := []; now := 0%Z; fresh := 0; minted := []; okta := fun _ => None; opush := fun _ => 0%N; acks := 0; saved_totp := fun _ => 0%Z |}.

(* environment's view of presented values *)
Inductive otpcode := VGood (owner : N) | VBad.                         (* VIP one-time code *)
Inductive totpcode := TCode (owner : N) (stp : Z) | TBad.              (* code of owner's secret for a step *)
Inductive bootcode := BCode (owner : N) (serial : N) | BBad.
Record assertion := { a_owner : N; a_wa_key : bool; a_chal : N }.       (* signed by a key of a_owner, registered as U2F or WebAuthn key *)

(* Req cert fault o: the request of o made over a TLS connection with a verified keymaster client
   certificate of user `cert` (if any), while profile writes fail (`fault`: the primary database
   is readable but not writable).  A bare operation is Req None false. *)
Inductive op :=
| Login (u : N) (pw_ok : bool) (cs : list nat)   (* loginHandler; cs: the auth_cookie values the client attached to
                                                   the login request (any the server ever issued: own, another user's,
                                                   expired; an index that names nothing: junk) *)
| Logout (cs : list nat)
| VipOtp (cs : list nat) (code : otpcode)
| PushStart (cs : list nat) (v : N)
| Approve (tx : N)
| Poll (cs : list nat) (v : N)
| Totp (cs : list nat) (code : totpcode)
| U2fBegin (cs : list nat)
| U2fFinish (cs : list nat) (a : assertion)
| WaBegin (cs : list nat)
| WaFinish (cs : list nat) (a : assertion)
| IssueOtp (target : N) (dur : Z)
| Bootstrap (cs : list nat) (code : bootcode)
| ShowTok (cs : list nat) (life : Z)
| SendDoc (cs : list nat) (tk : nat)
| Tick (dt : Z)
| OktaOtp (cs : list nat) (code : otpcode)   (* Okta2FAuthHandler: a pass code for the user's Okta TOTP factor *)
| OktaPushStart (cs : list nat)              (* oktaPushStartHandler *)
| OktaApprove (u : N)                        (* the owner of u's phone approves the Okta push (environment) *)
| OktaPoll (cs : list nat)                   (* oktaPollCheckHandler *)
| Req (cert : option N) (fault : bool) (o : op)
| Cached (o : op).       (* the request of o made while the primary database does not answer in time: every
                            LoadUserProfile of the request is served from the cache copy (fromCache = true) *)

(* ---- checkAuth ---- *)
(* the auth_cookie values of a request, in order; an index that names nothing issued stands for
   a value that does not verify (junk) *)
Definition attached (s : st) (cs : list nat) : list (option cookie) := map (nth_error (issued s)) cs.

(* which of several auth_cookie values a function looks at: the last or the first.  Nothing
   attached, or junk in that position: none *)
Definition pick_sel (lst : bool) (l : list (option cookie)) : option cookie :=
  if lst then last l None else hd None l.
Definition pick (k : config) (l : list (option cookie)) : option cookie := pick_sel (sel_last k) l.

(* cookie branch of checkAuth: the session a request runs in — the chosen cookie must verify, must
   not be expired ("ExpiresAt before now"; with whole seconds: exp <= now) and its level must meet
   the required mask; there is no fallback to another attached cookie *)
Definition session (k : config) (s : st) (cs : list nat) (mask : N) : option cookie :=
  match pick k (attached s cs) with
  | Some c => if (cexp c <=? now s)%Z then None
              else if N.eqb (N.land (clevel c) mask) 0 then None else Some c
  | None => None
  end.

Definition any_mask : N := 65535.
Definition cert_mask : N := 2 ^ F_X509 + 2 ^ 5.   (* AuthTypeKeymasterX509 | AuthTypeIPCertificate *)

(* who the request is authenticated as, and at which level.  checkAuth looks at the verified client
   certificate first when the required mask lets certificates in: identity and level
   (AuthTypeKeymasterX509 alone) then come from the certificate and the cookies are not looked at *)
Definition auth (k : config) (s : st) (cert : option N) (cs : list nat) (mask : N) : option (N * N) :=
  match (if N.eqb (N.land mask cert_mask) 0 then None else cert) with
  | Some u => Some (u, add 0 F_X509)
  | None => match session k s cs mask with Some c => Some (cuser c, clevel c) | None => None end
  end.

Definition set_issued (s : st) (l : list cookie) : st :=
  {| issued := l; tokens := tokens s; vip := vip s; txs := txs s; approved := approved s; chal := chal s;
     last_totp := last_totp s; boot := boot s; proved := proved s; spent := spent s; now := now s; fresh := fresh s; minted := minted s; okta := okta s; opush := opush s; acks := acks s; saved_totp := saved_totp s |}.
Definition set_ghost (s : st) (p : list (N * N * Z)) (sp : list onetime) : st :=
  {| issued := issued s; tokens := tokens s; vip := vip s; txs := txs s; approved := approved s; chal := chal s;
     last_totp := last_totp s; boot := boot s; proved := p; spent := sp; now := now s; fresh := fresh s; minted := minted s; okta := okta s; opush := opush s; acks := acks s; saved_totp := saved_totp s |}.
Definition set_chal (s : st) (c : N -> option challenge) (fr : N) : st :=
  {| issued := issued s; tokens := tokens s; vip := vip s; txs := txs s; approved := approved s; chal := c;
     last_totp := last_totp s; boot := boot s; proved := proved s; spent := spent s; now := now s; fresh := fr; minted := minted s; okta := okta s; opush := opush s; acks := acks s; saved_totp := saved_totp s |}.
Definition set_boot (s : st) (b : N -> option boototp) (fr : N) : st :=
  {| issued := issued s; tokens := tokens s; vip := vip s; txs := txs s; approved := approved s; chal := chal s;
     last_totp := last_totp s; boot := b; proved := proved s; spent := spent s; now := now s; fresh := fr; minted := minted s; okta := okta s; opush := opush s; acks := acks s; saved_totp := saved_totp s |}.
Definition set_totp (s : st) (l : N -> Z) (sv : N -> Z) : st :=
  {| issued := issued s; tokens := tokens s; vip := vip s; txs := txs s; approved := approved s; chal := chal s;
     last_totp := l; boot := boot s; proved := proved s; spent := spent s; now := now s; fresh := fresh s; minted := minted s; okta := okta s; opush := opush s; acks := acks s; saved_totp := sv |}.

Definition set_okta (s : st) (ok : N -> option Z) (p : N -> N) (a : N) : st :=
  {| issued := issued s; tokens := tokens s; vip := vip s; txs := txs s; approved := approved s; chal := chal s;
     last_totp := last_totp s; boot := boot s; proved := proved s; spent := spent s; now := now s;
     fresh := fresh s; minted := minted s; okta := ok; opush := p; acks := a; saved_totp := saved_totp s |}.

(* oktaAuth.GetValidUserResponse: the cached answer of the user's last successful password check, unless
   past its expiry *)
Definition okta_valid (s : st) (u : N) : bool :=
  match okta s u with Some e => negb (e <=? now s)%Z | None => false end.

(* a new one-time value: its id is `fresh s`, which is recorded as handed out *)
Definition mint (s : st) : st :=
  {| issued := issued s; tokens := tokens s; vip := vip s; txs := txs s; approved := approved s; chal := chal s;
     last_totp := last_totp s; boot := boot s; proved := proved s; spent := spent s; now := now s;
     fresh := fresh s + 1; minted := fresh s :: minted s; okta := okta s; opush := opush s; acks := acks s; saved_totp := saved_totp s |}.

(* updateAuthCookieAuthlevel(w, r, username, authlevel): the LAST attached auth_cookie (the one
   checkAuth authenticated) is re-signed with the given level (which REPLACES the cookie's own; sub,
   iat and exp are kept); the repaired code refuses a cookie whose subject is not the authenticated
   user.  The expiry of that cookie is not looked at here (checkAuth did, for the same cookie).  Without a cookie, or on refusal, the handler answers
   500: whatever it did before (one-time value spent) stays done.  `out` is what the harness
   decodes from the Set-Cookie header. *)
Definition upgrade (k : config) (s : st) (u : N) (cs : list nat) (lvl : N) : st * option cookie :=
  match pick_sel (upg_last k) (attached s cs) with
  | None => (s, None)
  | Some c =>
      if upgrade_checks_owner k && negb (N.eqb (cuser c) u) then (s, None)
      else let c' := {| cuser := cuser c; clevel := lvl; ciat := ciat c; cexp := cexp c |} in
           (set_issued s (issued s ++ [c']), Some c')
  end.

(* getPushPollTransaction: the entry stored for the cookie value (the newest one; starting a push
   overwrites), none if it is past its ExpiresAt (repaired code; before, only the 30 s cleanup
   sweep enforced the two minutes) *)
Definition find_vip_raw (s : st) (v : N) : option vipentry := find (fun e => N.eqb (vc e) v) (vip s).
Definition tx_user (s : st) (tx : N) : option N :=
  match find (fun e => N.eqb (fst e) tx) (txs s) with Some e => Some (snd e) | None => None end.
Definition is_approved (s : st) (tx : N) : bool := existsb (N.eqb tx) (approved s).

Definition totp_step (t : Z) : Z := (t / 30)%Z.

(* maxAgeU2FVerifySeconds: the lifetime of a pending hardware-token challenge *)
Definition chal_life : Z := 30.

(* registrations u2fSignRequest/Response look at: U2F keys and WebAuthn keys alike *)
Definition has_any_key (d : devices) : bool := has_u2f d || has_wa d.

Section Step.
Variable k : config.

Definition find_vip (s : st) (v : N) : option vipentry :=
  match find_vip_raw s v with
  | Some e => if vip_expiry k && (vexp e <=? now s)%Z then None else Some e
  | None => None
  end.

(* one request; `cert`: verified client certificate, `fault`: SaveUserProfile fails *)
Definition step_req (cert : option N) (fault : bool) (s : st) (o : op) : st * option cookie :=
  match o with
  | Login u ok cs =>
      (* the login credential is the password alone: whatever auth_cookie values come with the request
         (`cs`: a session of the same user with second factors, valid or expired; another user's; junk) are
         not looked at — the new session starts now, at the password level *)
      if ok then
        let c := {| cuser := u; clevel := add 0 F_PW; ciat := now s; cexp := (now s + cookie_life k)%Z |} in
        let s0 := if okta_on k   (* the authn API answered with a NEW state token, cached until its expiresAt *)
                  then set_okta s (upd (okta s) u (Some (now s + okta_life k)%Z)) (upd (opush s) u 0%N) (acks s) else s in
        (set_ghost (set_issued s0 (issued s0 ++ [c])) ((u, F_PW, now s) :: proved s0) (spent s0), Some c)
      else (s, None)
  | Logout cs => (s, None)
  | VipOtp cs code =>
      match auth k s cert cs any_mask with
      | None => (s, None)
      | Some (u, l) =>
          (* ValidateUserOTP(authData.Username, otp): the service is asked about the authenticated user *)
          match code with
          | VGood owner =>
              if N.eqb owner u then
                let (s1, out) := upgrade k s u cs (add l F_VIP) in
                (set_ghost s1 ((owner, F_VIP, now s) :: proved s1) (spent s1), out)
              else (s, None)
          | VBad => (s, None)
          end
      end
  | PushStart cs v =>
      match auth k s cert cs any_mask with
      | None => (s, None)
      | Some (u, l) =>
          match find_vip s v with
          | Some _ => (s, None)
          | None =>
              (* StartUserVIPPush(user): a new transaction, sent to that user's phone *)
              let tx := fresh s in
              ({| issued := issued s; tokens := tokens s;
                  vip := {| vc := v; vuser := u; vtx := tx; vexp := (now s + vip_life k)%Z |} :: vip s;
                  txs := (tx, u) :: txs s; approved := approved s; chal := chal s;
                  last_totp := last_totp s; boot := boot s; proved := proved s; spent := spent s;
                  now := now s; fresh := fresh s + 1; minted := fresh s :: minted s; okta := okta s; opush := opush s; acks := acks s; saved_totp := saved_totp s |}, None)
          end
      end
  | Approve tx =>
      match tx_user s tx with
      | Some u =>
          ({| issued := issued s; tokens := tokens s; vip := vip s; txs := txs s;
              approved := tx :: approved s; chal := chal s; last_totp := last_totp s; boot := boot s;
              proved := (u, F_VIP, now s) :: proved s; spent := spent s; now := now s; fresh := fresh s; minted := minted s; okta := okta s; opush := opush s; acks := acks s; saved_totp := saved_totp s |}, None)
      | None => (s, None)
      end
  | Poll cs v =>
      match auth k s cert cs any_mask with
      | None => (s, None)
      | Some (u, l) =>
          match find_vip s v with
          | None => (s, None)
          | Some e =>
              if poll_checks_user k && negb (N.eqb (vuser e) u) then (s, None)
              else if is_approved s (vtx e) then
                (* PollPushStatus: the service confirms NOW that the user it sent the push to approved *)
                let (s1, out) := upgrade k s u cs (add l F_VIP) in
                (set_ghost s1 (match tx_user s (vtx e) with Some w => (w, F_VIP, now s) :: proved s1 | None => proved s1 end)
                           (spent s1), out)
              else (s, None)
          end
      end
  | Totp cs code =>
      match auth k s cert cs any_mask with
      | None => (s, None)
      | Some (u, l) =>
          match code with
          | TBad => (s, None)
          | TCode owner stp =>
              let cur := totp_step (now s) in
              (* the code matches one of u's secrets at a step the validator looks at *)
              if has_totp (devs k u) && N.eqb owner u && (cur - 1 <=? stp)%Z && (stp <=? cur + 1)%Z then
                if (if totp_monotone k then (stp <=? last_totp s u)%Z else (last_totp s u =? cur)%Z)
                then (s, None)
                else if fault && negb (from_cache k) then (s, None)   (* the counter cannot be saved: error, nothing accepted *)
                else
                  (* the accepted step is persisted — unless the profile came from the cache (never written
                     back): then it is remembered in memory only (repaired code; before: not at all) *)
                  let x := if totp_monotone k then stp else cur in
                  let s1 := if from_cache k
                            then (if totp_mem_guard k then set_totp s (upd (last_totp s) u x) (saved_totp s) else s)
                            else set_totp s (upd (last_totp s) u x) (upd (saved_totp s) u x) in
                  let (s2, out) := upgrade k s1 u cs (add l F_TOTP) in
                  (set_ghost s2 ((owner, F_TOTP, now s) :: proved s2) (OtTotp owner stp :: spent s2), out)
              else (s, None)
          end
      end
  | U2fBegin cs =>
      match auth k s cert cs any_mask with
      | None => (s, None)
      | Some (u, l) =>
          if has_profile (devs k u) && has_any_key (devs k u) then
            (* u2f.NewChallenge: 32 random bytes — a value never handed out before; it REPLACES whatever
               was pending for the user and lives chal_life seconds from now *)
            (mint (set_chal s (upd (chal s) u (Some {| chid := fresh s; ch_wa := false; chexp := (now s + chal_life)%Z |}))
                            (fresh s)), None)
          else (s, None)
      end
  | WaBegin cs =>
      match auth k s cert cs any_mask with
      | None => (s, None)
      | Some (u, l) =>
          if has_any_key (devs k u) then
            (mint (set_chal s (upd (chal s) u (Some {| chid := fresh s; ch_wa := true; chexp := (now s + chal_life)%Z |}))
                            (fresh s)), None)
          else (s, None)
      end
  | U2fFinish cs a =>
      match auth k s cert cs any_mask with
      | None => (s, None)
      | Some (u, l) =>
          if has_profile (devs k u) && has_any_key (devs k u) then
            match chal s u with
            | None => (s, None)
            | Some ch =>
                if chal_expiry k && (chexp ch <=? now s)%Z then (s, None)
                else if N.eqb (a_owner a) u && N.eqb (a_chal a) (chid ch)
                        && (if a_wa_key a then has_wa (devs k u) else has_u2f (devs k u)) then
                  let del := if a_wa_key a then chal_delete_wa k else true in
                  let s1 := if del then set_chal s (upd (chal s) u None) (fresh s) else s in
                  let (s2, out) := upgrade k s1 u cs (add l F_U2F) in
                  (set_ghost s2 ((a_owner a, F_U2F, now s) :: proved s2) (OtChal (chid ch) :: spent s2), out)
                else (s, None)
            end
          else (s, None)
      end
  | WaFinish cs a =>
      match auth k s cert cs any_mask with
      | None => (s, None)
      | Some (u, l) =>
          if has_profile (devs k u) then
            match chal s u with
            | None => (s, None)
            | Some ch =>
                if chal_expiry k && (chexp ch <=? now s)%Z then (s, None)
                else if negb (ch_wa ch) then (s, None)      (* no WebAuthn session data: the handler fails *)
                else if N.eqb (a_owner a) u && N.eqb (a_chal a) (chid ch)
                        && (if a_wa_key a then has_wa (devs k u) else has_u2f (devs k u)) then
                  let s1 := set_chal s (upd (chal s) u None) (fresh s) in
                  (* a key registered through U2F is verified "locally" (U2F); any other through
                     the library (FIDO2); the U2F bit is set in both cases *)
                  let lvl := if a_wa_key a then add (add l F_FIDO2) F_U2F else add l F_U2F in
                  let (s2, out) := upgrade k s1 u cs lvl in
                  let pr := if a_wa_key a then (a_owner a, F_FIDO2, now s) :: (a_owner a, F_U2F, now s) :: proved s2
                            else (a_owner a, F_U2F, now s) :: proved s2 in
                  (set_ghost s2 pr (OtChal (chid ch) :: spent s2), out)
                else (s, None)
            end
          else (s, None)
      end
  | IssueOtp target dur =>
      let d := devs k target in
      if from_cache k then (s, None)   (* "Working in db disconnected mode, try again later" *)
      else if has_profile d && negb (has_totp d) && negb (has_u2f d) then
        let dur' := if (dur <? 60)%Z then 60%Z else dur in
        if (86400 <? dur')%Z then (s, None)
        else if fault then (s, None)
        else (mint (set_boot s (upd (boot s) target (Some {| bserial := fresh s; bexp := (now s + dur')%Z |}))
                             (fresh s)), None)
      else (s, None)
  | Bootstrap cs code =>
      match auth k s cert cs any_mask with
      | None => (s, None)
      | Some (u, l) =>
          let d := devs k u in
          if from_cache k then (s, None)   (* the OTP has to be cleared: a connection is required *)
          else if has_totp d || has_u2f d then (s, None)
          else match boot s u with
               | None => (s, None)
               | Some b =>
                   if (bexp b <=? now s)%Z then (s, None)
                   else match code with
                        | BCode owner serial =>
                            if N.eqb owner u && N.eqb serial (bserial b) then
                              (* the OTP is cleared and the profile saved BEFORE the upgrade; if the
                                 save fails the handler stops: nothing accepted, the OTP stays *)
                              if fault then (s, None)
                              else
                              let s1 := set_boot s (upd (boot s) u None) (fresh s) in
                              let (s2, out) := upgrade k s1 u cs (add l F_BOOT) in
                              (set_ghost s2 ((owner, F_BOOT, now s) :: proved s2) (OtBoot owner serial :: spent s2), out)
                            else (s, None)
                        | BBad => (s, None)
                        end
               end
      end
  | ShowTok cs life =>
      match auth k s cert cs (webui k) with
      | None => (s, None)
      | Some (u, l) =>
          ({| issued := issued s; tokens := tokens s ++ [{| towner := u; texp := (now s + life)%Z |}];
              vip := vip s; txs := txs s; approved := approved s; chal := chal s; last_totp := last_totp s;
              boot := boot s; proved := proved s; spent := spent s; now := now s; fresh := fresh s; minted := minted s; okta := okta s; opush := opush s; acks := acks s; saved_totp := saved_totp s |}, None)
      end
  | SendDoc cs tk =>
      match auth k s cert cs (webui k) with
      | None => (s, None)
      | Some (u, l) =>
          match nth_error (tokens s) tk with
          | None => (s, None)
          | Some t =>
              if negb (N.eqb (towner t) u) then (s, None)
              else if (texp t <=? now s)%Z then (s, None)
              else
                (* a NEW cookie for the token's user carrying only the CLI bit, valid as long as the token *)
                let c' := {| cuser := towner t; clevel := add 0 F_CLI; ciat := now s; cexp := texp t |} in
                (set_ghost (set_issued s (issued s ++ [c'])) ((u, F_CLI, now s) :: proved s) (spent s), Some c')
          end
      end
  | Tick dt =>
      ({| issued := issued s; tokens := tokens s; vip := vip s; txs := txs s; approved := approved s;
          chal := chal s; last_totp := last_totp s; boot := boot s; proved := proved s; spent := spent s;
          now := (now s + Z.max 0 dt)%Z; fresh := fresh s; minted := minted s; okta := okta s; opush := opush s; acks := acks s; saved_totp := saved_totp s |}, None)
  | OktaOtp cs code =>
      match auth k s cert cs any_mask with
      | None => (s, None)
      | Some (u, l) =>
          if negb (okta_on k) then (s, None)           (* "password authenticator is not okta" *)
          else if negb (okta_valid s u) then (s, None)  (* no recent password check of this user: not valid *)
          else
            (* ValidateUserOTP(authUser, otp): the pass code is verified against the state token of the
               authenticated user *)
            match code with
            | VGood owner =>
                if N.eqb owner u then
                  let (s1, out) := upgrade k s u cs (add l F_OKTA) in
                  (set_ghost s1 ((owner, F_OKTA, now s) :: proved s1) (spent s1), out)
                else (s, None)
            | VBad => (s, None)
            end
      end
  | OktaPushStart cs =>
      match auth k s cert cs any_mask with
      | None => (s, None)
      | Some (u, l) =>
          if negb (okta_on k) then (s, None)
          else if negb (okta_valid s u) then (s, None)
          else
            (* ValidateUserPush(user): the first verification call for a state token sends the push; 200
               exactly when the service answers WAITING *)
            if N.eqb (opush s u) 0 then (set_okta s (okta s) (upd (opush s) u 1%N) (acks s + 1), None)
            else if N.eqb (opush s u) 1 then (set_okta s (okta s) (opush s) (acks s + 1), None)
            else if N.eqb (opush s u) 2 then
              (* the service answers SUCCESS and finishes the transaction; this handler does not upgrade
                 ("Push already sent"): the approval is lost *)
              (set_okta s (okta s) (upd (opush s) u 3%N) (acks s), None)
            else (s, None)
      end
  | OktaApprove u =>
      if N.eqb (opush s u) 1 then
        let s1 := set_okta s (okta s) (upd (opush s) u 2%N) (acks s) in
        (set_ghost s1 ((u, F_OKTA, now s) :: proved s1) (spent s1), None)
      else (s, None)
  | OktaPoll cs =>
      match auth k s cert cs any_mask with
      | None => (s, None)
      | Some (u, l) =>
          if negb (okta_on k) then (s, None)
          else if negb (okta_valid s u) then (s, None)
          else if N.eqb (opush s u) 0 then
            (set_okta s (okta s) (upd (opush s) u 1%N) (acks s), None)   (* the call itself sends the push; WAITING: 412 *)
          else if N.eqb (opush s u) 2 then
            (* SUCCESS: the service confirms NOW that the authenticated user approved; the state token's
               transaction is finished *)
            let s1 := set_okta s (okta s) (upd (opush s) u 3%N) (acks s) in
            let (s2, out) := upgrade k s1 u cs (add l F_OKTA) in
            (set_ghost s2 ((u, F_OKTA, now s) :: proved s2) (spent s2), out)
          else (s, None)
      end
  | Req _ _ _ | Cached _ => (s, None)      (* wrappers do not nest *)
  end.

End Step.

(* presenting a verified client certificate proves possession of its key: factor KeymasterX509 for
   its user (ghost) *)
Definition present_cert (s : st) (cert : option N) : st :=
  match cert with
  | Some u => set_ghost s ((u, F_X509, now s) :: proved s) (spent s)
  | None => s
  end.

Definition step (k : config) (s : st) (o : op) : st * option cookie :=
  match o with
  | Req cert fault o' => step_req k cert fault (present_cert s cert) o'
  | Cached o' => step_req (with_cache k) None false s o'
  | _ => step_req k None false s o
  end.

Fixpoint run (k : config) (s : st) (ops : list op) : st * list (option cookie) :=
  match ops with
  | [] => (s, [])
  | o :: r => let (s1, out) := step k s o in
              let (s2, outs) := run k s1 r in (s2, out :: outs)
  end.

(* ---- a loginHandler that lets the new session keep the second factors of the session cookie that came with
        the login request (for contrast only: c05_login_carry_refuted).  Of the attached auth_cookie values the
        last one counts; it must verify and name the very user who logs in; its exp claim is not looked at ---- *)
Definition second_factors : N := 2 ^ F_U2F + 2 ^ F_FIDO2 + 2 ^ F_TOTP + 2 ^ F_VIP + 2 ^ F_OKTA.
Definition login_carry_level (s : st) (u : N) (cs : list nat) : N :=
  match pick_sel true (attached s cs) with
  | Some c => if N.eqb (cuser c) u then N.lor (add 0 F_PW) (N.land (clevel c) second_factors) else add 0 F_PW
  | None => add 0 F_PW
  end.
Definition login_carry (k : config) (s : st) (u : N) (cs : list nat) : st * option cookie :=
  let c := {| cuser := u; clevel := login_carry_level s u cs; ciat := now s; cexp := (now s + cookie_life k)%Z |} in
  (set_ghost (set_issued s (issued s ++ [c])) ((u, F_PW, now s) :: proved s) (spent s), Some c).

(* the code as repaired; `ok`: the password backend is the Okta authenticator, whose cached answers
   live `life` seconds *)
Definition fixed_with (d : N -> devices) (w : N) (ok : bool) (life : Z) : config :=
  {| devs := d; webui := w; cookie_life := 57600; sel_last := true; upg_last := true;
     vip_life := 120; vip_expiry := true; poll_checks_user := true; totp_monotone := true;
     chal_expiry := true; chal_delete_wa := true; upgrade_checks_owner := true;
     okta_on := ok; okta_life := life; from_cache := false; totp_mem_guard := true |}.
Definition fixed (d : N -> devices) (w : N) : config := fixed_with d w false 300.
Definition fixed_okta (d : N -> devices) (w : N) (life : Z) : config := fixed_with d w true life.

(* ---- correspondence: per step, did the handler answer with success, the claims of the cookie the
        server emitted, and the identity of the one-time value it handed out (a challenge, a bootstrap
        OTP, a push transaction).  One-time values are identified by CONTENT: the harness numbers the
        distinct byte strings it has ever been handed in order of first appearance, so a handler that
        hands out bytes seen before reports the OLD number, while the model's begin operations always
        mint `fresh s` (Proofs: never handed out before).  Success of an operation that emits no cookie
        shows in the state: a new value (fresh) or a new token. ---- *)
Definition changed (s s' : st) : bool :=
  negb (N.eqb (fresh s) (fresh s')) || negb (Nat.eqb (length (tokens s)) (length (tokens s'))) ||
  negb (N.eqb (acks s) (acks s')).

(* the id of the one-time value the step handed out *)
Definition handed (s s' : st) : option N :=
  match minted s' with
  | i :: _ => if Nat.eqb (length (minted s')) (length (minted s)) then None else Some i
  | [] => None
  end.

Definition obs := (bool * option cookie * option N)%type.

Definition step_obs (k : config) (s : st) (o : op) : st * obs :=
  let (s', out) := step k s o in
  let ok := match (match o with Req _ _ o' | Cached o' => o' | _ => o end) with
            | Logout _ | Approve _ | Tick _ | OktaApprove _ => true
            | _ => (match out with Some _ => true | None => false end) || changed s s'
            end in
  (s', (ok, out, handed s s')).

Fixpoint run_obs (k : config) (s : st) (ops : list op) : list obs :=
  match ops with
  | [] => []
  | o :: r => let (s1, ob) := step_obs k s o in ob :: run_obs k s1 r
  end.

(* ---- per-step claims of the cookie the server emitted ---- *)
Definition out_eqb (m : option cookie) (o : option (N * N * Z * Z)) : bool :=
  match m, o with
  | None, None => true
  | Some c, Some (u, l, ia, ex) => N.eqb (cuser c) u && N.eqb (clevel c) l && Z.eqb (ciat c) ia && Z.eqb (cexp c) ex
  | _, _ => false
  end.

Definition id_eqb (a b : option N) : bool :=
  match a, b with Some x, Some y => N.eqb x y | None, None => true | _, _ => false end.

Definition observed := (bool * option (N * N * Z * Z) * option N)%type.

Definition ob_eqb (m : obs) (o : observed) : bool :=
  let '(mok, mc, mi) := m in let '(ok, c, i) := o in Bool.eqb mok ok && out_eqb mc c && id_eqb mi i.

Fixpoint obs_agree (ms : list obs) (os : list observed) (i : nat) : list nat :=
  match ms, os with
  | m :: mr, o :: or => (if ob_eqb m o then [] else [i]) ++ obs_agree mr or (S i)
  | [], [] => []
  | _, _ => [i]
  end.
