(* C15 — the precondition of "a destination transaction is all or nothing".

   Model/Storage.v lets a checked failure of the copy return [comm]: the deferred tx.Rollback()
   of copyDBIntoSQLite puts the previous content back.  That is a property of SQLite, and SQLite
   only promises it for a connection that keeps a rollback journal (or a write-ahead log):

     PRAGMA journal_mode   delete | truncate | persist   rollback journal in a file next to the database
                           wal                           write-ahead log
                           memory                        rollback journal in the process's memory
                           off                           no journal: "the ROLLBACK command no longer works;
                                                         it behaves in an undefined way"
     PRAGMA synchronous    0 off | 1 normal | 2 full | 3 extra
                           off: nothing waits for the journal to reach the disk before the database pages
                           are overwritten (harmless while the operating system keeps running)

   This file carries the connection's journal mode (and synchronous level) through the copy: what a
   roll-back leaves is the old content IF the journal can restore it, and otherwise whatever the
   environment chooses ([mix]: which of the transaction's pages had already been written to the file
   when the page cache ran over) — the "mixture" of the property text.  The journal mode of the
   connections the real initDB opens is probed on every run (harness, work/C15/gen/ConstsC15.v) and
   coq/obl/Obl_C15.v proves that the probed value satisfies [transactional]. *)
From Coq Require Import List NArith ZArith Bool String.
From KM Require Import Model.Storage.
Import ListNotations.
Open Scope Z_scope.

Inductive jmode := JDelete | JTruncate | JPersist | JWal | JMemory | JOff.

(* the answer of `PRAGMA journal_mode`, lower case *)
Definition jmode_of_string (s : string) : option jmode :=
  if String.eqb s "delete" then Some JDelete
  else if String.eqb s "truncate" then Some JTruncate
  else if String.eqb s "persist" then Some JPersist
  else if String.eqb s "wal" then Some JWal
  else if String.eqb s "memory" then Some JMemory
  else if String.eqb s "off" then Some JOff
  else None.

(* HOW a synchronisation ends early:
     IStmt   a statement fails, copyDBIntoSQLite returns its error (deferred tx.Rollback), the process lives on
     IKill   the process ends at that statement (killed, panics, the machine is shut down in order); the
             operating system keeps what it was handed; the next process opens the file (hot-journal recovery)
     IPower  the operating system stops at that statement (power loss, kernel crash): what had not been
             synced to the disk may be lost, in any order *)
Inductive interruption := IStmt | IKill | IPower.

(* does the previous content come back? [sy] is the connection's synchronous level *)
Definition restores (j : jmode) (sy : N) (i : interruption) : bool :=
  match j, i with
  | JOff, _ => false                    (* nothing to roll back from *)
  | JMemory, IStmt => true              (* the journal is in this process's memory ... *)
  | JMemory, _ => false                 (* ... and gone with the process *)
  | _, IPower => N.leb 1 sy             (* the journal must be on the disk before the database pages are *)
  | _, _ => true
  end.

(* a failed or interrupted synchronisation with the operating system running: independent of [synchronous] *)
Definition transactional (j : jmode) : bool := restores j 0 IStmt && restores j 0 IKill.
(* ... and with the machine going down *)
Definition power_safe (j : jmode) (sy : N) : bool := restores j sy IPower.

Definition has_effect (s : stmt) : bool :=
  match st_place s, st_act s with
  | InTx, ADelProfiles | InTx, ADelSigned | InTx, AInsProfile _ _ | InTx, AInsSigned _ _ => true
  | _, _ => false
  end.

(* [exec] of Model/Storage.v with the roll-back made explicit.  [wrote] counts the writing statements of
   the open transaction; when the journal cannot restore the old content the file is left as
   [mix wrote comm pend] — an arbitrary function of how much was written, the old and the pending
   content *)
Section Journal.
  Variable restored : bool.
  Variable mix : nat -> db -> db -> db.

  Definition rollback (wrote : nat) (comm pend : db) : db :=
    if restored then comm else mix wrote comm pend.

  Fixpoint exec_j (sc : list stmt) (f : option fault) (skip : bool) (wrote : nat) (comm pend : db) : db * bool :=
    match sc with
    | [] => (comm, true)
    | s :: rest =>
        let wrote' := if has_effect s then S wrote else wrote in
        if skip && st_unchecked s then exec_j rest f true wrote comm pend
        else match f with
             | Some (F O k o) =>
                 if absorbed (F O k o) s
                 then let '(c', p') := apply_stmt s comm pend in exec_j rest None false wrote' c' p'
                 else if st_unchecked s then exec_j rest (if o then None else f) true wrote comm pend
                 else (rollback wrote comm pend, false)
             | _ => let '(c', p') := apply_stmt s comm pend in exec_j rest (fdec f) false wrote' c' p'
             end
    end.
End Journal.

(* what the environment may do without a journal, in the shape SQLite shows it: the transaction's pages
   stay in the page cache until [cap] rows were written, from then on they are written to the file as the
   transaction goes; a roll-back without a journal only forgets the page cache.  While the transaction
   fits, the roll-back "happens to work". *)
Definition spilled (cap : nat) (wrote : nat) (comm pend : db) : db :=
  if Nat.leb wrote cap then comm else pend.

Definition sync_j (j : jmode) (sy : N) (i : interruption) (mix : nat -> db -> db -> db)
           (src : db) (now : Z) (f : option fault) (cache : db) : db * bool :=
  exec_j (restores j sy i) mix (sync_script src now) f false 0 cache cache.

(* the daemon with the cache connection's settings as parameters *)
Definition step_j (j : jmode) (sy : N) (i : interruption) (mix : nat -> db -> db -> db) : state -> op -> state * out :=
  step_gen true true reports_none (sync_j j sy i mix) cleanup (fun c => c).

(* one probed connection: (handle, number of the connection, journal_mode, synchronous) *)
Definition conn_probe := (string * N * string * N)%type.
Definition cp_handle (p : conn_probe) : string := let '(h, _, _, _) := p in h.
Definition cp_journal (p : conn_probe) : string := let '(_, _, j, _) := p in j.
Definition cp_sync (p : conn_probe) : N := let '(_, _, _, s) := p in s.
Definition cache_probes (l : list conn_probe) : list conn_probe :=
  filter (fun p => String.eqb (cp_handle p) "cache") l.
Definition probe_transactional (p : conn_probe) : bool :=
  match jmode_of_string (cp_journal p) with Some j => transactional j | None => false end.
Definition probe_power_safe (p : conn_probe) : bool :=
  match jmode_of_string (cp_journal p) with Some j => power_safe j (cp_sync p) | None => false end.
