(* C02 — the credential kind x name-spelling family of the generated case file CasesC02.v: one
   certificate request authenticated on a credential path with a name as the client typed it
   (Model/CertgenIdent.v), against what the real code answered (executable definitions only) *)
From Coq Require Import ZArith.
From KM Require Import Base.Bytes Model.Auth Model.Certgen Model.CertgenCases Model.CertgenObs Model.CertgenIdent.
From KM Require Model.Seal.
Open Scope N_scope.

Record identcase := {
  i_host : bs;
  i_okta : bool;                    (* the Okta backend is configured: its default user-name filter applies *)
  i_disable : bool;                 (* disable_username_normalization *)
  i_realm : option bs;
  i_accounts : list (bs * bs);      (* the password backend: the (account, password) pairs it accepts *)
  i_automation : list bs;           (* automation_users *)
  i_kind : N;                       (* 1 login by form, 2 login by Basic header, 3 Basic on the request, 4 client certificate,
                                       5 IP-restricted certificate from inside its netblocks *)
  i_typed : bs; i_pw : bs;          (* the name as typed (certificate: its common name) and the password sent *)
  i_target : bs; i_type : N; i_key : option (N * bool);
  i_asked : list bs;                (* the accounts the password backend was asked about while the case ran (each once) *)
  i_subject : option bs;            (* login kinds: subject of the session cookie the login set *)
  i_obs : observed }.

Definition table_backend (t : list (bs * bs)) (account pw : bs) : bool :=
  existsb (fun ap => bs_eqb (fst ap) account && bs_eqb (snd ap) pw) t.

Definition list_automation (l : list bs) (name : bs) : bool := existsb (bs_eqb name) l.
Definition i_okta_filter (c : identcase) : option (bs -> bs) := if i_okta c then Some okta_at_filter else None.
Definition i_credkind (c : identcase) : credkind := kind_of_index (i_kind c).

Definition ident_keycfg : Seal.cfg :=
  {| Seal.right_pass := key_pass; Seal.main_key := 1; Seal.main_res := Seal.FGood; Seal.role_ok := true;
     Seal.ed_file := None; Seal.extra_pubkeys := [] |}.
(* allowed_auth_backends_for_certs: [password] - the only setting under which the Basic header is enough *)
Definition ident_server0 (c : identcase) : server :=
  {| s_keys := fst (Seal.unseal_ca ident_keycfg (Seal.sealed_init ident_keycfg) key_pass);
     s_cfg := [sPassword]; s_name := fun _ => []; s_host := i_host c; s_addr := s_port443;
     s_templates := []; s_realm := i_realm c;
     s_groups := fun _ => Some []; s_methods := fun _ => Some [] |}.
Definition ident_q0 (c : identcase) : certreq :=
  {| q_method := HPost; q_origin := NoOrigin; q_tls := None; q_cookie := None; q_basic := None;
     q_target := i_target c; q_type := type_of_index (i_type c); q_form_ok := true;
     q_key := i_key c; q_add_groups := false |}.

Definition ident_path (c : identcase) : pwres :=
  cred_path (i_okta_filter c) (i_disable c) (table_backend (i_accounts c)) (list_automation (i_automation c)) (i_credkind c) (i_typed c) (i_pw c).

Definition ident_outcome (c : identcase) : outcome :=
  ident_certgen (i_okta_filter c) (i_disable c) (table_backend (i_accounts c)) (list_automation (i_automation c)) (fun _ _ => None)
                (ident_server0 c) (ident_q0 c) 0%Z (i_credkind c) (i_typed c) (i_pw c).

Definition is_login_kind (k : credkind) : bool := match k with KLoginForm | KLoginBasic => true | _ => false end.
Definition opt_to_list (o : option bs) : list bs := match o with Some x => [x] | None => [] end.

Definition ident_bad (c : identcase) : bool :=
  negb (outcome_matches (ident_outcome c) (i_obs c) &&
        list_bs_eqb (opt_to_list (p_asked (ident_path c))) (i_asked c) &&
        opt_bs_eqb (if is_login_kind (i_credkind c) then p_identity (ident_path c) else None) (i_subject c)).

(* ---- the property's predicate on the OBSERVED answer (classes as in CertgenObs.c02_violation, plus
   9 = a certificate although the password backend does not accept the password for the account the
   typed name stands for, 10 = the login set a session for another name than that account, 11 = a certificate
   for an IP-restricted certificate whose name is not a configured automation user).  Written
   against the specification side - account_of and the backend table -, not against the credential
   paths. *)
Definition ident_violation (c : identcase) : N :=
  let o := i_obs c in
  let k := i_credkind c in
  let account := account_of (i_okta_filter c) (i_disable c) k (i_typed c) in
  let st := ident_server0 c in
  if match i_subject c with Some s => negb (bs_eqb s account) | None => false end then 10
  else if negb (o_issued o) then (if o_error o then 0 else 7)
  else if negb (bs_eqb (i_target c) account) then 1
  else if negb (list_bs_eqb (o_names o) [account]) then 2
  else if password_kind k && negb (table_backend (i_accounts c) account (i_pw c)) then 9
  else if match k with KIpCert => negb (list_automation (i_automation c) account) | _ => false end then 11
  else if negb (list_bs_eqb (o_other_names o) []) then 8
  else if negb (match i_key c with Some (key, _) => o_key o =? key | None => false end) then 3
  else if negb (o_user_type o) || o_is_ca o || (negb (o_ssh o) && negb (o_eku_client o)) then 4
  else if negb (Seal.mem (o_signer o) (if o_ssh o then published_ssh st else published_x509 st)) then 5
  else 0.

Fixpoint ident_diffv_from (l : list identcase) (i : nat) : list (nat * N) :=
  match l with
  | [] => []
  | c :: r => if ident_bad c then (i, ident_violation c) :: ident_diffv_from r (S i) else ident_diffv_from r (S i)
  end.
