(* C18 — the one place where keymasterd builds HTML by concatenation from request data:
   the hidden login_destination INPUT of the login and second-factor pages (app.go
   writeHTMLLoginPage / writeHTML2FAAuthPage), after the escaping fix.
   html_escape is text/template.HTMLEscape byte for byte. *)
From KM Require Import Base.Bytes.

Definition esc (c : N) : bs :=
  if c =? 0 then [239; 191; 189]                (* U+FFFD *)
  else if c =? 34 then [38; 35; 51; 52; 59]     (* &#34; *)
  else if c =? 39 then [38; 35; 51; 57; 59]     (* &#39; *)
  else if c =? 38 then [38; 97; 109; 112; 59]   (* &amp; *)
  else if c =? 60 then [38; 108; 116; 59]       (* &lt; *)
  else if c =? 62 then [38; 103; 116; 59]       (* &gt; *)
  else [c].

Definition html_escape (s : bs) : bs := flat_map esc s.

(* bytes that end or open markup inside a double-quoted attribute value or text: double quote, less-than, greater-than, single quote *)
Definition markup_byte (c : N) : bool := (c =? 34) || (c =? 60) || (c =? 62) || (c =? 39).
Definition attr_safe (s : bs) : bool := negb (has markup_byte s).

(* the bytes of: <INPUT TYPE=(q)hidden(q) id=(q)login_destination_input(q) NAME=(q)login_destination(q) VALUE=(q)   with (q) the double quote *)
Definition input_prefix : bs :=
  [60;73;78;80;85;84;32;84;89;80;69;61;34;104;105;100;100;101;110;34;32;105;100;61;34;108;111;
   103;105;110;95;100;101;115;116;105;110;97;116;105;111;110;95;105;110;112;117;116;34;32;78;65;
   77;69;61;34;108;111;103;105;110;95;100;101;115;116;105;110;97;116;105;111;110;34;32;86;65;76;
   85;69;61;34].
Definition input_suffix : bs := [34; 62].   (* double quote, greater-than *)

(* ensure = ensureHTMLSafeLoginDestination (url.Parse(..).String(), an arbitrary function here) *)
Definition hidden_input (ensure : bs -> bs) (dest : bs) : bs :=
  input_prefix ++ html_escape (ensure dest) ++ input_suffix.

(* what an HTML5 tokenizer takes as the double-quoted attribute value that starts at s:
   everything up to the first quote *)
Fixpoint until_quote (s : bs) : bs :=
  match s with
  | [] => []
  | c :: r => if c =? 34 then [] else c :: until_quote r
  end.

(* the same concatenation before the fix: no escaping *)
Definition hidden_input_old (ensure : bs -> bs) (dest : bs) : bs :=
  input_prefix ++ ensure dest ++ input_suffix.
