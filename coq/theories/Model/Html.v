(* C18 — the one place where keymasterd builds HTML by concatenation from request data:
   the hidden login_destination INPUT of the login and second-factor pages (app.go
   writeHTMLLoginPage / writeHTML2FAAuthPage), after the escaping fix.
   html_escape is text/template.HTMLEscape byte for byte. *)
From KM Require Import Base.Bytes.

Definition esc (c : N) : bs :=
  if c =? 0 then [239; 191; 189]                (* U+FFFD *)
  else if c =? 34 then [38; 35; 51; 52; 59]     (* &#34; *)
  else if c =? 39 then [38; 35; 51; 57; 59]     (* &#39; *)
  else if c =? 38 then [38; 97; 109; 112; 59]   (* &amp; *)
  else if c =? 60 then [38; 108; 116; 59]       (* &lt; *)
  else if c =? 62 then [38; 103; 116; 59]       (* &gt; *)
  else [c].

Definition html_escape (s : bs) : bs := flat_map esc s.

(* bytes that end or open markup inside a double-quoted attribute value or text: double quote, less-than, greater-than, single quote *)
Definition markup_byte (c : N) : bool := (c =? 34) || (c =? 60) || (c =? 62) || (c =? 39).
Definition attr_safe (s : bs) : bool := negb (has markup_byte s).

(* the bytes of: <INPUT TYPE=(q)hidden(q) id=(q)login_destination_input(q) NAME=(q)login_destination(q) VALUE=(q)   with (q) the double quote *)
Definition input_prefix : bs :=
  [60;73;78;80;85;84;32;84;89;80;69;61;34;104;105;100;100;101;110;34;32;105;100;61;34;108;111;
   103;105;110;95;100;101;115;116;105;110;97;116;105;111;110;95;105;110;112;117;116;34;32;78;65;
   77;69;61;34;108;111;103;105;110;95;100;101;115;116;105;110;97;116;105;111;110;34;32;86;65;76;
   85;69;61;34].
Definition input_suffix : bs := [34; 62].   (* double quote, greater-than *)

(* ensure = ensureHTMLSafeLoginDestination (url.Parse(..).String(), an arbitrary function here) *)
Definition hidden_input (ensure : bs -> bs) (dest : bs) : bs :=
  input_prefix ++ html_escape (ensure dest) ++ input_suffix.

(* what an HTML5 tokenizer takes as the double-quoted attribute value that starts at s:
   everything up to the first quote *)
Fixpoint until_quote (s : bs) : bs :=
  match s with
  | [] => []
  | c :: r => if c =? 34 then [] else c :: until_quote r
  end.

(* the same concatenation before the fix: no escaping *)
Definition hidden_input_old (ensure : bs -> bs) (dest : bs) : bs :=
  input_prefix ++ ensure dest ++ input_suffix.

(* ------------------------------------------------------------------------------------------
   html/template's escapers for ordinary fields, by context (html/template/html.go):
     text, RCDATA (title, textarea), quoted attribute value   htmlReplacementTable        = tmpl_escape
     unquoted attribute value                                 htmlNospaceReplacementTable = nospace_escape
     quoted URL attribute                                     URL filter/normaliser (an arbitrary function here),
                                                              then the attribute escaper
   Byte-level: bytes >= 128 pass through (the library works on runes: in the UNQUOTED context invalid UTF-8 and
   the noncharacters U+FDD0..U+FDEF, U+FFF0..U+FFFF come out as numeric references, which consist of safe bytes). *)
(* html/template htmlReplacementTable: text, RCDATA and quoted attribute values *)
Definition tmpl_esc (c : N) : bs := if c =? 43 then [38; 35; 52; 51; 59] else esc c.
Definition tmpl_escape (s : bs) : bs := flat_map tmpl_esc s.

(* html/template htmlNospaceReplacementTable: unquoted attribute values *)
Definition nospace_esc (c : N) : bs :=
  if c =? 0 then [38; 35; 120; 102; 102; 102; 100; 59]
  else if c =? 9 then [38; 35; 57; 59]
  else if c =? 10 then [38; 35; 49; 48; 59]
  else if c =? 11 then [38; 35; 49; 49; 59]
  else if c =? 12 then [38; 35; 49; 50; 59]
  else if c =? 13 then [38; 35; 49; 51; 59]
  else if c =? 32 then [38; 35; 51; 50; 59]
  else if c =? 34 then [38; 35; 51; 52; 59]
  else if c =? 38 then [38; 97; 109; 112; 59]
  else if c =? 39 then [38; 35; 51; 57; 59]
  else if c =? 43 then [38; 35; 52; 51; 59]
  else if c =? 60 then [38; 108; 116; 59]
  else if c =? 61 then [38; 35; 54; 49; 59]
  else if c =? 62 then [38; 103; 116; 59]
  else if c =? 96 then [38; 35; 57; 54; 59]
  else [c].
Definition zgotmplz : bs := [90; 103; 111; 116; 109; 112; 108; 90].
Definition nospace_escape (s : bs) : bs :=
  match s with [] => zgotmplz | _ => flat_map nospace_esc s end.

(* bytes that end an unquoted attribute value or are taken for a quote by some parser *)
Definition unq_break (c : N) : bool :=
  (c =? 9) || (c =? 10) || (c =? 11) || (c =? 12) || (c =? 13) || (c =? 32) ||
  (c =? 34) || (c =? 39) || (c =? 60) || (c =? 61) || (c =? 62) || (c =? 96).
Definition unq_safe (s : bs) : bool := negb (has unq_break s) && negb (match s with [] => true | _ => false end).
(* what a tokenizer takes as the unquoted attribute value that starts at s *)
Definition unq_end (c : N) : bool :=
  (c =? 9) || (c =? 10) || (c =? 12) || (c =? 13) || (c =? 32) || (c =? 62).
Fixpoint until_unq_end (s : bs) : bs :=
  match s with
  | [] => []
  | c :: r => if unq_end c then [] else c :: until_unq_end r
  end.

(* context of a template field; the URL stage (filter + normaliser) in front of the attribute escaper is an
   arbitrary function *)
Inductive fctx := CtxText | CtxAttrQuoted | CtxAttrUnquoted | CtxUrlQuoted (url_stage : bs -> bs).
Definition render_field (c : fctx) (s : bs) : bs :=
  match c with
  | CtxText | CtxAttrQuoted => tmpl_escape s
  | CtxAttrUnquoted => nospace_escape s
  | CtxUrlQuoted f => tmpl_escape (f s)
  end.


(* ------------------------------------------------------------------------------------------
   Responses.  A response is a declared content type and a body made of segments: text of keymasterd's
   own templates and literals (Trusted), request-controlled text that went through the HTML escaper
   (Escaped: by hand; Field: by html/template in the field's context), request-controlled text written as it came (Raw).
     failure_response   app.go writeFailureResponse: http.Error on the admin port (text/plain), the login /
                        second-factor PAGE for a browser's 401, otherwise the line "<code> <status text>
                        <detail>\n" with NO declared type (a browser sniffs it: it starts with a digit)
     page               a page rendered by html/template: template text with escaped fields
   rendered_as_document is what a browser does: declared text/html, or no declared type and a body whose
   first non-blank byte opens a tag (a superset of the WHATWG sniffing rules net/http implements). *)
Inductive seg := Trusted (t : bs) | Escaped (s : bs) | Field (c : fctx) (s : bs) | Raw (s : bs).
Inductive ctype := CtHtml | CtPlain | CtAbsent | CtOther.
Record response := mkResp { r_ctype : ctype; r_body : list seg }.

Definition render_seg (g : seg) : bs :=
  match g with Trusted t => t | Escaped s => html_escape s | Field c s => render_field c s | Raw s => s end.
Definition render (l : list seg) : bs := flat_map render_seg l.

Definition is_ws (c : N) : bool := (c =? 9) || (c =? 10) || (c =? 12) || (c =? 13) || (c =? 32).
Fixpoint skip_ws (s : bs) : bs :=
  match s with [] => [] | c :: r => if is_ws c then skip_ws r else s end.
Definition sniffs_html (s : bs) : bool :=
  match skip_ws s with c :: _ => c =? 60 | [] => false end.
Definition rendered_as_document (r : response) : bool :=
  match r_ctype r with
  | CtHtml => true
  | CtAbsent => sniffs_html (render (r_body r))
  | _ => false
  end.

Definition is_raw (g : seg) : bool := match g with Raw _ => true | _ => false end.
Definition is_trusted (g : seg) : bool := match g with Trusted _ => true | _ => false end.
Definition raw_free (l : list seg) : bool := negb (existsb is_raw l).
Definition strip (l : list seg) : list seg := filter is_trusted l.
Definition skeleton (s : bs) : bs := filter markup_byte s.

Definition digit (n : N) : N := 48 + n mod 10.
Definition code_bytes (c : N) : bs := [digit (c / 100); digit (c / 10); digit c].
Definition failure_line (code : N) (status msg : bs) : list seg :=
  [Trusted (code_bytes code ++ 32 :: status ++ [32]); Raw msg; Trusted [10]].
(* a field of a page: escaped by hand (HTMLEscapeString, the hidden login-destination INPUT) or an ordinary
   template field in its context *)
Inductive pfield := PEsc (s : bs) | PField (c : fctx) (s : bs).
Definition seg_of_pfield (f : pfield) : seg := match f with PEsc s => Escaped s | PField c s => Field c s end.
Definition page (tpl : list (bs * pfield)) (tail : bs) : list seg :=
  flat_map (fun p => [Trusted (fst p); seg_of_pfield (snd p)]) tpl ++ [Trusted tail].

Definition failure_response (admin_port accept_html : bool) (code : N) (status msg : bs)
    (login_page : list seg) : response :=
  if admin_port then mkResp CtPlain (failure_line code status msg ++ [Trusted [10]])
  else if accept_html && (code =? 401) then mkResp CtAbsent login_page
  else mkResp CtAbsent (failure_line code status msg).

Definition failure_response_typed (admin_port accept_html : bool) (code : N) (status msg : bs)
    (login_page : list seg) : response :=
  let r := failure_response admin_port accept_html code status msg login_page in
  if negb admin_port && accept_html then mkResp CtHtml (r_body r) else r.


Definition ct_code (c : ctype) : N :=
  match c with CtHtml => 0 | CtPlain => 1 | CtAbsent => 2 | CtOther => 3 end.


(* ------------------------------------------------------------------------------------------
   Hand-built attributes: NAME= followed by a value that keymasterd concatenates itself from request text run
   through the hand escaper html_escape (htmltemplate.HTMLEscapeString), with a QUOTING MODE.  attr_read is the raw
   value an HTML5 tokenizer reads from the bytes that follow `NAME=` (attribute value states: double-quoted,
   single-quoted, unquoted).  The hidden login-destination INPUT is hand_attr QDouble; an unquoted hand-built
   attribute is NOT part of the code (hand_attr QUnquoted is the refuted variant: HTMLEscapeString leaves blanks,
   `=` and backticks alone). *)
Inductive quoting := QDouble | QSingle | QUnquoted.
Definition hand_attr (q : quoting) (s : bs) : bs :=
  match q with
  | QDouble => 34 :: html_escape s ++ [34]
  | QSingle => 39 :: html_escape s ++ [39]
  | QUnquoted => html_escape s
  end.
Fixpoint until_squote (s : bs) : bs :=
  match s with
  | [] => []
  | c :: r => if c =? 39 then [] else c :: until_squote r
  end.
Definition attr_read (tail : bs) : bs :=
  match tail with
  | [] => []
  | c :: r => if c =? 34 then until_quote r else if c =? 39 then until_squote r else until_unq_end tail
  end.
Definition x_onx : bs := [120; 32; 111; 110; 120; 61; 49].



(* ------------------------------------------------------------------------------------------
   Stored (second-order) text.  Request-controlled text also arrives inside BINARY answers (the attestation
   certificate and key handle of a U2F registration, the attested credential data of a WebAuthn registration): one
   request stores what the library's parser (decode: an arbitrary function) makes of it in a user profile, a LATER
   request renders a page that shows stored fields.  store_of is the store after a history of such requests;
   stored_page shows every stored text in a template field of context c behind the template text `row`
   (cmd/keymasterd profileHandler: one table row per registered token, `{{.DeviceData}}` / `value="{{.Name}}"`).
   stored_page_raw is NOT the code: the variant whose field is typed template.HTML (seed C18-I). *)
Definition store := list bs.
Fixpoint store_of (decode : bs -> list bs) (history : list bs) : store :=
  match history with [] => [] | r :: h => store_of decode h ++ decode r end.
Definition stored_page (row : bs) (c : fctx) (st : store) (tail : bs) : list seg :=
  page (map (fun s => (row, PField c s)) st) tail.
Definition stored_page_raw (row : bs) (st : store) (tail : bs) : list seg :=
  flat_map (fun s => [Trusted row; Raw s]) st ++ [Trusted tail].

(* A handler may take a field apart and render a PART of it (the local part of an e-mail style user name, a
   component of a URL, ...): `part` is an arbitrary function in the theorems; before_at is the concrete instance
   "text in front of the first @" of the refutation (seed C18-J). *)
Fixpoint before_at (s : bs) : bs :=
  match s with [] => [] | c :: r => if c =? 64 then [] else c :: before_at r end.
Definition x_onx_mail : bs := x_onx ++ [64; 101; 46; 99].
