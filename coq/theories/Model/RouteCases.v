(* C06 — evaluation of the gate and route models on observed cases (used by the generated case
   file work/C06/CasesC06.v; executable definitions only). *)
From Coq Require Import ZArith List Bool String Uint63.
From KM Require Import Base.Bytes Base.Pack Model.Auth Model.AuthGate Model.Routes Model.GateObs.
From KM Require Model.IPExt.
Import ListNotations.
Open Scope N_scope.

Definition meth_of (n : N) : meth := if n =? 0 then GET else if n =? 1 then POST else OTHER.
Definition origin_of (n : N) : origin :=
  if n =? 0 then NoOrigin else if n =? 1 then SameOrigin else if n =? 2 then CrossOrigin else BadOrigin.
Definition effs_code (l : list eff) : N := fold_left (fun a e => N.lor a (eff_code e)) l 0.
Definition has_auth (steps : list step) : bool :=
  existsb (fun s => match s with SAuth _ => true | _ => false end) steps.

(* users of the harness: alice 1, bob 2, admin 3, svc-automation 4, autoadm 5, dave 6, carol 7 *)
Definition mkenv (now : Z) (webui : N) (deny : list N) (target own : N) : envx :=
  {| e_now := now; e_limiter := true; e_webui := webui; e_deny := deny; e_admin := fun u => u =? 3;
     e_autoadmin := fun u => (u =? 3) || (u =? 5); e_target := target; e_own := own =? 1; e_check := true |}.

Definition shape_t := (option tlsx * credx)%type.
Definition get_shape (shapes : list shape_t) (i : N) : shape_t := nth (N.to_nat i) shapes (None, no_cred).
(* the deny lists of the run: index 0 is the list of the generated configuration file *)
Definition get_deny (denies : list (list N)) (i : N) : list N := nth (N.to_nat i) denies [].
(* shape terms of the case file *)
Definition ck (t : token) (b : option basicx) : credx := {| k_cookie := Some t; k_basic := b |}.
Definition nock (b : option basicx) : credx := {| k_cookie := None; k_basic := b |}.
Definition bas (u : N) (ok : bool) : option basicx := Some {| b_user := u; b_ok := ok; b_err := false |}.
(* the address side of a certificate: netblocks as minted (a.b.c.d/p), the extension made of them, peers *)
Definition blk (a b c d p : N) : IPExt.netblock := IPExt.mk a b c d p.
Definition xext (l : list IPExt.netblock) : option (list IPExt.family) := Some (IPExt.ext_of l).
Definition p4 (a b c d : N) : IPExt.peer := IPExt.V4 a b c d.
Definition p6 : IPExt.peer := IPExt.V6other.
Definition pgarbage : IPExt.peer := IPExt.Garbage.
Definition mkreq (sh : shape_t) (m o : N) : reqx :=
  {| q_meth := meth_of m; q_origin := origin_of o; q_tls := fst sh; q_cred := snd sh |}.

(* cases travel as primitive 63-bit integers (fast to parse); field k of width w *)
Definition fld (w : N) (off width : N) : N := N.land (N.shiftr w off) (N.ones width).

(* direct calls of checkAuth: word 1 = shape(10) method(2) origin(2) required mask(16) accepted(1)
   user(8) deny list(6); word 2 = level(16) status written(10, 0 = none) IssuedAt - now + 16384 (16; 32767 = not compared) *)
Definition gate_case := (int * int)%type.
Definition gate_bad (shapes : list shape_t) (denies : list (list N)) (now : Z) (c : gate_case) : bool :=
  let a := N_of_int (fst c) in let b := N_of_int (snd c) in
  let s := fld a 0 10 in let m := fld a 10 2 in let o := fld a 12 2 in let req := fld a 14 16 in
  let adm := fld a 30 1 in let u := fld a 31 8 in let dl := fld a 39 6 in
  let l := fld b 0 16 in let code := fld b 16 10 in let d := fld b 26 16 in
  match check_auth now true (get_deny denies dl) req (mkreq (get_shape shapes s) m o) with
  | Admit mu ml miat => negb ((adm =? 1) && (mu =? u) && (ml =? l) &&
                              ((miat =? now)%Z || (d =? 32767) || (miat =? now + Z.of_N d - 16384)%Z))
  | Refuse mcode => negb ((adm =? 0) && (mcode =? code))
  end.

(* the property's predicate on the OBSERVATION of a direct call: the implementation admitted (u, l) while
   the conclusion of c06_gate_sound - the request proves (u, l), l shares a bit with the mask, no foreign
   origin on a non-GET - is false for this request (Model/GateObs.v gate_conclusion = that conclusion,
   Proofs/GateObs.v gate_conclusion_iff) *)
Definition gate_violating (shapes : list shape_t) (denies : list (list N)) (now : Z) (c : gate_case) : bool :=
  let a := N_of_int (fst c) in let b := N_of_int (snd c) in
  let s := fld a 0 10 in let m := fld a 10 2 in let o := fld a 12 2 in let req := fld a 14 16 in
  let adm := fld a 30 1 in let u := fld a 31 8 in let dl := fld a 39 6 in
  let l := fld b 0 16 in
  (adm =? 1) && negb (gate_conclusion now (get_deny denies dl) req (mkreq (get_shape shapes s) m o) u l).

(* probes through the service mux: shape(10) method(2) origin(2) target user(8) own credential
   present(1) user recorded by the access log(8, 0 = none) observed effects(4) deny list(6) *)
Definition route_case := int.
Definition route_bad (shapes : list shape_t) (denies : list (list N)) (now : Z) (webui : N) (r : option row) (c : route_case) : bool :=
  let w := N_of_int c in
  let s := fld w 0 10 in let m := fld w 10 2 in let o := fld w 12 2 in let t := fld w 14 8 in
  let own := fld w 22 1 in let u := fld w 23 8 in let e := fld w 31 4 in let dl := fld w 35 6 in
  match r with
  | None => true
  | Some r =>
      let '(id, effs) := run (mkenv now webui (get_deny denies dl) t own) (mkreq (get_shape shapes s) m o) (rt_steps r) None in
      let mu := match id with Some (u', _) => u' | None => 0 end in
      (* u = 255: the handler panicked before the access log was written — identity unobservable *)
      negb ((if has_auth (rt_steps r) && negb (u =? 255) then mu =? u else true) && (N.land e (effs_code effs) =? e))
  end.

(* the property's predicate on the OBSERVATION of a probe: a protected effect was seen while the request is
   not accepted by the route's declared gate (the conclusion of c06_routes, Proofs/GateObs.v acceptsb_iff),
   or a masked route logged an identity that no credential of the request establishes at an accepted level *)
Definition route_violating (shapes : list shape_t) (denies : list (list N)) (now : Z) (webui : N) (r : option row) (c : route_case) : bool :=
  let w := N_of_int c in
  let s := fld w 0 10 in let m := fld w 10 2 in let o := fld w 12 2 in let t := fld w 14 8 in
  let own := fld w 22 1 in let u := fld w 23 8 in let e := fld w 31 4 in let dl := fld w 35 6 in
  match r with
  | None => negb (e =? 0)
  | Some r =>
      let env := mkenv now webui (get_deny denies dl) t own in
      let q := mkreq (get_shape shapes s) m o in
      (negb (e =? 0) && negb (acceptsb env q (rt_gate r))) ||
      (has_auth (rt_steps r) && negb (u =? 0) && negb (u =? 255) &&
       match rt_gate r with GMask mk _ => negb (identity_okb env q mk u) | _ => false end)
  end.

(* indices (as binary numbers: cheap to print whatever their size) of the failing cases, at most
   the first 20, and how many there are *)
Fixpoint bad_from (l : list bool) (i : N) (room : nat) : list N :=
  match l with
  | [] => []
  | b :: r => if b then match room with O => [] | S k => i :: bad_from r (N.succ i) k end
              else bad_from r (N.succ i) room
  end.
Definition first_bad (l : list bool) : list N := bad_from l 0 20.
Definition count_true (l : list bool) : N := fold_left (fun a (b : bool) => if b then N.succ a else a) l 0.
Definition count_all {A} (l : list A) : N := fold_left (fun a _ => N.succ a) l 0.

(* cases are evaluated chunk by chunk (no large list is ever kept as a term): per chunk the number
   of cases, the number of failing ones and the global indices of the first failing ones *)
Definition chunk_result := (N * N * list N * list N)%type.
Definition eval_chunk (offset : N) (verdicts : list (bool * bool)) : chunk_result :=
  (count_all verdicts, count_true (map fst verdicts), bad_from (map fst verdicts) offset 20,
   bad_from (map snd verdicts) offset 20).
Definition merge_chunks (rs : list chunk_result) : chunk_result :=
  fold_left (fun (acc r : chunk_result) =>
               let '(n, b, l, v) := acc in let '(n', b', l', v') := r in
               (n + n', b + b', firstn 20 (l ++ l'), firstn 20 (v ++ v'))) rs (0, 0, [], []).
Definition chunk_total (r : chunk_result) : N := fst (fst (fst r)).
Definition chunk_bad (r : chunk_result) : N := snd (fst (fst r)).
Definition chunk_first (r : chunk_result) : list N := snd (fst r).
(* among the mismatching cases, those whose observation violates the property *)
Definition chunk_violating (r : chunk_result) : list N := snd r.
Definition route_chunk (shapes : list shape_t) (denies : list (list N)) (now : Z) (offset : N) (key : string) (webui : N)
           (cs : list route_case) : chunk_result :=
  let r := find_row key in
  eval_chunk offset (map (fun c => let bad := route_bad shapes denies now webui r c in
                                   (bad, if bad then route_violating shapes denies now webui r c else false)) cs).
Definition gate_chunk (shapes : list shape_t) (denies : list (list N)) (now : Z) (offset : N) (cs : list gate_case) : chunk_result :=
  eval_chunk offset (map (fun c => let bad := gate_bad shapes denies now c in
                                   (bad, if bad then gate_violating shapes denies now c else false)) cs).

(* ---- the time window of the session cookie at its boundaries.  Each case carries the claims of a
   token minted for that very request (seconds, as signed) and the two clock readings taken around the
   request (NANOSECONDS: the code compares time.Unix(exp, 0) with time.Now(), and nbf with
   time.Now().Unix()).  The model's window test is exact; the only tolerance is the measured interval:
   the observation must be the model's answer for the reading before the request, the reading after it,
   or a whole second in between (the answer as a function of the reading changes at whole seconds only). *)
Definition ns (s : Z) : Z := (s * 1000000000)%Z.
Definition wtoken (nbf exp iat : Z) (sub level : N) : token :=
  {| t_signer_trusted := true; t_alg_allowed := true; t_tampered := false; t_iss_ok := true; t_aud_ok := true;
     t_kind := 0; t_nbf := ns nbf; t_exp := ns exp; t_iat := ns iat; t_sub := sub; t_level := level |}.
Definition instants (b a : Z) : list Z :=
  b :: a :: map (fun k => ns (b / 1000000000 + 1 + Z.of_nat k)) (seq 0 (Z.to_nat (a / 1000000000 - b / 1000000000))).

Record wcase := WC {
  w_nbf : Z; w_exp : Z; w_iat : Z;      (* the signed claims, seconds *)
  w_sub : N; w_level : N;
  w_basic : N;                          (* Authorization: Basic next to the cookie: 0 none, 1 alice good, 2 alice wrong *)
  w_b : Z; w_a : Z }.                   (* clock before / after the request, nanoseconds *)
Definition wreq (c : wcase) (m o : N) : reqx :=
  mkreq (None, {| k_cookie := Some (wtoken (w_nbf c) (w_exp c) (w_iat c) (w_sub c) (w_level c));
                  k_basic := if w_basic c =? 0 then None else bas 1 (w_basic c =? 1) |}) m o.

(* direct call of checkAuth *)
Record wgate := WG { wg_c : wcase; wg_mask : N; wg_meth : N; wg_origin : N;
                     wg_adm : N; wg_user : N; wg_lvl : N; wg_code : N; wg_iat : Z (* IssuedAt, seconds *) }.
Definition wgate_ok_at (g : wgate) (now : Z) : bool :=
  match check_auth now true [] (wg_mask g) (wreq (wg_c g) (wg_meth g) (wg_origin g)) with
  | Admit mu ml miat => (wg_adm g =? 1) && (mu =? wg_user g) && (ml =? wg_lvl g) && (miat =? ns (wg_iat g))%Z
  | Refuse code => (wg_adm g =? 0) && (code =? wg_code g)
  end.
Definition wgate_bad (g : wgate) : bool := negb (existsb (wgate_ok_at g) (instants (w_b (wg_c g)) (w_a (wg_c g)))).
(* admitted although at NO clock reading of the measured interval the conclusion of c06_gate_sound holds *)
Definition wgate_violating (g : wgate) : bool :=
  wgate_bad g && (wg_adm g =? 1) &&
  negb (existsb (fun now => gate_conclusion now [] (wg_mask g) (wreq (wg_c g) (wg_meth g) (wg_origin g)) (wg_user g) (wg_lvl g))
                (instants (w_b (wg_c g)) (w_a (wg_c g)))).

(* through a route of the service mux *)
Record wroute := WR { wr_c : wcase; wr_key : string; wr_webui : N; wr_meth : N; wr_origin : N; wr_target : N;
                      wr_user : N; wr_eff : N }.
Definition wroute_ok_at (w : wroute) (now : Z) : bool :=
  match find_row (wr_key w) with
  | None => false
  | Some r =>
      let '(id, effs) := run (mkenv now (wr_webui w) [] (wr_target w) 0) (wreq (wr_c w) (wr_meth w) (wr_origin w)) (rt_steps r) None in
      let mu := match id with Some (u', _) => u' | None => 0 end in
      (if has_auth (rt_steps r) && negb (wr_user w =? 255) then mu =? wr_user w else true) &&
      (N.land (wr_eff w) (effs_code effs) =? wr_eff w)
  end.
Definition wroute_bad (w : wroute) : bool := negb (existsb (wroute_ok_at w) (instants (w_b (wr_c w)) (w_a (wr_c w)))).
Definition wroute_violating (w : wroute) : bool :=
  wroute_bad w &&
  match find_row (wr_key w) with
  | None => negb (wr_eff w =? 0)
  | Some r =>
      let q := wreq (wr_c w) (wr_meth w) (wr_origin w) in
      let envat now := mkenv now (wr_webui w) [] (wr_target w) 0 in
      let ins := instants (w_b (wr_c w)) (w_a (wr_c w)) in
      (negb (wr_eff w =? 0) && negb (existsb (fun now => acceptsb (envat now) q (rt_gate r)) ins)) ||
      (has_auth (rt_steps r) && negb (wr_user w =? 0) && negb (wr_user w =? 255) &&
       match rt_gate r with
       | GMask mk _ => negb (existsb (fun now => identity_okb (envat now) q mk (wr_user w)) ins)
       | _ => false
       end)
  end.

(* getRequiredWebUIAuthLevel() of a loaded configuration = webui_level of its backend list
   (backends travel as 0 password, 1 federated, 2 U2F, 3 SymantecVIP, 4 TOTP, 5 Okta2FA, 6 bootstrap OTP, other) *)
Definition backend_of (n : N) : backend :=
  if n =? 0 then BPassword else if n =? 1 then BFederated else if n =? 2 then BU2F else if n =? 3 then BVIP
  else if n =? 4 then BTOTP else if n =? 5 then BOkta else if n =? 6 then BBootstrap else BOther.
Definition webui_bad (c : list N * N) : bool := negb (webui_level (map backend_of (fst c)) =? snd c).

(* ---- the login route as issuer of sessions.  A case is a login request - the client certificate of a shape,
   one of the run's attached auth_cookie states (none; the same / another user's session of some level; expired,
   foreign, junk, ...), the Authorization: Basic header, the form's credentials (user after the harness's own
   normalisation, verdict known by construction), the method - and what the real handler answered: did the response
   set an auth_cookie that verifies under the server's key, its subject and auth_type, else the status written *)
Record lcase := LG {
  lg_shape : N;                 (* index into shapes: the certificate part *)
  lg_cookie : N;                (* index into the list of attached cookie states *)
  lg_hdr : option basicx;
  lg_form : option basicx;
  lg_meth : N;
  lg_minted : N; lg_sub : N; lg_lvl : N; lg_code : N }.
Definition lreq (shapes : list shape_t) (cookies : list (option token)) (c : lcase) : loginq :=
  {| lq_req := {| q_meth := meth_of (lg_meth c); q_origin := NoOrigin; q_tls := fst (get_shape shapes (lg_shape c));
                  q_cred := {| k_cookie := nth (N.to_nat (lg_cookie c)) cookies None; k_basic := lg_hdr c |} |};
     lq_form := lg_form c |}.
Definition login_bad (shapes : list shape_t) (cookies : list (option token)) (now : Z) (c : lcase) : bool :=
  match login_handler now true (lreq shapes cookies c) with
  | LMint u l => negb ((lg_minted c =? 1) && (u =? lg_sub c) && (l =? lg_lvl c))
  | LRefuse code => negb ((lg_minted c =? 0) && (code =? lg_code c))
  end.
(* the property's predicate on the OBSERVATION: a session was minted while the conclusion of
   c06_login_mints_password_only (Model/GateObs.v login_conclusion, Proofs/GateObs.v login_conclusion_iff) is false
   for the observed subject and level *)
Definition login_violating (shapes : list shape_t) (cookies : list (option token)) (now : Z) (c : lcase) : bool :=
  login_bad shapes cookies now c && (lg_minted c =? 1) &&
  negb (login_conclusion (lreq shapes cookies c) (lg_sub c) (lg_lvl c)).
