(* C04 — the CARRIER of a presented artefact (round 4).

   A signed artefact reaches a consumer inside some part of the request: the session cookie, an
   Authorization header (Bearer / bearer / Basic with the artefact as password or as user name), a
   query parameter or a form field (named like the cookie, access_token, token, code), a custom
   header (named like the cookie, X-Auth-Token, X-<cookie name>) - or, for the storage consumers,
   the row of the store that answers.  The presentation of an artefact is the pair (carrier, token).

   [reads c k] is the table of the carriers each consumer looks at on the code as it stands
   (app.go checkAuth / updateAuthCookieAuthlevel: the cookie loop; authToken.go: r.Form["token"]
   after ParseForm, i.e. URL query and urlencoded body; idp_oidc.go token endpoint: r.Form "code";
   userinfo: "Authorization: Bearer <t>" split on one space with the exact word, else r.Form
   "access_token"; storage.go GetSigned: the row).  An artefact in a carrier the consumer does not
   read never reaches a verifier: with no other credential in the request it is treated as
   unauthenticated ([refused]).  The table is compared with the running code on every run (a VALID
   artefact honoured in a carrier the table says is not read is a correspondence mismatch). *)
From Coq Require Import String ZArith NArith List Bool.
From KM Require Import Base.Bytes Base.Cases Model.Tokens Model.OIDC Model.TokenCases.
Import ListNotations.
Open Scope Z_scope.

(* names a request parameter / form field can carry the artefact under *)
Inductive pname := NCookieName | NAccessToken | NToken | NCode.
(* custom request headers *)
Inductive hname := HCookieName | HXAuthToken | HXCookieName.

Inductive carrier :=
| KCookie                     (* Cookie: auth_cookie=<tok> *)
| KCookieNamed (n : pname)    (* Cookie: <n>=<tok>, a cookie named like a form field *)
| KBearer                     (* Authorization: Bearer <tok> *)
| KBearerLower                (* Authorization: bearer <tok> *)
| KBasicPass                  (* Authorization: Basic base64(<user>:<tok>) *)
| KBasicUser                  (* Authorization: Basic base64(<tok>:) *)
| KQuery (n : pname)          (* ?<n>=<tok> in the URL *)
| KForm (n : pname)           (* <n>=<tok> in an urlencoded POST body *)
| KHeader (h : hname)         (* <h>: <tok> *)
| KRow.                       (* the expiring_signed_user_data row of the store that answers *)

Definition pname_eqb (a c : pname) : bool :=
  match a, c with
  | NCookieName, NCookieName | NAccessToken, NAccessToken | NToken, NToken | NCode, NCode => true
  | _, _ => false
  end.

(* the parameter name a consumer takes its artefact from, when it reads r.Form at all *)
Definition form_name (c : consumer) : option pname :=
  match c with
  | CCliVerify | CCliSend _ _ => Some NToken
  | CToken _ => Some NCode
  | CUserinfo => Some NAccessToken
  | _ => None
  end.

Definition reads (c : consumer) (k : carrier) : bool :=
  match k with
  | KCookie => match c with CSession _ | CUpdate _ => true | _ => false end
  | KBearer => match c with CUserinfo => true | _ => false end
  | KQuery n | KForm n => match form_name c with Some m => pname_eqb n m | None => false end
  | KRow => match c with CStorage _ _ _ _ => true | _ => false end
  | KCookieNamed _ | KBearerLower | KBasicPass | KBasicUser | KHeader _ => false
  end.

(* one request that presents [t] in carrier [k] and no other credential of that consumer's kind *)
Definition exec_via (i : idp) (now : Z) (c : consumer) (k : carrier) (t : token) : out :=
  if reads c k then exec i (op_of now c t) else refused.

Definition accepts_via (i : idp) (now : Z) (c : consumer) (k : carrier) (t : token) : bool :=
  o_ok (exec_via i now c k t).

(* ---------------------------------------------------------------- NOT the code (refutation only)
   checkAuth with an additional branch: when no cookie is present a session token in
   "Authorization: Bearer" (scheme compared case-insensitively) is verified with getAuthInfoFromJWT
   and the level mask - without the comparison of the signed expiry with the clock that the cookie
   branch makes. *)
Definition c_session_noexp (st : server) (now : Z) (required : Z) (t : token) : option authinfo :=
  match auth_info st now k_session t with
  | Some i => if Z.land (ai_level i) required =? 0 then None else Some i
  | None => None
  end.

Definition accepts_via_bearer_branch (i : idp) (now : Z) (c : consumer) (k : carrier) (t : token) : bool :=
  match c, k with
  | CSession req, (KBearer | KBearerLower) =>
      match c_session_noexp (srv i) now req t with Some _ => true | None => false end
  | _, _ => accepts_via i now c k t
  end.

(* ---------------------------------------------------------------- case-file helpers *)

(* one observation: token index, consumer, carrier, the two clock readings around the call,
   accepted?, whom the answer named (when the harness can see it) *)
Definition carrier_case := (nat * consumer * carrier * Z * Z * bool * option bs)%type.

(* accepted? and whom the answer named (re-issued artefacts are compared by the stages that present
   the artefact in its usual carrier) *)
Definition verdict_matches (o : out) (ok : bool) (user : option bs) : bool :=
  Bool.eqb (o_ok o) ok &&
  match user, o_user o with
  | Some u, Some u' => bs_eqb u u'
  | Some _, None => false
  | None, _ => true
  end.

Definition carrier_case_bad (i : idp) (toks : list token) (k : carrier_case) : bool :=
  let '(ti, c, kr, t0, t1, ok, user) := k in
  match nth_opt toks ti with
  | None => true
  | Some t =>
      negb (verdict_matches (exec_via i t0 c kr t) ok user || verdict_matches (exec_via i t1 c kr t) ok user)
  end.

(* the property's predicate on an observation (conclusion of c04_accept_sound_any_carrier): the
   implementation honoured, in whatever carrier, an artefact that the consumer's own checks refuse
   at both clock readings - whether or not the table says the carrier is read *)
Definition carrier_case_violates (i : idp) (toks : list token) (k : carrier_case) : bool :=
  let '(ti, c, kr, t0, t1, ok, user) := k in
  match nth_opt toks ti with
  | None => false
  | Some t => ok && negb (accepts i t0 c t) && negb (accepts i t1 c t)
  end.

Definition carrier_scan (i : idp) (toks : list token) (cases : list carrier_case) : list nat * list nat :=
  (mismatches (carrier_case_bad i toks) cases,
   mismatches (fun k => carrier_case_bad i toks k && carrier_case_violates i toks k) cases).
