(* C15 (and the storage layer of C07) — cmd/keymasterd/storage.go.

   Two stores (the primary database and the local SQLite mirror, "cache"), each with the two
   tables of the schema:
     user_profile(username UNIQUE, profile_data)                      -> profiles
     expiring_signed_user_data(username, type, jws_data, expiration_epoch, update_epoch,
                               UNIQUE(username,type))                 -> signed
   Users, record types, profile contents and signed payloads are numbers (the harness numbers
   the distinct values it sees); times are seconds (Z).

   copyDBIntoSQLite is modelled as the LIST OF STATEMENTS it sends, in program order, each with
   the place it runs (source, destination transaction, destination pool) and whether the
   program looks at its error; a fault index says which statement fails.  *)
From Coq Require Import List NArith ZArith Bool.
Import ListNotations.
Open Scope Z_scope.

(* ------------------------------------------------------------------ association maps *)
Section Assoc.
  Context {K V : Type} (keqb : K -> K -> bool).
  Fixpoint aget (k : K) (m : list (K * V)) : option V :=
    match m with
    | [] => None
    | (k', v) :: r => if keqb k k' then Some v else aget k r
    end.
  Fixpoint adel (k : K) (m : list (K * V)) : list (K * V) :=
    match m with
    | [] => []
    | (k', v) :: r => if keqb k k' then adel k r else (k', v) :: adel k r
    end.
  (* insert or replace *)
  Definition aset (k : K) (v : V) (m : list (K * V)) : list (K * V) := (k, v) :: adel k m.
End Assoc.

Definition ukey := N.
Definition skey := (N * N)%type.                      (* (username, type) *)
Definition ukey_eqb (a b : ukey) : bool := N.eqb a b.
Definition skey_eqb (a b : skey) : bool := N.eqb (fst a) (fst b) && N.eqb (snd a) (snd b).

Record srow := mk_srow { sr_data : N; sr_exp : Z; sr_upd : Z }.

Record db := mk_db { profiles : list (ukey * N); signed : list (skey * srow) }.
Definition empty_db : db := mk_db [] [].

Definition set_profiles (d : db) p := mk_db p (signed d).
Definition set_signed (d : db) s := mk_db (profiles d) s.

(* "expiration_epoch > now" of the copy's SELECT and of GetSigned *)
Definition unexpired (now : Z) (r : srow) : bool := now <? sr_exp r.

(* ------------------------------------------------------------------ the copy, statement by statement *)
Inductive place := OnSource | InTx | OnPool.
Inductive action :=
| ANone                                   (* Query / Prepare / Begin / rows.Next: no effect on the destination tables *)
| ADelProfiles | ADelSigned
| AInsProfile (u : ukey) (b : N)          (* insert or replace *)
| AInsSigned (k : skey) (r : srow)
| ACommit.
(* st_unchecked: the program does not look at this statement's error (a cursor error that only
   ends a `for rows.Next()` loop which is not followed by rows.Err()).
   st_retried: database/sql itself repeats the call when the driver answers driver.ErrBadConn
   (DB.Query, DB.Begin and Stmt.Exec go through DB.retry: two more attempts; Tx.Exec, Tx.Prepare,
   Rows.Next and Tx.Commit do not) *)
Record stmt := mk_stmt { st_place : place; st_act : action; st_unchecked : bool; st_retried : bool }.

(* WHAT fails: the kind of error the driver returns for the failing statement, and whether only
   that one call fails (f_once: a transient condition, the next call works again) or every call
   from there on (a standing condition).
     KGeneric   an error value of no particular type
     KBusy      sqlite3.Error{Code: SQLITE_BUSY}   (another connection holds the file lock)
     KLocked    sqlite3.Error{Code: SQLITE_LOCKED} (a table lock inside the same process)
     KBadConn   driver.ErrBadConn
     KDeadline  context.DeadlineExceeded *)
Inductive fkind := KGeneric | KBusy | KLocked | KBadConn | KDeadline.
Record fault := F { f_at : nat; f_kind : fkind; f_once : bool }.
Definition gen (k : nat) : fault := F k KGeneric true.      (* the fault of the first version of this model *)
Definition is_badconn (k : fkind) : bool := match k with KBadConn => true | _ => false end.
Definition is_busy (k : fkind) : bool := match k with KBusy | KLocked => true | _ => false end.
(* a transient bad connection on a call that database/sql repeats is never seen by the program *)
Definition absorbed (f : fault) (s : stmt) : bool := is_badconn (f_kind f) && f_once f && st_retried s.

Definition act_on (a : action) (d : db) : db :=
  match a with
  | ANone | ACommit => d
  | ADelProfiles => set_profiles d []
  | ADelSigned => set_signed d []
  | AInsProfile u b => set_profiles d (aset ukey_eqb u b (profiles d))
  | AInsSigned k r => set_signed d (aset skey_eqb k r (signed d))
  end.

(* comm: what is durable in the destination; pend: what the open transaction sees *)
Definition apply_stmt (s : stmt) (comm pend : db) : db * db :=
  match st_act s with
  | ACommit => (pend, pend)
  | a => match st_place s with
         | InTx => (comm, act_on a pend)
         | OnPool => (act_on a comm, act_on a pend)   (* auto-committed at once *)
         | OnSource => (comm, pend)
         end
  end.

Definition fdec (f : option fault) : option fault :=
  match f with Some (F (S n) k o) => Some (F n k o) | _ => None end.

(* run the statements; f = Some (F k kind once): the k-th statement (counting executed ones)
   fails with an error of that kind — and, when [once] is false, every later one too.
   A checked failure makes the function return its error: the deferred tx.Rollback discards
   pend, the result is comm.  An unchecked failure ends the loop the statement belongs to
   (skip = true skips the rest of that loop) and the program carries on.  The function does not
   look at the KIND of the error: nothing is tried again by the program itself; the only
   repetition is database/sql's own on driver.ErrBadConn ([absorbed]). *)
Fixpoint exec (sc : list stmt) (f : option fault) (skip : bool) (comm pend : db) : db * bool :=
  match sc with
  | [] => (comm, true)
  | s :: rest =>
      if skip && st_unchecked s then exec rest f true comm pend
      else match f with
           | Some (F O k o) =>
               if absorbed (F O k o) s
               then let '(c', p') := apply_stmt s comm pend in exec rest None false c' p'
               else if st_unchecked s then exec rest (if o then None else f) true comm pend
               else (comm, false)
           | _ => let '(c', p') := apply_stmt s comm pend in exec rest (fdec f) false c' p'
           end
  end.

Definition q_src := mk_stmt OnSource ANone false true.      (* source.Query(...) *)
Definition s_begin := mk_stmt InTx ANone false true.        (* destination.Begin() *)
Definition s_prepare := mk_stmt InTx ANone false false.     (* tx.Prepare(...) *)
Definition s_next := mk_stmt OnSource ANone false false.    (* rows.Next() incl. the final one + rows.Err() *)
Definition s_commit := mk_stmt InTx ACommit false false.
Definition s_del_profiles := mk_stmt InTx ADelProfiles false false.   (* tx.Exec("DELETE ...") *)
Definition s_del_signed := mk_stmt InTx ADelSigned false false.
Definition s_ins_profile (e : ukey * N) := mk_stmt InTx (AInsProfile (fst e) (snd e)) false true.   (* stmt.Exec *)
Definition s_ins_signed (e : skey * srow) := mk_stmt InTx (AInsSigned (fst e) (snd e)) false true.

Definition copy_profiles (src : db) : list stmt :=
  flat_map (fun e => [s_next; s_ins_profile e]) (profiles src) ++ [s_next].
Definition live_signed (src : db) (now : Z) : list (skey * srow) :=
  filter (fun e => unexpired now (snd e)) (signed src).
Definition copy_signed (src : db) (now : Z) : list stmt :=
  flat_map (fun e => [s_next; s_ins_signed e]) (live_signed src now) ++ [s_next].

(* copyDBIntoSQLite after the repair: both DELETEs by tx.Exec inside the transaction, the
   signed-row cursor error is looked at before the commit *)
Definition sync_script (src : db) (now : Z) : list stmt :=
  [q_src; q_src; s_begin; s_del_profiles; s_del_signed; s_prepare]
  ++ copy_profiles src ++ [s_prepare] ++ copy_signed src now ++ [s_commit].

Definition sync (src : db) (now : Z) (f : option fault) (cache : db) : db * bool :=
  exec (sync_script src now) f false cache cache.

(* A variant that is NOT the code: the destination transaction is written again (up to
   `attempts` times in all) when it failed with SQLITE_BUSY / SQLITE_LOCKED, with the source
   cursors left where the failed attempt stopped reading them.  [exec_r] is [exec] that also
   returns the statements after the failing one; the next attempt begins a new transaction,
   empties both tables and goes on with whatever the cursors still deliver. *)
Fixpoint exec_r (sc : list stmt) (f : option fault) (comm pend : db) : db * bool * option fault * list stmt :=
  match sc with
  | [] => (comm, true, f, [])
  | s :: rest =>
      match f with
      | Some (F O k o) =>
          if absorbed (F O k o) s
          then let '(c', p') := apply_stmt s comm pend in exec_r rest None c' p'
          else (comm, false, (if o then None else f), rest)
      | _ => let '(c', p') := apply_stmt s comm pend in exec_r rest (fdec f) c' p'
      end
  end.
Definition is_row_stmt (s : stmt) : bool :=
  match st_act s, st_place s with
  | AInsProfile _ _, _ | AInsSigned _ _, _ => true
  | ANone, OnSource => true
  | _, _ => false
  end.
Fixpoint retry_loop (attempts : nat) (sc : list stmt) (f : option fault) (comm : db) : db * bool :=
  match attempts with
  | O => (comm, false)
  | S n =>
      let '(c, ok, f', rest) := exec_r sc f comm comm in
      if ok then (c, true)
      else match f with
           | Some ft => if is_busy (f_kind ft)
                        then retry_loop n ([s_begin; s_del_profiles; s_del_signed; s_prepare] ++ filter is_row_stmt rest ++ [s_commit]) f' c
                        else (c, false)
           | None => (c, false)
           end
  end.
Definition sync_retrying (src : db) (now : Z) (f : option fault) (cache : db) : db * bool :=
  retry_loop 3 (sync_script src now) f cache.

(* copyDBIntoSQLite before the repair.  `DELETE from user_profile` went through
   destination.Query on the pool and the rows were closed un-iterated: the SQLite driver never
   steps such a statement (qde = false); a driver that executes Query eagerly would make it
   durable outside the transaction (qde = true).  No delete of signed rows at all, and the
   second loop's cursor error is never looked at. *)
Definition old_copy_signed (src : db) (now : Z) : list stmt :=
  flat_map (fun e => [mk_stmt OnSource ANone true false; mk_stmt InTx (AInsSigned (fst e) (snd e)) true true]) (live_signed src now)
  ++ [mk_stmt OnSource ANone true false].
Definition old_sync_script (qde : bool) (src : db) (now : Z) : list stmt :=
  [q_src; q_src; s_begin; mk_stmt OnPool (if qde then ADelProfiles else ANone) false true; s_prepare]
  ++ copy_profiles src ++ [s_prepare] ++ old_copy_signed src now ++ [s_commit].
Definition old_sync (qde : bool) (src : db) (now : Z) (f : option fault) (cache : db) : db * bool :=
  exec (old_sync_script qde src now) f false cache cache.

(* cleanupDBData: DELETE ... WHERE expiration_epoch < now (by Exec after the repair; before it
   the same never-stepped Query, i.e. a no-op on SQLite) *)
Definition cleanup (now : Z) (d : db) : db :=
  set_signed d (filter (fun e => negb (sr_exp (snd e) <? now)) (signed d)).

(* ------------------------------------------------------------------ the daemon's view *)
(* How a read of the primary fails while it is out: the query hangs past remoteDBQueryTimeout,
   or it fails fast - when the statement is prepared (no connection: refused, closed pool, DNS),
   when it is run, or while its row is fetched. *)
Inductive rfail := RHang | RPrepare | RQuery | RScan.
(* Up, or Out k w: every read of the primary fails in way k; w = statements that carry no
   deadline (profile / signed-record writes, the copy's source queries) still go through. *)
Inductive mode := Up | Out (k : rfail) (w : bool).
(* the two outages of the first version of this model: Slow = primary reads exceed
   remoteDBQueryTimeout (the cache answers, fromCache = true) but writes still go through;
   Dead = a closed pool: every Prepare / Begin fails at once. *)
Notation Slow := (Out RHang true).
Notation Dead := (Out RPrepare false).
Definition rfail_eqb (a b : rfail) : bool :=
  match a, b with RHang, RHang | RPrepare, RPrepare | RQuery, RQuery | RScan, RScan => true | _, _ => false end.
Definition mode_eqb (a b : mode) : bool :=
  match a, b with
  | Up, Up => true
  | Out k w, Out k' w' => rfail_eqb k k' && Bool.eqb w w'
  | _, _ => false
  end.

(* The goroutine that reads the primary (LoadUserProfile, GetUsers, GetSigned) either puts its
   result on the channel or, after a failure, logs and returns WITHOUT answering: the caller's
   select then runs into remoteDBQueryTimeout and the cache answers.  [reports k] = a failure
   of kind k is put on the channel (the caller returns it: no fallback).  A hang cannot be
   reported. *)
Inductive rsource := FromPrimary | FromCache | ReadFails.
Definition read_source (reports : rfail -> bool) (m : mode) : rsource :=
  match m with
  | Up => FromPrimary
  | Out RHang _ => FromCache
  | Out k _ => if reports k then ReadFails else FromCache
  end.
(* the repaired code reports no failure (every one falls back to the cache); before the repair
   a failed query / row fetch was reported *)
Definition reports_none (k : rfail) : bool := false.
Definition reports_old (k : rfail) : bool :=
  match k with RQuery | RScan => true | _ => false end.

Record state := mk_state { primary : db; cache : db; now : Z; pmode : mode }.
Definition init : state := mk_state empty_db empty_db 0 Up.

Definition with_primary (s : state) (d : db) := mk_state d (cache s) (now s) (pmode s).
Definition with_cache (s : state) (d : db) := mk_state (primary s) d (now s) (pmode s).

(* handler classes, by what they do with the profile they load *)
Inductive hkind :=
| HMutate     (* load; `if fromCache` refuse; change; save  (registration / management / admin / bootstrap OTP) *)
| HAuthSave   (* load; verify the factor; save the counter only `if !fromCache`; serve (TOTP, WebAuthn finish) *)
| HRead       (* load; serve *)
| HDelete.    (* DeleteUserProfile without loading *)

Inductive op :=
| Save (u : ukey) (b : N) | DelUser (u : ukey)
| Upsert (u t d : N) (exp : Z) | DelSigned (u t : N)
| Tick (dt : Z) | Sync (f : option fault) | Cleanup | SetMode (m : mode)
| Restart          (* a new daemon process on the same data directory: whatever the old process held in
                      memory is gone, both database FILES are what they were *)
| Copier (f : option fault)   (* one turn of the BackgroundDBCopy loop: the copy (its outcome goes to the log),
                                 then cleanupDBData on the primary and on the cache; between two turns the loop
                                 sleeps ProfileStorage.SyncInterval — WHEN a turn happens is the history's choice *)
| Load (u : ukey) | GetS (u t : N) | Users
| Handler (h : hkind) (u : ukey) (b : N).

Inductive out :=
| OOk | OErr
| OLoad (found fromCache : bool) (b : N)
| OSigned (found : bool) (d : N)
| OUsers (fromCache : bool) (us : list ukey)
| OSync (completed : bool)
| ORefused | OServed.

(* LoadUserProfile: (found, fromCache, content) *)
Definition load (s : state) (u : ukey) : bool * bool * N :=
  let from_cache := negb (mode_eqb (pmode s) Up) in
  let d := if from_cache then cache s else primary s in
  match aget ukey_eqb u (profiles d) with
  | Some b => (true, from_cache, b)
  | None => (false, from_cache, 0%N)
  end.

(* the row GetSigned selects (before signature verification, which C07 adds) *)
Definition get_signed (s : state) (u t : N) : option srow :=
  let d := if mode_eqb (pmode s) Up then primary s else cache s in
  match aget skey_eqb (u, t) (signed d) with
  | Some r => if unexpired (now s) r then Some r else None
  | None => None
  end.

(* GetUsers: (names, fromCache) *)
Definition users (s : state) : bool * list ukey :=
  let from_cache := negb (mode_eqb (pmode s) Up) in
  (from_cache, map fst (profiles (if from_cache then cache s else primary s))).

Definition writable (s : state) : bool :=
  match pmode s with Up => true | Out _ w => w end.

Definition save (s : state) (u : ukey) (b : N) : state :=
  with_primary s (set_profiles (primary s) (aset ukey_eqb u b (profiles (primary s)))).

Definition handler (auth_save_guarded : bool) (reports : rfail -> bool) (s : state) (h : hkind) (u : ukey) (b : N) : state * out :=
  match h with
  | HDelete => if writable s
               then (with_primary s (set_profiles (primary s) (adel ukey_eqb u (profiles (primary s)))), OServed)
               else (s, OErr)
  | _ =>
    match read_source reports (pmode s) with
    | ReadFails => (s, OErr)                     (* LoadUserProfile returned the primary's error: 500 *)
    | _ =>
      match h with
      | HRead => (s, OServed)
      | HMutate => let '(_, from_cache, _) := load s u in
                   if from_cache then (s, ORefused)
                   else if writable s then (save s u b, OServed) else (s, OErr)
      | _ => let '(found, from_cache, cur) := load s u in
                 if negb found then (s, ORefused)
                 else if auth_save_guarded && from_cache then (s, OServed)
                 (* the handler stores the profile it loaded (with an updated counter): what
                    reaches the primary derives from `cur`; the save result is not looked at *)
                 else if writable s then (save s u (if from_cache then cur else b), OServed) else (s, OServed)
      end
    end
  end.

Definition signed_both (write_through : bool) (s : state) (f : list (skey * srow) -> list (skey * srow)) : state :=
  mk_state (set_signed (primary s) (f (signed (primary s))))
           (if write_through then set_signed (cache s) (f (signed (cache s))) else cache s)
           (now s) (pmode s).

Definition step_gen (guarded write_through : bool) (reports : rfail -> bool) (syncf : db -> Z -> option fault -> db -> db * bool)
           (cleanupf : Z -> db -> db) (restart_cache : db -> db) (s : state) (o : op) : state * out :=
  match o with
  (* initDB opens the existing cache file (restart_cache = the identity); a start-up that recreates
     the file is the refuted variant *)
  | Restart => (with_cache s (restart_cache (cache s)), OOk)
  | Save u b => if writable s then (save s u b, OOk) else (s, OErr)
  | DelUser u => if writable s
                 then (with_primary s (set_profiles (primary s) (adel ukey_eqb u (profiles (primary s)))), OOk)
                 else (s, OErr)
  (* UpsertSigned / DeleteSigned: committed in the primary, then repeated on the local cache
     (write_through; before that repair the cache only followed at the next copy) *)
  | Upsert u t d e => if writable s
                      then (signed_both write_through s (aset skey_eqb (u, t) (mk_srow d e (now s))), OOk)
                      else (s, OErr)
  | DelSigned u t => if writable s
                     then (signed_both write_through s (adel skey_eqb (u, t)), OOk)
                     else (s, OErr)
  | Tick dt => (mk_state (primary s) (cache s) (now s + dt) (pmode s), OOk)
  | Sync f => if writable s
              then let '(c, ok) := syncf (primary s) (now s) f (cache s) in (with_cache s c, OSync ok)
              else (s, OSync false)              (* the first source query fails *)
  | Cleanup => let s1 := if writable s then with_primary s (cleanupf (now s) (primary s)) else s in
               (with_cache s1 (cleanupf (now s) (cache s1)), OOk)
  | Copier f => let '(s0, x) := (if writable s
                                 then let '(c, ok) := syncf (primary s) (now s) f (cache s) in (with_cache s c, OSync ok)
                                 else (s, OSync false)) in
                let s1 := if writable s0 then with_primary s0 (cleanupf (now s0) (primary s0)) else s0 in
                (with_cache s1 (cleanupf (now s0) (cache s1)), x)
  | SetMode m => (mk_state (primary s) (cache s) (now s) m, OOk)
  | Load u => match read_source reports (pmode s) with
              | ReadFails => (s, OErr)
              | _ => let '(found, fc, b) := load s u in (s, OLoad found fc b)
              end
  | GetS u t => match read_source reports (pmode s) with
                | ReadFails => (s, OErr)
                | _ => match get_signed s u t with
                       | Some r => (s, OSigned true (sr_data r))
                       | None => (s, OSigned false 0%N)
                       end
                end
  | Users => match read_source reports (pmode s) with
             | ReadFails => (s, OErr)
             | _ => let '(fc, us) := users s in (s, OUsers fc us)
             end
  | Handler h u b => handler guarded reports s h u b
  end.

(* the repaired code *)
Definition step : state -> op -> state * out := step_gen true true reports_none sync cleanup (fun c => c).
(* NOT the code: the copy that writes its transaction again on SQLITE_BUSY with the consumed cursors *)
Definition step_retrying : state -> op -> state * out := step_gen true true reports_none sync_retrying cleanup (fun c => c).
(* NOT the code: a start-up that begins with a new, empty cache file *)
Definition step_wiping : state -> op -> state * out := step_gen true true reports_none sync cleanup (fun _ => empty_db).
(* the same with a failed query / row fetch of the primary reported to the caller (the code
   before that repair) *)
Definition step_reporting : state -> op -> state * out := step_gen true true reports_old sync cleanup (fun c => c).
(* the code before the repairs, on SQLite (qde = false) or an eagerly executing driver *)
Definition step_old (qde : bool) : state -> op -> state * out :=
  step_gen false false reports_old (old_sync qde) (fun n d => if qde then cleanup n d else d) (fun c => c).

Fixpoint run_gen (st : state -> op -> state * out) (s : state) (ops : list op) : state * list out :=
  match ops with
  | [] => (s, [])
  | o :: r => let '(s1, x) := st s o in let '(s2, xs) := run_gen st s1 r in (s2, x :: xs)
  end.
Definition run := run_gen step.
Definition final (ops : list op) : state := fst (run init ops).

(* ghost: the user profiles the primary held when the last copy completed (a Sync or a turn of the
   copier that reported success); run_ghost carries it along a history *)
Definition completes (o : op) (x : out) : bool :=
  match o, x with
  | Sync _, OSync true | Copier _, OSync true => true
  | _, _ => false
  end.
Fixpoint run_ghost (s : state) (g : list (ukey * N)) (ops : list op) : state * list (ukey * N) :=
  match ops with
  | [] => (s, g)
  | o :: r => let '(s1, x) := step s o in run_ghost s1 (if completes o x then profiles (primary s) else g) r
  end.

(* ------------------------------------------------------------------ comparison helpers for case files *)
Definition opt_eqb {A} (e : A -> A -> bool) (a b : option A) : bool :=
  match a, b with Some x, Some y => e x y | None, None => true | _, _ => false end.
Definition srow_eqb (a b : srow) : bool :=
  N.eqb (sr_data a) (sr_data b) && Z.eqb (sr_exp a) (sr_exp b).       (* update_epoch is a timestamp *)
Definition sub_map {K V} (ke : K -> K -> bool) (ve : V -> V -> bool) (a b : list (K * V)) : bool :=
  forallb (fun e => opt_eqb ve (aget ke (fst e) b) (Some (snd e))) a.
Definition same_map {K V} (ke : K -> K -> bool) (ve : V -> V -> bool) (a b : list (K * V)) : bool :=
  sub_map ke ve a b && sub_map ke ve b a && Nat.eqb (length a) (length b).
Definition same_db (a b : db) : bool :=
  same_map ukey_eqb N.eqb (profiles a) (profiles b) && same_map skey_eqb srow_eqb (signed a) (signed b).

Definition out_eqb (a b : out) : bool :=
  match a, b with
  | OOk, OOk | OErr, OErr | ORefused, ORefused | OServed, OServed => true
  | OLoad f c x, OLoad f' c' x' => Bool.eqb f f' && Bool.eqb c c' && N.eqb x x'
  | OSigned f x, OSigned f' x' => Bool.eqb f f' && N.eqb x x'
  | OUsers c us, OUsers c' us' =>      (* the SELECT has no ORDER BY: compared as sets *)
      Bool.eqb c c' && Nat.eqb (length us) (length us') &&
      forallb (fun u => existsb (N.eqb u) us') us && forallb (fun u => existsb (N.eqb u) us) us'
  | OSync c, OSync c' => Bool.eqb c c'
  | _, _ => false
  end.

(* ------------------------------------------------------------------ case-file evaluation *)
Fixpoint run_states (s : state) (ops : list op) : list (state * out) :=
  match ops with
  | [] => []
  | o :: r => let '(s1, x) := step s o in (s1, x) :: run_states s1 r
  end.

Fixpoint list_eqb {A} (e : A -> A -> bool) (a b : list A) : bool :=
  match a, b with
  | [], [] => true
  | x :: a', y :: b' => e x y && list_eqb e a' b'
  | _, _ => false
  end.

(* a history observed on the implementation: the ops, the result of each, and snapshots
   (index of the op after which it was taken, primary content, cache content) *)
Definition history_case := (list op * list out * list (nat * db * db))%type.

Definition history_ok (c : history_case) : bool :=
  let '(ops, outs, snaps) := c in
  let tr := run_states init ops in
  list_eqb out_eqb (map snd tr) outs &&
  forallb (fun e => let '(i, p, c) := e in
                    match nth_error tr i with
                    | Some (s, _) => same_db (primary s) p && same_db (cache s) c
                    | None => false
                    end) snaps.

(* one request to a handler of class h in mode m.  The user's profile is 11 in the primary and
   an older 10 in the cache (or absent from both); the request would store 12.  Observed: what
   the primary holds for the user afterwards (0 = nothing), whether the cache changed,
   whether the request was served. *)
Definition handler_case := (hkind * mode * bool * N * bool * bool)%type.

Definition handler_ok (c : handler_case) : bool :=
  let '(h, m, present, res, cache_changed, served) := c in
  let s0 := mk_state (mk_db (if present then [(1%N, 11%N)] else []) [])
                     (mk_db (if present then [(1%N, 10%N)] else []) []) 0 m in
  let '(s1, o) := step s0 (Handler h 1%N 12%N) in
  N.eqb (match aget ukey_eqb 1%N (profiles (primary s1)) with Some b => b | None => 0%N end) res &&
  Bool.eqb (negb (same_db (cache s1) (cache s0))) cache_changed &&
  Bool.eqb (match o with OServed => true | _ => false end) served.

(* the second-factor checks and readers after a restart during an outage: the profile is 11 in the
   primary and 10 in the cache, the daemon is restarted, then the request (which would store 12) *)
Definition restart_handler_case := (hkind * mode * N * bool * bool)%type.

Definition restart_handler_ok (c : restart_handler_case) : bool :=
  let '(h, m, res, cache_changed, served) := c in
  let s0 := mk_state (mk_db [(1%N, 11%N)] []) (mk_db [(1%N, 10%N)] []) 0 m in
  let '(s1, _) := step s0 Restart in
  let '(s2, o) := step s1 (Handler h 1%N 12%N) in
  N.eqb (match aget ukey_eqb 1%N (profiles (primary s2)) with Some b => b | None => 0%N end) res &&
  Bool.eqb (negb (same_db (cache s2) (cache s0))) cache_changed &&
  Bool.eqb (match o with OServed => true | _ => false end) served.

(* ------------------------------------------------------------------ the property's predicate on an observation
   A history on which implementation and model disagree is a concrete input; whether it also VIOLATES
   the property is decided here: at the first step where the observation leaves the model (up to there
   the model state is the implementation's), the conclusion of the property's theorem for that step is
   evaluated on what was observed.
     1 sync-reported-complete-not-mirror   c15_sync_mirror / c15_atomic (success => the new content)
     2 sync-mixture                        c15_atomic (neither the old nor the new content)
     3 sync-reported-failed-new-content    c15_atomic (failure => the old content)
     4 sync-does-not-complete              c15_sync_completes (no fault, primary readable)
     5 sync-changed-primary                c15_atomic
     6 restart-changed-store               c15_restart_keeps_stores
     7 outage-read                         c15_outage_reads (not answered from the cache / not its content)
   0 = the observation differs from the model but satisfies the property (stricter, or unobserved) *)
Definition snap_at (snaps : list (nat * db * db)) (i : nat) : option (db * db) :=
  match find (fun e => Nat.eqb (fst (fst e)) i) snaps with
  | Some (_, p, c) => Some (p, c)
  | None => None
  end.

Definition classify (s : state) (o : op) (x : out) (sn : option (db * db)) : nat :=
  match o, sn with
  | Sync f, Some (p, c) =>
      let cnew := fst (sync (primary s) (now s) None (cache s)) in
      if negb (same_db p (primary s)) then 5%nat
      else match x with
           | OSync true => if writable s && same_db c cnew then 0%nat else 1%nat
           | OSync false =>
               if same_db c (cache s)
               then match f with None => if writable s then 4%nat else 0%nat | Some _ => 0%nat end
               else if writable s && same_db c cnew then 3%nat else 2%nat
           | _ => 0%nat
           end
  | Copier f, Some (p, c) =>
      (* the copy of a turn of the copier, then the purge: judged on the user profiles, which the purge leaves alone *)
      let cnew := fst (sync (primary s) (now s) None (cache s)) in
      let same_p a b := same_map ukey_eqb N.eqb (profiles a) (profiles b) in
      if negb (same_p p (primary s)) then 5%nat
      else match x with
           | OSync true => if writable s && same_p c cnew then 0%nat else 1%nat
           | OSync false =>
               if same_p c (cache s)
               then match f with None => if writable s then 4%nat else 0%nat | Some _ => 0%nat end
               else if writable s && same_p c cnew then 3%nat else 2%nat
           | _ => 0%nat
           end
  | Restart, Some (p, c) => if same_db p (primary s) && same_db c (cache s) then 0%nat else 6%nat
  | Load _, _ | GetS _ _, _ | Users, _ =>
      if mode_eqb (pmode s) Up then 0%nat
      else if out_eqb (snd (step s o)) x then 0%nat else 7%nat
  | _, _ => 0%nat
  end.

Fixpoint first_violation (s : state) (i : nat) (ops : list op) (outs : list out) (snaps : list (nat * db * db)) : nat :=
  match ops, outs with
  | o :: ro, x :: rx =>
      let '(s1, xm) := step s o in
      let sn := snap_at snaps i in
      if out_eqb xm x && match sn with Some (p, c) => same_db (primary s1) p && same_db (cache s1) c | None => true end
      then first_violation s1 (S i) ro rx snaps
      else classify s o x sn
  | _, _ => 0%nat
  end.

Definition history_violation (c : history_case) : nat :=
  let '(ops, outs, snaps) := c in first_violation init 0 ops outs snaps.

Fixpoint violating_from (l : list history_case) (i : nat) : list (nat * nat) :=
  match l with
  | [] => []
  | c :: r => if history_ok c then violating_from r (S i)
              else match history_violation c with
                   | O => violating_from r (S i)
                   | v => (i, v) :: violating_from r (S i)
                   end
  end.
Definition violating_cases (l : list history_case) : list (nat * nat) := violating_from l 0.
