(* C11 / C10 — lib/certgen/iprestricted.go: RFC 3779 address-choice encoding of IPv4 netblocks,
   decoding, and the peer-address membership test.  Addresses are four octets, exactly as the
   code holds them ([4]byte / net.IP); prefix lengths are N. *)
From KM Require Import Base.Bytes.

Record netblock := { o0 : N; o1 : N; o2 : N; o3 : N; plen : N }.

Definition octets (b : netblock) : list N := [o0 b; o1 b; o2 b; o3 b].

(* net.CIDRMask(p, 32), octet i *)
Definition mask_octet (p : N) (i : N) : N :=
  if 8 * (i + 1) <=? p then 255
  else if p <=? 8 * i then 0
  else 256 - 2 ^ (8 - (p - 8 * i)).

Definition masked (b : netblock) : bool :=
  (N.land (o0 b) (mask_octet (plen b) 0) =? o0 b) &&
  (N.land (o1 b) (mask_octet (plen b) 1) =? o1 b) &&
  (N.land (o2 b) (mask_octet (plen b) 2) =? o2 b) &&
  (N.land (o3 b) (mask_octet (plen b) 3) =? o3 b).

Definition is_byte (x : N) : bool := x <? 256.
Definition wf_block (b : netblock) : bool :=
  (plen b <=? 32) && is_byte (o0 b) && is_byte (o1 b) && is_byte (o2 b) && is_byte (o3 b) && masked b.

(* encodeIpAddressChoice: ceil(p/8) leading octets, BitLength p *)
Definition nbytes (p : N) : nat := N.to_nat ((p + 7) / 8).
Definition encode (b : netblock) : bs * N := (firstn (nbytes (plen b)) (octets b), plen b).

(* decodeIPV4AddressChoice after the bounds fix: a bit string longer than 32 bits, or with
   fewer bytes than its bit length needs, is an error (None); before the fix these two cases
   indexed out of range (a panic) *)
Definition nth0 (l : bs) (i : nat) : N := nth i l 0.
Definition decode (e : bs * N) : option netblock :=
  let '(bytes, bitlen) := e in
  if (32 <? bitlen) || (N.of_nat (length bytes) <? (bitlen + 7) / 8) then None
  else let t := firstn (nbytes bitlen) bytes in
       Some {| o0 := nth0 t 0; o1 := nth0 t 1; o2 := nth0 t 2; o3 := nth0 t 3; plen := bitlen |}.

(* the decoder as it was: Panic for the out-of-range cases *)
Inductive dres := DOk (b : netblock) | DPanic.
Definition decode_old (e : bs * N) : dres :=
  let '(bytes, bitlen) := e in
  if (32 <? bitlen) || (N.of_nat (length bytes) <? (bitlen + 7) / 8) then DPanic
  else let t := firstn (nbytes bitlen) bytes in
       DOk {| o0 := nth0 t 0; o1 := nth0 t 1; o2 := nth0 t 2; o3 := nth0 t 3; plen := bitlen |}.

(* the TCP peer as net.ParseIP + IPNet.Contains see it: IPv4 and IPv4-mapped IPv6 addresses
   are four octets; any other IPv6 address or an unparsable host never matches *)
Inductive peer := V4 (a0 a1 a2 a3 : N) | V6other | Garbage.

Definition contains (b : netblock) (p : peer) : bool :=
  match p with
  | V4 a0 a1 a2 a3 =>
      (N.land (o0 b) (mask_octet (plen b) 0) =? N.land a0 (mask_octet (plen b) 0)) &&
      (N.land (o1 b) (mask_octet (plen b) 1) =? N.land a1 (mask_octet (plen b) 1)) &&
      (N.land (o2 b) (mask_octet (plen b) 2) =? N.land a2 (mask_octet (plen b) 2)) &&
      (N.land (o3 b) (mask_octet (plen b) 3) =? N.land a3 (mask_octet (plen b) 3))
  | _ => false
  end.

(* the extension after asn1.Unmarshal: a list of (AddressFamily bytes, list of bit strings) *)
Definition family := (bs * list (bs * N))%type.
Definition ipv4_family : bs := [0; 1; 1].

(* VerifyIPRestrictedX509CertIP on a present, parseable extension *)
Fixpoint verify_blocks (l : list (bs * N)) (p : peer) : option bool :=   (* None = error *)
  match l with
  | [] => Some false
  | e :: r => match decode e with
              | None => None
              | Some b => if contains b p then Some true else verify_blocks r p
              end
  end.
Fixpoint verify_families (l : list family) (p : peer) : option bool :=
  match l with
  | [] => Some false
  | (fam, blocks) :: r =>
      if bs_eqb fam ipv4_family then
        match verify_blocks blocks p with
        | Some false => verify_families r p
        | other => other
        end
      else verify_families r p
  end.
Definition verify_ip (ext : list family) (p : peer) : bool :=
  match verify_families ext p with Some true => true | _ => false end.

(* ExtractIPNetsFromIPRestrictedX509 *)
Fixpoint extract_blocks (l : list (bs * N)) : option (list netblock) :=
  match l with
  | [] => Some []
  | e :: r => match decode e, extract_blocks r with
              | Some b, Some bs' => Some (b :: bs')
              | _, _ => None
              end
  end.
Fixpoint extract (ext : list family) : option (list netblock) :=
  match ext with
  | [] => Some []
  | (fam, blocks) :: r =>
      if bs_eqb fam ipv4_family then
        match extract_blocks blocks, extract r with
        | Some a, Some b => Some (a ++ b)
        | _, _ => None
        end
      else None
  end.

(* genDelegationExtension *)
Definition ext_of (blocks : list netblock) : list family := [(ipv4_family, map encode blocks)].

(* correspondence helpers *)
Definition mk (a0 a1 a2 a3 p : N) : netblock := {| o0 := a0; o1 := a1; o2 := a2; o3 := a3; plen := p |}.
Definition nb_eqb (x y : netblock) : bool :=
  (o0 x =? o0 y) && (o1 x =? o1 y) && (o2 x =? o2 y) && (o3 x =? o3 y) && (plen x =? plen y).

(* ---------------------------------------------------------------------------------------------
   The refresh endpoint (roleRequestingCert.go refreshRoleRequestingCertGenHandler +
   parseRefreshRoleCertGenParams): the request is authenticated by the presented certificate from a
   peer inside its blocks; the new certificate is built from the presented certificate's identity and
   netblocks and the submitted public key.  The form the request carries - any parameter names with
   any values: identity, requestor_netblock, target_netblock, duration, unknown ones - is an input of
   the model that nothing reads (the public key is abstracted to "acceptable or not"). *)
Definition form := list (bs * bs).
Record rcert := { rc_cn : bs; rc_ext : list family }.

Definition refresh (c : rcert) (p : peer) (f : form) (key_ok : bool) : option (bs * list netblock) :=
  if verify_ip (rc_ext c) p then
    if key_ok then match extract (rc_ext c) with Some bl => Some (rc_cn c, bl) | None => None end
    else None
  else None.

Definition minted (cn : bs) (blocks : list netblock) : rcert := {| rc_cn := cn; rc_ext := ext_of blocks |}.

(* any number of refreshes, each from its own peer with its own form *)
Fixpoint refresh_chain (c : rcert) (steps : list (peer * form)) : option rcert :=
  match steps with
  | [] => Some c
  | (p, f) :: r => match refresh c p f true with
                   | Some (id, bl) => refresh_chain (minted id bl) r
                   | None => None
                   end
  end.

(* a refresh that honours a requestor_netblock parameter with a containment test that looks at the
   requested block's base address only (kept as the refuted variant) *)
Definition refresh_narrowing_by_base (c : rcert) (p : peer) (requested : list netblock) : option (bs * list netblock) :=
  if verify_ip (rc_ext c) p then
    match extract (rc_ext c) with
    | Some bl =>
        if forallb (fun r => existsb (fun b => contains b (V4 (o0 r) (o1 r) (o2 r) (o3 r))) bl) requested
        then Some (rc_cn c, match requested with [] => bl | _ => requested end) else None
    | None => None
    end
  else None.

Definition blocks_eqb (x y : list netblock) : bool :=
  Nat.eqb (length x) (length y) && forallb (fun xy => nb_eqb (fst xy) (snd xy)) (combine x y).

(* ---------------------------------------------------------------------------------------------
   The request side of minting.  net.ParseCIDR("a.b.c.d/p") returns the IPNet whose address is
   MASKED with the prefix mask (the text may name any address of the block); that canonical block is
   what parseRoleCertGenParams hands to GenIPRestrictedX509Cert.  Decimal parsing of the text stays
   with the library (run in front of the model); [cidr_ok] is what a CIDR text can denote. *)
Definition canon (b : netblock) : netblock :=
  mk (N.land (o0 b) (mask_octet (plen b) 0)) (N.land (o1 b) (mask_octet (plen b) 1))
     (N.land (o2 b) (mask_octet (plen b) 2)) (N.land (o3 b) (mask_octet (plen b) 3)) (plen b).
Definition cidr_ok (b : netblock) : bool :=
  (plen b <=? 32) && is_byte (o0 b) && is_byte (o1 b) && is_byte (o2 b) && is_byte (o3 b).
Definition mint_request (cn : bs) (req : list netblock) : rcert := minted cn (map canon req).

