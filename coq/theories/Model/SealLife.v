(* C09 — (1) the readiness probe as a REQUEST (method, query string, trailing slash, Accept header), and
         (2) the life of the daemon ACROSS RESTARTS on one data directory.
   Executable model of
     cmd/keymasterd/unseal.go   readyzHandler (behind the exact-match pattern "/readyz" of the admin mux)
     cmd/keymasterd/app.go      generateCADer (the self-signed CA certificate is made from the signer just loaded;
                                nothing about the CA is read from or written to the data directory)
     cmd/keymasterd/config.go   loadVerifyConfigFile: a start builds a fresh RuntimeState from the configuration. *)
From KM Require Import Base.Bytes Model.Seal.
Open Scope N_scope.

(* ------------------------------------------------------------------ the readiness probe *)
Inductive pmethod := MGet | MHead | MPost | MPut | MDelete | MOptions.
Record probe := {
  p_method : pmethod;
  p_query  : list (bs * bs);      (* the query string, parameter by parameter, in order; any names, any values *)
  p_slash  : bool;                (* "/readyz/" instead of "/readyz": the mux pattern is an exact one *)
  p_accept : option bs            (* Accept header *)
}.

(* readyzHandler reads nothing of the request: the answer is a function of the signer only *)
Definition readyz_probe (s : state) (p : probe) : N := if p_slash p then 404 else readyz s.

(* NOT the code — the kind of change seed C09-J makes: some query parameters make the handler write a line per
   check BEFORE the status line, so that net/http has already sent 200 when WriteHeader(503) is called *)
Definition bs_mem (x : bs) (l : list bs) : bool := existsb (bs_eqb x) l.
Definition readyz_probe_chatty (names : list bs) (s : state) (p : probe) : N :=
  if p_slash p then 404
  else if existsb (fun kv => bs_mem (fst kv) names) (p_query p) then 200
  else readyz s.

(* the property's predicate on an observed probe: answered 200 although the (observed) signer is absent *)
Definition probe_violates (signer_set : bool) (status : N) : bool := (status =? 200) && negb signer_set.

Definition probe_case_ok (c : cfg) (ops : list inj) (p : probe) (signer_set : bool) (status : N) : bool :=
  let s := inject_all c (sealed_init c) ops in
  (status =? readyz_probe s p) && Bool.eqb signer_set (is_some (signer s)).

(* ------------------------------------------------------------------ life cycles across restarts *)
(* What a run may find in the data directory about the CA: for each kind of key (0 = RSA, 1 = ECDSA, 2 = Ed25519)
   possibly a CA certificate kept by an earlier run, named by the key it was made for.  The code keeps none; the
   disk is an argument of the model so that the theorems are stated for EVERY prior on-disk state. *)
Notation kind := N (only parsing).
Definition disk := list (kind * key).

Record cycle := {
  cy_cfg   : cfg;          (* the key files of THIS run (a rotation = another main_key / Ed25519 key than the run before) *)
  cy_fresh : bool;         (* the data directory was emptied before this start *)
  cy_ops   : list inj      (* the injections of this run *)
}.

(* one run: start (sealed, from the configuration alone), the injections; the disk it leaves *)
Definition run_cycle (d : disk) (cy : cycle) : state * disk :=
  (inject_all (cy_cfg cy) (sealed_init (cy_cfg cy)) (cy_ops cy), if cy_fresh cy then [] else d).

(* the state of the LAST run after any number of earlier runs on the same directory *)
Fixpoint life (d : disk) (before : list cycle) (last : cycle) : state :=
  match before with
  | [] => fst (run_cycle d last)
  | cy :: rest => life (snd (run_cycle d cy)) rest last
  end.

(* the keys of the signers loaded NOW, in the order unsealCA appends their CA certificates *)
Definition loaded_keys (s : state) : list key :=
  match ed s with Some e => [e] | None => [] end ++ match signer s with Some k => [k] | None => [] end.

(* NOT the code — the kind of change seed C09-I makes: generateCADer takes the certificate kept in the data
   directory for this KIND of key when there is one (never comparing its public key with the signer's), and
   keeps the one it makes otherwise *)
Definition kept_for (d : disk) (kd : kind) : option key :=
  match find (fun e => fst e =? kd) d with Some (_, k) => Some k | None => None end.
Definition ca_from_disk (d : disk) (kd : kind) (k : key) : key := match kept_for d kd with Some k' => k' | None => k end.
Definition keep_on_disk (d : disk) (kd : kind) (k : key) : disk := match kept_for d kd with Some _ => d | None => d ++ [(kd, k)] end.
(* kind of the main key file of a run, as a parameter; the Ed25519 file is kind 2 *)
Definition run_cycle_kept (main_kind : kind) (d : disk) (cy : cycle) : state * disk :=
  let d0 := if cy_fresh cy then [] else d in
  let s := inject_all (cy_cfg cy) (sealed_init (cy_cfg cy)) (cy_ops cy) in
  let cas := match ed s with Some e => [ca_from_disk d0 2 e] | None => [] end ++
             match signer s with Some k => [ca_from_disk d0 main_kind k] | None => [] end in
  let d1 := match ed s with Some e => keep_on_disk d0 2 e | None => d0 end in
  let d2 := match signer s with Some k => keep_on_disk d1 main_kind k | None => d1 end in
  (set_ca_ders s cas, d2).
Fixpoint life_kept (main_kind : kind) (d : disk) (before : list cycle) (last : cycle) : state :=
  match before with
  | [] => fst (run_cycle_kept main_kind d last)
  | cy :: rest => life_kept main_kind (snd (run_cycle_kept main_kind d cy)) rest last
  end.

(* observed after the last run's injections: names of the keys of /public/sshca, names of the public keys of the
   certificates of /public/x509ca, did a requested X.509 certificate come back and verify under one of them *)
Definition subset (a b : list key) : bool := forallb (fun k => mem k b) a.
Fixpoint keys_eqb (a b : list key) : bool :=
  match a, b with [] , [] => true | x :: a', y :: b' => (x =? y) && keys_eqb a' b' | _, _ => false end.

Definition life_case_ok (before : list cycle) (last : cycle) (ob : bool * list key * list key * bool) : bool :=
  let '(sg, sshca, x509ca, issued) := ob in
  let s := life [] before last in
  Bool.eqb sg (is_some (signer s)) && keys_eqb sshca (pubkeys s) && keys_eqb x509ca (ca_ders s) && Bool.eqb issued (is_some (signer s)).

(* the property's predicate on the observation (c09_published / c09_published_across_restarts): unsealed, and a
   published signing key has no CA certificate, or the X.509 certificate a user asked for does not verify *)
Definition life_case_violates (ob : bool * list key * list key * bool) : bool :=
  let '(sg, sshca, x509ca, issued) := ob in
  sg && (negb (subset sshca x509ca) || negb issued).
