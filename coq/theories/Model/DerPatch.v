(* C02: lib/certgen's OWN byte-level code in front of the PKINIT subject alternative name.

   encoding/asn1 can only emit PrintableString / UTF8String; genSANExtension marshals
     PKInitSANAnotherName{Id: 1.3.6.1.5.2.2, Value: KRB5PrincipalName{Realm, KerberosPrincipal{1, [user]}}}
   and hands the bytes to changePrintableStringToGeneralString, which overwrites the tag byte of the realm
   string and of the name string with 27 (GeneralString).  Since fix 0889d74 the two positions are found by
   derWalk, which follows a path of 'e' (enter the element: go to its contents) and 's' (skip the element: go
   past its end) steps over the DER headers.  This file is that code, line by line, over bs = list N with
   positions in N; every slice index is an explicit nth_error, and an index out of range is the outcome Panic
   (Go's run-time panic), distinct from Err (the function returns an error).

   It also holds the little of DER that asn1.Marshal needs for this one structure (krb_der), so that the
   theorems can speak about the bytes the function is really given. *)
From KM Require Import Base.Bytes.

Definition blen (b : bs) : N := N.of_nat (length b).

Inductive res (A : Type) : Type := Ok (a : A) | Err | Panic.
Arguments Ok {A} a.
Arguments Err {A}.
Arguments Panic {A}.

(* der[i] *)
Definition get (der : bs) (i : N) : res N :=
  match nth_error der (N.to_nat i) with Some x => Ok x | None => Panic end.

(* for _, b := range der[from : from+k] { length = length<<8 | int(b) } *)
Fixpoint be_read (der : bs) (from : N) (k : nat) (acc : N) : res N :=
  match k with
  | O => Ok acc
  | S k' => match get der from with
            | Ok b => be_read der (from + 1) k' (N.lor (N.shiftl acc 8) b)
            | Err => Err
            | Panic => Panic
            end
  end.

(* the body of derWalk's loop up to the last bounds test: the element header at `position`.
   Ok (tag, length of the contents, size of the header).  (Go never looks at the tag; the model reads it
   only to return it.) *)
Definition der_header_at (der : bs) (position : N) : res (N * N * N) :=
  if blen der <? position + 2 then Err                                   (* position+2 > len(der) *)
  else match get der position, get der (position + 1) with
       | Ok tag, Ok l0 =>                                                 (* length := int(der[position+1]) *)
           if N.land l0 128 =? 0 then                                     (* length&0x80 == 0 *)
             if blen der <? position + 2 + l0 then Err else Ok (tag, l0, 2)
           else
             let num := N.land l0 127 in                                  (* numBytes := length & 0x7f *)
             if (num <? 1) || (3 <? num) || (blen der <? position + 2 + num) then Err
             else match be_read der (position + 2) (N.to_nat num) 0 with
                  | Ok l => if blen der <? position + 2 + num + l then Err     (* contents+length > len(der) *)
                            else Ok (tag, l, 2 + num)
                  | Err => Err
                  | Panic => Panic
                  end
       | Panic, _ | _, Panic => Panic
       | _, _ => Err
       end.

Definition der_header (der : bs) : option (N * N * N) :=
  match der_header_at der 0 with Ok h => Some h | _ => None end.

(* a step of the path: true = 'e' (enter), false = 's' (skip) *)
Definition path := list bool.

Fixpoint der_walk_from (der : bs) (p : path) (position : N) : res N :=
  match p with
  | [] => if blen der <=? position then Err else Ok position             (* position >= len(der) *)
  | enter :: p' =>
      match der_header_at der position with
      | Ok (_, l, h) => der_walk_from der p' (if enter then position + h else position + h + l)
      | Err => Err
      | Panic => Panic
      end
  end.
Definition der_walk (der : bs) (p : path) : res N := der_walk_from der p 0.

(* inString[position] = v *)
Fixpoint upd_nat (b : bs) (i : nat) (v : N) : option bs :=
  match b, i with
  | [], _ => None
  | _ :: r, O => Some (v :: r)
  | x :: r, S i' => match upd_nat r i' v with Some r' => Some (x :: r') | None => None end
  end.
Definition set (b : bs) (i : N) (v : N) : res bs :=
  match upd_nat b (N.to_nat i) v with Some b' => Ok b' | None => Panic end.

Definition E := true.
Definition S_ := false.
(* "eseee" and "eseeseesee" *)
Definition path_realm : path := [E; S_; E; E; E].
Definition path_name : path := [E; S_; E; E; S_; E; E; S_; E; E].

(* changePrintableStringToGeneralString: for each of the two paths, walk (on the buffer as it is by then:
   the slice is patched in place), then overwrite one byte *)
Fixpoint patch_paths (b : bs) (ps : list path) : res bs :=
  match ps with
  | [] => Ok b
  | p :: r => match der_walk b p with
              | Ok pos => match set b pos 27 with
                          | Ok b' => patch_paths b' r
                          | Err => Err
                          | Panic => Panic
                          end
              | Err => Err
              | Panic => Panic
              end
  end.
Definition patch_res (b : bs) : res bs := patch_paths b [path_realm; path_name].
Definition patch (b : bs) : option bs := match patch_res b with Ok o => Some o | _ => None end.

(* ---------------------------------------------------------------- the encoder side (asn1.Marshal) *)

(* DER length octets: short form below 128, else 0x80+k followed by the k big-endian octets (minimal k;
   up to four octets, i.e. contents shorter than 2^32 - far more than derWalk accepts) *)
Definition enc_len (n : N) : bs :=
  if n <? 128 then [n]
  else if n <? 256 then [129; n]
  else if n <? 65536 then [130; n / 256; n mod 256]
  else if n <? 16777216 then [131; n / 65536; (n / 256) mod 256; n mod 256]
  else [132; (n / 16777216) mod 256; (n / 65536) mod 256; (n / 256) mod 256; n mod 256].

Definition hdr (tag : N) (n : N) : bs := tag :: enc_len n.
Definition tlv (tag : N) (c : bs) : bs := hdr tag (blen c) ++ c.

(* asn1: isPrintable(b, rejectAsterisk, rejectAmpersand), what Marshal uses for a string without a type: '*' and '&'
   make a UTF8String *)
Definition printable (c : N) : bool :=
  ((97 <=? c) && (c <=? 122)) || ((65 <=? c) && (c <=? 90)) || ((48 <=? c) && (c <=? 57)) ||
  ((39 <=? c) && (c <=? 41)) || ((43 <=? c) && (c <=? 47)) ||
  (c =? 32) || (c =? 58) || (c =? 61) || (c =? 63).
(* a Go string without a string type in its field tag: PrintableString (19) when every byte is printable,
   else UTF8String (12) (Marshal fails on invalid UTF-8: such inputs never reach the function) *)
Definition str_tag (s : bs) : N := if forallb printable s then 19 else 12.

Definition krb_oid : bs := tlv 6 [43; 6; 1; 5; 2; 2].
(* the structure with the two string tags as parameters *)
Definition name_seq (tn : N) (name : bs) : bs := tlv 48 (tlv tn name).
Definition princ_seq (tn : N) (name : bs) : bs := tlv 48 (tlv 160 [2; 1; 1] ++ tlv 161 (name_seq tn name)).
Definition krb_seq (tr tn : N) (realm name : bs) : bs :=
  tlv 48 (tlv 160 (tlv tr realm) ++ tlv 161 (princ_seq tn name)).
Definition krb_der_with (tr tn : N) (realm name : bs) : bs :=
  tlv 48 (krb_oid ++ tlv 160 (krb_seq tr tn realm name)).
(* asn1.Marshal(PKInitSANAnotherName{...}) *)
Definition krb_der (realm name : bs) : bs := krb_der_with (str_tag realm) (str_tag name) realm name.
(* the specification of the patch: the same bytes with both string tags 27 *)
Definition retag (realm name : bs) : bs := krb_der_with 27 27 realm name.

(* the bytes in front of the realm's tag and between the realm and the name's tag: headers only, the string
   tags do not occur in them (lengths are taken of the structure with tag 0) *)
Definition krb_pre (realm name : bs) : bs :=
  hdr 48 (blen (krb_oid ++ tlv 160 (krb_seq 0 0 realm name))) ++ krb_oid ++
  hdr 160 (blen (krb_seq 0 0 realm name)) ++
  hdr 48 (blen (tlv 160 (tlv 0 realm) ++ tlv 161 (princ_seq 0 name))) ++
  hdr 160 (blen (tlv 0 realm)).
Definition krb_mid (name : bs) : bs :=
  hdr 161 (blen (princ_seq 0 name)) ++
  hdr 48 (blen (tlv 160 [2; 1; 1] ++ tlv 161 (name_seq 0 name))) ++ tlv 160 [2; 1; 1] ++
  hdr 161 (blen (name_seq 0 name)) ++ hdr 48 (blen (tlv 0 name)).
(* tag :: length octets :: contents, for the two strings *)
Definition krb_shape (tr tn : N) (realm name : bs) : bs :=
  krb_pre realm name ++ tr :: (enc_len (blen realm) ++ realm) ++ krb_mid name ++ tn :: (enc_len (blen name) ++ name).

(* ---------------------------------------------------------------- the predicate on an observation *)
Fixpoint diff_idx (a b : bs) (i : N) : list N :=
  match a, b with
  | x :: a', y :: b' => if x =? y then diff_idx a' b' (i + 1) else i :: diff_idx a' b' (i + 1)
  | [], [] => []
  | _, _ => [i]
  end.
Fixpoint subset_b (l m : list N) : bool :=
  match l with [] => true | x :: r => existsb (N.eqb x) m && subset_b r m end.
Definition holds27 (out : bs) (i : N) : bool :=
  match nth_error out (N.to_nat i) with Some x => x =? 27 | None => false end.
(* where the two string tags of the structure for (realm, name) are *)
Definition tag_positions (realm name : bs) : list N :=
  diff_idx (krb_der_with 0 0 realm name) (krb_der_with 1 1 realm name) 0.
(* observed output for the marshalled (realm, name): same length, differs from the input at most at the two
   tag positions, holds 27 there *)
Definition tags_only_b (realm name inp out : bs) : bool :=
  (length inp =? length out)%nat && subset_b (diff_idx inp out 0) (tag_positions realm name) &&
  forallb (holds27 out) (tag_positions realm name).
(* observed output for an arbitrary input: same length, at most two bytes differ, and they are 27 *)
Definition two_tags_b (inp out : bs) : bool :=
  (length inp =? length out)%nat && (length (diff_idx inp out 0) <=? 2)%nat &&
  forallb (holds27 out) (diff_idx inp out 0).

(* the caller: genSANExtension sets byte 0 to 0xA0 ([0] IMPLICIT of GeneralName otherName) *)
Definition san_other_name (realm name : bs) : option bs :=
  match patch (krb_der realm name) with
  | Some (_ :: r) => Some (160 :: r)
  | _ => None
  end.
