(* C07 — the directory's verdict on passwords is final; the offline cache only fills outages.

   lib/pwauth/ldap/impl.go  passwordAuthenticate, updateOrDeletePasswordHash
   lib/authutil             CheckLDAPUserPassword (answer = bind result / "Invalid Credentials";
                            anything else is "no answer"), Argon2 hash = the password it hashes
   cmd/keymasterd           storage.go GetSigned / UpsertSigned / DeleteSigned (Model/Storage.v),
                            jwt.go getStorageDataFromStorageStringDataJWT, app.go
                            reprocessUsername / checkUserPassword

   The stores are those of Model/Storage.v; the jws_data column of a type-1 row is a number
   that names a signed record in the table [jwss] (the harness numbers the distinct strings it
   sees in the same order).  Signatures are symbolic: a record is genuine iff keymaster
   produced it (j_genuine), and nobody else can produce a genuine one; tampering can put ANY
   record that ever existed, or a forged one, into ANY slot of either store with ANY
   expiration column. *)
From Coq Require Import List NArith ZArith Bool.
From KM Require Import Model.Storage.
Import ListNotations.
Open Scope Z_scope.

Definition cache_secs : Z := 345600.        (* defaultCacheDuration = 96 h *)
Definition pw_type : N := 1%N.             (* passwordDataType *)

(* a storageStringDataJWT as keymaster or an attacker produced it *)
Record jws := mk_jws {
  j_genuine : bool;     (* signed by a keymaster key, token_type storage_data, right issuer/audience *)
  j_sub : N;            (* subject *)
  j_pw : N;             (* the password whose Argon2 hash is the payload *)
  j_nbf : Z;            (* not-before = issued-at *)
  j_exp : Z             (* the SIGNED expiration claim *)
}.

(* SMisleading: an erroring replica (any result code but success / invalidCredentials) whose
   diagnostic TEXT contains the words "Invalid Credentials" *)
Inductive status := SUp | SDown | SErroring | SMisleading.

(* The diagnostic text a directory attaches to a refusal: nothing, a plain sentence (OpenLDAP
   style), or Active Directory's "AcceptSecurityContext error, data <sub>, ..." with its sub
   status (0x52e bad password, 0x525 no such user, 0x530/0x531 logon restriction, 0x532
   password expired, 0x533 account disabled, 0x701 account expired, 0x773 must reset, 0x775
   locked out ...). *)
Inductive diag := DNone | DPlain | DAD (sub : N)
| DMentions.   (* a text that contains the words "Invalid Credentials" (under whatever result code) *)

(* what one bind attempt brings back: bound; an LDAP result (code, diagnostic); or no LDAP
   answer at all (connection / TLS failure, timeout) *)
Inductive reply := RBound | RRefused (code : N) (d : diag) | RSilent.
Definition invalid_credentials : N := 49.      (* LDAPResultInvalidCredentials *)
Definition other_code : N := 80.               (* stands for every result code but 0 and 49 *)

Record pstate := mk_pstate {
  st : state;                        (* both stores, clock, primary mode (Model/Storage.v) *)
  dir : list (N * N);                (* the directory: user -> current password *)
  servers : list status;             (* the configured LDAP URLs, in order *)
  jwss : list jws;                   (* every record that ever existed; position = its number *)
  acct : list (N * diag);            (* accounts in a state in which the directory refuses EVERY
                                        bind (disabled, locked out, expired ...), with the
                                        diagnostic it gives for them *)
  style : diag;                      (* the diagnostic of ordinary refusals (wrong password,
                                        unknown user) of this directory product *)
  extra_patterns : nat;              (* bind patterns configured BEYOND the first (config.go builds
                                        exactly one: 0 here) *)
  homes : list (N * nat)             (* the pattern (index) under which a user's entry lives;
                                        absent = the first pattern *)
}.

Definition pinit2 (nservers extra : nat) : pstate :=
  mk_pstate init [] (repeat SUp nservers) [] [] DPlain extra [].
Definition pinit (nservers : nat) : pstate := pinit2 nservers 0.

Definition home (s : pstate) (u : N) : nat :=
  match aget N.eqb u (homes s) with Some p => p | None => O end.

(* the directory's own verdict on (u, pw): u's entry holds pw, pw is not the empty password,
   and the account is in order *)
Definition entry_accepts (s : pstate) (u pw : N) : bool :=
  match aget N.eqb u (dir s) with
  | Some p => N.eqb p pw && negb (N.eqb pw 0)     (* password 0 = the empty one *)
  | None => false
  end &&
  match aget N.eqb u (acct s) with Some _ => false | None => true end.
(* ... as keymaster can learn it: under the FIRST bind pattern (see first_answer_gen: a replica
   that answers at all answers the first pattern's bind, and that answer is final) *)
Definition dir_accepts (s : pstate) (u pw : N) : bool :=
  entry_accepts s u pw && Nat.eqb (home s u) 0.

Definition refusal_diag (s : pstate) (u : N) : diag :=
  match aget N.eqb u (acct s) with Some d => d | None => style s end.

(* one bind attempt: server sv, the bind DN built from pattern number p.  Under the pattern the
   user's entry lives under, a refusal carries the account's / the style's diagnostic; under any
   other pattern there is no such entry (the style's diagnostic) *)
Definition bind_at (s : pstate) (sv : status) (p : nat) (u pw : N) : reply :=
  match sv with
  | SUp => if entry_accepts s u pw && Nat.eqb (home s u) p then RBound
           else RRefused invalid_credentials (if Nat.eqb (home s u) p then refusal_diag s u else style s)
  | SErroring => RRefused other_code (style s)
  | SMisleading => RRefused other_code DMentions
  | SDown => RSilent
  end.
(* the attempt under the first pattern *)
Definition bind (s : pstate) (sv : status) (u pw : N) : reply := bind_at s sv 0 u pw.

(* lib/authutil CheckLDAPUserPassword: bound -> (true, nil); an error whose text contains
   "Invalid Credentials", i.e. (go-ldap prints `LDAP Result Code 49 "Invalid Credentials":
   <diagnostic>`) result code 49 WHATEVER the diagnostic -> (false, nil); everything else is an
   error = "this server did not answer".  [interp code diag] is that middle part.  Since the repair
   the RESULT CODE is tested (ldap.IsErrorWithCode), not the text. *)
Definition interp_code (c : N) (d : diag) : option bool :=
  if N.eqb c invalid_credentials then Some false else None.
(* the code before the repair tested the error TEXT for "Invalid Credentials": go-ldap prints
   `LDAP Result Code <n> "<name of n>": <diagnostic>`, so that is result code 49 - or ANY other
   result code whose diagnostic mentions the words (refuted in Props/C07.v) *)
Definition interp_text (c : N) (d : diag) : option bool :=
  if N.eqb c invalid_credentials then Some false
  else match d with DMentions => Some false | _ => None end.
(* a reading of the diagnostic that lets only "bad password" / "no such user" count as a verdict
   (what an Active-Directory-aware refinement might do): refuted in Props/C07.v *)
Definition interp_ad (c : N) (d : diag) : option bool :=
  if N.eqb c invalid_credentials
  then match d with
       | DAD sub => if N.eqb sub 1326 || N.eqb sub 1317 then Some false else None   (* 0x52e, 0x525 *)
       | _ => Some false
       end
  else None.

Definition verdict (interp : N -> diag -> option bool) (r : reply) : option bool :=
  match r with
  | RBound => Some true
  | RRefused c d => interp c d
  | RSilent => None
  end.

(* the double loop of passwordAuthenticate: for every URL, for every bind pattern; the first
   attempt that answers decides *)
Fixpoint try_patterns (interp : N -> diag -> option bool) (s : pstate) (sv : status) (ps : list nat) (u pw : N) : option bool :=
  match ps with
  | [] => None
  | p :: r => match verdict interp (bind_at s sv p u pw) with
              | Some v => Some v
              | None => try_patterns interp s sv r u pw
              end
  end.
Definition patterns (s : pstate) : list nat := seq 0 (S (extra_patterns s)).
Fixpoint first_answer_gen (interp : N -> diag -> option bool) (s : pstate) (svs : list status) (u pw : N) : option bool :=
  match svs with
  | [] => None
  | sv :: r => match try_patterns interp s sv (patterns s) u pw with
               | Some v => Some v
               | None => first_answer_gen interp s r u pw
               end
  end.
Definition first_answer := first_answer_gen interp_code.

Inductive got := GNone | GErr | GOk (j : jws).

(* GetSigned: the row of the store that answers (primary, or the cache when the primary read
   times out) with expiration_epoch > now, then the JWT checks *)
Definition jws_valid (claim_checked : bool) (now : Z) (j : jws) : bool :=
  j_genuine j && (j_nbf j <=? now) && (negb claim_checked || (now <? j_exp j)).

Definition get_pw (claim_checked : bool) (s : pstate) (u : N) : got :=
  match get_signed (st s) u pw_type with
  | None => GNone
  | Some r =>
      match nth_error (jwss s) (N.to_nat (sr_data r)) with
      | None => GErr
      | Some j =>
          if negb (jws_valid claim_checked (now (st s)) j) then GErr
          else if negb (N.eqb (j_sub j) u) then GErr      (* "inconsistent data coming from DB" *)
          else GOk j
      end
  end.

Definition with_st (s : pstate) (x : state) : pstate := mk_pstate x (dir s) (servers s) (jwss s) (acct s) (style s) (extra_patterns s) (homes s).

(* UpsertSigned(u, 1, now+96h, hash): a new signed record, stored in the primary (and, since
   the repair, repeated on the local cache); nothing happens when the primary cannot be written *)
Definition refresh (stp : state -> op -> state * out) (s : pstate) (u pw : N) : pstate :=
  if writable (st s) then
    let id := N.of_nat (length (jwss s)) in
    let n := now (st s) in
    mk_pstate (fst (stp (st s) (Upsert u pw_type id (n + cache_secs))))
              (dir s) (servers s)
              (jwss s ++ [mk_jws true u pw n (n + cache_secs)]) (acct s) (style s) (extra_patterns s) (homes s)
  else s.

(* DeleteSigned(u, 1) *)
Definition evict (stp : state -> op -> state * out) (s : pstate) (u : N) : pstate :=
  with_st s (fst (stp (st s) (DelSigned u pw_type))).

(* passwordAuthenticate u pw (u already normalised) *)
Definition login_gen (claim_checked : bool) (interp : N -> diag -> option bool) (stp : state -> op -> state * out)
           (s : pstate) (u pw : N) : pstate * bool :=
  match first_answer_gen interp s (servers s) u pw with
  | Some true => (refresh stp s u pw, true)
  | Some false =>
      (match get_pw claim_checked s u with
       | GOk j => if N.eqb (j_pw j) pw then evict stp s u else s
       | _ => s
       end, false)
  | None =>
      (s, match get_pw claim_checked s u with
          | GOk j => N.eqb (j_pw j) pw
          | _ => false
          end)
  end.

Definition login := login_gen true interp_code step.

(* ANOTHER keymaster instance (the normal HA set-up): same signing key, same directory, the SAME
   primary database, a local cache database of its own (which plays no role for this instance).
   Its passwordAuthenticate reads and writes the shared primary over a link of its own - whatever
   this instance's view of the primary is - and its write-through goes to ITS cache, not to ours:
   a confirmed login there puts a new record into the primary only, a rejection of the password the
   primary's row hashes deletes that row from the primary only; when no replica answers it writes
   nothing. *)
Definition peer_view (s : pstate) : pstate :=
  with_st s (mk_state (primary (st s)) (cache (st s)) (now (st s)) Up).

Definition set_primary_row (s : state) (u : N) (r : option srow) : state :=
  with_primary s (set_signed (primary s) (match r with
                                          | Some r => aset skey_eqb (u, pw_type) r (signed (primary s))
                                          | None => adel skey_eqb (u, pw_type) (signed (primary s))
                                          end)).

Definition peer_login (claim_checked : bool) (interp : N -> diag -> option bool) (s : pstate) (u pw : N) : pstate :=
  match first_answer_gen interp s (servers s) u pw with
  | Some true =>
      let id := N.of_nat (length (jwss s)) in
      let n := now (st s) in
      mk_pstate (set_primary_row (st s) u (Some (mk_srow id (n + cache_secs) n)))
                (dir s) (servers s)
                (jwss s ++ [mk_jws true u pw n (n + cache_secs)]) (acct s) (style s) (extra_patterns s) (homes s)
  | Some false =>
      match get_pw claim_checked (peer_view s) u with
      | GOk j => if N.eqb (j_pw j) pw then with_st s (set_primary_row (st s) u None) else s
      | _ => s
      end
  | None => s
  end.

(* tampering by SQL *)
Inductive which := WPrimary | WCache.
Inductive forged_or := RExisting (id : N) | RForged (sub pw : N) (nbf exp : Z) | RDelete.

Definition put (w : which) (x : state) (u : N) (r : option srow) : state :=
  let f d := set_signed d (match r with
                           | Some r => aset skey_eqb (u, pw_type) r (signed d)
                           | None => adel skey_eqb (u, pw_type) (signed d)
                           end) in
  match w with
  | WPrimary => with_primary x (f (primary x))
  | WCache => with_cache x (f (cache x))
  end.

Inductive pop :=
| Login (u pw : N)
| SetServer (i : nat) (sv : status)
| ChangePw (u pw : N)
| PTick (dt : Z)
| PMode (m : mode)
| PSync
| Tamper (w : which) (slot : N) (r : forged_or) (col_exp : Z)
| SetAcct (u : N) (d : option diag)     (* the account is put out of order (refused with diagnostic d) / back in order *)
| SetStyle (d : diag)
| SetHome (u : N) (p : nat)             (* the user's entry lives under bind pattern number p *)
| PeerLogin (u pw : N).                 (* a login of (u, pw) processed by another instance sharing the primary *)

Fixpoint set_nth {A} (i : nat) (v : A) (l : list A) : list A :=
  match l, i with
  | [], _ => []
  | _ :: r, O => v :: r
  | x :: r, S i' => x :: set_nth i' v r
  end.

Definition pstep_gen (claim_checked : bool) (interp : N -> diag -> option bool) (stp : state -> op -> state * out)
           (s : pstate) (o : pop) : pstate * option bool :=
  match o with
  | Login u pw => let '(s', v) := login_gen claim_checked interp stp s u pw in (s', Some v)
  | SetServer i sv => (mk_pstate (st s) (dir s) (set_nth i sv (servers s)) (jwss s) (acct s) (style s) (extra_patterns s) (homes s), None)
  | ChangePw u pw => (mk_pstate (st s) (aset N.eqb u pw (dir s)) (servers s) (jwss s) (acct s) (style s) (extra_patterns s) (homes s), None)
  | SetAcct u d => (mk_pstate (st s) (dir s) (servers s) (jwss s)
                              (match d with Some x => aset N.eqb u x (acct s) | None => adel N.eqb u (acct s) end) (style s)
                              (extra_patterns s) (homes s), None)
  | SetStyle d => (mk_pstate (st s) (dir s) (servers s) (jwss s) (acct s) d (extra_patterns s) (homes s), None)
  | SetHome u p => (mk_pstate (st s) (dir s) (servers s) (jwss s) (acct s) (style s) (extra_patterns s)
                              (aset N.eqb u p (homes s)), None)
  | PeerLogin u pw => (peer_login claim_checked interp s u pw, None)
  | PTick dt => (with_st s (fst (stp (st s) (Tick (Z.max 0 dt)))), None)
  | PMode m => (with_st s (fst (stp (st s) (SetMode m))), None)
  | PSync => (with_st s (fst (stp (st s) (Sync None))), None)
  | Tamper w slot r col =>
      match r with
      | RExisting id => (with_st s (put w (st s) slot (Some (mk_srow id col 0))), None)
      | RForged sub pw nbf ex =>
          (mk_pstate (put w (st s) slot (Some (mk_srow (N.of_nat (length (jwss s))) col 0)))
                     (dir s) (servers s) (jwss s ++ [mk_jws false sub pw nbf ex]) (acct s) (style s) (extra_patterns s) (homes s), None)
      | RDelete => (with_st s (put w (st s) slot None), None)
      end
  end.

Definition pstep := pstep_gen true interp_code step.
(* the diagnostic-sensitive reading, otherwise the same machine *)
Definition pstep_ad := pstep_gen true interp_ad step.
(* the text test of the code before the repair, otherwise the same machine *)
Definition pstep_text := pstep_gen true interp_text step.

Definition prun (n : nat) (ops : list pop) : pstate :=
  fold_left (fun s o => fst (pstep s o)) ops (pinit n).

(* the code before the repairs: signed exp claim not looked at, eviction and refresh in the
   primary only, synchronisation that never deletes (Storage.step_old) *)
Definition pstep_old := pstep_gen false interp_code (step_old false).
Definition prun_old (n : nat) (ops : list pop) : pstate :=
  fold_left (fun s o => fst (pstep_old s o)) ops (pinit n).

(* ------------------------------------------------------------------ the other backends *)
(* app.go reprocessUsername: lower-casing (usernames are byte strings here) *)
Definition lower (c : N) : N := if (65 <=? c)%N && (c <=? 90)%N then (c + 32)%N else c.
Definition normalise (u : list N) : list N := map lower u.
(* htpassword / command: the verdict of the file / the command on the normalised name *)
Definition backend_login (backend : list N -> list N -> bool) (raw_user pw : list N) : bool :=
  backend (normalise raw_user) pw.

(* ------------------------------------------------------------------ case-file evaluation *)
Fixpoint prun_outs (s : pstate) (ops : list pop) : list (pstate * option bool) :=
  match ops with
  | [] => []
  | o :: r => let '(s1, x) := pstep s o in (s1, x) :: prun_outs s1 r
  end.

Definition obool_eqb (a b : option bool) : bool :=
  match a, b with Some x, Some y => Bool.eqb x y | None, None => true | _, _ => false end.

(* ops, the verdict of each login (None for other ops), snapshots of both stores *)
Definition pw_case := ((nat * nat) * list pop * list (option bool) * list (nat * db * db))%type.

Definition pw_case_ok (c : pw_case) : bool :=
  let '((n, extra), ops, outs, snaps) := c in
  let tr := prun_outs (pinit2 n extra) ops in
  list_eqb obool_eqb (map snd tr) outs &&
  forallb (fun e => let '(i, p, c) := e in
                    match nth_error tr i with
                    | Some (s, _) => same_db (primary (st s)) p && same_db (cache (st s)) c
                    | None => false
                    end) snaps.

(* ------------------------------------------------------------------ the property's predicates on an OBSERVED history *)
(* Evaluated on the case file's observations (verdicts, snapshots of both stores after every op);
   of the model only the environment's part of the state is used (which replicas are up, the
   primary's mode: inputs carried by the ops) and the table of records (their numbers are the
   harness's). *)
Definition row_of (d : db) (u : N) : option srow := aget skey_eqb (u, pw_type) (signed d).

Fixpoint snap_at (snaps : list (nat * db * db)) (i : nat) : option (db * db) :=
  match snaps with
  | [] => None
  | (k, p, c) :: r => if Nat.eqb k i then Some (p, c) else snap_at r i
  end.

Definition is_up (sv : status) : bool := match sv with SUp => true | _ => false end.

(* conclusion of c07_outage_login_pure, on the observation: a login during which no replica was up
   left the user's row (record, expiry) in both stores as it was *)
Definition outage_login_renewed (c : pw_case) : bool :=
  let '((n, extra), ops, outs, snaps) := c in
  let fix go (s : pstate) (ops : list pop) (i : nat) : bool :=
    match ops with
    | [] => false
    | o :: r =>
        (match o, i with
         | Login u pw, S i' =>
             negb (existsb is_up (servers s)) &&
             match snap_at snaps i', snap_at snaps i with
             | Some (p0, c0), Some (p1, c1) =>
                 negb (opt_eqb srow_eqb (row_of p0 u) (row_of p1 u)) || negb (opt_eqb srow_eqb (row_of c0 u) (row_of c1 u))
             | _, _ => false
             end
         | _, _ => false
         end) || go (fst (pstep s o)) r (S i)
    end in
  go (pinit2 n extra) ops O.

(* conclusion of c07_primary_row_decides, on the observation: a login that no replica answered
   while the primary answers (mode Up) was ACCEPTED although the primary's row of the user, as
   observed just before, is absent, expired, or not a genuine current record of this user hashing
   this password *)
(* [tbl] = the records as the HARNESS numbered them (the numbers the snapshots use), so that the
   predicate does not depend on the model's own table when the implementation wrote records the
   model would not have written *)
Definition stale_cache_decided (tbl : list jws) (c : pw_case) : bool :=
  let '((n, extra), ops, outs, snaps) := c in
  let fix go (s : pstate) (ops : list pop) (outs : list (option bool)) (i : nat) : bool :=
    match ops, outs with
    | o :: r, v :: outs' =>
        (match o, i, v with
         | Login u pw, S i', Some true =>
             negb (existsb is_up (servers s)) && mode_eqb (pmode (st s)) Up &&
             match snap_at snaps i' with
             | Some (p0, _) =>
                 match row_of p0 u with
                 | None => true
                 | Some row =>
                     negb (unexpired (now (st s)) row) ||
                     match nth_error tbl (N.to_nat (sr_data row)) with
                     | None => false
                     | Some j => negb (jws_valid true (now (st s)) j && N.eqb (j_sub j) u && N.eqb (j_pw j) pw)
                     end
                 end
             | None => false
             end
         | _, _, _ => false
         end) || go (fst (pstep s o)) r outs' (S i)
    | _, _ => false
    end in
  go (pinit2 n extra) ops outs O.

(* conclusion of c07_refresh / c07_refresh_whatever_was_stored, on the observation: after a login
   that a replica answered (inputs), that the directory accepts (inputs: its content, the account
   states) and that was ACCEPTED while the primary can be written (input), the user's row in BOTH
   stores - as observed just after the login - is an unexpired row whose record (in the HARNESS's
   table) is a genuine current hash of the password just accepted, for this user: whatever was
   stored before and however recently it was stored.  A row whose record the harness could not
   number is not judged. *)
Definition fresh_hash_of (tbl : list jws) (now : Z) (u pw : N) (d : db) : bool :=
  match row_of d u with
  | None => false
  | Some row =>
      unexpired now row &&
      match nth_error tbl (N.to_nat (sr_data row)) with
      | None => true
      | Some j => jws_valid true now j && N.eqb (j_sub j) u && N.eqb (j_pw j) pw
      end
  end.

Definition accepted_login_not_refreshed (tbl : list jws) (c : pw_case) : bool :=
  let '((n, extra), ops, outs, snaps) := c in
  let fix go (s : pstate) (ops : list pop) (outs : list (option bool)) (i : nat) : bool :=
    match ops, outs with
    | o :: r, v :: outs' =>
        (match o, v with
         | Login u pw, Some true =>
             existsb is_up (servers s) && dir_accepts s u pw && writable (st s) &&
             match snap_at snaps i with
             | Some (p1, c1) =>
                 negb (fresh_hash_of tbl (now (st s)) u pw p1 && fresh_hash_of tbl (now (st s)) u pw c1)
             | None => false
             end
         | _, _ => false
         end) || go (fst (pstep s o)) r outs' (S i)
    | _, _ => false
    end in
  go (pinit2 n extra) ops outs O.
