(* C19 — the keymaster client: what it puts on the wire, where private keys go, how certificates
   are installed in the SSH agent, and which key types it offers.

   cmd/keymaster/signers.go   makeSigners / compute      three signers: X509, SshMain, SshEd25519
   cmd/keymaster/main.go      setupCerts, insertSSHCertIntoAgentORWriteToFilesystem, makeDirs
   lib/client/twofa/twofa.go  authenticateUser, doCertRequest, createKeyBodyRequest
   lib/client/sshagent/agent.go  deleteDuplicateEntries, withAddedKeyUpsertCertIntoAgentConnection
   cmd/keymasterd/certgen.go  getValidSSHPublicKey (pattern alternatives, regenerated) *)
From Coq Require Import String.
From KM Require Import Base.Bytes Model.KeyStrength.
Open Scope N_scope.

(* ------------------------------------------------------------------ key types *)

Inductive pref := PrefRSA | PrefP256 | PrefP384.          (* -preferredKeyType rsa | p256 | p384 *)
Inductive keytype := KRsa | KP256 | KP384 | KEd25519.

(* signers.compute: X509 and SshMain are of the preferred type, SshEd25519 always exists *)
Definition main_type (p : pref) : keytype :=
  match p with PrefRSA => KRsa | PrefP256 => KP256 | PrefP384 => KP384 end.
Definition offered_ssh (p : pref) : list keytype := [main_type p; KEd25519].
Definition offered_x509 (p : pref) : list keytype := [main_type p].

(* the algorithm name at the start of the authorized_keys line ssh.MarshalAuthorizedKey writes *)
Definition ssh_name (t : keytype) : string :=
  match t with
  | KRsa => "ssh-rsa" | KP256 => "ecdsa-sha2-nistp256" | KP384 => "ecdsa-sha2-nistp384"
  | KEd25519 => "ssh-ed25519"
  end.

(* what the C10 predicate sees; rsa_bits = rsaKeySize of cmd/keymaster/main.go (regenerated),
   65537 = the exponent crypto/rsa.GenerateKey always uses *)
Definition desc (rsa_bits : N) (t : keytype) : keydesc :=
  match t with
  | KRsa => RSA rsa_bits 65537 | KP256 => ECDSA P256 | KP384 => ECDSA P384 | KEd25519 => Ed25519
  end.

(* getValidSSHPublicKey: the line must start with one of the pattern's alternatives, then the
   parsed key must pass ValidatePublicKeyStrength; the X.509 handler applies only the latter *)
Definition server_accepts_ssh (alts : list string) (rsa_bits : N) (t : keytype) : bool :=
  existsb (String.eqb (ssh_name t)) alts && validate (desc rsa_bits t).
Definition server_accepts_x509 (rsa_bits : N) (t : keytype) : bool := validate (desc rsa_bits t).

Definition all_prefs : list pref := [PrefRSA; PrefP256; PrefP384].
Definition offered_all_accepted (alts : list string) (rsa_bits : N) : bool :=
  forallb (fun p => forallb (server_accepts_ssh alts rsa_bits) (offered_ssh p) &&
                    forallb (server_accepts_x509 rsa_bits) (offered_x509 p)) all_prefs.

(* ------------------------------------------------------------------ tagged values *)

Inductive keyid := KX509 | KSshMain | KSshEd.   (* the three fields of `signers` *)

Inductive atom :=
| APriv (k : keyid)      (* any encoding of the private half *)
| APub (k : keyid)       (* any encoding of the public half *)
| ACert (k : keyid)      (* a certificate for that key *)
| ASecret                (* the password *)
| AText.                 (* user name, duration, URLs, ... *)

(* a crypto.Signer: both halves are reachable from it *)
Record signer := mkSigner { s_priv : atom; s_pub : atom }.
Definition make_signer (k : keyid) : signer := mkSigner (APriv k) (APub k).
Definition public (s : signer) : atom := s_pub s.      (* signer.Public() *)

Record signers := mkSigners { sg_x509 : signer; sg_ssh : signer; sg_ed : signer }.
Definition make_signers : signers :=
  mkSigners (make_signer KX509) (make_signer KSshMain) (make_signer KSshEd).

(* encodings keep the tag: PKIX+PEM, authorized_keys line, PKCS#8, OpenSSH private format *)
Definition encode (a : atom) : atom := a.

Inductive certtype := CtX509 | CtK8s | CtSsh.
Inductive reqkind := RqPreconnect | RqLogin | RqSecondFactor | RqCert (ct : certtype) | RqVerifyToken.
Record request := mkReq { r_kind : reqkind; r_body : list atom }.

(* twofa.createKeyBodyRequest: multipart with the key file and the duration field *)
Definition create_key_body_request (filedata : atom) : list atom := [filedata; AText].

(* twofa.doCertRequest: pubKey := signer.Public(); serialise pubKey; POST it *)
Definition do_cert_request (s : signer) (ct : certtype) : request :=
  let pub_key := public s in
  mkReq (RqCert ct) (create_key_body_request (encode pub_key)).

(* twofa.authenticateUser (password only): form with user name and password *)
Definition authenticate_user : request := mkReq RqLogin [AText; ASecret].

(* totp.doTOTPAuthenticate (and the other one-time-code prompts): a form with the code *)
Definition second_factor : request := mkReq RqSecondFactor [ASecret].

(* setupCerts: pre-connect, login (with a one-time code when the server asks for a second factor),
   then the four certificate requests in this order *)
Definition setup_wire2 (otp : bool) (sg : signers) : list request :=
  [ mkReq RqPreconnect []; authenticate_user ] ++
  (if otp then [second_factor] else []) ++
  [ do_cert_request (sg_x509 sg) CtX509;
    do_cert_request (sg_x509 sg) CtK8s;
    do_cert_request (sg_ssh sg) CtSsh;
    do_cert_request (sg_ed sg) CtSsh ].
Definition setup_wire (sg : signers) : list request := setup_wire2 false sg.

(* web-browser login (lib/client/webauth, -webauthBrowser): the client never sees the password; it holds the CLI
   token the user obtained in the browser (typed at the prompt or stored in ~/.keymaster/<prefix>.webtoken),
   checks it with webauth.verifyToken (GET /verifyAuthToken?token=...), hands it to the browser in the
   /sendAuthDocument URL and receives the authentication cookie on a local listener; then the same four
   certificate requests.  The token is a bearer secret of the user, like the password. *)
Definition verify_token : request := mkReq RqVerifyToken [ASecret].
Definition browser_url : list atom := [AText; AText; ASecret].      (* port, user, token: the command line of the browser *)
Definition setup_wire_web (sg : signers) : list request :=
  [ mkReq RqPreconnect []; verify_token;
    do_cert_request (sg_x509 sg) CtX509;
    do_cert_request (sg_x509 sg) CtK8s;
    do_cert_request (sg_ssh sg) CtSsh;
    do_cert_request (sg_ed sg) CtSsh ].

Definition is_priv (a : atom) : bool := match a with APriv _ => true | _ => false end.
Definition wire_atoms (w : list request) : list atom := flat_map r_body w.

(* ------------------------------------------------------------------ local installation *)

Inductive sink :=
| SAgent (label : string) (key : atom) (cert : atom)
| SFile (path : string) (mode : N) (content : list atom).

Definition pref_name (p : pref) : string :=
  match p with PrefRSA => "rsa" | PrefP256 => "p256" | PrefP384 => "p384" end.

(* insertSSHCertIntoAgentORWriteToFilesystem: the agent when it takes the key, else two files *)
Definition install_ssh (agent_ok : bool) (suffix : string) (user : string) (s : signer) (k : keyid) : list sink :=
  if agent_ok
  then [SAgent ("keymaster-" ++ suffix ++ "-" ++ user) (s_priv s) (ACert k)]
  else [SFile (".ssh/keymaster-" ++ suffix) 384 [encode (s_priv s)];
        SFile (".ssh/keymaster-" ++ suffix ++ "-cert.pub") 420 [ACert k]].

(* setupCerts after the requests; ed_ok / k8s_ok: did the server issue the optional certificates *)
Definition install (sg : signers) (p : pref) (user : string) (agent_ok ed_ok k8s_ok : bool) : list sink :=
  (if ed_ok then install_ssh agent_ok "ed25519" user (sg_ed sg) KSshEd else []) ++
  install_ssh agent_ok (pref_name p) user (sg_ssh sg) KSshMain ++
  [SFile ".ssl/keymaster.key" 384 [encode (s_priv (sg_x509 sg))];
   SFile ".ssl/keymaster.cert" 420 [ACert KX509]] ++
  (if k8s_ok then [SFile ".ssl/keymaster-kubernetes.cert" 420 [ACert KX509]] else []).

Definition sink_private_ok (s : sink) : bool :=
  match s with
  | SAgent _ _ _ => true
  | SFile _ mode content => negb (existsb is_priv content) || (mode =? 384)   (* 0600 *)
  end.

Fixpoint files_of (l : list sink) : list (string * N * bool) :=
  match l with
  | [] => []
  | SFile p m c :: r => (p, m, existsb is_priv c) :: files_of r
  | _ :: r => files_of r
  end.
Fixpoint labels_of (l : list sink) : list string :=
  match l with
  | [] => []
  | SAgent lab _ _ :: r => lab :: labels_of r
  | _ :: r => labels_of r
  end.

(* ------------------------------------------------------------------ the mode of a key file *)
(* ioutil.WriteFile(path, data, perm): a file that is already there keeps its mode (perm is used only
   when the file is created, masked by the umask) *)
Definition write_file (existing : option N) (umask perm : N) : N :=
  match existing with Some m => m | None => N.ldiff perm umask end.
(* the client's private-key files: the mode of a file that is already there is set to 0600 before
   the key is written into it *)
Definition write_private (existing : option N) (umask : N) : N :=
  write_file (match existing with Some _ => Some 384 | None => None end) umask 384.
(* accessible to group or others *)
Definition others_bits (m : N) : N := N.land m 63.

(* ------------------------------------------------------------------ the agent *)

Record entry := mkEntry { e_comment : bs; e_blob : bs; e_cert : bool }.
Definition agent := list entry.

(* ssh-agent semantics (x/crypto keyring, OpenSSH): identities are keyed by their public blob *)
Definition agent_remove (b : bs) (a : agent) : agent :=
  filter (fun e => negb (bs_eqb (e_blob e) b)) a.
Fixpoint agent_add (n : entry) (a : agent) : agent :=
  match a with
  | [] => [n]
  | e :: r => if bs_eqb (e_blob e) (e_blob n) then n :: r else e :: agent_add n r
  end.

(* deleteDuplicateEntries: over the List() snapshot, every CERTIFICATE whose comment is the label
   is removed by its blob; plain keys and other labels are skipped *)
Definition is_dup (c : bs) (e : entry) : bool := e_cert e && bs_eqb (e_comment e) c.
Definition delete_step (c : bs) (acc : agent) (e : entry) : agent :=
  if is_dup c e then agent_remove (e_blob e) acc else acc.
Definition delete_duplicates (c : bs) (a : agent) : agent := fold_left (delete_step c) a a.

(* withAddedKeyUpsertCertIntoAgentConnection *)
Definition upsert (n : entry) (a : agent) : agent := agent_add n (delete_duplicates (e_comment n) a).

(* The same with an agent that may fail: the List call, the k-th Remove call (counted from 0 within
   one upsert) or the Add call may be refused.  A refused call has no effect on the agent.
   deleteDuplicateEntries returns the first error (the loop stops there), and
   withAddedKeyUpsertCertIntoAgentConnection returns it without adding. *)
Record faults := mkFaults { f_list : bool; f_remove : nat -> bool; f_add : bool }.
Definition no_faults : faults := mkFaults false (fun _ => false) false.

Fixpoint delete_faulty (c : bs) (fr : nat -> bool) (k : nat) (snapshot : list entry) (acc : agent) : agent * bool :=
  match snapshot with
  | [] => (acc, true)
  | e :: r =>
      if is_dup c e then
        if fr k then (acc, false)
        else delete_faulty c fr (S k) r (agent_remove (e_blob e) acc)
      else delete_faulty c fr k r acc
  end.

(* (agent afterwards, did the call report success); `snap` is the listing the agent returned, in
   the agent's order *)
Definition upsert_faulty_on (snap : list entry) (f : faults) (n : entry) (a : agent) : agent * bool :=
  if f_list f then (a, false)
  else
    let '(a1, ok) := delete_faulty (e_comment n) (f_remove f) 0 snap a in
    if ok then (if f_add f then (a1, false) else (agent_add n a1, true)) else (a1, false).
Definition upsert_faulty (f : faults) (n : entry) (a : agent) : agent * bool := upsert_faulty_on a f n a.

(* NOT the code: the clean-up treated as best effort — its error is ignored and the certificate added anyway *)
Definition upsert_best_effort (f : faults) (n : entry) (a : agent) : agent * bool :=
  if f_list f then (if f_add f then (a, false) else (agent_add n a, true))
  else
    let '(a1, _) := delete_faulty (e_comment n) (f_remove f) 0 a a in
    if f_add f then (a1, false) else (agent_add n a1, true).

Definition entry_eqb (x y : entry) : bool :=
  bs_eqb (e_comment x) (e_comment y) && bs_eqb (e_blob x) (e_blob y) && Bool.eqb (e_cert x) (e_cert y).

(* correspondence: operations on an agent and the listing after each *)
Inductive aop :=
| AForeign (e : entry)      (* somebody else adds an identity (ssh-add) *)
| AUpsert (e : entry)       (* the client installs a certificate *)
| AUpsertF (fl : bool) (fr : N) (fa : bool) (e : entry) (snap : agent) (ok : bool).
   (* the same against a failing agent: List refused / the (fr-1)-th Remove refused (0 = none) / Add refused;
      snap = the listing the agent returned, in ITS order (which of several certificates is removed
      before a refused Remove depends on it; the x/crypto keyring reorders on removal);
      ok = the call was observed to report success *)
Definition faults_of (fl : bool) (fr : N) (fa : bool) : faults :=
  mkFaults fl (fun k => negb (fr =? 0) && (N.of_nat k =? fr - 1)) fa.
Definition astep (a : agent) (o : aop) : agent :=
  match o with
  | AForeign e => agent_add e a
  | AUpsert e => upsert e a
  | AUpsertF fl fr fa e snap _ => fst (upsert_faulty_on snap (faults_of fl fr fa) e a)
  end.

Definition same_entries (x y : agent) : bool :=
  Nat.eqb (length x) (length y) && forallb (fun e => existsb (entry_eqb e) y) x &&
  forallb (fun e => existsb (entry_eqb e) x) y.

(* the returned listing is the model's agent content (as a set), and the success flag is as predicted *)
Definition aok (a : agent) (o : aop) : bool :=
  match o with
  | AUpsertF fl fr fa e snap ok =>
      (fl || same_entries snap a) && Bool.eqb (snd (upsert_faulty_on snap (faults_of fl fr fa) e a)) ok
  | _ => true
  end.

Fixpoint acheck (a : agent) (ops : list (aop * agent)) : bool :=
  match ops with
  | [] => true
  | (o, listing) :: r => let a' := astep a o in same_entries a' listing && aok a o && acheck a' r
  end.

(* ------------------------------------------------------------------ correspondence of one client run *)

(* observed request: kind code and atom codes, as the harness classifies the recorded bytes
   kind: 0 pre-connect, 1 login, 2 x509, 3 kubernetes, 4 ssh, 5 one-time code, 6 CLI-token verification;  atoms: 10+k private of key k,
   20+k public of key k (k: 0 X509, 1 SshMain, 2 SshEd), 1 password, 0 other text *)
Definition kind_code (k : reqkind) : N :=
  match k with RqPreconnect => 0 | RqLogin => 1 | RqCert CtX509 => 2 | RqCert CtK8s => 3 | RqCert CtSsh => 4 | RqSecondFactor => 5 | RqVerifyToken => 6 end.
Definition keyid_code (k : keyid) : N := match k with KX509 => 0 | KSshMain => 1 | KSshEd => 2 end.
Definition atom_code (a : atom) : N :=
  match a with
  | APriv k => 10 + keyid_code k | APub k => 20 + keyid_code k | ACert k => 30 + keyid_code k
  | ASecret => 1 | AText => 0
  end.
(* the harness reports only key material and the password, not plain text *)
Definition visible (a : atom) : bool := match a with AText => false | _ => true end.
Definition req_code (r : request) : N * list N := (kind_code (r_kind r), map atom_code (filter visible (r_body r))).

Fixpoint nlist_eqb (a b : list N) : bool :=
  match a, b with
  | [], [] => true
  | x :: a', y :: b' => (x =? y) && nlist_eqb a' b'
  | _, _ => false
  end.
Fixpoint wire_eqb (a b : list (N * list N)) : bool :=
  match a, b with
  | [], [] => true
  | (k, l) :: a', (k', l') :: b' => (k =? k') && nlist_eqb l l' && wire_eqb a' b'
  | _, _ => false
  end.

Fixpoint files_sub (a b : list (string * N * bool)) : bool :=
  match a with
  | [] => true
  | (p, m, pr) :: r =>
      existsb (fun x => let '(p', m', pr') := x in String.eqb p p' && (m =? m') && Bool.eqb pr pr') b && files_sub r b
  end.
Definition files_same (a b : list (string * N * bool)) : bool :=
  Nat.eqb (length a) (length b) && files_sub a b && files_sub b a.

Fixpoint strings_sub (a b : list string) : bool :=
  match a with [] => true | x :: r => existsb (String.eqb x) b && strings_sub r b end.

(* one run of setupCerts as observed: (preference code, agent present, ed25519 issued, kubernetes
   issued, one-time code asked, user, recorded requests, files under HOME, labels of the certificates added to the agent) *)
Definition pref_of_code (n : N) : pref := if n =? 0 then PrefRSA else if n =? 1 then PrefP256 else PrefP384.
Definition run_matches (c : N * bool * bool * bool * bool * string * list (N * list N) * list (string * N * bool) * list string) : bool :=
  let '(pc, agent_ok, ed_ok, k8s_ok, otp, user, wire, files, labels) := c in
  let sg := make_signers in
  let sinks := install sg (pref_of_code pc) user agent_ok ed_ok k8s_ok in
  wire_eqb (map req_code (setup_wire2 otp sg)) wire &&
  files_same (files_of sinks) files &&
  strings_sub (labels_of sinks) labels && strings_sub labels (labels_of sinks).

(* one run of setupCerts with the web-browser login, as observed: (preference code, agent present, ed25519 issued,
   kubernetes issued, user, recorded requests of the client's own transport, files under HOME, agent labels) *)
Definition web_run_matches (c : N * bool * bool * bool * string * list (N * list N) * list (string * N * bool) * list string) : bool :=
  let '(pc, agent_ok, ed_ok, k8s_ok, user, wire, files, labels) := c in
  let sg := make_signers in
  let sinks := install sg (pref_of_code pc) user agent_ok ed_ok k8s_ok in
  wire_eqb (map req_code (setup_wire_web sg)) wire &&
  files_same (files_of sinks) files &&
  strings_sub (labels_of sinks) labels && strings_sub labels (labels_of sinks).
