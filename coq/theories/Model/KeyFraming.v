(* C10 - the byte-level FRAMING of an uploaded key: what sits in front of / behind the text of a key file
   (byte order marks of UTF-8 / UTF-16 / UTF-32, NUL bytes, a gzip magic, a stray byte), where the text is
   cut (odd / even lengths), and the text transcoded to UTF-16 with or without a mark.
   The code as it stands does not look at the framing at all: the uploaded bytes go to the parser of the path
   (regular expression + ssh.ParseAuthorizedKey, pem.Decode + x509.ParsePKIXPublicKey) as they are, and a
   framed upload is simply not a key (400).  A front end that NORMALISES the encoding (strips a UTF-8 mark,
   transcodes UTF-16 recognised by its mark) is keymaster's own code on the raw bytes, in front of the
   parsers: it has to be total.  Consuming UTF-16 two bytes at a time is where it can go wrong: an ODD
   number of bytes after the mark (a file that lost its last byte, one stray byte appended) - reading a
   code unit out of a one-byte slice panics in Go; modelled with the explicit Panic outcome of
   Model/ClaimAccess.  Which normalisations a path performs is observed per path on every run
   ([normcfg], like the [consults] bit of the deny list); today all three bits are false. *)
From Coq Require Import NArith List Bool.
From KM Require Import Base.Bytes Model.KeyStrength Model.ClaimAccess.
Import ListNotations.

(* a framing of an upload: bytes in front, the body cut short by [cut] bytes, bytes behind *)
Definition frame (pre suf : bs) (cut : nat) (body : bs) : bs :=
  pre ++ firstn (length body - cut) body ++ suf.

Definition utf8_mark : bs := [239; 187; 191].
Definition utf16le_mark : bs := [255; 254].
Definition utf16be_mark : bs := [254; 255].

(* one UTF-16 code unit as UTF-8 (pairs of surrogates are not combined: the content of the transcoded text
   is not compared with the code, only whether there is one) *)
Definition utf8_of_unit (u : N) : bs :=
  if u <? 128 then [u]
  else if u <? 2048 then [192 + u / 64; 128 + u mod 64]
  else [224 + u / 4096; 128 + (u / 64) mod 64; 128 + u mod 64].

(* for len(data) > 0 { unit := order.Uint16(data); data = data[2:] }
   [guarded]: the length is tested before a unit is read (odd = refuse); unguarded: Uint16 of a one-byte
   slice panics *)
Fixpoint dec16 (guarded le : bool) (s : bs) : res bs :=
  match s with
  | [] => Ok []
  | [_] => if guarded then Err else Panic
  | a :: b :: r => match dec16 guarded le r with
                   | Ok t => Ok (utf8_of_unit (if le then a + 256 * b else 256 * a + b) ++ t)
                   | o => o
                   end
  end.

Record normcfg := { strip8 : bool;       (* a UTF-8 byte order mark is stripped *)
                    le16 : bool;         (* UTF-16LE, recognised by FF FE, is transcoded *)
                    be16 : bool;         (* UTF-16BE, recognised by FE FF, is transcoded *)
                    guarded16 : bool }.  (* the transcoder tests the length before it reads a unit *)
Definition norm_today : normcfg := {| strip8 := false; le16 := false; be16 := false; guarded16 := true |}.

Definition normalize (c : normcfg) (up : bs) : res bs :=
  if strip8 c && prefix_b utf8_mark up then Ok (skipn 3 up)
  else if le16 c && prefix_b utf16le_mark up then dec16 (guarded16 c) true (skipn 2 up)
  else if be16 c && prefix_b utf16be_mark up then dec16 (guarded16 c) false (skipn 2 up)
  else Ok up.

(* an issuing path that takes an uploaded key: normalise ; parse (library code: any function of the text,
   [pv] for the validator, [ps] for the signer's second parser on a path that parses twice) ; validate ; sign *)
Definition upload_pipeline (c : normcfg) (pv ps : bs -> option pkey) (p : kpath) (up : bs) : res outcome :=
  match normalize c up with
  | Ok t => Ok (pipeline_of p (pv t) (ps t))
  | Err => Ok ClientError
  | Panic => Panic
  end.

(* correspondence: (path, (strip8, le16, be16) as observed for the path, uploaded bytes, what the real parser
   of the path makes of the normalised text - for an odd UTF-16 rest: of the text without its last byte -
   as (kind, a, b), observed class 0 issued / 1 client error / 2 other, panicked) *)
Definition framing_case := (N * (bool * bool * bool) * bs * option (N * N * N) * N * bool)%type.
Definition framing_strong (k : option (N * N * N)) : bool :=
  match k with Some (kind, a, b) => validate (desc_of kind a b) | None => false end.
Definition c10_framing_bad (c : framing_case) : bool :=
  let '(p, (s8, l16, b16), up, k, cls, pan) := c in
  let v := option_map (fun d => let '(kind, a, b) := d in (1, desc_of kind a b)) k in
  match normalize {| strip8 := s8; le16 := l16; be16 := b16; guarded16 := true |} up with
  | Ok _ => match pipeline_of (kpath_of p) v v with
            | Signed _ => pan || (negb (cls =? 0) && negb (cls =? 1))     (* Ed25519 without an Ed25519 CA: 4xx *)
            | ClientError => pan || negb (cls =? 1)
            | ServerError => true
            end
  | Err => (* a refusal; a lenient transcoder that drops the odd byte may issue for a strong key *)
           pan || negb ((cls =? 1) || ((cls =? 0) && framing_strong k))
  | Panic => true
  end.
(* the property's own predicate on the observation: a panic, or an upload that is not an admissible key after
   normalisation answered with anything but a client error *)
Definition c10_framing_violates (c : framing_case) : bool :=
  let '(_, _, _, k, cls, pan) := c in
  pan || (negb (framing_strong k) && negb (cls =? 1)).
