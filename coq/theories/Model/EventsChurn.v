(* C20 — the notifier's subscriber table under churn (connections come and go).

   keymasterd/eventnotifier/impl.go  handleConnection: every connection makes its own channel, enters
   it into the transmitChannels map under a KEY, serves it, and on the way out deletes the entry with
   that key.  publishCert / transmitEvent send to every channel the TABLE holds.  A connection is
   therefore reached exactly as long as the table maps some key to it; whether that coincides with
   "is connected" depends on how keys are chosen.  The code uses the channel itself as the key (a
   value no other connection has); a table keyed by a number derived from the table's size is the
   contrasting shape.

   Executable definitions only; proofs are in Proofs/EventsChurn.v. *)
From KM Require Import Base.Bytes Model.Events.
Open Scope nat_scope.

(* one connection ever made (index in k_conns = its identity): the key it registered under, whether
   its handler is still running, and its channel (with the ghost stream `got`) *)
Record kconn := mkKC { kc_key : nat; kc_on : bool; kc_ch : chan }.

(* the table: key -> connection number *)
Record kstate := mkK { k_conns : list kconn; k_tab : list (nat * nat) }.
Definition k_init : kstate := mkK [] [].

(* delete(map, key) and map[key] = v *)
Definition tab_del (key : nat) (tab : list (nat * nat)) : list (nat * nat) :=
  filter (fun kv => negb (Nat.eqb (fst kv) key)) tab.
Definition tab_set (key v : nat) (tab : list (nat * nat)) : list (nat * nat) := tab_del key tab ++ [(key, v)].

Definition send_conn (e : event) (c : kconn) : kconn :=
  mkKC (kc_key c) (kc_on c) (snd (try_send e (kc_ch c))).
Definition recv_conn (c : kconn) : kconn := mkKC (kc_key c) (kc_on c) (recv_chan (kc_ch c)).
Definition off_conn (c : kconn) : kconn := mkKC (kc_key c) false (kc_ch c).

(* one non-blocking send per table entry, under the mutex *)
Definition kpublish (e : event) (st : kstate) : kstate :=
  mkK (fold_left (fun cs kv => update_nth (snd kv) (send_conn e) cs) (k_tab st) (k_conns st)) (k_tab st).

Inductive kop :=
| KPub (e : event)
| KRecv (i : nat)            (* connection i's goroutine takes one event *)
| KConn (capacity : nat)     (* a new connection: make(chan, bufferLength), register *)
| KDisc (i : nat).           (* connection i ends: the deferred delete *)

(* how a new connection chooses its key *)
Definition kalloc := kstate -> nat.
(* the code: the channel just made — no other connection has it; as a number, the connection's own *)
Definition kalloc_chan : kalloc := fun st => length (k_conns st).
(* the contrasting shape: "subscriber number" = table size + 1 *)
Definition kalloc_count : kalloc := fun st => S (length (k_tab st)).

Definition kstep (alloc : kalloc) (st : kstate) (o : kop) : kstate :=
  match o with
  | KPub e => kpublish e st
  | KRecv i => mkK (update_nth i recv_conn (k_conns st)) (k_tab st)
  | KConn k => let key := alloc st in
               mkK (k_conns st ++ [mkKC key true (mkChan k true [] [])])
                   (tab_set key (length (k_conns st)) (k_tab st))
  | KDisc i => match nth_error (k_conns st) i with
               | Some c => if kc_on c
                           then mkK (update_nth i off_conn (k_conns st)) (tab_del (kc_key c) (k_tab st))
                           else st
               | None => st
               end
  end.
Definition krun (alloc : kalloc) (ops : list kop) (st : kstate) : kstate := fold_left (kstep alloc) ops st.

(* what the property says connection i must have been handed: the events published while it was
   connected.  n = connections made so far, on = connection i is connected *)
Fixpoint kwindow (i n : nat) (on : bool) (ops : list kop) : list event :=
  match ops with
  | [] => []
  | KPub e :: r => if on then e :: kwindow i n on r else kwindow i n on r
  | KRecv _ :: r => kwindow i n on r
  | KConn _ :: r => kwindow i (S n) (on || Nat.eqb n i) r
  | KDisc j :: r => kwindow i n (on && negb (Nat.eqb j i)) r
  end.

Fixpoint kpubs (ops : list kop) : list event :=
  match ops with
  | [] => []
  | KPub e :: r => e :: kpubs r
  | _ :: r => kpubs r
  end.
Fixpoint kconns (ops : list kop) : nat :=
  match ops with
  | [] => 0
  | KConn _ :: r => S (kconns r)
  | _ :: r => kconns r
  end.

Fixpoint streams_eqb (a b : list (list event)) : bool :=
  match a, b with
  | [], [] => true
  | x :: a', y :: b' => events_eqb x y && streams_eqb a' b'
  | _, _ => false
  end.

(* correspondence: a history of connects / disconnects / publishes through the production
   connection path and the stream every connection was handed (in connection order) *)
Definition churn_history_ok (c : list kop * list (list event)) : bool :=
  let '(ops, obs) := c in
  streams_eqb (map (fun kc => delivered (kc_ch kc)) (k_conns (krun kalloc_chan ops k_init))) obs.

(* the property on the observation (no table involved): fewer publishes than a queue holds, and
   some connection was not handed exactly the events published while it was connected *)
Definition churn_obs_violates (c : list kop * list (list event)) : bool :=
  let '(ops, obs) := c in
  (length (kpubs ops) <=? 16) &&
  negb (streams_eqb (map (fun i => kwindow i 0 false ops) (seq 0 (kconns ops))) obs).
