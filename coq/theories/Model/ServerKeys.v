(* C19 — "every key type the client offers is one the server will certify", with the server's KEY MATERIAL as a
   dimension: which algorithm the main CA key and the optional Ed25519 CA key have and in which private-key
   FILE FORMAT the operator stored them.

   lib/certgen/certgen.go     GetSignerFromPEMBytes     PEM block type -> parser -> the Go type that comes out
   cmd/keymasterd/config.go   loadSignersFromPemData    main CA: *rsa.PrivateKey or *ecdsa.PrivateKey;
                                                        Ed25519 CA: ed25519.PrivateKey or *ed25519.PrivateKey
   cmd/keymasterd/certgen.go  postAuthSSHCertHandler    ssh-ed25519 keys are signed by the Ed25519 CA (422 when there
                                                        is none), every other type by the main CA;
                                                        ssh.NewSignerFromSigner(cryptoSigner) takes any crypto.Signer
                              postAuthX509CertHandler   getSignerX509CAForPublic: always the main CA *)
From Coq Require Import String.
From KM Require Import Base.Bytes Model.KeyStrength Model.Client.
Open Scope N_scope.

Inductive ca_alg := CaRSA | CaP256 | CaP384 | CaP521 | CaEd25519.
(* PEM block: "PRIVATE KEY" (PKCS#8), "RSA PRIVATE KEY" / "EC PRIVATE KEY" (PKCS#1 / SEC1: the traditional form
   of the algorithm), "OPENSSH PRIVATE KEY" (what ssh-keygen writes) *)
Inductive ca_format := FmtPKCS8 | FmtTraditional | FmtOpenSSH.
Record ca_file := mkCaFile { cf_alg : ca_alg; cf_format : ca_format }.

(* the dynamic type of the crypto.Signer that GetSignerFromPEMBytes returns *)
Inductive go_signer := GoPtrRSA | GoPtrECDSA | GoEd25519Value | GoEd25519Ptr.

(* GetSignerFromPEMBytes: Ed25519 has no traditional form; x509.ParsePKCS8PrivateKey yields ed25519.PrivateKey
   (a value), ssh.ParseRawPrivateKey yields *ed25519.PrivateKey (a pointer) *)
Definition load_signer (f : ca_file) : option go_signer :=
  match cf_alg f, cf_format f with
  | CaRSA, _ => Some GoPtrRSA
  | CaEd25519, FmtPKCS8 => Some GoEd25519Value
  | CaEd25519, FmtOpenSSH => Some GoEd25519Ptr
  | CaEd25519, FmtTraditional => None
  | _, _ => Some GoPtrECDSA
  end.

Definition is_main_type (g : go_signer) : bool := match g with GoPtrRSA | GoPtrECDSA => true | _ => false end.
Definition is_ed_type (g : go_signer) : bool := match g with GoEd25519Value | GoEd25519Ptr => true | _ => false end.

Record server_keys := mkServerKeys { sk_main : ca_file; sk_ed : option ca_file }.

(* loadSignersFromPemData: (main signer, Ed25519 signer) or the load is refused and the daemon does not start *)
Definition load_signers (k : server_keys) : option (go_signer * option go_signer) :=
  match load_signer (sk_main k) with
  | Some m =>
      if is_main_type m then
        match sk_ed k with
        | None => Some (m, None)
        | Some f => match load_signer f with
                    | Some e => if is_ed_type e then Some (m, Some e) else None
                    | None => None
                    end
        end
      else None
  | None => None
  end.
Definition server_loads (k : server_keys) : bool := match load_signers k with Some _ => true | None => false end.

(* the constructor of the ssh.Signer that signs certificates; `ns` says for which dynamic types it succeeds.
   The code uses ssh.NewSignerFromSigner: every crypto.Signer whose Public() is an RSA / ECDSA / Ed25519 key *)
Definition new_signer_from_signer (g : go_signer) : bool := true.
(* NOT the code: a constructor that switches on the VALUE forms the PKCS#8 loader produces *)
Definition new_signer_value_forms (g : go_signer) : bool := match g with GoEd25519Ptr => false | _ => true end.

(* answer of POST /certgen/<user>?type=ssh for a key of type t that passed authentication *)
Inductive ssh_answer := SshCertified | SshNoSuchCA | SshRefused.
Definition ssh_answer_with (ns : go_signer -> bool) (alts : list string) (rsa_bits : N)
                           (s : go_signer * option go_signer) (t : keytype) : ssh_answer :=
  if server_accepts_ssh alts rsa_bits t then
    match t with
    | KEd25519 => match snd s with
                  | None => SshNoSuchCA                                 (* 422: "key type not allowed" *)
                  | Some e => if ns e then SshCertified else SshRefused
                  end
    | _ => if ns (fst s) then SshCertified else SshRefused
    end
  else SshRefused.
Definition ssh_answer_of := ssh_answer_with new_signer_from_signer.

(* type=x509: always the main CA; x509.CreateCertificate takes the crypto.Signer as it is *)
Definition x509_certified (rsa_bits : N) (s : go_signer * option go_signer) (t : keytype) : bool :=
  server_accepts_x509 rsa_bits t.

Definition all_main_files : list ca_file :=
  [mkCaFile CaRSA FmtPKCS8; mkCaFile CaRSA FmtTraditional; mkCaFile CaRSA FmtOpenSSH;
   mkCaFile CaP256 FmtPKCS8; mkCaFile CaP256 FmtTraditional; mkCaFile CaP256 FmtOpenSSH;
   mkCaFile CaP384 FmtPKCS8; mkCaFile CaP384 FmtTraditional; mkCaFile CaP384 FmtOpenSSH;
   mkCaFile CaP521 FmtPKCS8; mkCaFile CaP521 FmtTraditional; mkCaFile CaP521 FmtOpenSSH].
Definition all_ed_files : list ca_file := [mkCaFile CaEd25519 FmtPKCS8; mkCaFile CaEd25519 FmtOpenSSH].

(* ------------------------------------------------------------------ correspondence *)
(* one server configuration of the sweep, as observed: (main alg code, main format code, Ed25519 CA: 0 none /
   1+format code with alg code, did the daemon load its keys, [(client key type, ssh answer code, x509 issued)]).
   alg: 0 rsa 1 p256 2 p384 3 p521 4 ed25519;  format: 0 PKCS#8 1 traditional 2 OpenSSH;
   answer: 0 certified, 1 no such CA (422), 2 refused *)
Definition alg_of (n : N) : ca_alg :=
  if n =? 0 then CaRSA else if n =? 1 then CaP256 else if n =? 2 then CaP384 else if n =? 3 then CaP521 else CaEd25519.
Definition fmt_of (n : N) : ca_format := if n =? 0 then FmtPKCS8 else if n =? 1 then FmtTraditional else FmtOpenSSH.
Definition kt_of (n : N) : keytype := if n =? 0 then KRsa else if n =? 1 then KP256 else if n =? 2 then KP384 else KEd25519.
Definition answer_code (x : ssh_answer) : N := match x with SshCertified => 0 | SshNoSuchCA => 1 | SshRefused => 2 end.

Definition kcase := (N * N * option (N * N) * bool * list (N * N * bool))%type.
Definition keys_of (c : kcase) : server_keys :=
  let '(ma, mf, ed, _, _) := c in
  mkServerKeys (mkCaFile (alg_of ma) (fmt_of mf))
               (match ed with None => None | Some (ea, ef) => Some (mkCaFile (alg_of ea) (fmt_of ef)) end).
Definition kcheck (alts : list string) (rsa_bits : N) (c : kcase) : bool :=
  let '(_, _, _, loaded, verdicts) := c in
  match load_signers (keys_of c) with
  | None => negb loaded
  | Some s =>
      loaded &&
      forallb (fun v : N * N * bool =>
                 let '(t, a, x) := v in
                 (answer_code (ssh_answer_of alts rsa_bits s (kt_of t)) =? a) &&
                 Bool.eqb (x509_certified rsa_bits s (kt_of t)) x) verdicts
  end.
(* the property predicate on the observation: the daemon runs with these keys and a key of a type the client
   offers got no SSH certificate although the CA for it is configured, or (main types) no X.509 certificate *)
Definition kviolates (c : kcase) : bool :=
  let '(_, _, ed, loaded, verdicts) := c in
  loaded &&
  existsb (fun v : N * N * bool =>
             let '(t, a, x) := v in
             (a =? 2) || ((a =? 1) && match ed with Some _ => true | None => negb (t =? 3) end) ||
             (negb (t =? 3) && negb x)) verdicts.
