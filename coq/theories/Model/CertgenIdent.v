(* C02 — the identity a request authenticates, on EVERY credential path, from the name as the client
   TYPED it to the name that goes into the certificate.

   Model/Certgen.v takes the authenticated subject as a number whose name is s_name; what stands
   between the typed name and that subject is here: cmd/keymasterd/app.go loginHandler (the session
   cookie a login mints), the basic-auth branch of checkAuth (the credential /certgen/ falls back to
   when no cookie is sent) and the client-certificate branch.  Each password path asks the password
   backend about ONE account - reprocessUsername of the typed name - and hands on that very account as
   the identity; the endpoint then compares the raw URL segment with it and writes it into the
   certificate.  Executable definitions only. *)
From Coq Require Import ZArith.
From KM Require Import Base.Bytes Model.Auth Model.Certgen.
From KM Require Model.Seal.
Open Scope N_scope.

(* the ways a certificate request can authenticate with a name the client chose the spelling of *)
Inductive credkind :=
| KLoginForm      (* session cookie minted by POST /api/v0/login, name and password in the form *)
| KLoginBasic     (* session cookie minted by POST /api/v0/login, name and password in an Authorization: Basic header *)
| KBasic          (* Authorization: Basic on the certificate request itself *)
| KCert           (* client certificate issued by this keymaster: the common name is the name *)
| KIpCert.        (* IP-restricted automation certificate (role CA) presented from inside its netblocks: the common
                     name is the name, if it is byte for byte a configured automation user *)

(* config.go defaultOktaUsernameFilterRegexp "@.*" applied with ReplaceAll(.., nil): every '@' and what
   follows it up to the end of the line goes ('.' does not match a line feed) *)
Fixpoint okta_at_filter_from (skipping : bool) (s : bs) : bs :=
  match s with
  | [] => []
  | c :: r =>
      if skipping then (if c =? 10 then c :: okta_at_filter_from false r else okta_at_filter_from true r)
      else if c =? 64 then okta_at_filter_from true r
      else c :: okta_at_filter_from false r
  end.
Definition okta_at_filter : bs -> bs := okta_at_filter_from false.

(* loginHandler's "minimal sanitization" of a name taken from the form: CR and LF are removed *)
Definition strip_crlf (s : bs) : bs := filter (fun c => negb ((c =? 10) || (c =? 13))) s.
Definition is_nil (s : bs) : bool := match s with [] => true | _ => false end.

Section Ident.
Variable okta : option (bs -> bs).        (* oktaUsernameFilterRE, when the Okta backend is configured *)
Variable disable : bool.                  (* disable_username_normalization *)
Variable backend : bs -> bs -> bool.      (* the password backend's verdict on (account, password) *)
Variable automation : bs -> bool.         (* isAutomationUser: the name is listed in automation_users (string equality)
                                             or a member of an automation group *)

(* what a password path did: the account the backend was asked about (None: it was not asked), and
   the identity handed on (None: refused) *)
Record pwres := { p_asked : option bs; p_identity : option bs }.

(* loginHandler, in source order: the name of the Basic header as it is, else the form's without CR/LF
   (an empty name or password in the form: 401); username = reprocessUsername(username);
   checkUserPassword(username, ...); setNewAuthCookie(w, username, AuthTypePassword) *)
Definition login_handler (from_form : bool) (typed pw : bs) : pwres :=
  let username := if from_form then strip_crlf typed else typed in
  if from_form && (is_nil username || is_nil pw) then {| p_asked := None; p_identity := None |}
  else
    let username := normalise okta disable username in
    let valid := backend username pw in
    {| p_asked := Some username; p_identity := if valid then Some username else None |}.

(* checkAuth's basic-auth branch: user = reprocessUsername(user); checkUserPassword(user, ...);
   authInfo{Username: user} *)
Definition basic_branch (typed pw : bs) : pwres :=
  let user := normalise okta disable typed in
  let valid := backend user pw in
  {| p_asked := Some user; p_identity := if valid then Some user else None |}.

(* checkAuth's certificate branch: the common name, unless it is the empty string *)
Definition cert_branch (cn : bs) : pwres :=
  {| p_asked := None; p_identity := if is_nil cn then None else Some cn |}.

(* getUsernameIfIPRestricted: the common name, if isAutomationUser says so (else the 403) *)
Definition ip_cert_branch (cn : bs) : pwres :=
  {| p_asked := None; p_identity := if is_nil cn then None else if automation cn then Some cn else None |}.

Definition cred_path (k : credkind) (typed pw : bs) : pwres :=
  match k with
  | KLoginForm => login_handler true typed pw
  | KLoginBasic => login_handler false typed pw
  | KBasic => basic_branch typed pw
  | KCert => cert_branch typed
  | KIpCert => ip_cert_branch typed
  end.

(* the identity checkAuth returns for a request authenticated this way *)
Definition identity_of (k : credkind) (typed pw : bs) : option bs := p_identity (cred_path k typed pw).

(* ---- specification side: the account a typed name stands for on each path.  A certificate's common
   name was written by this keymaster: it is the account as it stands. *)
Definition account_of (k : credkind) (typed : bs) : bs :=
  match k with
  | KLoginForm => normalise okta disable (strip_crlf typed)
  | KLoginBasic | KBasic => normalise okta disable typed
  | KCert | KIpCert => typed
  end.

(* ---- the certificate request authenticated this way, on a server st0 / request skeleton q0 (method,
   origin, URL segment, type, key, form: anything); the one subject of the request is number 1 and its
   name is the identity the credential path hands on *)
Definition with_name (st : server) (f : N -> bs) : server :=
  {| s_keys := s_keys st; s_cfg := s_cfg st; s_name := f; s_host := s_host st; s_addr := s_addr st;
     s_templates := s_templates st; s_realm := s_realm st; s_groups := s_groups st; s_methods := s_methods st |}.
Definition with_auth (q : certreq) (tls : option tlsinfo) (ck : option wtoken) (b : option basic) : certreq :=
  {| q_method := q_method q; q_origin := q_origin q; q_tls := tls; q_cookie := ck; q_basic := b;
     q_target := q_target q; q_type := q_type q; q_form_ok := q_form_ok q; q_key := q_key q;
     q_add_groups := q_add_groups q |}.
(* setNewAuthCookie(w, username, AuthTypePassword) at time `now`: this server as issuer and audience *)
Definition login_session (st : server) (now : Z) : wtoken :=
  {| w_signer_trusted := true; w_alg_allowed := true; w_tampered := false; w_iss := issuer_of st;
     w_aud := [issuer_of st]; w_kind := 0; w_nbf := now; w_exp := (now + 3600)%Z; w_iat := now;
     w_sub := 1; w_level := bPassword |}.
(* a user certificate of this keymaster: two-element chain under the main CA *)
Definition user_cert : tlsinfo :=
  {| c_chain2 := true; c_issuer := MainCA; c_issuer_key_trusted := true; c_cn := 1; c_denied := false;
     c_not_before := (-50)%Z; c_ip_error := false; c_ip_valid := false; c_automation := false;
     c_revoked := false |}.

(* an IP-restricted certificate of the role CA, presented from inside its netblocks, not revoked *)
Definition ip_cert (autom : bool) : tlsinfo :=
  {| c_chain2 := true; c_issuer := RoleCA; c_issuer_key_trusted := true; c_cn := 1; c_denied := false;
     c_not_before := (-50)%Z; c_ip_error := false; c_ip_valid := true; c_automation := autom;
     c_revoked := false |}.

Definition ident_server (st0 : server) (k : credkind) (typed pw : bs) : server :=
  with_name st0 (fun _ => match identity_of k typed pw with Some id => id | None => [] end).

Definition ident_request (st0 : server) (q0 : certreq) (now : Z) (k : credkind) (typed pw : bs) : certreq :=
  match k with
  | KLoginForm | KLoginBasic =>
      match identity_of k typed pw with
      | Some _ => with_auth q0 None (Some (login_session st0 now)) None     (* the cookie the login set *)
      | None => with_auth q0 None None None                                 (* the login set none *)
      end
  | KBasic =>
      with_auth q0 None None
        (Some {| b_user := 1; b_ok := match identity_of k typed pw with Some _ => true | None => false end; b_err := false |})
  | KCert => with_auth q0 (Some user_cert) None None
  | KIpCert => with_auth q0 (Some (ip_cert (automation typed))) None None
  end.

Variable expand : bs -> bs -> option bs.
Definition ident_certgen (st0 : server) (q0 : certreq) (now : Z) (k : credkind) (typed pw : bs) : outcome :=
  certgen expand (ident_server st0 k typed pw) now true (ident_request st0 q0 now k typed pw).
End Ident.

(* ---- the basic-auth branch as a change of the fourth wave left it (kept for the refutation witness):
   the password is checked for the normalised account, the identity handed on is the name as typed *)
Definition basic_branch_typed (okta : option (bs -> bs)) (disable : bool) (backend : bs -> bs -> bool) (typed pw : bs) : pwres :=
  let account := normalise okta disable typed in
  {| p_asked := Some account; p_identity := if backend account pw then Some typed else None |}.

Definition kind_of_index (i : N) : credkind :=
  if i =? 1 then KLoginForm else if i =? 2 then KLoginBasic else if i =? 3 then KBasic
  else if i =? 5 then KIpCert else KCert.
Definition password_kind (k : credkind) : bool :=
  match k with KLoginForm | KLoginBasic | KBasic => true | _ => false end.
