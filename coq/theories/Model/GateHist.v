(* C06 — the gate over the LIFE of a daemon.  A daemon answers requests one after the other; whatever it keeps
   between two requests is its gate memory.  The gate of the tree keeps NOTHING: the verdict on a request is a
   function of that request (method, origin, the connection's verified chains and TCP peer, auth_cookie,
   Authorization header), the clock, the limiter, the configuration (deny list) and the mask the handler
   passes - never of what the daemon has answered before.  [memo_step] is NOT the code of the tree: a gate that
   remembers the certificates it has matched to a keymaster signer under a key [kf] of the leaf and consults the
   memory before it looks at the issuer of the presented chain (what a "verified certificates" cache does);
   kept to show that the statements are sharp. *)
From Coq Require Import ZArith List Bool.
From KM Require Import Base.Bytes Model.Auth Model.AuthGate Model.GateObs.
From KM Require Model.IPExt.
Import ListNotations.
Open Scope N_scope.

(* one request as the gate meets it: the request, the clock, the limiter's answer, the configuration in force
   and the mask of the handler it goes to *)
Record hreq := HQ { h_now : Z; h_lim : bool; h_deny : list N; h_mask : N; h_q : reqx }.

Definition verdict (r : hreq) : result := check_auth (h_now r) (h_lim r) (h_deny r) (h_mask r) (h_q r).

(* the daemon as a machine: [gmem] is what RuntimeState keeps for the gate between requests *)
Definition gmem := unit.
Definition gate_step (m : gmem) (r : hreq) : gmem * result := (m, verdict r).
(* history oldest first; the verdicts in the same order *)
Fixpoint gate_run (m : gmem) (h : list hreq) : gmem * list result :=
  match h with
  | [] => (m, [])
  | r :: t => let '(m1, v) := gate_step m r in let '(m2, vs) := gate_run m1 t in (m2, v :: vs)
  end.
(* the verdict on [r] of a daemon that has answered [h] since it started *)
Definition verdict_after (h : list hreq) (r : hreq) : result := snd (gate_step (fst (gate_run tt h)) r).

(* ---- NOT the code: a gate with a memory of matched certificates keyed by [kf leaf] *)
Definition remembers (v : result) : bool := match v with Admit _ l _ => hasb l bKMX509 | _ => false end.
Definition csrf_passes (q : reqx) : bool :=
  match q_meth q with GET => true | _ => match q_origin q with NoOrigin | SameOrigin => true | _ => false end end.
Definition memo_step (kf : tlsx -> N) (memo : list N) (r : hreq) : list N * result :=
  let v := verdict r in
  match q_tls (h_q r) with
  | None => (memo, v)
  | Some c =>
      if remembers v then (kf c :: memo, v)
      else if existsb (N.eqb (kf c)) memo && existsb ch_len2 (x_chains c) && hasb (h_mask r) bKMX509 &&
              negb (deny_hit (h_deny r) (x_key c)) && csrf_passes (h_q r) && negb (x_cn c =? 0)
           then (memo, Admit (x_cn c) bKMX509 (x_nb c))
           else (memo, v)
  end.
Fixpoint memo_run (kf : tlsx -> N) (memo : list N) (h : list hreq) : list N * list result :=
  match h with
  | [] => (memo, [])
  | r :: t => let '(m1, v) := memo_step kf memo r in let '(m2, vs) := memo_run kf m1 t in (m2, v :: vs)
  end.
Definition memo_verdict_after (kf : tlsx -> N) (h : list hreq) (r : hreq) : result :=
  snd (memo_step kf (fst (memo_run kf [] h)) r).

(* ---- correspondence: a request observed on a daemon with history [hc_hist] *)
Record hcase := HC { hc_hist : list hreq; hc_r : hreq;
                     hc_adm : N; hc_user : N; hc_lvl : N; hc_code : N; hc_iat : Z }.
(* an issue instant that is "the clock at the request" may be the case's reading (taken just before) or the next second *)
Definition hist_bad (c : hcase) : bool :=
  negb match verdict_after (hc_hist c) (hc_r c) with
       | Admit u l iat => (hc_adm c =? 1) && (u =? hc_user c) && (l =? hc_lvl c) &&
                          (if (iat =? h_now (hc_r c))%Z then (hc_iat c =? iat)%Z || (hc_iat c =? iat + 1)%Z else (iat =? hc_iat c)%Z)
       | Refuse code => (hc_adm c =? 0) && (code =? hc_code c)
       end.
(* the conclusion of c06_gate_sound evaluated on the observed admission *)
Definition hist_violating (c : hcase) : bool :=
  hist_bad c && (hc_adm c =? 1) &&
  negb (gate_conclusion (h_now (hc_r c)) (h_deny (hc_r c)) (h_mask (hc_r c)) (h_q (hc_r c)) (hc_user c) (hc_lvl c)).
