(* C06 — the property's own predicate as a boolean, evaluated on OBSERVATIONS: given what the
   implementation was seen to do on a case (admitted (u, l); effects; logged identity) decide whether
   the specification side of the soundness theorems ([proves] for the request's credentials at the
   route's mask, [accepts] for the route's declared gate) holds.  Proofs/GateObs.v shows that these
   booleans ARE the Props ([provesb_iff], [acceptsb_iff]). *)
From Coq Require Import ZArith List Bool String.
From KM Require Import Base.Bytes Model.Auth Model.AuthGate Model.Routes.
From KM Require Model.IPExt.
Import ListNotations.
Open Scope N_scope.

Definition valid_cookieb (now : Z) (t : token) : bool :=
  t_signer_trusted t && t_alg_allowed t && negb (t_tampered t) && t_iss_ok t && t_aud_ok t &&
  (t_kind t =? 0) && (t_nbf t <=? now)%Z && (now <=? t_exp t)%Z.

Definition good_chain (ch : chain) : bool := ch_len2 ch && negb (ch_role_ca ch) && ch_key_trusted ch.
Definition km_certb (deny : list N) (c : tlsx) : bool :=
  negb (x_cn c =? 0) && negb (existsb (N.eqb (x_key c)) deny) && existsb good_chain (x_chains c).

Definition block_holds (p : IPExt.peer) (e : bs * N) : bool :=
  match IPExt.decode e with
  | Some b => (IPExt.plen b <=? 32) && IPExt.contains b p
  | None => false
  end.
Definition family_holds (p : IPExt.peer) (f : IPExt.family) : bool :=
  bs_eqb (fst f) IPExt.ipv4_family && existsb (block_holds p) (snd f).
Definition peer_insideb (c : tlsx) : bool :=
  match x_ext c with
  | Some ext => existsb (family_holds (x_peer c)) ext
  | None => false
  end.
Definition ip_certb (c : tlsx) : bool :=
  negb (x_cn c =? 0) && negb (x_ip_error c) && peer_insideb c && negb (x_auto_error c) &&
  x_automation c && negb (x_revoked c).

Definition cert_level (l : N) : bool := (l =? bKMX509) || (l =? bIPCert) || (l =? N.lor bKMX509 bIPCert).

Definition provesb (now : Z) (deny : list N) (q : reqx) (u l : N) : bool :=
  match k_cookie (q_cred q) with
  | Some t => valid_cookieb now t && (u =? t_sub t) && (l =? t_level t)
  | None => false
  end ||
  match k_basic (q_cred q) with
  | Some b => b_ok b && (u =? b_user b) && (l =? bPassword)
  | None => false
  end ||
  match q_tls q with
  | Some c => (u =? x_cn c) && cert_level l && implb (hasb l bKMX509) (km_certb deny c) &&
              implb (hasb l bIPCert) (ip_certb c)
  | None => false
  end.

Definition origin_okb (q : reqx) : bool :=
  match q_origin q with NoOrigin | SameOrigin => true | _ => false end.
Definition is_get (q : reqx) : bool := meth_eqb (q_meth q) GET.

(* the conclusion of c06_gate_sound on an observed admission (u, l) *)
Definition gate_conclusion (now : Z) (deny : list N) (required : N) (q : reqx) (u l : N) : bool :=
  provesb now deny q u l && hasb l required && (is_get q || origin_okb q).

Definition extra_okb (x : extra) (env : envx) (u l : N) : bool :=
  match x with
  | XNone => true
  | XAdmin => e_admin env u
  | XAutoAdmin => e_autoadmin env u
  | XSelfOrAdminU2F => (e_target env =? u) || (e_admin env u && hasb l bU2F)
  | XProfile => (e_target env =? 0) || e_admin env u
  | XSelf => e_target env =? u
  end.

(* every (user, level) some credential of the request could establish *)
Definition candidates (q : reqx) : list (N * N) :=
  match k_cookie (q_cred q) with Some t => [(t_sub t, t_level t)] | None => [] end ++
  match k_basic (q_cred q) with Some b => [(b_user b, bPassword)] | None => [] end ++
  match q_tls q with
  | Some c => [(x_cn c, bKMX509); (x_cn c, bIPCert); (x_cn c, N.lor bKMX509 bIPCert)]
  | None => []
  end.

(* the conclusion of c06_routes: the request is accepted by the declared gate *)
Definition acceptsb (env : envx) (q : reqx) (g : gate) : bool :=
  match g with
  | GPublic => false
  | GOwn => e_own env
  | GPassword => match k_basic (q_cred q) with Some b => b_ok b | None => false end
  | GMask m x =>
      existsb (fun ul => gate_conclusion (e_now env) (e_deny env) (mask_val (e_webui env) m) q (fst ul) (snd ul) &&
                         extra_okb x env (fst ul) (snd ul)) (candidates q)
  end.

(* the logged identity [u] of a masked route is one the request establishes at an accepted level *)
Definition identity_okb (env : envx) (q : reqx) (m : mask) (u : N) : bool :=
  existsb (fun ul => (fst ul =? u) && gate_conclusion (e_now env) (e_deny env) (mask_val (e_webui env) m) q (fst ul) (snd ul))
          (candidates q).

(* the conclusion of c06_login_mints_password_only on an observed Set-Cookie of the login route: the session
   names the user of the login credential, that credential is a verified password, and the level is the
   password level exactly - whatever auth_cookie / client certificate the request carries besides *)
Definition login_conclusion (lq : loginq) (u l : N) : bool :=
  (l =? bPassword) &&
  match login_credential lq with
  | Some b => b_ok b && (u =? b_user b)
  | None => false
  end.
