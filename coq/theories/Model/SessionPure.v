(* C05 — a refused second-factor attempt is pure.

   An ATTEMPT is a request that presents something to be verified for the session: a VIP or Okta
   pass code, a TOTP code, a bootstrap OTP, a hardware-token assertion, the poll of a push
   transaction, a CLI token.  It is REFUSED when it verifies nothing (the ghost record of
   verifications does not grow) and emits no cookie.  The handlers below the attempt operations
   only write on their success paths; this file states that as a property of the state machine of
   Model.Session, which is what makes every interleaving of a refused attempt with the steps of any
   other request harmless: a request that leaves the state as it found it commutes with
   everything.  (Throttling — the per-user TOTP pause and lock-out, the password limiter — is C14's
   subject and not part of this state.) *)
From Coq Require Import List NArith ZArith Bool.
From KM Require Import Model.Session.
Import ListNotations.

Definition attempt_req (o : op) : bool :=
  match o with
  | VipOtp _ _ | Poll _ _ | Totp _ _ | U2fFinish _ _ | WaFinish _ _ | Bootstrap _ _ | SendDoc _ _ | OktaOtp _ _ => true
  | _ => false
  end.

Definition attempt (o : op) : bool :=
  match o with Req _ _ o' | Cached o' => attempt_req o' | _ => attempt_req o end.

(* the state as the request finds it: presenting a client certificate is noted in the ghost record
   before the handler runs *)
Definition found (s : st) (o : op) : st :=
  match o with Req c _ _ => present_cert s c | _ => s end.

(* nothing was verified and nothing was emitted *)
Definition refused (k : config) (s : st) (o : op) : bool :=
  Nat.eqb (length (proved (fst (step k s o)))) (length (proved (found s o))) &&
  match snd (step k s o) with None => true | Some _ => false end.

(* what a profile row and the tables of pending one-time values hold: the projection the harness
   compares before and after a refused attempt on the real handlers *)
Definition durable (s : st) :=
  (last_totp s, saved_totp s, boot s, chal s, vip s, tokens s, approved s).

(* two requests one after the other *)
Definition both (k : config) (s : st) (a b : op) : st * (option cookie * option cookie) :=
  let (s1, oa) := step k s a in let (s2, ob) := step k s1 b in (s2, (oa, ob)).

(* a request without a client certificate (nothing is noted before the handler runs) *)
Definition plain (o : op) : bool := match o with Req (Some _) _ _ => false | _ => true end.
