(* C06 - case evaluators of the role-certificate stage (harness/kmd/c06_role.go): kept apart from
   Model/AuthGateRole.v because they use the transport helpers of Model/RouteCases.v (packed primitive integers),
   which must stay outside the closure of the property theorems. *)
From Coq Require Import ZArith List Bool String.
From KM Require Import Base.Bytes Model.Auth Model.AuthGate Model.Routes Model.GateObs Model.RouteCases Model.AuthGateRole.
From KM Require Model.IPExt.
Import ListNotations.
Open Scope N_scope.

(* one certificate asked from a real endpoint: what was asked and of which server, and what the harness FOUND
   OUT about the answer from the bytes (signature checked against each CA of the server, the extension looked
   up by OID, the chains crypto/x509 verified against the service port's pool classified with the gate's own
   three questions) *)
Record rcert := RCert {
  rc_ep : N; rc_kt : N; rc_ed : bool;
  rc_cn : N; rc_blocks : list IPExt.netblock; rc_automation : bool;
  rc_minted : bool;             (* 200 and a certificate in the body *)
  rc_issuer : N;                (* 0 role CA, 1 main CA, 2 Ed25519 CA, 3 none of them *)
  rc_has_ext : bool;
  rc_chains : list chain }.

Definition model_cert (choice : issuer_choice) (c : rcert) : option minted :=
  issue_gen choice (endpoint_of (rc_ep c)) (keytype_of (rc_kt c)) (rc_ed c) (rc_cn c) 9 0%Z (IPExt.ext_of (rc_blocks c)).

Definition rcert_bad (c : rcert) : bool :=
  match model_cert mint_role c with
  | None => rc_minted c
  | Some m => negb (rc_minted c && (issuer_code (m_issuer m) =? rc_issuer c) &&
                    Bool.eqb (match m_ext m with Some _ => true | None => false end) (rc_has_ext c) &&
                    chains_eqb (verified_chains (rc_ed c) (m_issuer m)) (rc_chains c))
  end.

(* the connection state of a presentation of certificate [c] from [peer]: chains from the MODEL's issuer *)
Definition rtls (c : rcert) (peer : IPExt.peer) : option tlsx :=
  match model_cert mint_role c with
  | None => None
  | Some m => Some (present (rc_ed c) m {| pr_peer := peer; pr_ip_error := false; pr_auto_error := false;
                                           pr_automation := rc_automation c; pr_revoked := false |})
  end.
(* the same from what was OBSERVED about the certificate (the property's predicate only reads extension and peer) *)
Definition otls (c : rcert) (peer : IPExt.peer) : tlsx :=
  {| x_chains := rc_chains c; x_cn := rc_cn c; x_key := 9; x_nb := 0%Z; x_ip_error := false;
     x_ext := if rc_has_ext c then Some (IPExt.ext_of (rc_blocks c)) else None; x_peer := peer;
     x_auto_error := false; x_automation := rc_automation c; x_revoked := false |}.
Definition rreq (t : option tlsx) (m : N) : reqx :=
  {| q_meth := meth_of m; q_origin := NoOrigin; q_tls := t; q_cred := no_cred |}.

Inductive rcase :=
| RMint (c : rcert)
  (* checkAuth(mask) on a request whose only credential is the certificate *)
| RGate (c : rcert) (peer : IPExt.peer) (mask meth adm user lvl code : N)
  (* the same through a route of the service mux: logged identity, effects *)
| RRoute (c : rcert) (peer : IPExt.peer) (key : string) (webui meth target user eff : N).

Definition role_bad (now : Z) (rc : rcase) : bool :=
  match rc with
  | RMint c => rcert_bad c
  | RGate c peer mask meth adm user lvl code =>
      match check_auth now true [] mask (rreq (rtls c peer) meth) with
      | Admit mu ml _ => negb ((adm =? 1) && (mu =? user) && (ml =? lvl))
      | Refuse mcode => negb ((adm =? 0) && (mcode =? code))
      end
  | RRoute c peer key webui meth target user eff =>
      match find_row key with
      | None => true
      | Some r =>
          let '(id, effs) := run (mkenv now webui [] target 0) (rreq (rtls c peer) meth) (rt_steps r) None in
          let mu := match id with Some (u', _) => u' | None => 0 end in
          negb ((if has_auth (rt_steps r) && negb (user =? 255) then mu =? user else true) &&
                (N.land eff (effs_code effs) =? eff))
      end
  end.

(* the property on the OBSERVATION: a certificate that was found to carry the address extension let its holder
   in at another level than the IP-certificate level or from a peer outside its blocks; through a route: an
   identity was logged / an effect seen from outside the blocks or on a route whose mask takes no IP certificates *)
Definition role_violating (now : Z) (rc : rcase) : bool :=
  role_bad now rc &&
  match rc with
  | RMint c => false
  | RGate c peer mask meth adm user lvl code =>
      rc_has_ext c && (adm =? 1) && negb (role_conclusion (otls c peer) lvl)
  | RRoute c peer key webui meth target user eff =>
      rc_has_ext c &&
      match find_row key with
      | Some r =>
          match rt_gate r with
          | GMask mk _ =>
              ((has_auth (rt_steps r) && negb (user =? 0) && negb (user =? 255)) || negb (eff =? 0)) &&
              negb (hasb (mask_val webui mk) bIPCert && peer_insideb (otls c peer))
          | _ => false
          end
      | None => negb (eff =? 0)
      end
  end.
