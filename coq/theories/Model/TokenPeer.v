(* C04 — helpers of the peer-instance section of the correspondence case file (evaluated by
   vm_compute on what the Go harness observed on pairs of real instances).

   A SITE is one loaded instance: the host identity and listen address it was configured with and
   the string its idpGetIssuer() returned.  The model computes the identity itself
   (Tokens.issuer_of); [site_bad] compares.  The peer cases are evaluated against the idp whose
   issuer is the MODEL's, so an implementation that derives "this server" from anything else
   disagrees on the cases too. *)
From Coq Require Import String ZArith NArith List Bool.
From KM Require Import Base.Bytes Base.Cases Model.Tokens Model.OIDC Model.TokenCases.
Import ListNotations.
Open Scope Z_scope.

(* (host_identity, http_address, observed idpGetIssuer()) *)
Definition site_bad (s : bs * bs * bs) : bool :=
  let '(host, addr, observed) := s in negb (bs_eqb (issuer_of host addr) observed).

(* the idp of a site: keys, signer and clients as the harness read them from the running state, the
   identity as the model derives it *)
Definition idp_at (host addr userinfo_path : bs) (observed : idp) : idp :=
  {| srv := server_at host addr userinfo_path (s_keys (srv observed)) (s_signer (srv observed)) (s_signer_alg (srv observed));
     clients := clients observed |}.

Definition peer_case := (nat * (nat * consumer * Z * Z * bool * option bs * list claimset))%type.

(* one observation on the instance [fst k] *)
Definition peer_case_bad (idps : list idp) (toks : list token) (k : peer_case) : bool :=
  match nth_opt idps (fst k) with
  | None => true
  | Some i => case_bad i toks (snd k)
  end.

Definition must_name_server_b (c : consumer) : bool :=
  match c with CToken _ | CUserinfo => false | _ => true end.

(* the property's own predicate on an observation (the issuer / audience clause of
   c04_accept_sound, c04_other_server_token_refused): a consumer of session cookies, CLI tokens or
   storage records honoured a token that does not name this instance as issuer and first audience *)
Definition peer_case_violates (idps : list idp) (toks : list token) (k : peer_case) : bool :=
  let '(s, (ti, c, _, _, ok, _, _)) := k in
  match nth_opt idps s, nth_opt toks ti with
  | Some i, Some t => ok && must_name_server_b c && negb (names_server_b (srv i) (t_claims t))
  | _, _ => false
  end.

(* indices of the mismatching cases, and among them those on which the observation violates the property *)
Definition peer_scan (idps : list idp) (toks : list token) (cases : list peer_case) : list nat * list nat :=
  let mm := mismatches (peer_case_bad idps toks) cases in
  (mm, filter (fun n => match nth_opt cases n with Some k => peer_case_violates idps toks k | None => false end) mm).
