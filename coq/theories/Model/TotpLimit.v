(* C14 — per-user throttle of locally verified time-based codes.

   cmd/keymasterd/2fa_totp.go validateUserTOTP (after the fix of the discarded
   lockoutExpirationTime.Add result), state.totpLocalRateLimit[username]:

     rl := map[user]
     if rl.lastCheckTime + minSecs > now        -> refuse                   (nothing stored)
     rl.lastCheckTime = now; map[user] = rl
     if rl.lockoutExpirationTime > now          -> refuse                   (only lastCheckTime stored)
     if rl.lastFailTime + resetHours < now      -> rl.failCount = 0; rl.lockoutExpirationTime = now
     compare the code with the user's secrets:
       matches, step already used               -> refuse                   (only lastCheckTime stored)
       matches, fresh                           -> failCount = 0; lockout = now; store; accept
       no match                                 -> failCount++;
                                                   if failCount % every == 0:
                                                       lockout = now + (failCount/every) hours
                                                   lastFailTime = now; store; refuse

   Times are nanoseconds (Z); the zero time.Time is 0, long before every arrival.  What the
   comparison with the secrets would give is the environment's answer carried in the op.    *)
From Coq Require Import List ZArith Bool.
Import ListNotations.
Open Scope Z_scope.

Definition SEC : Z := 1000000000.
Definition HOUR : Z := 3600 * SEC.

Record rl := { last_check : Z; fail_count : Z; last_fail : Z; lockout : Z }.
Definition rl0 : rl := {| last_check := 0; fail_count := 0; last_fail := 0; lockout := 0 |}.

Inductive verdict := Fresh | Replay | NoMatch.
Inductive outcome := RefusedSpacing | RefusedLockout | EvalOk | EvalReplay | EvalFail.

Definition evaluated (o : outcome) : bool :=
  match o with EvalOk | EvalReplay | EvalFail => true | _ => false end.
Definition accepted (o : outcome) : bool := match o with EvalOk => true | _ => false end.

Record consts := { min_secs : Z; reset_hours : Z; every : Z }.

Section Attempt.
Variable k : consts.
Variable escalate : bool.   (* true: the repaired code; false: the Add() result is dropped *)

Definition attempt (s : rl) (t : Z) (v : verdict) : rl * outcome :=
  if t <? last_check s + min_secs k * SEC then (s, RefusedSpacing)
  else
    let s1 := {| last_check := t; fail_count := fail_count s; last_fail := last_fail s; lockout := lockout s |} in
    if t <? lockout s1 then (s1, RefusedLockout)
    else
      let reset := last_fail s1 + reset_hours k * HOUR <? t in
      let fc := if reset then 0 else fail_count s1 in
      let lo := if reset then t else lockout s1 in
      match v with
      | Replay => (s1, EvalReplay)
      | Fresh => ({| last_check := t; fail_count := 0; last_fail := last_fail s1; lockout := t |}, EvalOk)
      | NoMatch =>
          let fc' := fc + 1 in
          let lo' := if escalate && (fc' mod every k =? 0) then t + (fc' / every k) * HOUR else lo in
          ({| last_check := t; fail_count := fc'; last_fail := t; lockout := lo' |}, EvalFail)
      end.

Fixpoint run (s : rl) (ops : list (Z * verdict)) : rl * list outcome :=
  match ops with
  | [] => (s, [])
  | (t, v) :: r => let (s1, o) := attempt s t v in
                   let (s2, os) := run s1 r in (s2, o :: os)
  end.

(* the map of all users: an attempt of user u touches only u's entry *)
Definition users := N -> rl.
Definition upd (m : users) (u : N) (r : rl) : users := fun x => if N.eqb x u then r else m x.

Fixpoint run_users (m : users) (ops : list (N * Z * verdict)) : users * list outcome :=
  match ops with
  | [] => (m, [])
  | (u, t, v) :: r => let (s1, o) := attempt (m u) t v in
                      let (m2, os) := run_users (upd m u s1) r in (m2, o :: os)
  end.

End Attempt.

Definition ops_of (u : N) (ops : list (N * Z * verdict)) : list (Z * verdict) :=
  map (fun x => (snd (fst x), snd x)) (filter (fun x => N.eqb (fst (fst x)) u) ops).

(* the constants of the property text: once per two seconds, every fifth failure, reset after a day *)
Definition k_prop : consts := {| min_secs := 2; reset_hours := 24; every := 5 |}.

(* ---- correspondence: the harness simulates time by shifting the entry's time fields, the code
        reads the clock a few times during one call; time fields agree up to that latency ---- *)
Definition near (tol a b : Z) : bool := (Z.abs (a - b) <=? tol).

Definition outcome_code (o : outcome) : Z :=
  match o with RefusedSpacing => 0 | RefusedLockout => 1 | EvalOk => 2 | EvalReplay => 3 | EvalFail => 4 end.

Definition rl_agrees (tol : Z) (m : rl) (obs : Z * Z * Z * Z) : bool :=
  let '(lc, fc, lf, lo) := obs in
  near tol (last_check m) lc && (fail_count m =? fc) && near tol (last_fail m) lf && near tol (lockout m) lo.
