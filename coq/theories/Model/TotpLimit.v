(* C14 — per-user throttle of locally verified time-based codes.

   cmd/keymasterd/2fa_totp.go validateUserTOTP (after the fix of the discarded
   lockoutExpirationTime.Add result), state.totpLocalRateLimit[username]:

     rl := map[user]
     if rl.lastCheckTime + minSecs > now        -> refuse                   (nothing stored)
     rl.lastCheckTime = now; map[user] = rl
     if rl.lockoutExpirationTime > now          -> refuse                   (only lastCheckTime stored)
     if rl.lastFailTime + resetHours < now      -> rl.failCount = 0; rl.lockoutExpirationTime = now
     compare the code with the user's secrets:
       matches, step already used               -> refuse                   (only lastCheckTime stored)
       matches, fresh                           -> failCount = 0; lockout = now; store; accept
       no match                                 -> failCount++;
                                                   if failCount % every == 0:
                                                       lockout = now + (failCount/every) hours
                                                   lastFailTime = now; store; refuse

   Times are nanoseconds (Z); the zero time.Time is 0, long before every arrival.  What the
   comparison with the secrets would give is the environment's answer carried in the op.    *)
From Coq Require Import List ZArith Bool.
Import ListNotations.
Open Scope Z_scope.

Definition SEC : Z := 1000000000.
Definition HOUR : Z := 3600 * SEC.

Record rl := { last_check : Z; fail_count : Z; last_fail : Z; lockout : Z }.
Definition rl0 : rl := {| last_check := 0; fail_count := 0; last_fail := 0; lockout := 0 |}.

Inductive verdict := Fresh | Replay | NoMatch.
Inductive outcome := RefusedSpacing | RefusedLockout | EvalOk | EvalReplay | EvalFail.

Definition evaluated (o : outcome) : bool :=
  match o with EvalOk | EvalReplay | EvalFail => true | _ => false end.
Definition accepted (o : outcome) : bool := match o with EvalOk => true | _ => false end.

Record consts := { min_secs : Z; reset_hours : Z; every : Z }.

Section Attempt.
Variable k : consts.
Variable escalate : bool.   (* true: the repaired code; false: the Add() result is dropped *)

Definition attempt (s : rl) (t : Z) (v : verdict) : rl * outcome :=
  if t <? last_check s + min_secs k * SEC then (s, RefusedSpacing)
  else
    let s1 := {| last_check := t; fail_count := fail_count s; last_fail := last_fail s; lockout := lockout s |} in
    if t <? lockout s1 then (s1, RefusedLockout)
    else
      let reset := last_fail s1 + reset_hours k * HOUR <? t in
      let fc := if reset then 0 else fail_count s1 in
      let lo := if reset then t else lockout s1 in
      match v with
      | Replay => (s1, EvalReplay)
      | Fresh => ({| last_check := t; fail_count := 0; last_fail := last_fail s1; lockout := t |}, EvalOk)
      | NoMatch =>
          let fc' := fc + 1 in
          let lo' := if escalate && (fc' mod every k =? 0) then t + (fc' / every k) * HOUR else lo in
          ({| last_check := t; fail_count := fc'; last_fail := t; lockout := lo' |}, EvalFail)
      end.

Fixpoint run (s : rl) (ops : list (Z * verdict)) : rl * list outcome :=
  match ops with
  | [] => (s, [])
  | (t, v) :: r => let (s1, o) := attempt s t v in
                   let (s2, os) := run s1 r in (s2, o :: os)
  end.

(* the map of all users: an attempt of user u touches only u's entry *)
Definition users := N -> rl.
Definition upd (m : users) (u : N) (r : rl) : users := fun x => if N.eqb x u then r else m x.

Fixpoint run_users (m : users) (ops : list (N * Z * verdict)) : users * list outcome :=
  match ops with
  | [] => (m, [])
  | (u, t, v) :: r => let (s1, o) := attempt (m u) t v in
                      let (m2, os) := run_users (upd m u s1) r in (m2, o :: os)
  end.

End Attempt.

Definition ops_of (u : N) (ops : list (N * Z * verdict)) : list (Z * verdict) :=
  map (fun x => (snd (fst x), snd x)) (filter (fun x => N.eqb (fst (fst x)) u) ops).

(* the constants of the property text: once per two seconds, every fifth failure, reset after a day *)
Definition k_prop : consts := {| min_secs := 2; reset_hours := 24; every := 5 |}.

(* ---- correspondence: the harness simulates time by shifting the entry's time fields, the code
        reads the clock a few times during one call; time fields agree up to that latency ---- *)
Definition near (tol a b : Z) : bool := (Z.abs (a - b) <=? tol).

Definition outcome_code (o : outcome) : Z :=
  match o with RefusedSpacing => 0 | RefusedLockout => 1 | EvalOk => 2 | EvalReplay => 3 | EvalFail => 4 end.

Definition rl_agrees (tol : Z) (m : rl) (obs : Z * Z * Z * Z) : bool :=
  let '(lc, fc, lf, lo) := obs in
  near tol (last_check m) lc && (fail_count m =? fc) && near tol (last_fail m) lf && near tol (lockout m) lo.

(* ---------------------------------------------------------------------------------------------
   The periodic cleanup (app.go performStateCleanup, one pass every 30 s) shares the process with
   the throttle.  A pass is an operation of the state machine: `cleanup` applies a purge policy to
   an entry (a purged entry is the absent map entry, i.e. rl0).  The current code does not touch
   totpLocalRateLimit: `purge_never`.  `purge_idle` (drop an entry whose lock-out is over and whose
   last check is older than the spacing) exists only for the refutation in Props/C14.v.
   failCount is a uint32 in the code: `attempt32` is `attempt` with the counter computed mod 2^32. *)
Inductive op := Att (t : Z) (v : verdict) | Cleanup (now : Z).

Definition purge_policy := consts -> rl -> Z -> bool.
Definition purge_never : purge_policy := fun _ _ _ => false.
Definition purge_idle : purge_policy := fun k s now =>
  (lockout s <? now) && (last_check s + min_secs k * SEC <? now).

Section Ops.
Variable k : consts.
Variable escalate : bool.
Variable pol : purge_policy.

Definition cleanup (s : rl) (now : Z) : rl := if pol k s now then rl0 else s.

Definition step_op (s : rl) (o : op) : rl * option outcome :=
  match o with
  | Att t v => let (s1, r) := attempt k escalate s t v in (s1, Some r)
  | Cleanup now => (cleanup s now, None)
  end.

Fixpoint run_ops (s : rl) (ops : list op) : rl * list (option outcome) :=
  match ops with
  | [] => (s, [])
  | o :: r => let (s1, x) := step_op s o in
              let (s2, xs) := run_ops s1 r in (s2, x :: xs)
  end.

Inductive uop := UAtt (u : N) (t : Z) (v : verdict) | UCleanup (now : Z).

Fixpoint run_users_ops (m : users) (ops : list uop) : users * list (option outcome) :=
  match ops with
  | [] => (m, [])
  | UAtt u t v :: r => let (s1, o) := attempt k escalate (m u) t v in
                       let (m2, os) := run_users_ops (upd m u s1) r in (m2, Some o :: os)
  | UCleanup now :: r => let (m2, os) := run_users_ops (fun x => cleanup (m x) now) r in (m2, None :: os)
  end.
End Ops.

Definition uops_of (u : N) (ops : list uop) : list op :=
  flat_map (fun o => match o with
                     | UAtt u1 t v => if N.eqb u1 u then [Att t v] else []
                     | UCleanup now => [Cleanup now] end) ops.

Definition attempts_of (ops : list op) : list (Z * verdict) :=
  flat_map (fun o => match o with Att t v => [(t, v)] | Cleanup _ => [] end) ops.

(* the property's own bookkeeping, independent of the entry: consecutive evaluated failures *)
Record ghost := { streak : Z; g_last_fail : Z }.
Definition ghost0 : ghost := {| streak := 0; g_last_fail := 0 |}.
Definition ghost_step (k : consts) (g : ghost) (t : Z) (o : outcome) : ghost :=
  match o with
  | EvalFail => {| streak := (if g_last_fail g + reset_hours k * HOUR <? t then 0 else streak g) + 1; g_last_fail := t |}
  | EvalOk => {| streak := 0; g_last_fail := g_last_fail g |}
  | _ => g
  end.
Fixpoint ghost_run (k : consts) (g : ghost) (ops : list op) (outs : list (option outcome)) : ghost :=
  match ops, outs with
  | Att t _ :: r, Some o :: os => ghost_run k (ghost_step k g t o) r os
  | _ :: r, _ :: os => ghost_run k g r os
  | _, _ => g
  end.

Definition unevaluated (x : option outcome) : bool := match x with Some o => negb (evaluated o) | None => true end.

(* uint32 counter *)
Definition W32 : Z := 4294967296.
Definition wrap32 (s : rl) : rl := {| last_check := last_check s; fail_count := fail_count s mod W32; last_fail := last_fail s; lockout := lockout s |}.


Section A32.
Variable k : consts.
Variable escalate : bool.
Definition attempt32 (s : rl) (t : Z) (v : verdict) : rl * outcome :=
  if t <? last_check s + min_secs k * SEC then (s, RefusedSpacing)
  else
    let s1 := {| last_check := t; fail_count := fail_count s; last_fail := last_fail s; lockout := lockout s |} in
    if t <? lockout s1 then (s1, RefusedLockout)
    else
      let reset := last_fail s1 + reset_hours k * HOUR <? t in
      let fc := if reset then 0 else fail_count s1 in
      let lo := if reset then t else lockout s1 in
      match v with
      | Replay => (s1, EvalReplay)
      | Fresh => ({| last_check := t; fail_count := 0; last_fail := last_fail s1; lockout := t |}, EvalOk)
      | NoMatch =>
          let fc' := (fc + 1) mod W32 in
          let lo' := if escalate && (fc' mod every k =? 0) then t + (fc' / every k) * HOUR else lo in
          ({| last_check := t; fail_count := fc'; last_fail := t; lockout := lo' |}, EvalFail)
      end.
Variable pol : purge_policy.
Definition step_op32 (s : rl) (o : op) : rl * option outcome :=
  match o with
  | Att t v => let (s1, r) := attempt32 s t v in (s1, Some r)
  | Cleanup now => (cleanup k pol s now, None)
  end.
Fixpoint run_ops32 (s : rl) (ops : list op) : rl * list (option outcome) :=
  match ops with
  | [] => (s, [])
  | o :: r => let (s1, x) := step_op32 s o in
              let (s2, xs) := run_ops32 s1 r in (s2, x :: xs)
  end.
End A32.


(* ---------------------------------------------------------------------------------------------
   Concurrent guesses for one user.  validateUserTOTP takes totpLocalTateLimitMutex, reads the
   entry, tests the spacing and stores the new lastCheckTime BEFORE it releases the mutex: the gate
   is one atomic step, and N requests in flight pass it in SOME order — `run` on the requests in
   that order (`gate_run`; thread i submits `thr i` = its clock reading and what its code is worth).
   `split_run` is the other shape — read the entry under the mutex, test the copy outside, write the
   result back when the evaluation is over — and exists only for the refutation in Props/C14.v.   *)
Definition gate_run (k : consts) (esc : bool) (thr : nat -> Z * verdict) (s : rl) (order : list nat) : rl * list outcome :=
  run k esc s (map thr order).

Inductive gstep := GRead (i : nat) | GFinish (i : nat).
Record gstate := { g_entry : rl; g_copies : list (nat * rl); g_outs : list (nat * outcome) }.

Fixpoint copy_of (i : nat) (l : list (nat * rl)) : option rl :=
  match l with [] => None | (j, c) :: r => if Nat.eqb i j then Some c else copy_of i r end.

Definition split_step (k : consts) (esc : bool) (thr : nat -> Z * verdict) (s : gstate) (x : gstep) : gstate :=
  match x with
  | GRead i => {| g_entry := g_entry s; g_copies := (i, g_entry s) :: g_copies s; g_outs := g_outs s |}
  | GFinish i =>
      match copy_of i (g_copies s) with
      | None => s
      | Some c => let (c', o) := attempt k esc c (fst (thr i)) (snd (thr i)) in
                  {| g_entry := c'; g_copies := g_copies s; g_outs := g_outs s ++ [(i, o)] |}
      end
  end.

Definition split_run (k : consts) (esc : bool) (thr : nat -> Z * verdict) (s : rl) (sched : list gstep) : gstate :=
  fold_left (split_step k esc thr) sched {| g_entry := s; g_copies := []; g_outs := [] |}.

(* ---------------------------------------------------------------------------------------------
   The read source of the user's profile.  validateUserTOTP starts with LoadUserProfile, which
   answers from the CACHE database (fromCache = true) when the primary profile database does not
   answer within remoteDBQueryTimeout.  What the function does with that bit:

     * the throttle record totpLocalRateLimit[user] lives in memory: spacing test, lock-out test,
       quiet-period reset, failure count, lock-out extension are the same statements on both paths;
     * the replay guard compares the matching step with max(profile.LastSuccessfullTOTPCounter,
       record.lastSuccessCounter); on success the step is remembered in the record on both paths and
       written to the profile only when the profile did not come from the cache.

   Here what the submitted code is worth is no longer an environment verdict: the op carries the
   code (`Wrong`, or `Matches n` = it is the code of step n of an enabled device) and the verdict is
   what the guard makes of it.  `Cached o` is the request modifier (as in Model/Session.v): the
   request of o made while the primary does not answer in time.  A cleanup pass reads no profile. *)
Inductive code := Wrong | Matches (n : Z).

Record tst := { thr : rl; mem : Z; persisted : Z }.
Definition tst0 : tst := {| thr := rl0; mem := 0; persisted := 0 |}.
Definition guard (s : tst) : Z := Z.max (persisted s) (mem s).

Definition verdict_of_code (s : tst) (c : code) : verdict :=
  match c with
  | Wrong => NoMatch
  | Matches n => if n <=? guard s then Replay else Fresh
  end.

Inductive cop := CAtt (t : Z) (c : code) | CCleanup (now : Z).
Inductive rop := Direct (o : cop) | Cached (o : cop).
Definition body (r : rop) : cop := match r with Direct o | Cached o => o end.
Definition from_cache (r : rop) : bool := match r with Cached _ => true | Direct _ => false end.
Definition uncached (r : rop) : rop := Direct (body r).

Section Source.
Variable k : consts.
Variable escalate : bool.
Variable pol : purge_policy.

Definition attempt_src (cached : bool) (s : tst) (t : Z) (c : code) : tst * outcome :=
  let (r, o) := attempt k escalate (thr s) t (verdict_of_code s c) in
  match o, c with
  | EvalOk, Matches n => ({| thr := r; mem := n; persisted := if cached then persisted s else n |}, o)
  | _, _ => ({| thr := r; mem := mem s; persisted := persisted s |}, o)
  end.

Definition step_src (s : tst) (r : rop) : tst * option outcome :=
  match body r with
  | CAtt t c => let (s1, o) := attempt_src (from_cache r) s t c in (s1, Some o)
  | CCleanup now => ({| thr := cleanup k pol (thr s) now; mem := mem s; persisted := persisted s |}, None)
  end.

Fixpoint run_src (s : tst) (h : list rop) : tst * list (option outcome) :=
  match h with
  | [] => (s, [])
  | r :: rest => let (s1, x) := step_src s r in
                 let (s2, xs) := run_src s1 rest in (s2, x :: xs)
  end.

(* the history as the throttle sees it: every code replaced by what the guard makes of it there *)
Definition resolve_op (s : tst) (r : rop) : op :=
  match body r with CAtt t c => Att t (verdict_of_code s c) | CCleanup now => Cleanup now end.
Fixpoint resolve (s : tst) (h : list rop) : list op :=
  match h with
  | [] => []
  | r :: rest => resolve_op s r :: resolve (fst (step_src s r)) rest
  end.
End Source.

(* the shape the property excludes (only for the refutation in Props/C14.v): a wrong code measured
   against a profile from the cache returns before the failure bookkeeping *)
Definition attempt_src_lenient (k : consts) (escalate cached : bool) (s : tst) (t : Z) (c : code) : tst * outcome :=
  let (s1, o) := attempt_src k escalate cached s t c in
  match o with
  | EvalFail => if cached
                then ({| thr := {| last_check := t; fail_count := fail_count (thr s); last_fail := last_fail (thr s); lockout := lockout (thr s) |};
                         mem := mem s; persisted := persisted s |}, EvalFail)
                else (s1, o)
  | _ => (s1, o)
  end.
Fixpoint run_src_lenient (k : consts) (escalate : bool) (s : tst) (h : list rop) : tst * list (option outcome) :=
  match h with
  | [] => (s, [])
  | r :: rest =>
      match body r with
      | CAtt t c => let (s1, o) := attempt_src_lenient k escalate (from_cache r) s t c in
                    let (s2, xs) := run_src_lenient k escalate s1 rest in (s2, Some o :: xs)
      | CCleanup _ => let (s2, xs) := run_src_lenient k escalate s rest in (s2, None :: xs)
      end
  end.
