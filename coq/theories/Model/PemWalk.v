(* C10 - "no malformed key makes a handler panic", the part that is keymaster's OWN code on top of
   encoding/pem: which block of a submitted PEM text is taken for the key.
   lib/server/aws_identity_cert requestHandler and cmd/keymasterd postAuthX509CertHandler call
   pem.Decode ONCE, refuse a nil block and a block whose type is not "PUBLIC KEY" (400) and hand the
   bytes to x509.ParsePKIXPublicKey.  pem.Decode is library code: iterated over a text it delivers the
   complete blocks in order and then nil - whatever bytes follow the last complete block (an empty
   line, a CRLF, a comment, a block without its END line).  So a text is, for this code, the list of its
   complete blocks plus "are there bytes after the last one".  A nil block is a nil POINTER in Go:
   looking at its Type panics - modelled with the explicit Panic outcome of Model/ClaimAccess. *)
From Coq Require Import NArith List Bool.
From KM Require Import Base.Bytes Model.KeyStrength Model.ClaimAccess.
Import ListNotations.

Record blk := { is_pubkey : bool;            (* Type = "PUBLIC KEY" *)
                blk_key : option pkey }.     (* what x509.ParsePKIXPublicKey makes of Bytes *)
Record pem_text := { blocks : list blk; trailing : bool }.

(* block, rest := pem.Decode(text) *)
Definition pem_decode (t : pem_text) : option (blk * pem_text) :=
  match blocks t with
  | [] => None
  | x :: r => Some (x, {| blocks := r; trailing := trailing t |})
  end.
(* len(rest) > 0 *)
Definition nonempty (t : pem_text) : bool :=
  match blocks t with [] => trailing t | _ => true end.

(* the code as it stands: first block or nothing *)
Definition select_first (t : pem_text) : res blk :=
  match pem_decode t with
  | None => Err
  | Some (x, _) => if is_pubkey x then Ok x else Err
  end.

(* a walk that skips blocks of other types ("use the first PUBLIC KEY block of a bundle"):
   for block.Type != "PUBLIC KEY" && len(rest) > 0 { block, rest = pem.Decode(rest) }
   [guarded]: the nil test is repeated inside the loop *)
Fixpoint skip_walk (guarded : bool) (cur : blk) (rest : list blk) (trail : bool) : res blk :=
  if is_pubkey cur then Ok cur
  else match rest with
       | [] => if trail then (if guarded then Err else Panic)    (* Decode returned nil; the loop condition looks at block.Type *)
               else Err
       | x :: r => skip_walk guarded x r trail
       end.
Definition select_skip (guarded : bool) (t : pem_text) : res blk :=
  match blocks t with
  | [] => Err
  | x :: r => skip_walk guarded x r (trailing t)
  end.

(* the issuing path behind it: parse once, validate, sign *)
Definition pem_pipeline (p : kpath) (t : pem_text) : res outcome :=
  match select_first t with
  | Ok x => Ok (pipeline_of p (blk_key x) (blk_key x))
  | Err => Ok ClientError
  | Panic => Panic
  end.

(* correspondence: (path, blocks as (type is PUBLIC KEY, parsed key (kind, a, b)), bytes after the last
   block, observed class 0 issued / 1 client error / 2 other, panicked) *)
Definition pem_case := (N * list (bool * option (N * N * N)) * bool * N * bool)%type.
Definition pem_text_of (l : list (bool * option (N * N * N))) (tr : bool) : pem_text :=
  {| blocks := map (fun b => {| is_pubkey := fst b;
                                blk_key := option_map (fun d => let '(kind, a, b) := d in (1, desc_of kind a b)) (snd b) |}) l;
     trailing := tr |}.
Definition c10_pem_bad (c : pem_case) : bool :=
  let '(p, l, tr, cls, pan) := c in
  match pem_pipeline (kpath_of p) (pem_text_of l tr) with
  | Ok (Signed _) => pan || (negb (cls =? 0) && negb (cls =? 1))
  | Ok ClientError => pan || negb (cls =? 1)
  | Ok ServerError => pan || negb (cls =? 2)
  | Err => true
  | Panic => negb pan
  end.
(* the property's predicate on the observation: a panic, or a text whose selected key is weak / absent
   answered with anything but a client error *)
Definition c10_pem_violates (c : pem_case) : bool :=
  let '(p, l, tr, cls, pan) := c in
  pan || match select_first (pem_text_of l tr) with
         | Ok x => match blk_key x with
                   | Some k => negb (validate (snd k)) && negb (cls =? 1)
                   | None => negb (cls =? 1)
                   end
         | _ => negb (cls =? 1)
         end.

(* ---------------------------------------------------------------------------------------------
   The form parameter of the two role paths (parseRoleCertGenParams / parseRefreshRoleCertGenParams):
   pubkey = base64url WITHOUT padding of the PKIX DER.  r.PostForm.Get takes the FIRST value of a
   repeated parameter; "" counts as missing.  base64 and the DER parser are library code: what they
   make of a value is the input. *)
Inductive pvalue :=
| PEmpty                         (* the empty string *)
| PNotBase64                     (* base64.RawURLEncoding.DecodeString fails *)
| PDer (k : option pkey).        (* decodes; what x509.ParsePKIXPublicKey makes of the bytes *)
Definition param_pipeline (p : kpath) (values : list pvalue) : outcome :=
  match values with
  | [] => ClientError
  | PEmpty :: _ => ClientError
  | PNotBase64 :: _ => ClientError
  | PDer k :: _ => pipeline_of p k k
  end.
(* correspondence: (path, values as 0 = empty / 1 = not base64 / 2 = decodes with the parsed key, class) *)
Definition param_case := (N * list (N * option (N * N * N)) * N)%type.
Definition pvalue_of (v : N * option (N * N * N)) : pvalue :=
  if fst v =? 0 then PEmpty else if fst v =? 1 then PNotBase64
  else PDer (option_map (fun d => let '(kind, a, b) := d in (1, desc_of kind a b)) (snd v)).
Definition param_model (c : param_case) : outcome := let '(p, vs, _) := c in param_pipeline (kpath_of p) (map pvalue_of vs).
Definition c10_param_bad (c : param_case) : bool :=
  let '(_, _, cls) := c in
  match param_model c with
  | Signed _ => negb (cls =? 0)
  | ClientError => negb (cls =? 1)
  | ServerError => negb (cls =? 2)
  end.
Definition c10_param_violates (c : param_case) : bool :=
  let '(_, _, cls) := c in
  match param_model c with Signed _ => false | _ => negb (cls =? 1) end.
