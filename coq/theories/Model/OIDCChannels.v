(* C04 correspondence for the two identity channels of the token endpoint: the product
     code (issued to whom) x header {absent | id x secret} x body {client_id x client_secret} x verifier
   is enumerated by the model itself in a canonical order which the Go harness reproduces
   (harness/kmd/c04_channels.go); only the table of codes, the constants and the vector of observed
   results are transported.

   dimensions (in nesting order, outermost first)
     code       index into ch_codes (each with its own redirect URI, always sent correctly)
     header id  0 none | n = the n-th entry of ch_ids (registered clients and an unknown name)
     header pw  0 none | n = the n-th entry of ch_secrets
                (id 0 and pw 0: no Authorization header; id 0 and pw n: a header with an empty user name)
     body id    0 no client_id parameter | n as above
     body pw    0 no client_secret parameter | n as above
     verifier   0 none | 1 the verifier whose S256 challenge is sealed into the PKCE codes *)
From Coq Require Import String ZArith NArith List Bool.
From KM Require Import Base.Bytes Model.Tokens Model.OIDC Model.TokenCases.
Import ListNotations.
Open Scope Z_scope.

Record chenv := {
  ch_ids : list bs;
  ch_secrets : list bs;
  ch_V : bs; ch_HV : bs;          (* the verifier and BASE64URL(SHA256(verifier)) as crypto/sha256 computes it *)
  ch_redirects : list bs;         (* per code *)
  ch_codes : list token }.

Definition ch_tok_none : token := {| t_signer := 0%N; t_alg := 0%N; t_tampered := true; t_claims := [] |}.

Definition ch_pick (l : list bs) (n : nat) : bs := match n with O => [] | S n' => nth n' l [] end.

Definition ch_req (e : chenv) (cd hi hs bi bp vm : nat) : treq :=
  {| tr_conn := conn_none; tr_post := true; tr_grant := gt_authcode; tr_redirect := nth cd (ch_redirects e) [];
     tr_code := nth cd (ch_codes e) ch_tok_none;
     tr_verifier := match vm with O => [] | _ => ch_V e end;
     tr_vhash := match vm with O => [] | _ => ch_HV e end;
     tr_basic := match hi, hs with O, O => None | _, _ => Some (ch_pick (ch_ids e) hi, ch_pick (ch_secrets e) hs) end;
     tr_form_client := ch_pick (ch_ids e) bi; tr_form_secret := ch_pick (ch_secrets e) bp |}.

Definition ch_combos (e : chenv) : list (nat * nat * nat * nat * nat * nat) :=
  let ni := S (length (ch_ids e)) in let ns := S (length (ch_secrets e)) in
  flat_map (fun cd => flat_map (fun hi => flat_map (fun hs => flat_map (fun bi => flat_map (fun bp =>
  map (fun vm => (cd, hi, hs, bi, bp, vm)) (seq 0 2)) (seq 0 ns)) (seq 0 ni)) (seq 0 ns)) (seq 0 ni))
  (seq 0 (length (ch_codes e))).

Definition ch_req_of (e : chenv) (k : nat * nat * nat * nat * nat * nat) : treq :=
  let '(cd, hi, hs, bi, bp, vm) := k in ch_req e cd hi hs bi bp vm.

Definition ch_released (r : tresult) : bool := match r with Release _ _ => true | Refuse _ => false end.

(* per combination: does the observation (released / refused) differ from the model at both clock
   readings; and - the property's own predicate on the observation - were tokens RELEASED although
   the model refuses at both readings.  Every refusal of [token_endpoint] is a clause of the statement
   (c04_token_one_client / c12_release_sound: a configured client proved its identity in ONE channel,
   the code is genuine, of the code kind, unexpired, bound to that client and to the redirect URI),
   so such a release violates the property on this very input. *)
Definition ch_scan (i : idp) (e : chenv) (t0 t1 : Z) (observed : bs) : list nat * list nat :=
  let fix go (l : list (nat * nat * nat * nat * nat * nat)) (o : bs) (n : nat) : list nat * list nat :=
    match l, o with
    | [], [] => ([], [])
    | k :: l', b :: o' =>
        let r := ch_req_of e k in
        let obs := negb (b =? 0)%N in
        let m0 := ch_released (token_endpoint i t0 r) in let m1 := ch_released (token_endpoint i t1 r) in
        let '(mm, vv) := go l' o' (S n) in
        if Bool.eqb m0 obs || Bool.eqb m1 obs then (mm, vv)
        else (n :: mm, if obs then n :: vv else vv)
    | _, _ => ([n], [])           (* length mismatch *)
    end in
  go (ch_combos e) observed O.

(* a released case: index in the product, claims of the ID token and of the access token *)
Definition ch_release_bad (i : idp) (e : chenv) (t0 t1 : Z) (k : nat * claimset * claimset) : bool :=
  let '(n, idc, acc) := k in
  match nth_opt (ch_combos e) n with
  | None => true
  | Some combo =>
      let chk (now : Z) :=
        match token_endpoint i now (ch_req_of e combo) with
        | Release idt act =>
            claims_eqb ["iat"%string] (t_claims idt) idc && claims_eqb ["iat"%string] (t_claims act) acc
        | Refuse _ => false
        end in
      negb (chk t0 || chk t1)
  end.

(* the property's predicate on a released observation: the ID token's audience is exactly the ONE
   client the request authenticated as, and the code's subject is that client *)
Definition ch_release_violates (e : chenv) (k : nat * claimset * claimset) : bool :=
  let '(n, idc, _) := k in
  match nth_opt (ch_combos e) n with
  | None => true
  | Some combo =>
      let r := ch_req_of e combo in
      match authenticated_client r with
      | None => true
      | Some id =>
          negb (match rd_list "aud" idc with Some [a] => bs_eqb a id | _ => false end &&
                match rd_str "sub" (t_claims (tr_code r)) with Some s => bs_eqb s id | None => false end)
      end
  end.
