(* C14 — the global password-attempt limiter.

   golang.org/x/time/rate v0.11.0, Limiter.AllowN(t, 1) = reserveN(t, 1, 0).ok, as used by
   cmd/keymasterd/app.go checkPasswordAttemptLimit (Allow() = AllowN(time.Now(), 1)):

     advance(t):  last := min(lim.last, t); tokens := lim.tokens + (t-last)*limit; cap at burst
     reserveN:    tokens -= 1; wait := trunc(-tokens/limit * 1e9 ns) if tokens < 0 else 0
                  ok := 1 <= burst && wait <= 0;  on ok:  lim.last := t; lim.tokens := tokens
                  (a refused request leaves the limiter state untouched)

   The library computes in float64; the model is exact, over scaled integers:
     rate  = p/q tokens per second (every finite float64 is such a fraction),
     time  in nanoseconds,
     T     = tokens * q * 10^9      (so one nanosecond adds p, one request costs C = q*10^9,
                                     the cap is B = burst * C)
   "wait truncates to 0 ns"  <=>  -tokens/limit*1e9 < 1  <=>  T_after > -p.            *)
From Coq Require Import List ZArith Bool.
Import ListNotations.
Open Scope Z_scope.

Record cfg := { p : Z; C : Z; B : Z }.
Record st := { last : Z; T : Z }.

Definition mkcfg (rate_num rate_den burst : Z) : cfg :=
  {| p := rate_num; C := rate_den * 1000000000; B := burst * (rate_den * 1000000000) |}.

(* NewLimiter(r, b): full bucket; `last` is the zero time, i.e. before every arrival; the refill
   over that first gap is capped at the burst, so any t_init <= first arrival gives the same run *)
Definition init (c : cfg) (t_init : Z) : st := {| last := t_init; T := B c |}.

Definition advance (c : cfg) (s : st) (t : Z) : Z :=
  let l := Z.min (last s) t in Z.min (T s + (t - l) * p c) (B c).

(* 1 <= burst is B >= C *)
Definition allow (c : cfg) (s : st) (t : Z) : st * bool :=
  let Ta := advance c s t in
  if (C c <=? B c) && (- p c <? Ta - C c) then ({| last := t; T := Ta - C c |}, true) else (s, false).

(* decisions on an arrival sequence *)
Fixpoint decisions (c : cfg) (s : st) (ts : list Z) : list bool :=
  match ts with
  | [] => []
  | t :: r => let (s', ok) := allow c s t in ok :: decisions c s' r
  end.

(* number of allowed arrivals with a time stamp inside the window [t0, t1] *)
Fixpoint calls (c : cfg) (s : st) (t0 t1 : Z) (ts : list Z) : Z :=
  match ts with
  | [] => 0
  | t :: r => let (s', ok) := allow c s t in
              (if ok && (t0 <=? t) && (t <=? t1) then 1 else 0) + calls c s' t0 t1 r
  end.

(* ---- the two password entry points (app.go loginHandler, checkAuth basic-auth branch):
        checkPasswordAttemptLimit first; on refusal 429 is written and the handler returns
        before checkUserPassword; otherwise the backend is asked exactly once ------------- *)
Inductive entry := Form | BasicAuth.
Inductive backend_answer := PwGood | PwBad | PwError.

(* lookups: how many times PasswordAuthenticate was invoked for this attempt *)
Record login_out := { status : Z; backend_called : bool; lookups : Z }.

(* projected status: 429 refused by the limiter, 200 let through (any non-error class),
   401 bad credentials, 500 backend error *)
Definition login_step (c : cfg) (s : st) (e : entry) (t : Z) (a : backend_answer) : st * login_out :=
  let (s', ok) := allow c s t in
  if ok then
    (s', {| status := match a with PwGood => 200 | PwBad => 401 | PwError => 500 end;
            backend_called := true; lookups := 1 |})
  else (s', {| status := 429; backend_called := false; lookups := 0 |}).

Fixpoint login_run (c : cfg) (s : st) (reqs : list (entry * Z * backend_answer)) : list login_out :=
  match reqs with
  | [] => []
  | (e, t, a) :: r => let (s', o) := login_step c s e t a in o :: login_run c s' r
  end.

Definition backend_calls (outs : list login_out) : Z :=
  Z.of_nat (length (filter backend_called outs)).

(* ---- the password backend as an answer stream.  A backend (LDAP, Okta, a command, a file) gives
        one of three answers to a lookup: the password is right, it is wrong, or the backend could
        not tell (connection reset, time-out, 5xx).  `answers` is what it WOULD answer to the first,
        second, ... lookup made for one attempt (a missing answer is an error).  app.go
        checkUserPassword asks `tries` times at most, again only after an error; the code asks once:
        `code_tries`.  `login_step_tries 1` is `login_step` on the first answer (Proofs); a larger
        `tries` is the "retry the directory on an error" shape and exists for the refutation.      *)
Definition answers := list backend_answer.
Definition first_answer (a : answers) : backend_answer := match a with [] => PwError | x :: _ => x end.

Fixpoint ask (tries : nat) (a : answers) : Z * backend_answer :=
  match tries with
  | O => (0, PwError)
  | S n => match first_answer a with
           | PwError => match n with
                        | O => (1, PwError)
                        | S _ => let (k, r) := ask n (tl a) in (1 + k, r)
                        end
           | x => (1, x)
           end
  end.

Definition code_tries : nat := 1%nat.

(* lib/authenticators/okta passwordAuthenticate: one POST to the authn endpoint per lookup;
   401 -> wrong password; any other status but 200 -> error; 200 with an undecodable body -> error;
   200 with status word SUCCESS or MFA_REQUIRED -> right; any other status word -> wrong *)
Inductive okta_body := OSuccess | OMfaRequired | OOtherStatus | OUndecodable.
Definition okta_answer (http : Z) (b : okta_body) : backend_answer :=
  if http =? 401 then PwBad
  else if negb (http =? 200) then PwError
  else match b with OSuccess | OMfaRequired => PwGood | OOtherStatus => PwBad | OUndecodable => PwError end.

Definition status_of (a : backend_answer) : Z := match a with PwGood => 200 | PwBad => 401 | PwError => 500 end.

Definition login_step_tries (tries : nat) (c : cfg) (s : st) (e : entry) (t : Z) (a : answers) : st * login_out :=
  let (s', ok) := allow c s t in
  if ok then
    let (k, r) := ask tries a in
    (s', {| status := status_of r; backend_called := 0 <? k; lookups := k |})
  else (s', {| status := 429; backend_called := false; lookups := 0 |}).

Fixpoint login_run_tries (tries : nat) (c : cfg) (s : st) (reqs : list (entry * Z * answers)) : list login_out :=
  match reqs with
  | [] => []
  | (e, t, a) :: r => let (s', o) := login_step_tries tries c s e t a in o :: login_run_tries tries c s' r
  end.

(* backend lookups made for attempts that arrived inside the window [t0, t1] *)
Fixpoint lookups_in (t0 t1 : Z) (ts : list Z) (outs : list login_out) : Z :=
  match ts, outs with
  | t :: r, o :: os => (if (t0 <=? t) && (t <=? t1) then lookups o else 0) + lookups_in t0 t1 r os
  | _, _ => 0
  end.

(* ---- correspondence with the float64 implementation.  A decision is a knife edge when the
        exact T_after is within p/2 of the threshold -p (half a nanosecond of refill): there
        either verdict is tolerated and the model continues along the one the implementation
        took.  Everywhere else the verdicts must be equal.                                   *)
Definition knife_edge (c : cfg) (Tafter : Z) : bool :=
  (2 * Z.abs (Tafter + p c) <=? p c).

Fixpoint agree_from (c : cfg) (s : st) (obs : list (Z * bool)) (i : nat) : list nat :=
  match obs with
  | [] => []
  | (t, ok) :: r =>
      let Ta := advance c s t in
      let '(s1, exact) := allow c s t in
      if (C c <=? B c) && knife_edge c (Ta - C c) then
        agree_from c (if ok then {| last := t; T := Ta - C c |} else s) r (S i)
      else if Bool.eqb exact ok then agree_from c s1 r (S i)
      else i :: agree_from c s1 r (S i)
  end.

(* ---- loadVerifyConfigFile's clamps (config.go): burst < 10 -> 10; rate < 1 -> 1 (a rate that
        is not a number is also replaced).  The configured rate is a float64 from YAML: a finite
        fraction, +-infinity or NaN. ------------------------------------------------------- *)
Inductive frate := Fin (num den : Z) | PInf | NInf | NaN.

Definition min_burst : Z := 10.

Definition clamp_burst (b : Z) : Z := if b <? min_burst then min_burst else b.

(* r >= 1 as float64 comparison (false for NaN); den > 0 *)
Definition rate_ge1 (r : frate) : bool :=
  match r with Fin n d => d <=? n | PInf => true | NInf => false | NaN => false end.

Definition clamp_rate (r : frate) : frate := if rate_ge1 r then r else Fin 1 1.

(* the clamp as written before the fix:  if rate < 1 { rate = 1 }  — NaN < 1 is false *)
Definition rate_lt1 (r : frate) : bool :=
  match r with Fin n d => n <? d | PInf => false | NInf => true | NaN => false end.
Definition clamp_rate_old (r : frate) : frate := if rate_lt1 r then Fin 1 1 else r.
