(* C13 — cmd/keymasterd/idp_oidc.go CanRedirectToURL, CorsOriginAllowed and
   idpOpenIDCGenericIsCorsOriginAllowed, over the components url.Parse delivers. *)
From KM Require Import Base.Bytes.

Definition DOT : N := 46.
Definition https : bs := [104; 116; 116; 112; 115].

(* opaque = u.Opaque is non-empty; uhost = u.Host (with port); hostname = u.Hostname() *)
Record parsed := { scheme : bs; opaque : bool; uhost : bs; rawquery : bs; upath : bs; hostname : bs }.

Definition is_nil (s : bs) : bool := match s with [] => true | _ => false end.
Definition starts_with_dot (s : bs) : bool := match s with c :: _ => c =? DOT | [] => false end.

(* hostMatchesDomain *)
Definition host_matches (host domain : bs) : bool :=
  if is_nil domain then false
  else if starts_with_dot domain then suffix_b domain host
  else bs_eqb host domain || suffix_b (DOT :: domain) host.

(* the pre-fix rule: strings.HasSuffix(host, domain) *)
Definition host_matches_old (host domain : bs) : bool := suffix_b domain host.

(* strings.Contains(path, "..") *)
Fixpoint has_dotdot (s : bs) : bool :=
  match s with
  | a :: ((b :: _) as r) => ((a =? DOT) && (b =? DOT)) || has_dotdot r
  | _ => false
  end.

Definition is_nil_l (l : list bs) : bool := match l with [] => true | _ => false end.

(* npatterns = number of configured URL patterns; re_matched = one of them matched the raw
   string (regexp library); parse = None when url.Parse failed *)
Definition can_redirect (domains : list bs) (npatterns : nat) (re_matched : bool)
           (parse : option parsed) : bool :=
  if (is_nil_l domains) && Nat.eqb npatterns 0 then false else
  match parse with
  | None => false
  | Some u =>
      if negb (bs_eqb (scheme u) https) then false
      else if opaque u || is_nil (uhost u) then false
      else if negb (is_nil (rawquery u)) then false
      else if has_dotdot (upath u) then false
      else if is_nil_l domains then re_matched
      else (if Nat.eqb npatterns 0 then true else re_matched) &&
           existsb (host_matches (hostname u)) domains
  end.

(* The pattern loop of CanRedirectToURL as the code runs it: every configured pattern is handed to
   regexp.MatchString (which compiles it) in configuration order until one matches; a pattern the
   regexp library refuses to compile aborts the whole decision with an error (the caller answers 500 and
   redirects nowhere).  The library's verdict per pattern on this URL is the input. *)
Inductive pres := PMatch | PNoMatch | PErr.
Fixpoint eval_patterns (l : list pres) : option bool :=
  match l with
  | [] => Some false
  | PMatch :: _ => Some true
  | PErr :: _ => None
  | PNoMatch :: r => eval_patterns r
  end.
(* None = error (no redirect) *)
Definition can_redirect_p (domains : list bs) (pats : list pres) (parse : option parsed) : option bool :=
  if is_nil_l domains && Nat.eqb (length pats) 0 then Some false else
  match eval_patterns pats with
  | None => None
  | Some re => Some (can_redirect domains (length pats) re parse)
  end.
(* a variant that skips patterns the library refuses (what "log and continue" would do) *)
Fixpoint skip_errors (l : list pres) : list pres :=
  match l with [] => [] | PErr :: r => skip_errors r | x :: r => x :: skip_errors r end.
Definition can_redirect_p_skip (domains : list bs) (pats : list pres) (parse : option parsed) : option bool :=
  can_redirect_p domains (skip_errors pats) parse.

Definition cors_allowed (domains : list bs) (parse : option parsed) : bool :=
  match parse with
  | None => false
  | Some u => bs_eqb (scheme u) https && existsb (host_matches (hostname u)) domains
  end.

Definition can_redirect_old (domains : list bs) (npatterns : nat) (re_matched : bool)
           (parse : option parsed) : bool :=
  if (is_nil_l domains) && Nat.eqb npatterns 0 then false else
  match parse with
  | None => false
  | Some u =>
      if negb (bs_eqb (scheme u) https) then false
      else if negb (is_nil (rawquery u)) then false
      else if has_dotdot (upath u) then false
      else if is_nil_l domains then re_matched
      else (if Nat.eqb npatterns 0 then true else re_matched) &&
           existsb (host_matches_old (hostname u)) domains
  end.

(* ---- the client AS CONFIGURED.  configured_domains = the allowed_redirect_domains strings exactly as they
   stand in the configuration file; rc_public = the client has no secret (a public / PKCE client);
   rc_options = the values of every other boolean option of the client record (whichever options exist).
   The loader hands the entries to the validator byte for byte (loaded_domains = identity: no trimming, no
   case folding, no URL-form "normalisation"), and no client kind relaxes any clause of the decision. *)
Record rclient := { rc_public : bool; rc_options : list bool; configured_domains : list bs }.
Definition loaded_domains (c : rclient) : list bs := configured_domains c.
Definition can_redirect_c (c : rclient) (pats : list pres) (parse : option parsed) : option bool :=
  can_redirect_p (loaded_domains c) pats parse.
Definition cors_allowed_c (c : rclient) (parse : option parsed) : bool :=
  cors_allowed (loaded_domains c) parse.

(* two loaders/validators that are NOT the decision (kept to be refuted):
   - a loader that "reduces URL-form entries to their host" with strings.TrimLeft(entry, "https://") — a
     character SET — and cuts at the first '/', '?' or '#' *)
Definition trim_cutset : bs := [104; 116; 116; 112; 115; 58; 47; 47].   (* "https://" *)
Fixpoint trim_left_set (cut s : bs) : bs :=
  match s with
  | c :: r => if existsb (N.eqb c) cut then trim_left_set cut r else s
  | [] => []
  end.
Fixpoint contains_b (p s : bs) : bool :=
  prefix_b p s || match s with [] => false | _ :: r => contains_b p r end.
Fixpoint cut_at_path (s : bs) : bs :=
  match s with
  | c :: r => if (c =? 47) || (c =? 63) || (c =? 35) then [] else c :: cut_at_path r
  | [] => []
  end.
Definition normalise_trimset (entry : bs) : bs :=
  if contains_b [58; 47; 47] entry then cut_at_path (trim_left_set trim_cutset entry) else entry.
Definition can_redirect_c_trimset (c : rclient) (pats : list pres) (parse : option parsed) : option bool :=
  can_redirect_p (map normalise_trimset (configured_domains c)) pats parse.
(*  - a validator that lets a public client use http when the host name "starts like" a loopback literal *)
Definition http_s : bs := [104; 116; 116; 112].
Definition loopback_prefix (h : bs) : bool := prefix_b [49; 50; 55; 46] h.   (* "127." *)
Definition can_redirect_c_loopback (c : rclient) (pats : list pres) (parse : option parsed) : option bool :=
  match parse with
  | Some u =>
      if rc_public c && bs_eqb (scheme u) http_s && loopback_prefix (hostname u)
         && negb (opaque u) && negb (is_nil (uhost u)) && is_nil (rawquery u) && negb (has_dotdot (upath u))
      then match pats with [] => Some true | _ => eval_patterns pats end
      else can_redirect_c c pats parse
  | None => can_redirect_c c pats parse
  end.
