(* C13 — cmd/keymasterd/idp_oidc.go CanRedirectToURL, CorsOriginAllowed and
   idpOpenIDCGenericIsCorsOriginAllowed, over the components url.Parse delivers. *)
From KM Require Import Base.Bytes.

Definition DOT : N := 46.
Definition https : bs := [104; 116; 116; 112; 115].

(* opaque = u.Opaque is non-empty; uhost = u.Host (with port); hostname = u.Hostname() *)
Record parsed := { scheme : bs; opaque : bool; uhost : bs; rawquery : bs; upath : bs; hostname : bs }.

Definition is_nil (s : bs) : bool := match s with [] => true | _ => false end.
Definition starts_with_dot (s : bs) : bool := match s with c :: _ => c =? DOT | [] => false end.

(* hostMatchesDomain *)
Definition host_matches (host domain : bs) : bool :=
  if is_nil domain then false
  else if starts_with_dot domain then suffix_b domain host
  else bs_eqb host domain || suffix_b (DOT :: domain) host.

(* the pre-fix rule: strings.HasSuffix(host, domain) *)
Definition host_matches_old (host domain : bs) : bool := suffix_b domain host.

(* strings.Contains(path, "..") *)
Fixpoint has_dotdot (s : bs) : bool :=
  match s with
  | a :: ((b :: _) as r) => ((a =? DOT) && (b =? DOT)) || has_dotdot r
  | _ => false
  end.

Definition is_nil_l (l : list bs) : bool := match l with [] => true | _ => false end.

(* npatterns = number of configured URL patterns; re_matched = one of them matched the raw
   string (regexp library); parse = None when url.Parse failed *)
Definition can_redirect (domains : list bs) (npatterns : nat) (re_matched : bool)
           (parse : option parsed) : bool :=
  if (is_nil_l domains) && Nat.eqb npatterns 0 then false else
  match parse with
  | None => false
  | Some u =>
      if negb (bs_eqb (scheme u) https) then false
      else if opaque u || is_nil (uhost u) then false
      else if negb (is_nil (rawquery u)) then false
      else if has_dotdot (upath u) then false
      else if is_nil_l domains then re_matched
      else (if Nat.eqb npatterns 0 then true else re_matched) &&
           existsb (host_matches (hostname u)) domains
  end.

(* The pattern loop of CanRedirectToURL as the code runs it: every configured pattern is handed to
   regexp.MatchString (which compiles it) in configuration order until one matches; a pattern the
   regexp library refuses to compile aborts the whole decision with an error (the caller answers 500 and
   redirects nowhere).  The library's verdict per pattern on this URL is the input. *)
Inductive pres := PMatch | PNoMatch | PErr.
Fixpoint eval_patterns (l : list pres) : option bool :=
  match l with
  | [] => Some false
  | PMatch :: _ => Some true
  | PErr :: _ => None
  | PNoMatch :: r => eval_patterns r
  end.
(* None = error (no redirect) *)
Definition can_redirect_p (domains : list bs) (pats : list pres) (parse : option parsed) : option bool :=
  if is_nil_l domains && Nat.eqb (length pats) 0 then Some false else
  match eval_patterns pats with
  | None => None
  | Some re => Some (can_redirect domains (length pats) re parse)
  end.
(* a variant that skips patterns the library refuses (what "log and continue" would do) *)
Fixpoint skip_errors (l : list pres) : list pres :=
  match l with [] => [] | PErr :: r => skip_errors r | x :: r => x :: skip_errors r end.
Definition can_redirect_p_skip (domains : list bs) (pats : list pres) (parse : option parsed) : option bool :=
  can_redirect_p domains (skip_errors pats) parse.

Definition cors_allowed (domains : list bs) (parse : option parsed) : bool :=
  match parse with
  | None => false
  | Some u => bs_eqb (scheme u) https && existsb (host_matches (hostname u)) domains
  end.

Definition can_redirect_old (domains : list bs) (npatterns : nat) (re_matched : bool)
           (parse : option parsed) : bool :=
  if (is_nil_l domains) && Nat.eqb npatterns 0 then false else
  match parse with
  | None => false
  | Some u =>
      if negb (bs_eqb (scheme u) https) then false
      else if negb (is_nil (rawquery u)) then false
      else if has_dotdot (upath u) then false
      else if is_nil_l domains then re_matched
      else (if Nat.eqb npatterns 0 then true else re_matched) &&
           existsb (host_matches_old (hostname u)) domains
  end.
