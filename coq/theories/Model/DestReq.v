(* C17 — the request as a record of channels.  getLoginDestination reads exactly one of them:
   r.FormValue("login_destination"), i.e. the URL query, an urlencoded body or a multipart field
   (net/http merges the three into r.Form).  Everything else a handler could read — cookies, any
   header, a body that is not a form, what follows the route in the path — is carried by the
   record and ignored by the model; the theorems of Props/C17.v say that the Location does not
   depend on those channels and is same-origin whatever they carry. *)
From KM Require Import Base.Bytes Model.Dest.

Record login_req := {
  lr_form : option bs;          (* r.FormValue("login_destination"); None = the request has no such value *)
  lr_cookies : list (bs * bs);  (* Cookie header: (name, value) *)
  lr_headers : list (bs * bs);  (* every other header: Referer, Origin, forwarding headers, any name *)
  lr_body : bs;                 (* a body that is not a form (JSON, ...) *)
  lr_path_suffix : bs           (* what follows the route's own path in the request target *)
}.

(* FormValue returns "" for an absent value; the filter refuses "" (no leading slash) *)
Definition form_value (r : login_req) : bs := match lr_form r with Some v => v | None => [] end.

Definition req_destination (r : login_req) : bs := get_login_destination (form_value r).
(* loginHandler and the success path of every second-factor handler *)
Definition req_location (parse_fails : bool) (r : login_req) : bs :=
  hex_escape (redirect_location parse_fails (req_destination r)).
(* /auth/oauth2/login parks the destination; the provider callback redirects to the parked value *)
Definition req_federated_location (parse_fails : bool) (r : login_req) : bs :=
  callback_location parse_fails (pending_store (form_value r)).

(* A variant that is NOT the code: when the request has no form value, fall back to a cookie named
   like the parameter, without the filter (kept for the refutation witness). *)
Fixpoint assoc_bs (k : bs) (l : list (bs * bs)) : option bs :=
  match l with
  | [] => None
  | (n, v) :: r => if bs_eqb k n then Some v else assoc_bs k r
  end.
(* "login_destination" *)
Definition param_name : bs := [108;111;103;105;110;95;100;101;115;116;105;110;97;116;105;111;110].
Definition req_destination_cookie_fallback (r : login_req) : bs :=
  if is_nil (form_value r) then
    match assoc_bs param_name (lr_cookies r) with
    | Some c => if is_nil c then profile else c
    | None => profile
    end
  else get_login_destination (form_value r).
Definition req_location_cookie_fallback (parse_fails authority : bool) (r : login_req) : bs :=
  hex_escape (redirect_emit parse_fails authority (req_destination_cookie_fallback r)).

(* ---- case scanning with binary indices and a cap on what is kept ----
   cls c = 0: the case agrees with the model; 1: it differs, the observation still satisfies the
   property's predicate; 2: it differs and the observation violates the predicate.
   Result: (number of differing cases, the first [k] differing indices, the first [k] violating
   indices). *)
Fixpoint scan_from {A} (cls : A -> N) (l : list A) (i n : N) (km kv : nat) (mis viol : list N)
  : N * list N * list N :=
  match l with
  | [] => (n, rev mis, rev viol)
  | x :: r =>
      let c := cls x in
      if c =? 0 then scan_from cls r (i + 1) n km kv mis viol
      else
        let '(km', mis') := match km with O => (O, mis) | S k => (k, i :: mis) end in
        let '(kv', viol') := if c =? 2 then match kv with O => (O, viol) | S k => (k, i :: viol) end
                             else (kv, viol) in
        scan_from cls r (i + 1) (n + 1) km' kv' mis' viol'
  end.
Definition scan_cap : nat := 40.
Definition scan {A} (cls : A -> N) (l : list A) : N * list N * list N :=
  scan_from cls l 0 0 scan_cap scan_cap [] [].
Definition scan_count (r : N * list N * list N) : N := fst (fst r).
Definition scan_mismatches (r : N * list N * list N) : list N := snd (fst r).
Definition scan_violating (r : N * list N * list N) : list N := snd r.

Definition cls_of (bad violates : bool) : N := if bad then (if violates then 2 else 1) else 0.

(* the observation predicate of the property: the observed Location is not same-origin *)
Definition c17_cls (c : bool * bs * bs) : N :=
  let '(_, _, o) := c in cls_of (c17_bad c) (negb (same_origin o)).
Definition c17_flow_cls (c : bool * bool * bs * N * bs * bool * bs) : N :=
  let '(_, _, _, _, _, _, loc) := c in cls_of (c17_flow_bad c) (negb (same_origin loc)).
(* logout: the statement has the hypothesis "no control byte in the session's user name" *)
Definition c17_logout_cls (c : bool * bs * bs) : N :=
  let '(_, u, o) := c in cls_of (c17_logout_bad c) (negb (has is_ctl (strip u)) && negb (same_origin o)).

(* channel cases: (url.Parse of the form value failed?, federated flow?, form value, other
   channels as (kind, name, value) with kind 0 = cookie, 1 = header, 2 = non-form body,
   3 = path suffix, 4 = multipart field, observed Location).
   A multipart field named like the parameter is part of r.Form exactly when the handler has not
   called ParseForm before FormValue (net/http); which of the two holds is not modelled: the case
   agrees with the model when the Location is the model's for [lr_form] as given or for
   [lr_form := Some field value] — both same-origin by c17_channels_same_origin. *)
Definition chan_case := (bool * bool * option bs * list (N * bs * bs) * bs)%type.
Definition chans_of_kind (k : N) (l : list (N * bs * bs)) : list (bs * bs) :=
  map (fun c => (snd (fst c), snd c)) (filter (fun c => fst (fst c) =? k) l).
Definition req_of_case (form : option bs) (l : list (N * bs * bs)) : login_req :=
  {| lr_form := form; lr_cookies := chans_of_kind 0 l; lr_headers := chans_of_kind 1 l;
     lr_body := concat (map snd (chans_of_kind 2 l)); lr_path_suffix := concat (map snd (chans_of_kind 3 l)) |}.
Definition chan_model (pf fed : bool) (form : option bs) (l : list (N * bs * bs)) : bs :=
  let r := req_of_case form l in
  if fed then req_federated_location pf r else req_location pf r.
Definition c17_chan_bad (c : chan_case) : bool :=
  let '(pf, fed, form, l, o) := c in
  negb (bs_eqb (chan_model pf fed form l) o) &&
  match chans_of_kind 4 l with
  | (_, v) :: _ => negb (bs_eqb (chan_model false fed (Some v) l) o) && negb (bs_eqb (chan_model true fed (Some v) l) o)
  | [] => true
  end.
Definition c17_chan_cls (c : chan_case) : N :=
  let '(_, _, _, _, o) := c in cls_of (c17_chan_bad c) (negb (same_origin o)).
