(* C19 — the LABEL under which the client installs a certificate in the agent, as a byte string of any shape
   (spaces, tabs, line ends, control bytes, multi-byte characters, empty, very long, labels that are prefixes of
   each other or differ only in case), and REPEATED installations under one label.

   cmd/keymaster/main.go        insertSSHCertIntoAgentORWriteToFilesystem   comment := filePrefix + "-" + userName
   lib/client/sshagent/agent.go withAddedKeyUpsertCertIntoAgentConnection   deleteDuplicateEntries(certToAdd.Comment, ...) looks
                                for the label among the comments the agent REPORTS (key.Comment != comment, byte
                                equality); agentClient.Add(certToAdd) hands certToAdd.Comment to the agent, as given.

   Two places use the label: the look-up of what is to be replaced and the comment under which the new identity
   is stored.  The replacement works across runs only when the second is what the first looks for. *)
From KM Require Import Base.Bytes Model.Client.
Open Scope N_scope.

(* the comment handed to the agent for a label: certToAdd.Comment, unchanged *)
Definition agent_comment (label : bs) : bs := label.

(* one installation: the client is given `label` and a new certificate (public blob `blob`); `cm` = what is
   stored as the comment for a label *)
Definition install_cert_with (cm : bs -> bs) (label blob : bs) (a : agent) : agent :=
  agent_add (mkEntry (cm label) blob true) (delete_duplicates label a).
Definition install_cert : bs -> bs -> agent -> agent := install_cert_with agent_comment.

(* k installations in a row under one label (one per run of the client), each with a fresh certificate *)
Definition install_many_with (cm : bs -> bs) (label : bs) (blobs : list bs) (a : agent) : agent :=
  fold_left (fun acc b => install_cert_with cm label b acc) blobs a.
Definition install_many : bs -> list bs -> agent -> agent := install_many_with agent_comment.

(* what the client considers installed under a label: the certificates whose reported comment is the label *)
Definition under_label (label : bs) (a : agent) : agent := filter (is_dup label) a.
Definition certs_of (a : agent) : agent := filter e_cert a.

(* NOT the code: the comment is normalised when it is STORED (runs of white space / control bytes become one
   underscore, as strings.FieldsFunc + strings.Join "_" do) while the look-up keeps the raw label *)
Definition is_space_or_control (b : N) : bool := (b <=? 32) || (b =? 127).
Fixpoint fields_rev (cur : bs) (l : bs) : list bs :=
  match l with
  | [] => match cur with [] => [] | _ => [rev cur] end
  | b :: r =>
      if is_space_or_control b
      then match cur with [] => fields_rev [] r | _ => rev cur :: fields_rev [] r end
      else fields_rev (b :: cur) r
  end.
Fixpoint join_underscore (fs : list bs) : bs :=
  match fs with
  | [] => []
  | f :: r => match r with [] => f | _ => f ++ [95] ++ join_underscore r end
  end.
Definition normalised_comment (label : bs) : bs := join_underscore (fields_rev [] label).

(* ------------------------------------------------------------------ correspondence *)
(* one history of the label harness: (agent before, [(label, blob installed, listing observed afterwards)]);
   several labels of one family (a label, a prefix of it, the same in another case, ...) share the agent *)
Definition lcase := (agent * list (bs * bs * agent))%type.
Fixpoint lcheck_from (a : agent) (steps : list (bs * bs * agent)) : bool :=
  match steps with
  | [] => true
  | (label, b, listing) :: r => let a' := install_cert label b a in same_entries a' listing && lcheck_from a' r
  end.
Definition lcheck (c : lcase) : bool := lcheck_from (fst c) (snd c).

(* the property predicate on the observation: after an installation of blob b under a label, the listing does
   not show exactly one certificate under that label, or that one is not b, or a certificate that an EARLIER
   installation of this history put there under the same label is still listed (whatever comment the agent
   reports for it), or an identity that is not a certificate under the label disappeared *)
Definition holds_blob_l (b : bs) (a : agent) : bool := existsb (fun x => bs_eqb (e_blob x) b) a.
Fixpoint lviolates_from (earlier : list (bs * bs)) (prev : agent) (steps : list (bs * bs * agent)) : bool :=
  match steps with
  | [] => false
  | (label, b, listing) :: r =>
      negb (match under_label label listing with [x] => bs_eqb (e_blob x) b | _ => false end) ||
      existsb (fun old : bs * bs => bs_eqb (fst old) label && negb (bs_eqb (snd old) b) && holds_blob_l (snd old) listing) earlier ||
      existsb (fun x => negb (is_dup label x) && negb (bs_eqb (e_blob x) b) && negb (existsb (entry_eqb x) listing)) prev ||
      lviolates_from ((label, b) :: earlier) listing r
  end.
Definition lviolates (c : lcase) : bool := lviolates_from [] (fst c) (snd c).
