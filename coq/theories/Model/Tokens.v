(* C04 / C12 — the signed artefacts of keymasterd as symbolic tokens.

   cmd/keymasterd/jwt.go        JWTClaims, getJoseKeymastedVerifierList, genNewSerializedAuthJWT,
                                getAuthInfoFromJWT, updateAuthJWTWithNewAuthLevel,
                                genNewSerializedStorageStringDataJWT, getStorageDataFromStorageStringDataJWT
   cmd/keymasterd/app.go        authInfoJWT, storageStringDataJWT, checkAuth (cookie branch)
   cmd/keymasterd/authToken.go  generateAuthJWT, VerifyAuthTokenHandler, SendAuthDocumentHandler
   cmd/keymasterd/storage.go    GetSigned (SQL column test, subject test)
   cmd/keymasterd/idp_oidc.go   keymasterdCodeToken, bearerAccessToken, openIDConnectIDToken

   A token is a record {signer; alg; tampered; claims}.  Cryptography is symbolic: verification
   succeeds iff the signer is one of KeymasterPublicKeys, the header algorithm is one of those
   derived from the trusted keys, and the bytes were not altered after signing.  The claim set is
   a list of (JSON name, value); every consumer decodes it into the Go struct IT declares (absent
   claim = Go zero value, claim of another JSON type = decode error), so a kind test on
   "token_type" and one on "type" look at different fields, exactly as in the code.
   Times: [now] is a clock reading in nanoseconds; time.Now().Unix() is [unix now]. *)
From Coq Require Import String Ascii ZArith NArith List Bool.
From KM Require Import Base.Bytes.
Import ListNotations.
Open Scope Z_scope.

Definition NS : Z := 1000000000.
Definition unix (now : Z) : Z := now / NS.

(* a string literal as bytes *)
Fixpoint b (s : string) : bs :=
  match s with EmptyString => [] | String a r => N_of_ascii a :: b r end.

(* ---------------------------------------------------------------- claims *)

Inductive jval :=
| VStr (s : bs)
| VInt (z : Z)
| VList (l : list bs)
| VSealed (nonce chal meth : bs).
  (* VSealed: the pair protected_data_key / protected_data of an authorization code: the PKCE
     challenge and method, AES-GCM sealed with the code's jti as nonce under a key wrapped for
     the server (idp_oidc.go sealEncodeData / encryptKeyAndSerialize).  On the wire it is a JSON
     string; any other string in that place does not open. *)

Definition claimset := list (string * jval).

Fixpoint lookup (n : string) (c : claimset) : option jval :=
  match c with
  | [] => None
  | (k, v) :: r => if String.eqb n k then Some v else lookup n r
  end.

(* decoding one struct field: absent = zero value, wrong JSON type = error *)
Definition rd_str (n : string) (c : claimset) : option bs :=
  match lookup n c with
  | None => Some []
  | Some (VStr s) => Some s
  | Some _ => None
  end.
Definition rd_int (n : string) (c : claimset) : option Z :=
  match lookup n c with None => Some 0 | Some (VInt z) => Some z | Some _ => None end.
Definition rd_list (n : string) (c : claimset) : option (list bs) :=
  match lookup n c with None => Some [] | Some (VList l) => Some l | Some _ => None end.

Definition bind {A B} (o : option A) (f : A -> option B) : option B :=
  match o with Some a => f a | None => None end.
Notation "'do' x <- o ; k" := (bind o (fun x => k)) (at level 200, x name, o at level 100, k at level 200).

(* ---------------------------------------------------------------- tokens and the server *)

Record token := { t_signer : N; t_alg : N; t_tampered : bool; t_claims : claimset }.

Record server := {
  s_issuer : bs;                 (* idpGetIssuer() *)
  s_keys : list (N * N);         (* KeymasterPublicKeys: (key id, algorithm preferred for its type) *)
  s_signer : N;                  (* key id of state.Signer *)
  s_signer_alg : N;              (* publicToPreferedJoseSigAlgo(state.Signer.Public()) *)
  s_userinfo : bs }.             (* idpGetIssuer() + idpOpenIDCUserinfoPath *)

Definition trusted_key (st : server) (k : N) : bool := existsb (fun e => (fst e =? k)%N) (s_keys st).
Definition allowed_alg (st : server) (a : N) : bool := existsb (fun e => (snd e =? a)%N) (s_keys st).

(* jwt.ParseSigned(tok, getJoseKeymastedVerifierList()) followed by JWTClaims over all trusted keys *)
Definition verify (st : server) (t : token) : bool :=
  trusted_key st (t_signer t) && allowed_alg st (t_alg t) && negb (t_tampered t).

(* ---------------------------------------------------------------- kind constants *)

Definition k_session : bs := b "keymaster_auth".
Definition k_cli : bs := b "keymaster_webauth_for_cli_identity".
Definition k_storage : bs := b "storage_data".
Definition k_code : bs := b "token_endpoint".
Definition k_access : bs := b "bearer".

(* ---------------------------------------------------------------- the structs *)

(* app.go authInfoJWT *)
Record authjwt := { a_iss : bs; a_sub : bs; a_aud : list bs; a_exp : Z; a_nbf : Z; a_iat : Z;
                    a_token_type : bs; a_auth_type : Z }.
Definition dec_auth (c : claimset) : option authjwt :=
  do iss <- rd_str "iss" c; do sub <- rd_str "sub" c; do aud <- rd_list "aud" c;
  do exp <- rd_int "exp" c; do nbf <- rd_int "nbf" c; do iat <- rd_int "iat" c;
  do tt <- rd_str "token_type" c; do at_ <- rd_int "auth_type" c;
  Some {| a_iss := iss; a_sub := sub; a_aud := aud; a_exp := exp; a_nbf := nbf; a_iat := iat;
          a_token_type := tt; a_auth_type := at_ |}.
Definition enc_auth (a : authjwt) : claimset :=
  [("iss", VStr (a_iss a)); ("sub", VStr (a_sub a)); ("aud", VList (a_aud a)); ("exp", VInt (a_exp a));
   ("nbf", VInt (a_nbf a)); ("iat", VInt (a_iat a)); ("token_type", VStr (a_token_type a));
   ("auth_type", VInt (a_auth_type a))]%string.

(* app.go storageStringDataJWT *)
Record storagejwt := { g_iss : bs; g_sub : bs; g_aud : list bs; g_nbf : Z; g_exp : Z; g_iat : Z;
                       g_token_type : bs; g_data_type : Z; g_data : bs }.
Definition dec_storage (c : claimset) : option storagejwt :=
  do iss <- rd_str "iss" c; do sub <- rd_str "sub" c; do aud <- rd_list "aud" c;
  do nbf <- rd_int "nbf" c; do exp <- rd_int "exp" c; do iat <- rd_int "iat" c;
  do tt <- rd_str "token_type" c; do dt <- rd_int "data_type" c; do d <- rd_str "data" c;
  Some {| g_iss := iss; g_sub := sub; g_aud := aud; g_nbf := nbf; g_exp := exp; g_iat := iat;
          g_token_type := tt; g_data_type := dt; g_data := d |}.
Definition enc_storage (g : storagejwt) : claimset :=
  [("iss", VStr (g_iss g)); ("sub", VStr (g_sub g)); ("aud", VList (g_aud g)); ("nbf", VInt (g_nbf g));
   ("exp", VInt (g_exp g)); ("iat", VInt (g_iat g)); ("token_type", VStr (g_token_type g));
   ("data_type", VInt (g_data_type g)); ("data", VStr (g_data g))]%string.

(* idp_oidc.go keymasterdCodeToken *)
Record codejwt := { c_iss : bs; c_sub : bs; c_iat : Z; c_exp : Z; c_aud : list bs; c_username : bs;
                    c_auth_level : Z; c_auth_exp : Z; c_nonce : bs; c_redirect : bs;
                    c_access_aud : list bs; c_scope : bs; c_type : bs; c_jti : bs;
                    c_sealed : option (bs * bs * bs) }.
Definition rd_sealed (c : claimset) : option (option (bs * bs * bs)) :=
  match lookup "protected_data" c with
  | None => Some None
  | Some (VSealed n ch m) => Some (Some (n, ch, m))
  | Some (VStr _) => Some None          (* a string that is not a sealed box of this server *)
  | Some _ => None
  end.
Definition dec_code (c : claimset) : option codejwt :=
  do iss <- rd_str "iss" c; do sub <- rd_str "sub" c; do iat <- rd_int "iat" c; do exp <- rd_int "exp" c;
  do aud <- rd_list "aud" c; do un <- rd_str "username" c; do al <- rd_int "auth_level" c;
  do ae <- rd_int "auth_exp" c; do nonce <- rd_str "nonce" c; do red <- rd_str "redirect_uri" c;
  do aa <- rd_list "access_audience" c; do sc <- rd_str "scope" c; do ty <- rd_str "type" c;
  do jti <- rd_str "jti" c; do _k <- rd_str "protected_data_key" c; do sealed <- rd_sealed c;
  Some {| c_iss := iss; c_sub := sub; c_iat := iat; c_exp := exp; c_aud := aud; c_username := un;
          c_auth_level := al; c_auth_exp := ae; c_nonce := nonce; c_redirect := red; c_access_aud := aa;
          c_scope := sc; c_type := ty; c_jti := jti; c_sealed := sealed |}.
Definition enc_code (k : codejwt) : claimset :=
  [("iss", VStr (c_iss k)); ("sub", VStr (c_sub k)); ("iat", VInt (c_iat k)); ("exp", VInt (c_exp k));
   ("aud", VList (c_aud k)); ("username", VStr (c_username k)); ("auth_level", VInt (c_auth_level k));
   ("auth_exp", VInt (c_auth_exp k)); ("nonce", VStr (c_nonce k)); ("redirect_uri", VStr (c_redirect k));
   ("access_audience", VList (c_access_aud k)); ("scope", VStr (c_scope k)); ("type", VStr (c_type k));
   ("jti", VStr (c_jti k))]%string ++
  match c_sealed k with
  | Some (n, ch, m) => [("protected_data_key", VStr [1%N]); ("protected_data", VSealed n ch m)]%string
  | None => []
  end.

(* idp_oidc.go bearerAccessToken *)
Record accessjwt := { x_iss : bs; x_aud : list bs; x_username : bs; x_scope : bs; x_exp : Z; x_iat : Z;
                      x_type : bs }.
Definition dec_access (c : claimset) : option accessjwt :=
  do iss <- rd_str "iss" c; do aud <- rd_list "aud" c; do un <- rd_str "username" c;
  do sc <- rd_str "scope" c; do exp <- rd_int "exp" c; do iat <- rd_int "iat" c; do ty <- rd_str "type" c;
  Some {| x_iss := iss; x_aud := aud; x_username := un; x_scope := sc; x_exp := exp; x_iat := iat;
          x_type := ty |}.
Definition enc_access (x : accessjwt) : claimset :=
  [("iss", VStr (x_iss x)); ("aud", VList (x_aud x)); ("username", VStr (x_username x));
   ("scope", VStr (x_scope x)); ("exp", VInt (x_exp x)); ("iat", VInt (x_iat x)); ("type", VStr (x_type x))]%string.

(* idp_oidc.go openIDConnectIDToken (only produced, never consumed by keymasterd) *)
Record idjwt := { i_iss : bs; i_sub : bs; i_aud : list bs; i_exp : Z; i_iat : Z; i_nonce : bs }.
Definition enc_id (i : idjwt) : claimset :=
  [("iss", VStr (i_iss i)); ("sub", VStr (i_sub i)); ("aud", VList (i_aud i)); ("exp", VInt (i_exp i));
   ("iat", VInt (i_iat i)); ("auth_time", VInt 0) (* declared, never set *); ("nonce", VStr (i_nonce i))]%string.
Definition dec_id (c : claimset) : option idjwt :=
  do iss <- rd_str "iss" c; do sub <- rd_str "sub" c; do aud <- rd_list "aud" c; do exp <- rd_int "exp" c;
  do iat <- rd_int "iat" c; do nonce <- rd_str "nonce" c;
  Some {| i_iss := iss; i_sub := sub; i_aud := aud; i_exp := exp; i_iat := iat; i_nonce := nonce |}.

(* ---------------------------------------------------------------- producers *)

Definition sign (st : server) (c : claimset) : token :=
  {| t_signer := s_signer st; t_alg := s_signer_alg st; t_tampered := false; t_claims := c |}.

(* jwt.go genNewSerializedAuthJWT(username, authLevel, durationSeconds) *)
Definition p_session (st : server) (now : Z) (user : bs) (level dur : Z) : token :=
  sign st (enc_auth {| a_iss := s_issuer st; a_sub := user; a_aud := [s_issuer st];
                       a_exp := unix now + dur; a_nbf := unix now; a_iat := unix now;
                       a_token_type := k_session; a_auth_type := level |}).

(* authToken.go generateAuthJWT(username); life = WebauthTokenForCliLifetime in seconds *)
Definition p_cli (st : server) (now : Z) (user : bs) (life : Z) : token :=
  sign st (enc_auth {| a_iss := s_issuer st; a_sub := user; a_aud := [s_issuer st];
                       a_exp := unix now + life; a_nbf := unix now; a_iat := unix now;
                       a_token_type := k_cli; a_auth_type := 0 |}).

(* jwt.go genNewSerializedStorageStringDataJWT(username, dataType, data, expiration) *)
Definition p_storage (st : server) (now : Z) (user : bs) (dtype : Z) (data : bs) (exp : Z) : token :=
  sign st (enc_storage {| g_iss := s_issuer st; g_sub := user; g_aud := [s_issuer st]; g_nbf := unix now;
                          g_exp := exp; g_iat := unix now; g_token_type := k_storage;
                          g_data_type := dtype; g_data := data |}).

(* idp_oidc.go: constants of the authorization step *)
Definition code_life : Z := 300.       (* idpOpenIDCMaxAuthProcessMaxDurationSeconds *)
Definition auth_life : Z := 57600.     (* maxAgeSecondsAuthCookie = 16 h *)

(* idpOpenIDCAuthorizationHandler: the code minted for (client, user, redirect, nonce, challenge) *)
Definition p_code (st : server) (now : Z) (client user scope redirect nonce jti : bs)
           (chal meth : bs) (access_aud : list bs) : token :=
  sign st (enc_code {| c_iss := s_issuer st; c_sub := client; c_iat := unix now;
                       c_exp := unix now + code_life; c_aud := []; c_username := user; c_auth_level := 0;
                       c_auth_exp := unix now + auth_life; c_nonce := nonce; c_redirect := redirect;
                       c_access_aud := access_aud; c_scope := scope; c_type := k_code; c_jti := jti;
                       c_sealed := match chal with [] => None | _ => Some (jti, chal, meth) end |}).

(* idpOpenIDCTokenHandler: what is released for a decoded code *)
Definition p_id (st : server) (now : Z) (client : bs) (k : codejwt) : token :=
  sign st (enc_id {| i_iss := s_issuer st; i_sub := c_username k; i_aud := [client];
                     i_exp := c_auth_exp k; i_iat := unix now; i_nonce := c_nonce k |}).
Definition p_access (st : server) (now : Z) (k : codejwt) : token :=
  sign st (enc_access {| x_iss := s_issuer st;
                         x_aud := match c_access_aud k with [] => [] | l => l ++ [s_userinfo st] end;
                         x_username := c_username k; x_scope := c_scope k; x_exp := c_auth_exp k;
                         x_iat := unix now; x_type := k_access |}).

(* ---------------------------------------------------------------- consumers *)

Definition has_elems {A} (l : list A) : bool := match l with [] => false | _ :: _ => true end.

Definition aud0_is (aud : list bs) (x : bs) : bool :=
  match aud with a :: _ => bs_eqb a x | [] => false end.

(* the comparison shared by getAuthInfoFromJWT, updateAuthJWTWithNewAuthLevel and
   getStorageDataFromStorageStringDataJWT *)
Definition std_ok (st : server) (now : Z) (iss : bs) (aud : list bs) (tt kind : bs) (nbf : Z) : bool :=
  bs_eqb iss (s_issuer st) && bs_eqb tt kind && aud0_is aud (s_issuer st) && negb (nbf >? unix now).

Record authinfo := { ai_level : Z; ai_exp : Z; ai_iat : Z; ai_user : bs }.

(* jwt.go getAuthInfoFromJWT(serializedToken, tokenType) *)
Definition auth_info (st : server) (now : Z) (kind : bs) (t : token) : option authinfo :=
  if verify st t then
    do a <- dec_auth (t_claims t);
    if std_ok st now (a_iss a) (a_aud a) (a_token_type a) kind (a_nbf a)
    then Some {| ai_level := a_auth_type a; ai_exp := a_exp a; ai_iat := a_iat a; ai_user := a_sub a |}
    else None
  else None.

(* app.go checkAuth, cookie branch: ExpiresAt.Before(now) and the required mask *)
Definition c_session (st : server) (now : Z) (required : Z) (t : token) : option authinfo :=
  do i <- auth_info st now k_session t;
  if ai_exp i * NS <? now then None
  else if Z.land (ai_level i) required =? 0 then None
  else Some i.

(* jwt.go updateAuthJWTWithNewAuthLevel: the re-signed cookie *)
Definition c_update (st : server) (now : Z) (newlevel : Z) (t : token) : option token :=
  if verify st t then
    do a <- dec_auth (t_claims t);
    if std_ok st now (a_iss a) (a_aud a) (a_token_type a) k_session (a_nbf a)
    then Some (sign st (enc_auth {| a_iss := a_iss a; a_sub := a_sub a; a_aud := a_aud a; a_exp := a_exp a;
                                    a_nbf := a_nbf a; a_iat := a_iat a; a_token_type := a_token_type a;
                                    a_auth_type := newlevel |}))
    else None
  else None.

(* authToken.go VerifyAuthTokenHandler: time.Until(ExpiresAt) < 0 *)
Definition c_cli_verify (st : server) (now : Z) (t : token) : bool :=
  match auth_info st now k_cli t with
  | Some i => negb (ai_exp i * NS - now <? 0)
  | None => false
  end.

(* authToken.go SendAuthDocumentHandler after checkAuth let [session_user] in: the cookie put
   into the redirect to the CLI's local port (level = AuthTypeWebauthForCLI = cli_level) *)
Definition c_cli_send (st : server) (now : Z) (cli_level : Z) (session_user : bs) (t : token) : option token :=
  do i <- auth_info st now k_cli t;
  if negb (bs_eqb (ai_user i) session_user) then None
  else if ai_exp i * NS - now <? 0 then None
  else Some (p_session st now (ai_user i) cli_level (Z.quot (ai_exp i * NS - now) NS)).

(* storage.go GetSigned(username, dataType) on the row selected by (username, type):
   the unsigned column, then getStorageDataFromStorageStringDataJWT (with the expiry claim
   tested, see c_storage_old), then the subject *)
Record row := { r_col_exp : Z; r_jws : token }.

Definition storage_data (st : server) (now : Z) (t : token) : option storagejwt :=
  if verify st t then
    do g <- dec_storage (t_claims t);
    if std_ok st now (g_iss g) (g_aud g) (g_token_type g) k_storage (g_nbf g) && negb (g_exp g <? unix now)
    then Some g else None
  else None.

Definition c_storage (st : server) (now : Z) (user : bs) (r : row) : option bs :=
  if r_col_exp r >? unix now then
    do g <- storage_data st now (r_jws r);
    if bs_eqb (g_sub g) user then Some (g_data g) else None
  else None.

(* The two arms of GetSigned's select: the primary answered within remoteDBQueryTimeout, or it
   did not (slow, or failing: the goroutine does not answer) and the row of the local cache DB
   is taken instead.  Either arm hands ITS row to the verification above. *)
Inductive rpath := PPrimary | PCache.
Definition answering_row (p : rpath) (prim cache : option row) : option row :=
  match p with PPrimary => prim | PCache => cache end.
Definition get_signed_via (p : rpath) (st : server) (now : Z) (user : bs) (prim cache : option row) : option bs :=
  match answering_row p prim cache with
  | Some r => c_storage st now user r
  | None => None
  end.
(* a read path that verifies signature, kind, issuer, audience and window of the cache's row but
   does not compare its subject with the requested user (refuted in Props/C04.v) *)
Definition c_storage_nosub (st : server) (now : Z) (user : bs) (r : row) : option bs :=
  if r_col_exp r >? unix now then
    do g <- storage_data st now (r_jws r); Some (g_data g)
  else None.

(* before the fix: the signed exp claim was never looked at *)
Definition storage_data_old (st : server) (now : Z) (t : token) : option storagejwt :=
  if verify st t then
    do g <- dec_storage (t_claims t);
    if std_ok st now (g_iss g) (g_aud g) (g_token_type g) k_storage (g_nbf g) then Some g else None
  else None.
Definition c_storage_old (st : server) (now : Z) (user : bs) (r : row) : option bs :=
  if r_col_exp r >? unix now then
    do g <- storage_data_old st now (r_jws r);
    if bs_eqb (g_sub g) user then Some (g_data g) else None
  else None.

(* idp_oidc.go idpOpenIDCUserinfoHandler: the user the bearer token speaks for *)
Definition c_userinfo (st : server) (now : Z) (t : token) : option bs :=
  if verify st t then
    do x <- dec_access (t_claims t);
    if x_exp x <? unix now then None
    else if negb (bs_eqb (x_type x) k_access) then None
    else if negb (bs_eqb (x_iss x) (s_issuer st)) then None
    else if has_elems (x_aud x) && negb (mem_bs (s_userinfo st) (x_aud x)) then None
    else Some (x_username x)
  else None.

(* ---------------------------------------------------------------- the identity of a server (C04: peer instances) *)

(* jwt.go idpGetIssuer: "https://" + HostIdentity, followed by the service address unless that is
   ":443".  This string is what "this server" means in the iss / aud claims of session cookies, CLI
   tokens and storage records, when they are minted and when they are checked: a function of the
   instance's host identity and listen address, of nothing else in the configuration. *)
Definition issuer_of (host addr : bs) : bs :=
  b "https://" ++ host ++ (if bs_eqb addr (b ":443") then [] else addr).

(* the server record of the instance configured with (host_identity, http_address), keys as given *)
Definition server_at (host addr userinfo_path : bs) (keys : list (N * N)) (signer alg : N) : server :=
  {| s_issuer := issuer_of host addr; s_keys := keys; s_signer := signer; s_signer_alg := alg;
     s_userinfo := issuer_of host addr ++ userinfo_path |}.

(* A PEER is another instance of the same deployment: a server record of its own (own host identity,
   own signer).  Members of a cluster list each other's signer keys in keymaster_public_keys_filename:
   [trusts_signer st pe] says that st verifies what pe signs. *)
Definition trusts_signer (st pe : server) : bool :=
  trusted_key st (s_signer pe) && allowed_alg st (s_signer_alg pe).

(* "names this server as issuer and (first) audience", on the raw claims (boolean form of
   Proofs/Tokens.v names_server) *)
Definition names_server_b (st : server) (c : claimset) : bool :=
  match rd_str "iss" c, rd_list "aud" c with
  | Some i, Some (a :: _) => bs_eqb i (s_issuer st) && bs_eqb a (s_issuer st)
  | _, _ => false
  end.
