(* C05 — whose profile a second-factor handler is served.

   Every second-factor handler starts with LoadUserProfile(authData.Username) (storage.go):
       select profile_data from user_profile where username = ?
   and what it finds there (TOTP secrets, U2F / WebAuthn registrations, the bootstrap OTP hash) decides
   whose device or secret the presented value is checked against.  SaveUserProfile is
       insert or replace into user_profile(username, profile_data) values(?, ?)
   — the row stored under exactly that name is deleted and a new row (new rowid: last in scan order)
   is written.  User names are byte strings; the table is the list of its rows in scan order. *)
From KM Require Import Base.Bytes Model.Session.

Definition row := (bs * devices)%type.
Definition table := list row.                  (* oldest write first *)

Definition key_is (n : bs) (r : row) : bool := bs_eqb (fst r) n.

Definition save (n : bs) (d : devices) (t : table) : table :=
  filter (fun r => negb (key_is n r)) t ++ [(n, d)].

Definition delete (n : bs) (t : table) : table := filter (fun r => negb (key_is n r)) t.

(* "where username = ?" with QueryRow: the first row, in scan order, stored under exactly that name *)
Definition lookup (n : bs) (t : table) : option devices :=
  match find (key_is n) t with Some r => Some (snd r) | None => None end.

(* no row: LoadUserProfile answers ok = false with an empty default profile *)
Definition nodev : devices := {| has_totp := false; has_u2f := false; has_wa := false; has_profile := false |}.

(* the enrolment the session machine (Model.Session, `devs`) sees: users are numbered, `names` is the
   table of their names (injective: checked by computation wherever it is instantiated) *)
Definition devs_of (names : N -> bs) (t : table) (u : N) : devices :=
  match lookup (names u) t with Some d => d | None => nodev end.

Fixpoint distinct (l : list bs) : bool :=
  match l with [] => true | x :: r => negb (mem_bs x r) && distinct r end.

(* ---- for contrast: the same lookup through a pattern matcher of the layer below.  SQL LIKE as
        SQLite evaluates it: `_` one character, `%` any run, ASCII letters without regard to case ---- *)
Definition lower (c : N) : N := if (65 <=? c) && (c <=? 90) then c + 32 else c.

Fixpoint like (p : bs) : bs -> bool :=
  match p with
  | [] => fun s => match s with [] => true | _ => false end
  | c :: p' =>
      if c =? 37 then
        fix star (s : bs) : bool := like p' s || match s with [] => false | _ :: s' => star s' end
      else fun s => match s with
                    | [] => false
                    | x :: s' => ((c =? 95) || (lower c =? lower x)) && like p' s'
                    end
  end.

Definition lookup_like (n : bs) (t : table) : option devices :=
  match find (fun r => like n (fst r)) t with Some r => Some (snd r) | None => None end.
