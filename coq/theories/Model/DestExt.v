(* C17 — an optional external base URL of the deployment as a configuration component of the destination model. *)
From KM Require Import Base.Bytes Model.Dest Model.DestReq.

(* ------------------------------------------------------------------------------------------
   An optional external base URL of the deployment (a configuration component).  The statement
   with it: an accepted destination resolves to the page's own origin OR under the configured
   URL.  [under_ext e loc]: after the browser's tab/CR/LF stripping the Location starts with the
   external URL (trailing slashes dropped), continues with '/', '?', '#' or nothing, carries no
   backslash / control byte, and its path has no ".." segment (raw or %2e) that could climb out
   of the prefix.
   ------------------------------------------------------------------------------------------ *)
Definition HASH : N := 35.
Fixpoint prefix_b (p s : bs) : bool :=
  match p, s with
  | [], _ => true
  | x :: p', y :: s' => (x =? y) && prefix_b p' s'
  | _ :: _, [] => false
  end.
Fixpoint drop_sl (s : bs) : bs := match s with x :: r => if x =? SL then drop_sl r else s | [] => [] end.
Definition ext_root (e : bs) : bs := rev (drop_sl (rev e)).
Fixpoint path_part (s : bs) : bs :=
  match s with [] => [] | x :: r => if (x =? QM) || (x =? HASH) then [] else x :: path_part r end.
Fixpoint has_pct2e (s : bs) : bool :=
  match s with
  | a :: r => (match r with b :: c :: _ => (a =? PCT) && (b =? 50) && ((c =? 101) || (c =? 69)) | _ => false end) || has_pct2e r
  | [] => false
  end.
Definition under_ext (e loc : bs) : bool :=
  let l := strip loc in
  let root := ext_root e in
  let rest := skipn (length root) l in
  let p := path_part rest in
  negb (is_nil root) && prefix_b root l &&
  match rest with [] => true | x :: _ => (x =? SL) || (x =? QM) || (x =? HASH) end &&
  negb (has is_bad l) && negb (existsb is_dotdot (split_sl p [])) && negb (has_pct2e p).
Definition allowed (ext : option bs) (loc : bs) : bool :=
  same_origin loc || match ext with Some e => under_ext e loc | None => false end.

(* The tree the model follows has no such setting: the Location does not depend on it. *)
Definition location_ext (ext : option bs) (parse_fails : bool) (form_value : bs) : bs := location parse_fails form_value.
Definition federated_location_ext (ext : option bs) (parse_fails : bool) (form_value : bs) : bs :=
  federated_location parse_fails form_value.

(* NOT the code: a resolution step behind the filter that makes the accepted destination relative (drops the
   leading slash) and resolves it against the external URL as RFC 3986 does — a reference that has a scheme is
   returned as it is.  Refutation witness only. *)
Definition is_alpha (c : N) : bool := ((65 <=? c) && (c <=? 90)) || ((97 <=? c) && (c <=? 122)).
Definition is_scheme_char (c : N) : bool :=
  is_alpha c || ((48 <=? c) && (c <=? 57)) || (c =? 43) || (c =? 45) || (c =? 46).
Fixpoint scheme_rest (s : bs) : bool :=
  match s with x :: r => if x =? 58 then true else if is_scheme_char x then scheme_rest r else false | [] => false end.
Definition has_scheme (s : bs) : bool := match s with x :: r => is_alpha x && scheme_rest r | [] => false end.
Definition resolve_stripped (e d : bs) : bs :=
  let rel := match d with x :: r => if x =? SL then r else d | [] => [] end in
  if has_scheme rel then rel else ext_root e ++ SL :: rel.
Definition location_strip_resolve (ext : option bs) (parse_fails : bool) (form_value : bs) : bs :=
  match ext with
  | None => location parse_fails form_value
  | Some e => hex_escape (resolve_stripped e (get_login_destination form_value))
  end.

(* correspondence with a URL-valued configuration knob: (the knob's value, url.Parse failed?, form value, Location) *)
Definition c17_ext_bad (c : option bs * bool * bs * bs) : bool :=
  let '(ext, pf, i, o) := c in negb (bs_eqb (location_ext ext pf i) o).
Definition c17_ext_cls (c : option bs * bool * bs * bs) : N :=
  let '(ext, _, _, o) := c in cls_of (c17_ext_bad c) (negb (allowed ext o)).

