(* C01 / C06 / C08 — cmd/keymasterd/app.go checkAuth, branch by branch, over symbolic
   credentials (signatures are abstract: a token carries whether its signer is one of this
   deployment's keys, whether the header algorithm is one the trusted keys allow, and whether
   the bytes were altered after signing). Users are numbers; levels are N bit masks whose bit
   values come from the regenerated constants (Obl files instantiate them). *)
From Coq Require Import ZArith.
From KM Require Import Base.Bytes.
Open Scope N_scope.

(* bit values as in app.go (AuthTypePassword = 1 << iota with iota = 1, ...); re-proved equal
   to the regenerated Consts on every run *)
Definition bPassword : N := 2.
Definition bFederated : N := 4.
Definition bU2F : N := 8.
Definition bVIP : N := 16.
Definition bIPCert : N := 32.
Definition bTOTP : N := 64.
Definition bOkta : N := 128.
Definition bBootstrap : N := 256.
Definition bKMX509 : N := 512.
Definition bCLI : N := 1024.
Definition bFIDO2 : N := 2048.
Definition bAny : N := 65535.

Definition hasb (level bit : N) : bool := negb (N.land level bit =? 0).

Record token := {
  t_signer_trusted : bool;    (* verifies under one of KeymasterPublicKeys *)
  t_alg_allowed : bool;       (* header alg is in the list derived from the trusted keys *)
  t_tampered : bool;
  t_iss_ok : bool;            (* iss = this issuer *)
  t_aud_ok : bool;            (* len(aud) >= 1 and aud[0] = this issuer *)
  t_kind : N;                 (* token_type: 0 keymaster_auth, 1 cli identity, other *)
  t_nbf : Z; t_exp : Z; t_iat : Z;
  t_sub : N; t_level : N }.

Inductive issuer := MainCA | RoleCA | OtherCA.

Record tlsinfo := {
  c_chain2 : bool;            (* some verified chain has at least two elements *)
  c_issuer : issuer;          (* who signed the leaf of that chain *)
  c_issuer_key_trusted : bool;(* chain[1] key is one of KeymasterPublicKeys (MainCA and RoleCA share it) *)
  c_cn : N;
  c_denied : bool;            (* leaf key on the deny list *)
  c_not_before : Z;
  c_ip_error : bool;          (* getUsernameIfIPRestricted returned an internal error: VerifyIPRestrictedX509CertIP
                                 failed, or (peer inside a block and) the automation-group lookup failed *)
  c_ip_valid : bool;          (* extension present and peer inside a block *)
  c_automation : bool;        (* CN is a configured automation identity *)
  c_revoked : bool }.

Inductive origin := NoOrigin | SameOrigin | CrossOrigin | BadOrigin.
Inductive cred := NoCred | Basic (user : N) (pw_ok : bool) (backend_error : bool) | Cookie (t : token).

Record request := {
  r_get : bool;               (* method = GET *)
  r_origin : origin;          (* Origin, else Referer, compared with Host *)
  r_tls : option tlsinfo;     (* Some only if r.TLS has at least one verified chain *)
  r_cred : cred }.

Inductive result :=
| Admit (user : N) (level : N) (iat : Z)
| Refuse (code : N).          (* the status written by writeFailureResponse; every refusal of checkAuth writes one *)

Definition token_ok (now : Z) (t : token) : bool :=
  t_signer_trusted t && t_alg_allowed t && negb (t_tampered t) && t_iss_ok t && t_aud_ok t &&
  (t_kind t =? 0) && (t_nbf t <=? now)%Z.

(* getUsernameIfKeymasterSigned (after the role-CA fix): Some (cn, notBefore) *)
Definition km_signed (c : tlsinfo) : option (N * Z) :=
  if negb (c_chain2 c) then None
  else match c_issuer c with
       | RoleCA => None
       | _ => if c_denied c then None
              else if c_issuer_key_trusted c then Some (c_cn c, c_not_before c) else None
       end.

(* getUsernameIfIPRestricted: IpOk | IpUserErr | IpErr *)
Inductive ipres := IpOk | IpUserErr | IpErr.
Definition ip_restricted (c : tlsinfo) : ipres :=
  if c_ip_error c then IpErr
  else if negb (c_ip_valid c) then IpUserErr
  else if negb (c_automation c) then IpUserErr
  else if c_revoked c then IpUserErr else IpOk.

Definition check_auth (now : Z) (limiter_ok : bool) (required : N) (r : request) : result :=
  let csrf_refuse :=
    if r_get r then None
    else match r_origin r with
         | BadOrigin => Some (Refuse 400)   (* url.Parse error: 400 since the fix (was: nothing written, i.e. an empty 200) *)
         | CrossOrigin => Some (Refuse 401)
         | _ => None
         end in
  match csrf_refuse with
  | Some x => x
  | None =>
    let cookie_branch :=
      match r_cred r with
      | NoCred => Refuse 401
      | Basic u ok berr =>
          if negb (hasb required bPassword) then Refuse 401
          else if negb limiter_ok then Refuse 429
          else if berr then Refuse 500
          else if ok then Admit u bPassword now else Refuse 401
      | Cookie t =>
          if negb (token_ok now t) then Refuse 401
          else if (t_exp t <? now)%Z then Refuse 401
          else if negb (hasb (t_level t) required) then Refuse 401
          else Admit (t_sub t) (t_level t) (t_iat t)
      end in
    match r_tls r with
    | Some c =>
      if hasb required (N.lor bIPCert bKMX509) then
        let km := km_signed c in
        if hasb required bIPCert then
          match ip_restricted c, km with
          | IpOk, Some _ => Admit (c_cn c) (N.lor bKMX509 bIPCert) now
          | IpOk, None => Admit (c_cn c) bIPCert now
          | _, Some (u, nb) => Admit u bKMX509 nb
          | IpUserErr, None => Refuse 403
          | IpErr, None => Refuse 500
          end
        else match km with
             | Some (u, nb) => Admit u bKMX509 nb
             | None => cookie_branch
             end
      else cookie_branch
    | None => cookie_branch
    end
  end.

(* ---- specification side: what it means for the request to carry a currently valid
   credential establishing (user, level) ---- *)
Definition proves (now : Z) (r : request) (u level : N) : Prop :=
  (exists t, r_cred r = Cookie t /\ token_ok now t = true /\ (now <= t_exp t)%Z /\
             u = t_sub t /\ level = t_level t) \/
  (exists berr, r_cred r = Basic u true berr /\ level = bPassword) \/
  (exists c, r_tls r = Some c /\
     ((km_signed c <> None /\ u = c_cn c /\ hasb level bKMX509 = true /\
       (hasb level bIPCert = true -> ip_restricted c = IpOk)) \/
      (ip_restricted c = IpOk /\ u = c_cn c /\ level = bIPCert))).
