(* C05 — the property's own predicates evaluated on an OBSERVED history (round-2 addendum).

   When the correspondence reports a mismatching history, the mismatching step is a concrete input
   on which the implementation deviates from a model that provably satisfies C05.  `violation` walks
   the history with the model as reference and evaluates, at the first step on which the observed
   output differs, the conclusions of the soundness theorems on the OBSERVED output:

     1  unjustified-factor   the emitted cookie carries a factor that the ghost `proved` (after the
                             model's own step: what the environment's answers justify) does not hold
                             for the cookie's user at or after the cookie's iat          (c05_inv)
     2  spent-value          a cookie was emitted for a request presenting a one-time value that is
                             in `spent`                                                  (c05_onetime)
     3  expired-value        a cookie was emitted although `expired` holds of the request (c05_expired)
     0  none of these: the implementation is stricter, or differs in a way the property does not
        speak about

   One kind of difference does not end the walk: a begin / issue operation that hands out, instead
   of a new value, the very value that is still pending for the same user (observed id = the id of
   the model's pending entry).  That alone breaks no clause of the property; the reference then keeps
   the pending entry as it is — with its ORIGINAL expiry — and the walk goes on, so that a later
   acceptance of that value past its original expiry is reported as class 3 with the whole history. *)
From Coq Require Import List NArith ZArith Bool.
From KM Require Import Model.Session Proofs.Session.
Import ListNotations.

Definition factor_bits : list N := map N.of_nat (seq 0 32).

Definition justified_b (P : list (N * N * Z)) (u f : N) (ia : Z) : bool :=
  existsb (fun p => let '(u', f', t) := p in N.eqb u' u && N.eqb f' f && (ia <=? t)%Z) P.

Definition unjustified (P : list (N * N * Z)) (c : N * N * Z * Z) : bool :=
  let '(u, l, ia, _) := c in existsb (fun f => has l f && negb (justified_b P u f ia)) factor_bits.

Definition viol_class (k : config) (s : st) (o : op) (ob : observed) : nat :=
  let '(_, c, _) := ob in
  match c with
  | None => 0%nat
  | Some cc =>
      if match presents o with Some v => existsb (onetime_eqb v) (spent s) | None => false end then 2%nat
      else if expired (cfg_for k o) (present_cert s (cert_of o)) (cert_of o) (base o) then 3%nat
      else if unjustified (proved (fst (step k s o))) cc then 1%nat
      else 0%nat
  end.

(* the observed step handed out again the value that is pending for the user the operation is about *)
Definition rehanded (k : config) (s : st) (o : op) (m : obs) (ob : observed) : bool :=
  let '(mok, mc, mi) := m in
  let '(ok, c, i) := ob in
  Bool.eqb mok ok && out_eqb mc c &&
  match mi, i with
  | Some _, Some j =>
      match base o with
      | U2fBegin cs | WaBegin cs =>
          match auth k s (cert_of o) cs any_mask with
          | Some (u, _) => match chal s u with Some ch => N.eqb (chid ch) j | None => false end
          | None => false
          end
      | IssueOtp target _ => match boot s target with Some b => N.eqb (bserial b) j | None => false end
      | _ => false
      end
  | _, _ => false
  end.

Fixpoint violation (k : config) (s : st) (ops : list op) (os : list observed) : nat :=
  match ops, os with
  | o :: r, ob :: rb =>
      let (s1, m) := step_obs k s o in
      if ob_eqb m ob then violation k s1 r rb
      else if rehanded k s o m ob then violation k (present_cert s (cert_of o)) r rb
      else viol_class k s o ob
  | _, _ => 0%nat
  end.

(* (index, class) of the mismatching cases on which the observation violates the property *)
Fixpoint classify {A} (bad : A -> bool) (viol : A -> nat) (l : list A) (i : nat) : list (nat * nat) :=
  match l with
  | [] => []
  | h :: r =>
      if bad h then match viol h with O => classify bad viol r (S i) | c => (i, c) :: classify bad viol r (S i) end
      else classify bad viol r (S i)
  end.
