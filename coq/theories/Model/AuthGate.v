(* C06 — cmd/keymasterd/app.go checkAuth with getUsernameIfKeymasterSigned and
   getUsernameIfIPRestricted, branch by branch, over symbolic credentials.

   Differences to Model/Auth.v (shared, owned by C01; only its bit constants, tokens and
   symbolic credential types are imported here):
   * the verified chains of the connection are a LIST (getUsernameIfKeymasterSigned walks all
     of them, getUsernameIfIPRestricted looks at the leaf of the first one only);
   * an empty common name is not an identity (`tlsAuthUser != ""`, `authData.Username != ""`);
   * the automation lookup of getUsernameIfIPRestricted can fail (internal error);
   * the result of the certificate branch is returned only if its kind is one the caller asked
     for (`authData.AuthType & requiredAuthType != 0`, the second half of the F3 repair);
     [check_auth_gen false _] is the branch before the role-CA repair (334cc83),
     [check_auth_gen _ false] the branch before the mask test;
   * the credentials of a request are a COMBINATION: client certificate (q_tls) x auth_cookie
     (k_cookie) x Authorization: Basic header (k_basic), any subset present at once, looked at
     in the code's order: certificate branch, then the cookie, and the basic-auth header only
     when the request carries NO auth_cookie at all (a cookie that does not verify is a refusal,
     not a fall-through);
   * the deny list (Config.DenyTrustData.KeyDenyFPsshSha256) is a LIST of key fingerprints of any
     length; the leaf key is a fingerprint too;
   * getRequiredWebUIAuthLevel() is computed from the configured backend list;
   * the netblock test of getUsernameIfIPRestricted is COMPUTED: the leaf carries its address
     delegation extension (families of RFC 3779 bit strings, any prefix length) and the request its
     TCP peer; "inside" is Model/IPExt.v verify_families (the C11 model of
     lib/certgen VerifyIPRestrictedX509CertIP) on the two, not an input bit.
   Users are numbers (0 = the empty string); levels are N bit masks. *)
From Coq Require Import ZArith List Bool.
From KM Require Import Base.Bytes Model.Auth.
From KM Require Model.IPExt.
Import ListNotations.
Open Scope N_scope.

Inductive meth := GET | POST | OTHER.            (* OTHER: PUT, DELETE, ... *)
Definition meth_eqb (a b : meth) : bool :=
  match a, b with GET, GET | POST, POST | OTHER, OTHER => true | _, _ => false end.

(* one verified chain, as far as getUsernameIfKeymasterSigned looks at it *)
Record chain := {
  ch_len2 : bool;          (* len(chain) >= 2 *)
  ch_role_ca : bool;       (* chain[1] is the role-requesting CA certificate *)
  ch_key_trusted : bool }. (* chain[1].PublicKey is one of KeymasterPublicKeys (main and role CA share it) *)

Record tlsx := {
  x_chains : list chain;   (* r.TLS.VerifiedChains, at least one *)
  x_cn : N;                (* common name of the leaf (the same leaf starts every chain) *)
  x_key : N;               (* fingerprint of the leaf's public key *)
  x_nb : Z;                (* leaf NotBefore *)
  x_ip_error : bool;       (* the library steps in front of keymaster's netblock arithmetic fail: r.RemoteAddr does
                              not split into host and port, or the extension value is not the DER of a list of
                              address families (asn1.Unmarshal) *)
  x_ext : option (list IPExt.family);
                           (* the leaf's address delegation extension (OID 1.3.6.1.5.5.7.1.7) after
                              asn1.Unmarshal: families of (bytes, bit length) strings; None = no such extension *)
  x_peer : IPExt.peer;     (* the host of r.RemoteAddr (the TCP peer) as net.ParseIP sees it *)
  x_auto_error : bool;     (* isAutomationUser returned an error *)
  x_automation : bool;     (* CN is a configured automation identity *)
  x_revoked : bool }.      (* revocation check succeeded and says revoked *)

(* Authorization: Basic <user:password> *)
Record basicx := {
  b_user : N;              (* user name after reprocessUsername *)
  b_ok : bool;             (* the password backend accepts the pair *)
  b_err : bool }.          (* the password backend fails *)

(* what the request carries besides the connection's certificate *)
Record credx := {
  k_cookie : option token; (* the LAST cookie named auth_cookie, if there is one; a value that is not
                              a JWT at all is a token without trusted signer *)
  k_basic : option basicx }.

Definition no_cred : credx := {| k_cookie := None; k_basic := None |}.
Definition cookie_only (t : token) : credx := {| k_cookie := Some t; k_basic := None |}.
Definition basic_only (u : N) (ok err : bool) : credx :=
  {| k_cookie := None; k_basic := Some {| b_user := u; b_ok := ok; b_err := err |} |}.

Record reqx := {
  q_meth : meth;
  q_origin : origin;       (* Origin, else Referer, compared with Host *)
  q_tls : option tlsx;     (* Some iff r.TLS != nil and it has at least one verified chain *)
  q_cred : credx }.

(* the loop over Config.DenyTrustData.KeyDenyFPsshSha256: any position counts *)
Definition deny_hit (deny : list N) (key : N) : bool := existsb (N.eqb key) deny.

(* getRequiredWebUIAuthLevel(): the bits of the configured backends (unknown names add nothing) *)
Inductive backend := BPassword | BFederated | BU2F | BVIP | BTOTP | BOkta | BBootstrap | BOther.
Definition backend_bit (b : backend) : N :=
  match b with
  | BPassword => bPassword | BFederated => bFederated | BU2F => bU2F | BVIP => bVIP
  | BTOTP => bTOTP | BOkta => bOkta | BBootstrap => bBootstrap | BOther => 0
  end.
Definition webui_level (l : list backend) : N := fold_left (fun a b => N.lor a (backend_bit b)) l 0.

(* getUsernameIfKeymasterSigned *)
Inductive kmres := KmNone | KmErr | KmOk.
Fixpoint km_walk (skip_role : bool) (denied : bool) (l : list chain) : kmres :=
  match l with
  | [] => KmNone
  | c :: r =>
      if negb (ch_len2 c) then km_walk skip_role denied r
      else if skip_role && ch_role_ca c then km_walk skip_role denied r
      else if denied then KmErr
      else if ch_key_trusted c then KmOk
      else km_walk skip_role denied r
  end.

(* `err == nil && tlsAuthUser != ""` *)
Definition km_user (skip_role : bool) (deny : list N) (c : tlsx) : bool :=
  match km_walk skip_role (deny_hit deny (x_key c)) (x_chains c) with
  | KmOk => negb (x_cn c =? 0)
  | _ => false
  end.

(* certgen.VerifyIPRestrictedX509CertIP(leaf, r.RemoteAddr): None = error, Some inside.
   No extension is (false, nil); the walk over the families and their prefixes - every prefix
   length, whole and partial octets - is IPExt.verify_families *)
Definition ip_verify (c : tlsx) : option bool :=
  if x_ip_error c then None
  else match x_ext c with
       | None => Some false
       | Some ext => IPExt.verify_families ext (x_peer c)
       end.

(* getUsernameIfIPRestricted: (clientName, now, userErr, err) *)
Definition ip_res (c : tlsx) : ipres :=
  match ip_verify c with
  | None => IpErr
  | Some false => IpUserErr
  | Some true =>
      if x_auto_error c then IpErr
      else if negb (x_automation c) then IpUserErr
      else if x_revoked c then IpUserErr else IpOk
  end.

(* the certificate branch: Some result = return, None = go on to cookies *)
Definition tls_branch (skip_role mask_test : bool) (now : Z) (deny : list N) (required : N) (c : tlsx) : option result :=
  let km := km_user skip_role deny c in
  let lvl0 := if km then bKMX509 else 0 in
  let iat0 := if km then x_nb c else 0%Z in
  let fin (lvl : N) (iat : Z) (named : bool) :=
    if negb named then None
    else if mask_test && negb (hasb lvl required) then None
    else Some (Admit (x_cn c) lvl iat) in
  if hasb required bIPCert then
    match ip_res c with
    | IpUserErr => if km then fin lvl0 iat0 km else Some (Refuse 403)
    | IpErr => if km then fin lvl0 iat0 km else Some (Refuse 500)
    | IpOk => fin (N.lor lvl0 bIPCert) now (negb (x_cn c =? 0))
    end
  else fin lvl0 iat0 km.

(* the basic-auth code (reached only when there is no auth_cookie and the mask has the password bit) *)
Definition basic_branch (now : Z) (limiter_ok : bool) (b : option basicx) : result :=
  match b with
  | None => Refuse 401
  | Some b =>
      if negb limiter_ok then Refuse 429
      else if b_err b then Refuse 500
      else if b_ok b then Admit (b_user b) bPassword now else Refuse 401
  end.

Definition cookie_branch (now : Z) (limiter_ok : bool) (required : N) (cr : credx) : result :=
  match k_cookie cr with
  | None =>
      if negb (hasb required bPassword) then Refuse 401
      else basic_branch now limiter_ok (k_basic cr)
  | Some t =>
      if negb (token_ok now t) then Refuse 401          (* whatever else the request carries *)
      else if (t_exp t <? now)%Z then Refuse 401
      else if negb (hasb (t_level t) required) then Refuse 401
      else Admit (t_sub t) (t_level t) (t_iat t)
  end.

Definition check_auth_gen (skip_role mask_test : bool) (now : Z) (limiter_ok : bool) (deny : list N) (required : N) (q : reqx) : result :=
  let csrf :=
    match q_meth q with
    | GET => None
    | _ => match q_origin q with
           | BadOrigin => Some (Refuse 400)     (* url.Parse failed: 400 since fix 335bec7 (before: error returned, nothing written = empty 200) *)
           | CrossOrigin => Some (Refuse 401)
           | _ => None
           end
    end in
  match csrf with
  | Some x => x
  | None =>
      let t := match q_tls q with
               | Some c => if hasb required (N.lor bIPCert bKMX509) then tls_branch skip_role mask_test now deny required c else None
               | None => None
               end in
      match t with
      | Some x => x
      | None => cookie_branch now limiter_ok required (q_cred q)
      end
  end.

(* the code of the current tree *)
Definition check_auth := check_auth_gen true true.

(* ------------------------------------------------------------------------------------------
   Specification side: what it means that a request carries a currently valid credential that
   establishes user [u] at level [l].  Written independently of the walk above. *)

Definition valid_cookie (now : Z) (t : token) : Prop :=
  t_signer_trusted t = true /\ t_alg_allowed t = true /\ t_tampered t = false /\
  t_iss_ok t = true /\ t_aud_ok t = true /\ t_kind t = 0 /\ (t_nbf t <= now <= t_exp t)%Z.

(* a keymaster-issued user certificate: some verified chain of at least two elements whose
   issuer is NOT the role CA and whose issuer key is a keymaster key; the leaf key is at NO
   position of the deny list; the certificate names somebody *)
Definition km_cert (deny : list N) (c : tlsx) : Prop :=
  x_cn c <> 0 /\ ~ In (x_key c) deny /\
  exists ch, In ch (x_chains c) /\ ch_len2 ch = true /\ ch_role_ca ch = false /\ ch_key_trusted ch = true.

(* the TCP peer lies in a netblock the certificate literally carries: an IPv4 prefix of at most 32
   bits in its address delegation extension whose leading plen bits are the peer's (a statement
   about addresses: IPExt.contains is the octet-wise mask comparison, C11 proves it equal to the
   numeric "same leading plen bits") *)
Definition peer_inside (c : tlsx) : Prop :=
  exists ext blocks e b,
    x_ext c = Some ext /\ In (IPExt.ipv4_family, blocks) ext /\ In e blocks /\ IPExt.decode e = Some b /\
    IPExt.plen b <= 32 /\ IPExt.contains b (x_peer c) = true.

(* an IP-restricted automation certificate presented from inside its netblocks *)
Definition ip_cert (c : tlsx) : Prop :=
  x_cn c <> 0 /\ x_ip_error c = false /\ peer_inside c /\ x_auto_error c = false /\
  x_automation c = true /\ x_revoked c = false.

(* some credential among those the request carries establishes (u, l) *)
Definition proves (now : Z) (deny : list N) (q : reqx) (u l : N) : Prop :=
  (exists t, k_cookie (q_cred q) = Some t /\ valid_cookie now t /\ u = t_sub t /\ l = t_level t) \/
  (exists b, k_basic (q_cred q) = Some b /\ b_ok b = true /\ u = b_user b /\ l = bPassword) \/
  (exists c, q_tls q = Some c /\ u = x_cn c /\
     (l = bKMX509 \/ l = bIPCert \/ l = N.lor bKMX509 bIPCert) /\
     (hasb l bKMX509 = true -> km_cert deny c) /\ (hasb l bIPCert = true -> ip_cert c)).

(* NOT the code of the tree: the cookie test of a gate that tolerates [grace] time units past the signed
   expiry (what a library validator with a default leeway does).  Kept to show that the window
   statements are sharp: every positive grace admits a cookie that is not [valid_cookie]. *)
Definition cookie_admits_with_grace (grace now : Z) (required : N) (t : token) : bool :=
  token_ok now t && negb (t_exp t + grace <? now)%Z && hasb (t_level t) required.

Definition origin_ok (q : reqx) : Prop := q_origin q = NoOrigin \/ q_origin q = SameOrigin.
