(* C01 — histories on one server process as the harness (harness/kmd/c01h.go) drives them through the real
   handlers: compact operations, the model's expected output classes, and the property's predicate on an
   OBSERVED step (round-2 addendum). *)
From Coq Require Import ZArith.
From KM Require Import Base.Bytes Model.Auth Model.Certgen Model.CertgenCases Model.CertgenLife.
From KM Require Model.Seal.
Open Scope N_scope.

Inductive cop :=
| CLogin (u : N) (ok : bool)               (* POST /api/v0/login, right / wrong password *)
| CSecond (ref : N) (bit : N) (ok : bool)  (* TOTP / bootstrap-OTP handler with the cookie of step ref, right / wrong value *)
| CCert (ref : option N) (target : N)      (* POST /certgen/<target>, ssh, with the cookie of step ref *)
| CRead                                    (* any other request (its answer is not compared) *)
| CInject (ok : bool).                     (* /admin/inject with the right / a wrong passphrase *)

Record hcase := {
  hc_cfg : N;                 (* index of allowed_auth_backends_for_certs (CertgenCases.cfg_of_index) *)
  hc_own : N;                 (* JWS algorithm (key type) of the server's own main key *)
  hc_peer : option N;         (* a peer key listed in keymaster_public_keys_filename: its algorithm *)
  hc_ops : list cop;
  hc_obs : list N }.          (* observed class of every step *)

Definition peer_key : N := 5.
Definition wrong_pass : bs := [119].
Definition life_cfg (peer : option N) : Seal.cfg :=
  {| Seal.right_pass := key_pass; Seal.main_key := 1; Seal.main_res := Seal.FGood; Seal.role_ok := true;
     Seal.ed_file := None; Seal.extra_pubkeys := match peer with Some _ => [peer_key] | None => [] end |}.
Definition life_alg (own : N) (peer : option N) (k : N) : N :=
  if k =? 1 then own else if k =? peer_key then match peer with Some a => a | None => 0 end else 0.

Definition hop_of (o : cop) : hop :=
  match o with
  | CLogin u ok => OLogin u ok
  | CSecond ref bit ok => OSecond (N.to_nat ref) bit ok
  | CCert ref target => OCertgen (match ref with Some i => Some (N.to_nat i) | None => None end)
                                 (case_req (sh NoCr target) 0 0)
  | CRead => ORead None
  | CInject ok => OInject (Seal.admin_inj (Some (if ok then key_pass else wrong_pass)))
  end.

Definition life_boot (c : hcase) : proc :=
  boot (life_cfg (hc_peer c)) (case_server_at 1 (cfg_of_index (hc_cfg c)) 0).

Definition life_outputs (c : hcase) : list hout :=
  outputs (life_alg (hc_own c) (hc_peer c)) no_expand 0%Z 3600%Z true (life_boot c) (map hop_of (hc_ops c)).
Definition expected (c : hcase) : list N := map (out_class class_of) (life_outputs c).

Fixpoint listN_eqb (a b : list N) : bool :=
  match a, b with
  | [], [] => true
  | x :: r, y :: s => (x =? y) && listN_eqb r s
  | _, _ => false
  end.
Definition hcase_bad (c : hcase) : bool := negb (listN_eqb (expected c) (hc_obs c)).

(* ---- the property on an observed step.  The state before the step is the MODEL's (memoryless) state:
   1 = a certificate for somebody the request does not entitle (c01_sound / c01_old_cookie_stays_password_only),
   2 = neither error nor certificate,
   3 = an orderly request of an entitled user refused (c01_complete_session / c01_complete_after_unseal),
   4 = a second-factor handler refused a currently valid session of this server although the factor value was
       right (c01_complete_after_unseal), or a right password / passphrase was refused on an unsealed server *)
Definition step_violation (alg : N -> N) (p : proc) (o : hop) (model : hout) (obs : N) : N :=
  match o, model with
  | OCertgen ref q, XCert mo =>
      let q' := match ref with Some _ => with_cookie q (presented alg p ref) | None => q end in
      if obs =? 11 then 2
      else if 12 <=? obs then (if entitled (p_srv p) 0%Z q' ((obs - 12) / 4) then 0 else 1)
      else match mo with Issued _ _ => 3 | Refused _ => 0 end
  | OSecond _ _ _, XMinted _ => if obs =? 1 then 0 else 4
  | OLogin _ _, XMinted _ => if obs =? 1 then 0 else 4
  | _, _ => 0
  end.

Fixpoint walk (alg : N -> N) (p : proc) (h : list hop) (obs : list N) (i : N) : list (N * N) :=
  match h, obs with
  | o :: r, x :: xs =>
      let '(p', out) := step alg no_expand 0%Z 3600%Z true p o in
      let v := if out_class class_of out =? x then 0 else step_violation alg p o out x in
      (if v =? 0 then [] else [(i, v)]) ++ walk alg p' r xs (i + 1)
  | _, _ => []
  end.
Definition case_violations (c : hcase) : list (N * N) :=
  walk (life_alg (hc_own c) (hc_peer c)) (life_boot c) (map hop_of (hc_ops c)) (hc_obs c) 0.

(* (case index, step index, violation class) over all cases *)
Fixpoint all_violations (l : list hcase) (i : N) : list (N * N * N) :=
  match l with
  | [] => []
  | c :: r => map (fun sv => (i, fst sv, snd sv)) (case_violations c) ++ all_violations r (i + 1)
  end.
Fixpoint bad_from (l : list hcase) (i : N) : list N :=
  match l with
  | [] => []
  | c :: r => (if hcase_bad c then [i] else []) ++ bad_from r (i + 1)
  end.

(* algorithm names: 1 RS256, 2 ES256, 3 ES384, 4 EdDSA, 5 ES512 *)
