(* C12 correspondence: the full product of the property's quantifier, enumerated by the model
   itself in a canonical order which the Go harness reproduces (harness/kmd/c12.go); only the
   table of minted codes, the constants and the vector of observed results are transported.

   dimensions (in nesting order, outermost first)
     caller     0 client with a secret | 1 secret-less client | 2 unknown client id
     secret     0 the caller's configured secret | 1 a wrong one | 2 none
     verifier   0 the verifier whose challenge is in the code | 1 another | 2 none
     challenge  0 S256 | 1 plain | 2 empty method | 3 unknown method | 4 no challenge at all
     redirect   0 the one bound into the code | 1 another
     code       0 fresh | 1 expired | 2 tampered | 3 issued to another client | 4 a session cookie | 5 an access token
     location   0 Authorization header | 1 form fields | 2 header, url-escaped *)
From Coq Require Import String ZArith NArith List Bool.
From KM Require Import Base.Bytes Model.Tokens Model.OIDC Model.TokenCases.
Import ListNotations.
Open Scope Z_scope.

Record c12env := {
  e_callers : list (bs * bs);     (* caller index -> (client id, the secret that would be right) *)
  e_wrong_secret : bs;
  e_V : bs; e_W : bs;             (* the right and a wrong verifier *)
  e_HV : bs; e_HW : bs;           (* BASE64URL(SHA256(.)) of each, computed by crypto/sha256 *)
  e_red_same : bs; e_red_diff : bs;
  e_codes : list token }.         (* index ((caller*5)+challenge)*6+code *)

Definition tok_none : token := {| t_signer := 0%N; t_alg := 0%N; t_tampered := true; t_claims := [] |}.

Definition mk_req (e : c12env) (cl sm vm ck rd cs loc : nat) : treq :=
  let '(id, rsec) := nth cl (e_callers e) ([], []) in
  let secret := match sm with O => rsec | S O => e_wrong_secret e | _ => [] end in
  let verifier := match vm with O => e_V e | S O => e_W e | _ => [] end in
  let vhash := match vm with O => e_HV e | S O => e_HW e | _ => [] end in
  let redirect := match rd with O => e_red_same e | _ => e_red_diff e end in
  let code := nth ((cl * 5 + ck) * 6 + cs)%nat (e_codes e) tok_none in
  let in_form := match loc with S O => true | _ => false end in
  {| tr_post := true; tr_grant := gt_authcode; tr_redirect := redirect; tr_code := code;
     tr_verifier := verifier; tr_vhash := vhash;
     tr_basic := if in_form then None else Some (id, secret);
     tr_form_client := if in_form then id else [];
     tr_form_secret := if in_form then secret else [] |}.

Definition all_combos : list (nat * nat * nat * nat * nat * nat * nat) :=
  flat_map (fun cl => flat_map (fun sm => flat_map (fun vm => flat_map (fun ck => flat_map (fun rd =>
  flat_map (fun cs => map (fun loc => (cl, sm, vm, ck, rd, cs, loc)) (seq 0 3)) (seq 0 6)) (seq 0 2)) (seq 0 5))
  (seq 0 3)) (seq 0 3)) (seq 0 3).

Definition req_of (e : c12env) (k : nat * nat * nat * nat * nat * nat * nat) : treq :=
  let '(cl, sm, vm, ck, rd, cs, loc) := k in mk_req e cl sm vm ck rd cs loc.

Definition released (r : tresult) : bool := match r with Release _ _ => true | Refuse _ => false end.

(* indices on which the observed released/refused differs from the model at both clock readings *)
Definition product_mismatches (i : idp) (e : c12env) (t0 t1 : Z) (observed : bs) : list nat :=
  let fix go (l : list (nat * nat * nat * nat * nat * nat * nat)) (o : bs) (n : nat) : list nat :=
    match l, o with
    | [], [] => []
    | k :: l', b :: o' =>
        let r := req_of e k in
        let obs := negb (b =? 0)%N in
        if Bool.eqb (released (token_endpoint i t0 r)) obs || Bool.eqb (released (token_endpoint i t1 r)) obs
        then go l' o' (S n) else n :: go l' o' (S n)
    | _, _ => [n]           (* length mismatch *)
    end in
  go all_combos observed O.

(* a released case: index in the product, claims of the ID token and of the access token as
   decoded from the response, what userinfo then answered for that access token *)
Definition release_bad (i : idp) (e : c12env) (t0 t1 : Z)
           (k : nat * claimset * claimset * option bs) : bool :=
  let '(n, idc, acc, ui) := k in
  match nth_opt all_combos n with
  | None => true
  | Some combo =>
      let chk (now : Z) :=
        match token_endpoint i now (req_of e combo) with
        | Release idt act =>
            claims_eqb ["iat"%string] (t_claims idt) idc && claims_eqb ["iat"%string] (t_claims act) acc &&
            match c_userinfo (srv i) now act, ui with
            | Some u, Some u' => bs_eqb u u'
            | None, None => true
            | _, _ => false
            end
        | Refuse _ => false
        end in
      negb (chk t0 || chk t1)
  end.

(* the authorization step: request (as sent), who was logged in, clock readings, the claims of
   the code in the redirect (None: refused) *)
Definition authorize_bad (i : idp) (k : bs * areq * Z * Z * option claimset) : bool :=
  let '(user, r, t0, t1, obs) := k in
  let chk (now : Z) :=
    match authorize i now user r, obs with
    | Some t, Some cl => claims_eqb [] (t_claims t) cl
    | None, None => true
    | _, _ => false
    end in
  negb (chk t0 || chk t1).

(* userinfo on arbitrary tokens *)
Definition userinfo_bad (i : idp) (k : token * Z * Z * option bs) : bool :=
  let '(t, t0, t1, obs) := k in
  let chk (now : Z) :=
    match c_userinfo (srv i) now t, obs with
    | Some u, Some u' => bs_eqb u u'
    | None, None => true
    | _, _ => false
    end in
  negb (chk t0 || chk t1).

(* single token requests outside the product (expiry boundaries, malformed requests) *)
Definition token_bad (i : idp) (k : treq * Z * Z * bool) : bool :=
  let '(r, t0, t1, obs) := k in
  negb (Bool.eqb (released (token_endpoint i t0 r)) obs || Bool.eqb (released (token_endpoint i t1 r)) obs).
