(* C12 correspondence: the full product of the property's quantifier, enumerated by the model
   itself in a canonical order which the Go harness reproduces (harness/kmd/c12.go); only the
   table of minted codes, the constants and the vector of observed results are transported.

   dimensions (in nesting order, outermost first)
     caller     0 client with a secret | 1 secret-less client | 2 unknown client id
     secret     0 the caller's configured secret | 1 a wrong one | 2 none
     verifier   0 the verifier whose challenge is in the code | 1 another | 2 none
     challenge  0 S256 | 1 plain | 2 empty method | 3 unknown method | 4 no challenge at all
     redirect   0 the one bound into the code | 1 another | 2 parameter absent | 3 present but empty
                | 4 the bound one with a trailing slash | 5 the bound one in upper case
                | 6 sent twice: bound one first, another second | 7 sent twice: another first
     code       0 fresh | 1 expired | 2 tampered | 3 issued to another client | 4 a session cookie | 5 an access token
     location   0 Authorization header | 1 form fields | 2 header, url-escaped

   The same enumeration runs once per signer configuration (RSA-3072, P-256, P-384, P-521, each
   with an Ed25519 SSH CA; P-384 with a sibling's RSA public key) on the sub-product [signer_dims]. *)
From Coq Require Import String ZArith NArith List Bool.
From KM Require Import Base.Bytes Model.Tokens Model.OIDC Model.TokenCases.
Import ListNotations.
Open Scope Z_scope.

Record c12env := {
  e_callers : list (bs * bs);     (* caller index -> (client id, the secret that would be right) *)
  e_wrong_secret : bs;
  e_V : bs; e_W : bs;             (* the right and a wrong verifier *)
  e_HV : bs; e_HW : bs;           (* BASE64URL(SHA256(.)) of each, computed by crypto/sha256 *)
  e_red_same : bs; e_red_diff : bs;
  e_red_slash : bs; e_red_upper : bs;   (* e_red_same ++ "/", strings.ToUpper e_red_same *)
  e_codes : list token }.         (* index ((caller*5)+challenge)*6+code *)

Definition tok_none : token := {| t_signer := 0%N; t_alg := 0%N; t_tampered := true; t_claims := [] |}.

(* url.Values.Get: the first value of the parameter, "" when it was not sent *)
Definition form_get (vals : list bs) : bs := match vals with v :: _ => v | [] => [] end.

(* the values of redirect_uri in the request body, in the order sent *)
Definition redirect_values (e : c12env) (rd : nat) : list bs :=
  match rd with
  | 0 => [e_red_same e] | 1 => [e_red_diff e] | 2 => [] | 3 => [[]]
  | 4 => [e_red_slash e] | 5 => [e_red_upper e]
  | 6 => [e_red_same e; e_red_diff e] | _ => [e_red_diff e; e_red_same e]
  end%nat.

Definition mk_req (e : c12env) (cl sm vm ck rd cs loc : nat) : treq :=
  let '(id, rsec) := nth cl (e_callers e) ([], []) in
  let secret := match sm with O => rsec | S O => e_wrong_secret e | _ => [] end in
  let verifier := match vm with O => e_V e | S O => e_W e | _ => [] end in
  let vhash := match vm with O => e_HV e | S O => e_HW e | _ => [] end in
  let redirect := form_get (redirect_values e rd) in
  let code := nth ((cl * 5 + ck) * 6 + cs)%nat (e_codes e) tok_none in
  let in_form := match loc with S O => true | _ => false end in
  {| tr_conn := conn_none; tr_post := true; tr_grant := gt_authcode; tr_redirect := redirect; tr_code := code;
     tr_verifier := verifier; tr_vhash := vhash;
     tr_basic := if in_form then None else Some (id, secret);
     tr_form_client := if in_form then id else [];
     tr_form_secret := if in_form then secret else [] |}.

Definition combo := (nat * nat * nat * nat * nat * nat * nat)%type.

Record dims := { d_cl : list nat; d_sm : list nat; d_vm : list nat; d_ck : list nat; d_rd : list nat;
                 d_cs : list nat; d_loc : list nat }.

Definition combos_of (d : dims) : list combo :=
  flat_map (fun cl => flat_map (fun sm => flat_map (fun vm => flat_map (fun ck => flat_map (fun rd =>
  flat_map (fun cs => map (fun loc => (cl, sm, vm, ck, rd, cs, loc)) (d_loc d)) (d_cs d)) (d_rd d)) (d_ck d))
  (d_vm d)) (d_sm d)) (d_cl d).

Definition full_dims : dims :=
  {| d_cl := seq 0 3; d_sm := seq 0 3; d_vm := seq 0 3; d_ck := seq 0 5; d_rd := seq 0 8; d_cs := seq 0 6;
     d_loc := seq 0 3 |}.

(* per signer configuration: both clients, every secret, right/no verifier, S256/no challenge,
   redirect same/other/absent, code fresh/of the other client, header/form *)
Definition signer_dims : dims :=
  {| d_cl := [0; 1]; d_sm := [0; 1; 2]; d_vm := [0; 2]; d_ck := [0; 4]; d_rd := [0; 1; 2]; d_cs := [0; 3];
     d_loc := [0; 1] |}%nat.

Definition all_combos : list combo := combos_of full_dims.
Definition signer_combos : list combo := combos_of signer_dims.

Definition req_of (e : c12env) (k : nat * nat * nat * nat * nat * nat * nat) : treq :=
  let '(cl, sm, vm, ck, rd, cs, loc) := k in mk_req e cl sm vm ck rd cs loc.

Definition released (r : tresult) : bool := match r with Release _ _ => true | Refuse _ => false end.

(* indices on which the observed released/refused differs from the model at both clock readings *)
Definition product_mismatches_on (combos : list combo) (i : idp) (e : c12env) (t0 t1 : Z) (observed : bs) : list nat :=
  let fix go (l : list combo) (o : bs) (n : nat) : list nat :=
    match l, o with
    | [], [] => []
    | k :: l', b :: o' =>
        let r := req_of e k in
        let obs := negb (b =? 0)%N in
        if Bool.eqb (released (token_endpoint i t0 r)) obs || Bool.eqb (released (token_endpoint i t1 r)) obs
        then go l' o' (S n) else n :: go l' o' (S n)
    | _, _ => [n]           (* length mismatch *)
    end in
  go combos observed O.

Definition product_mismatches := product_mismatches_on all_combos.

(* a released case: index in the product, claims of the ID token and of the access token as
   decoded from the response, what userinfo then answered for that access token *)
Definition release_bad_on (combos : list combo) (i : idp) (e : c12env) (t0 t1 : Z)
           (k : nat * claimset * claimset * option bs) : bool :=
  let '(n, idc, acc, ui) := k in
  match nth_opt combos n with
  | None => true
  | Some combo =>
      let chk (now : Z) :=
        match token_endpoint i now (req_of e combo) with
        | Release idt act =>
            claims_eqb ["iat"%string] (t_claims idt) idc && claims_eqb ["iat"%string] (t_claims act) acc &&
            match c_userinfo (srv i) now act, ui with
            | Some u, Some u' => bs_eqb u u'
            | None, None => true
            | _, _ => false
            end
        | Refuse _ => false
        end in
      negb (chk t0 || chk t1)
  end.

Definition release_bad := release_bad_on all_combos.

(* ---------------------------------------------------------------- signer configurations *)

(* what the harness saw of one configuration: KeymasterPublicKeys after start-up, the entries of
   /idp/oauth2/jwks (key number by fingerprint, key type from kty/crv), the discovery document's
   id_token_signing_alg_values_supported; None where the daemon did not start *)
Definition keytype_code (t : keytype) : N :=
  match t with KRsa => 1 | KP256 => 2 | KP384 => 3 | KP521 => 4 | KEd25519 => 5 | KOther => 99 end%N.

Definition pairs_eqb (x y : list (N * N)) : bool :=
  (length x =? length y)%nat && forallb (fun p => (fst (fst p) =? fst (snd p))%N && (snd (fst p) =? snd (snd p))%N) (combine x y).

Definition nlist_eqb (x y : list N) : bool :=
  (length x =? length y)%nat && forallb (fun p => (fst p =? snd p)%N) (combine x y).

(* the JWKS is compared on the entries whose key type can be a signer's (RSA, ECDSA): whether the
   Ed25519 SSH CA - which never signs a token - is published is not observable to the property *)
Definition signing_entry (e : N * N) : bool := ((snd e =? 1) || (snd e =? 2) || (snd e =? 3) || (snd e =? 4))%N.

Definition keys_bad (k : keyconf * option (list (N * N) * list (N * N) * list N)) : bool :=
  let '(kc, obs) := k in
  match load kc, obs with
  | None, None => false
  | Some keys, Some (loaded, jwks, adv) =>
      negb (pairs_eqb (map (fun p => (pk_id p, keytype_code (pk_type p))) keys) loaded &&
            pairs_eqb (filter signing_entry (map (fun e => (fst e, keytype_code (snd e))) (jwks_of keys)))
                      (filter signing_entry jwks) &&
            nlist_eqb advertised_algs adv)
  | _, _ => true
  end.

(* the idp the model derives from the key files = the one the harness read off the running state;
   [algs]: the header algorithms seen on released ID and access tokens *)
Definition idp_bad (k : keyconf * idp * list N) : bool :=
  let '(kc, i, algs) := k in
  match load kc with
  | None => true
  | Some keys =>
      let st := server_of (s_issuer (srv i)) (s_userinfo (srv i)) keys (kc_signer kc) in
      negb (pairs_eqb (s_keys st) (s_keys (srv i)) && (s_signer st =? s_signer (srv i))%N &&
            (s_signer_alg st =? s_signer_alg (srv i))%N &&
            forallb (fun a => (a =? alg_of (pk_type (kc_signer kc)))%N) algs)
  end.

(* the authorization step: request (as sent), who was logged in, clock readings, the claims of
   the code in the redirect (None: refused) *)
Definition authorize_bad (i : idp) (k : bs * areq * Z * Z * option claimset) : bool :=
  let '(user, r, t0, t1, obs) := k in
  let chk (now : Z) :=
    match authorize i now user r, obs with
    | Some t, Some cl => claims_eqb [] (t_claims t) cl
    | None, None => true
    | _, _ => false
    end in
  negb (chk t0 || chk t1).

(* userinfo on arbitrary tokens *)
Definition userinfo_bad (i : idp) (k : token * Z * Z * option bs) : bool :=
  let '(t, t0, t1, obs) := k in
  let chk (now : Z) :=
    match c_userinfo (srv i) now t, obs with
    | Some u, Some u' => bs_eqb u u'
    | None, None => true
    | _, _ => false
    end in
  negb (chk t0 || chk t1).

(* single token requests outside the product (expiry boundaries, malformed requests) *)
Definition token_bad (i : idp) (k : treq * Z * Z * bool) : bool :=
  let '(r, t0, t1, obs) := k in
  negb (Bool.eqb (released (token_endpoint i t0 r)) obs || Bool.eqb (released (token_endpoint i t1 r)) obs).

(* ---------------------------------------------------------------- the audience dimension *)

(* A flow: an authorization request with an "audience" parameter (absent / under the client's domains /
   foreign / several values; for clients with and without allow_client_chose_audiences) sent to the real
   authorization endpoint - compared as an [authorize_bad] case of its own -, then the redemption of the
   code it returned.  The case carries the token request (with the code exactly as observed), the clock
   readings around it, and what came back: None = refused, Some (claims of the ID token, claims of the
   access token, userinfo's answer for that access token). *)
Definition flow := (treq * Z * Z * option (claimset * claimset * option bs))%type.

Definition flow_bad (i : idp) (k : flow) : bool :=
  let '(r, t0, t1, obs) := k in
  let chk (now : Z) :=
    match token_endpoint i now r, obs with
    | Release idt act, Some (idc, acc, ui) =>
        claims_eqb ["iat"%string] (t_claims idt) idc && claims_eqb ["iat"%string] (t_claims act) acc &&
        match c_userinfo (srv i) now act, ui with
        | Some u, Some u' => bs_eqb u u'
        | None, None => true
        | _, _ => false
        end
    | Refuse _, None => true
    | _, _ => false
    end in
  negb (chk t0 || chk t1).

(* the client id a token request authenticates as (header first, else the body) *)
Definition caller_id (r : treq) : bs :=
  match tr_basic r with Some (id, _) => id | None => tr_form_client r end.

(* The property's own predicate on an OBSERVED ID token (the conclusion of c12_idtoken_sole_audience):
   its "aud" member is the one-element list holding the client the request authenticated as. *)
Definition obs_sole_audience (client : bs) (idc : claimset) : bool :=
  match lookup "aud" idc with
  | Some (VList [x]) => bs_eqb x client
  | _ => false
  end.

(* ... and on an observed access token (the conclusion of c12_access_audience): the audience list is
   empty or contains the userinfo URL *)
Definition obs_access_audience (st : server) (acc : claimset) : bool :=
  match rd_list "aud" acc with
  | Some [] => true
  | Some l => mem_bs (s_userinfo st) l
  | None => false
  end.

(* tokens were released and the observed ID token names more, less or another audience than the client *)
Definition flow_violating (i : idp) (k : flow) : bool :=
  let '(r, _, _, obs) := k in
  match obs with
  | Some (idc, _, _) => negb (obs_sole_audience (caller_id r) idc)
  | None => false
  end.

Definition flow_violating_access (i : idp) (k : flow) : bool :=
  let '(_, _, _, obs) := k in
  match obs with
  | Some (_, acc, _) => negb (obs_access_audience (srv i) acc)
  | None => false
  end.

(* the indices of the mismatching cases on which the observation itself violates the predicate *)
Definition violating_of {A} (bad viol : A -> bool) (l : list A) : list nat :=
  KM.Base.Cases.mismatches (fun x => bad x && viol x) l.

(* the same predicate on the released cases of the product; the product index is reported *)
Definition release_violating_on (combos : list combo) (i : idp) (e : c12env) (t0 t1 : Z)
           (l : list (nat * claimset * claimset * option bs)) : list nat :=
  map (fun k => fst (fst (fst k)))
      (filter (fun k => let '(n, idc, _, _) := k in
                 release_bad_on combos i e t0 t1 k &&
                 match nth_opt combos n with
                 | Some combo => negb (obs_sole_audience (caller_id (req_of e combo)) idc)
                 | None => false
                 end) l).

(* ---------------------------------------------------------------- the client-option dimension *)

(* Per option of the client's configuration entry that the harness finds by reflection (bool fields set to
   true, string fields set to plausible values), a client WITH a secret and a secret-less client carry it;
   the product below is re-run with these two as callers 0 and 1 (every secret, verifier, challenge and
   credential location; redirect same/other/absent; code fresh/expired/of the other client). *)
Definition option_dims : dims :=
  {| d_cl := [0; 1]; d_sm := seq 0 3; d_vm := seq 0 3; d_ck := seq 0 5; d_rd := [0; 1; 2]; d_cs := [0; 1; 3];
     d_loc := seq 0 3 |}%nat.
Definition option_combos : list combo := combos_of option_dims.

(* the secret a token request shows (header first, else the body) *)
Definition shown_secret (r : treq) : bs :=
  match tr_basic r with Some (_, pw) => pw | None => tr_form_secret r end.

(* The property's own predicate on a request that was OBSERVED to release tokens (the conclusion of
   c12_secret_client_needs_secret): the caller names a configured client, and if that client has a secret
   the request shows exactly it.  (A request that shows the right secret AND a verifier, released by an
   implementation more liberal than the model, does not violate the property: the secret was proved.) *)
Definition obs_secret_shown (i : idp) (r : treq) : bool :=
  match find_client (caller_id r) (clients i) with
  | Some c => negb (nonempty (cl_secret c)) || bs_eqb (shown_secret r) (cl_secret c)
  | None => false
  end.

(* of the mismatching product indices [mm]: those observed as released on which the predicate fails *)
Definition secret_violating_on (combos : list combo) (i : idp) (e : c12env) (observed : bs) (mm : list nat) : list nat :=
  filter (fun n => match nth_opt combos n with
                   | Some k => negb (nth n observed 0 =? 0)%N && negb (obs_secret_shown i (req_of e k))
                   | None => false
                   end) mm.

(* ---------------------------------------------------------------- the connection dimension (Host header / TLS server name) *)

(* the property's predicate on OBSERVED released tokens (the conclusion of c12_issuer_is_configured): both
   name the configured issuer *)
Definition obs_issuer (st : server) (idc acc : claimset) : bool :=
  match rd_str "iss" idc, rd_str "iss" acc with
  | Some a, Some b' => bs_eqb a (s_issuer st) && bs_eqb b' (s_issuer st)
  | _, _ => false
  end.

Definition flow_violating_issuer (i : idp) (k : flow) : bool :=
  let '(_, _, _, obs) := k in
  match obs with
  | Some (idc, acc, _) => negb (obs_issuer (srv i) idc acc)
  | None => false
  end.

(* userinfo reached over a connection: the connection, the token, clock readings, the answer *)
Definition userinfo_conn_bad (i : idp) (k : conn * token * Z * Z * option bs) : bool :=
  let '(cn, t, t0, t1, obs) := k in
  let chk (now : Z) :=
    match userinfo_endpoint i now cn t, obs with
    | Some u, Some u' => bs_eqb u u'
    | None, None => true
    | _, _ => false
    end in
  negb (chk t0 || chk t1).

(* the discovery document fetched over a connection: (issuer, userinfo_endpoint) as served, None: no document *)
Definition discovery_bad (i : idp) (k : conn * option (bs * bs)) : bool :=
  let '(cn, obs) := k in
  match obs with
  | Some (iss, ui) => negb (bs_eqb iss (fst (discovery i cn)) && bs_eqb ui (snd (discovery i cn)))
  | None => true
  end.
