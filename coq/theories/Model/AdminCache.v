(* C08 — keymasterd/admincache/{cache.go,impl.go} and IsAdminUser of cmd/keymasterd/app.go.

   Times are Z: nanoseconds on time.Time's own scale, 0 = Go's zero time (`ts.IsZero()`), so an
   entry that was never written and an entry written at instant 0 look the same to isValid,
   exactly as in the code.  Users are byte strings (the map key is the Go string: "alice" and
   "Alice" are two entries).  The map `data` is an association list, newest
   binding first (a Go map write replaces the binding; `lookup` returns the newest one).  A nil
   *Cache is `None`.  The clock is an input: every op carries the reading that `get` (through
   isValid) and the reading that `put` obtain from `c.clock.Now()`. *)
From Coq Require Import ZArith NArith List Bool.
From KM Require Import Base.Bytes.
Import ListNotations.
Open Scope Z_scope.

Record entry := { e_admin : bool; e_ts : Z }.            (* cacheEntry{IsAdmin, Ts} *)
Definition zero_entry : entry := {| e_admin := false; e_ts := 0 |}.

Definition cache := list (bs * entry).                    (* Cache.data *)

Fixpoint lookup (d : cache) (u : bs) : entry :=
  match d with
  | [] => zero_entry
  | (k, e) :: r => if bs_eqb k u then e else lookup r u
  end.

(* time.Time.Sub: the difference saturates at the range of Duration (int64 nanoseconds) *)
Definition min_dur : Z := - 2 ^ 63.
Definition max_dur : Z := 2 ^ 63 - 1.
Definition sat_sub (a b : Z) : Z :=
  let d := a - b in
  if d <? min_dur then min_dur else if max_dur <? d then max_dur else d.

(* func (c *Cache) isValid(ts) : if ts.IsZero() {false} else now.Sub(ts) < maxDuration *)
Definition is_valid (maxd now ts : Z) : bool :=
  if ts =? 0 then false else sat_sub now ts <? maxd.

(* func (c *Cache) get(user) (isAdmin, valid) *)
Definition get (maxd : Z) (c : option cache) (now : Z) (u : bs) : bool * bool :=
  match c with
  | None => (false, false)
  | Some d => let e := lookup d u in (e_admin e, is_valid maxd now (e_ts e))
  end.

(* func (c *Cache) put(user, isAdmin) *)
Definition put (c : option cache) (now : Z) (u : bs) (a : bool) : option cache :=
  match c with
  | None => None
  | Some d => Some ((u, {| e_admin := a; e_ts := now |}) :: d)
  end.

(* the package's own API, op by op (driven directly in keymasterd/admincache) *)
Inductive cop :=
| CGet (now : Z) (u : bs)
| CPut (now : Z) (u : bs) (a : bool).
Inductive cout := OGet (isadmin valid : bool) | OPut.

Definition cstep (maxd : Z) (c : option cache) (o : cop) : option cache * cout :=
  match o with
  | CGet now u => let '(a, v) := get maxd c now u in (c, OGet a v)
  | CPut now u a => (put c now u a, OPut)
  end.

Fixpoint crun (maxd : Z) (c : option cache) (l : list cop) : list cout :=
  match l with
  | [] => []
  | o :: r => let '(c', x) := cstep maxd c o in x :: crun maxd c' r
  end.

(* ---- IsAdminUser (app.go).  One query: who is asked about, the two clock readings, and what
   _IsAdminUser returns if it is called at this moment: Some verdict, or None for an error
   (the directory did not answer). *)
Record query := {
  q_t : Z;                 (* clock reading inside Get *)
  q_tp : Z;                (* clock reading inside Put (only read when Put happens) *)
  q_user : bs;
  q_raw : option bool }.

Definition is_admin_user (maxd : Z) (c : option cache) (q : query) : option cache * bool :=
  let '(isadm, valid) := get maxd c (q_t q) (q_user q) in
  if valid then (c, isadm)                               (* cached entry is valid: return as is *)
  else match q_raw q with
       | Some v => (put c (q_tp q) (q_user q) v, v)      (* success: cache and return the result *)
       | None => (put c (q_tp q) (q_user q) isadm, isadm)(* error: re-cache and return the old value *)
       end.

(* a history: every query with the verdict it received, newest first *)
Record obs := { o_q : query; o_v : bool }.

Definition hstep (maxd : Z) (st : option cache * list obs) (q : query) : option cache * list obs :=
  let '(c', v) := is_admin_user maxd (fst st) q in
  (c', {| o_q := q; o_v := v |} :: snd st).

Definition hrun (maxd : Z) (c0 : option cache) (qs : list query) : option cache * list obs :=
  fold_left (hstep maxd) qs (c0, []).

(* verdicts in the order of the queries (what the correspondence compares) *)
Definition verdicts (maxd : Z) (c0 : option cache) (qs : list query) : list bool :=
  rev (map o_v (snd (hrun maxd c0 qs))).

Definition five_minutes : Z := 300 * 1000000000.

Example ex_stale_on_error :
  verdicts five_minutes (Some [])
    [ {| q_t := 10; q_tp := 10; q_user := [97%N]; q_raw := Some true |};
      {| q_t := 10 + five_minutes; q_tp := 10 + five_minutes; q_user := [97%N]; q_raw := None |};
      {| q_t := 11 + five_minutes; q_tp := 11 + five_minutes; q_user := [97%N]; q_raw := Some false |};
      {| q_t := 10 + 2 * five_minutes; q_tp := 10 + 2 * five_minutes; q_user := [97%N]; q_raw := Some false |} ]
  = [true; true; true; false].
Proof. vm_compute. reflexivity. Qed.

(* ---- the role questions the server memoises, as ONE state machine over the shared cache.
   app.go IsAdminUser(u) and roleRequestingCert.go isAutomationAdmin(u) both go through the
   five-minute memo: isAutomationAdmin first asks IsAdminUser(u) (memoised, may fill the cache)
   and, if that says no, looks u up in Config.Base.AutomationAdmins (never memoised).
   One op: which question, about whom, the clock readings, what _IsAdminUser would return now
   (q_raw: a real administrator evaluation by configured name or group, or an error), and whether
   the user is on the automation administrators' list. *)
Inductive rkind := KAdmin | KAutoAdmin.
Record rquery := { rq_kind : rkind; rq_q : query; rq_listed : bool }.

(* the answer handed to the caller, and the administrator verdict obtained on the way *)
Definition role_step (maxd : Z) (c : option cache) (r : rquery) : option cache * (bool * bool) :=
  let '(c', adm) := is_admin_user maxd c (rq_q r) in
  (c', (adm, match rq_kind r with KAdmin => adm | KAutoAdmin => adm || rq_listed r end)).

Record robs := { ro_q : rquery; ro_adm : bool; ro_ans : bool }.

Definition rstep (maxd : Z) (st : option cache * list robs) (r : rquery) : option cache * list robs :=
  let '(c', (adm, ans)) := role_step maxd (fst st) r in
  (c', {| ro_q := r; ro_adm := adm; ro_ans := ans |} :: snd st).

(* newest first *)
Definition rrun (maxd : Z) (c0 : option cache) (rs : list rquery) : option cache * list robs :=
  fold_left (rstep maxd) rs (c0, []).

Definition ranswers (maxd : Z) (c0 : option cache) (rs : list rquery) : list bool :=
  rev (map ro_ans (snd (rrun maxd c0 rs))).

(* the administrator evaluation inside a role query, as an observation of the memo *)
Definition admin_obs (o : robs) : obs := {| o_q := rq_q (ro_q o); o_v := ro_adm o |}.

(* For contrast (never the server's code): ONE memo shared by both questions and keyed by the
   user name only — whatever the last lookup about u concluded is handed to the next caller,
   whichever question that caller asks. *)
Definition role_step_shared (maxd : Z) (c : option cache) (r : rquery) : option cache * (bool * bool) :=
  let q := rq_q r in
  let '(cached, valid) := get maxd c (q_t q) (q_user q) in
  if valid then (c, (cached, cached))
  else
    let fresh := match rq_kind r with
                 | KAdmin => q_raw q
                 | KAutoAdmin => match q_raw q with Some a => Some (a || rq_listed r) | None => None end
                 end in
    match fresh with
    | Some v => (put c (q_tp q) (q_user q) v, (v, v))
    | None => (put c (q_tp q) (q_user q) cached, (cached, cached))
    end.
Fixpoint ranswers_shared (maxd : Z) (c : option cache) (rs : list rquery) : list bool :=
  match rs with
  | [] => []
  | r :: rest => let '(c', (_, ans)) := role_step_shared maxd c r in ans :: ranswers_shared maxd c' rest
  end.

(* comparison helpers for the correspondence case files *)
Definition cout_eqb (a b : cout) : bool :=
  match a, b with
  | OGet x y, OGet x' y' => Bool.eqb x x' && Bool.eqb y y'
  | OPut, OPut => true
  | _, _ => false
  end.
Fixpoint couts_eqb (a b : list cout) : bool :=
  match a, b with
  | [], [] => true
  | x :: r, y :: s => cout_eqb x y && couts_eqb r s
  | _, _ => false
  end.
Fixpoint bools_eqb (a b : list bool) : bool :=
  match a, b with
  | [], [] => true
  | x :: r, y :: s => Bool.eqb x y && bools_eqb r s
  | _, _ => false
  end.
