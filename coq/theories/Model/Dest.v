(* C17 — model of cmd/keymasterd/app.go getLoginDestination and of what net/http.Redirect
   then puts into the Location header (Go 1.24 server.go Redirect + hexEscapeNonASCII). *)
From KM Require Import Base.Bytes.

Definition SL : N := 47.   (* '/' *)
Definition BSL : N := 92.  (* '\' *)
Definition DOT : N := 46.
Definition QM : N := 63.
Definition PCT : N := 37.

Definition is_ctl (c : N) : bool := (c <? 32) || (c =? 127).
Definition is_bad (c : N) : bool := is_ctl c || (c =? BSL).

Definition starts_slash (s : bs) : bool := match s with x :: _ => x =? SL | [] => false end.
Definition second_slash (s : bs) : bool := match s with _ :: x :: _ => x =? SL | _ => false end.

(* "/profile/" *)
Definition profile : bs := [47; 112; 114; 111; 102; 105; 108; 101; 47].

(* the filter: leading '/', not '//', no backslash and no control byte anywhere *)
Definition accepted (s : bs) : bool :=
  starts_slash s && negb (second_slash s) && negb (has is_bad s).
(* r.FormValue("login_destination") != "" is implied by starts_slash *)
Definition get_login_destination (s : bs) : bs := if accepted s then s else profile.

(* the filter as the tree had it before the fix (kept for the refutation witness) *)
Definition accepted_old (s : bs) : bool := starts_slash s && negb (second_slash s).
Definition get_login_destination_old (s : bs) : bs := if accepted_old s then s else profile.

(* --- functional path.Clean for rooted paths --- *)
Fixpoint split_sl (s : bs) (cur : bs) : list bs :=
  match s with
  | [] => [rev cur]
  | x :: r => if x =? SL then rev cur :: split_sl r [] else split_sl r (x :: cur)
  end.

Definition is_dot (seg : bs) : bool := match seg with [d] => d =? DOT | _ => false end.
Definition is_dotdot (seg : bs) : bool :=
  match seg with [d; e] => (d =? DOT) && (e =? DOT) | _ => false end.
Definition is_empty (seg : bs) : bool := match seg with [] => true | _ => false end.

(* stack is kept reversed *)
Fixpoint norm (segs : list bs) (stack : list bs) : list bs :=
  match segs with
  | [] => rev stack
  | g :: r =>
      if is_empty g || is_dot g then norm r stack
      else if is_dotdot g then norm r (tl stack)
      else norm r (g :: stack)
  end.

Fixpoint join_sl (segs : list bs) : bs :=
  match segs with
  | [] => []
  | [g] => g
  | g :: r => g ++ SL :: join_sl r
  end.

Definition clean_rooted (s : bs) : bs := SL :: join_sl (norm (split_sl s []) []).

Fixpoint split_q (s : bs) (acc : bs) : bs * bs :=
  match s with
  | [] => (rev acc, [])
  | x :: r => if x =? QM then (rev acc, s) else split_q r (x :: acc)
  end.

Definition ends_slash (s : bs) : bool := match rev s with x :: _ => x =? SL | [] => false end.

(* http.Redirect for a target that starts with '/', has no scheme and no host; when
   url.Parse fails the target is emitted verbatim *)
Definition redirect_location (parse_fails : bool) (d : bs) : bs :=
  if parse_fails then d else
  let (p, q) := split_q d [] in
  let c := clean_rooted p in
  let c' := if ends_slash p && negb (ends_slash c) then c ++ [SL] else c in
  c' ++ q.

Definition hexd (n : N) : N := if n <? 10 then 48 + n else if n <? 16 then 87 + n else 120.
Fixpoint hex_escape (s : bs) : bs :=
  match s with
  | [] => []
  | c :: r => if c <? 128 then c :: hex_escape r
              else PCT :: hexd (c / 16) :: hexd (c mod 16) :: hex_escape r
  end.

Definition location (parse_fails : bool) (form_value : bs) : bs :=
  hex_escape (redirect_location parse_fails (get_login_destination form_value)).
Definition location_old (parse_fails : bool) (form_value : bs) : bs :=
  hex_escape (redirect_location parse_fails (get_login_destination_old form_value)).

(* what "stays on keymasterd's own origin as a browser resolves it" means (WHATWG: tab, CR,
   LF are removed before parsing; a leading "//", "/\", "\/" or "\\" is scheme-relative) *)
Definition strip (s : bs) : bs :=
  filter (fun c => negb ((c =? 9) || (c =? 10) || (c =? 13))) s.
Definition second_is (p : N -> bool) (s : bs) : bool :=
  match s with _ :: x :: _ => p x | _ => false end.
Definition same_origin (loc : bs) : bool :=
  let l := strip loc in
  starts_slash l && negb (second_is (fun c => (c =? SL) || (c =? BSL)) l) && negb (has is_ctl l).

(* correspondence: (url.Parse failed?, submitted form value, Location observed) *)
Definition c17_bad (c : bool * bs * bs) : bool :=
  let '(pf, i, o) := c in negb (bs_eqb (location pf i) o).

(* ------------------------------------------------------------------------------------------
   The login prompt of a protected page and the federated round trip (auth_oauth2.go,
   writeFailureResponse).  An unauthenticated text/html request for a page gets the login page
   (401); its hidden login_destination input carries [page_destination]: r.URL.String() for the
   three "come back here" paths (/idp/oauth2/authorize, /showAuthToken, /sendAuthDocument), the
   filtered form field for a POST that has one, the profile page otherwise.  [pr_url] is
   r.URL.String() — net/url, an input; an absolute-form request line makes it a full URL.
   Whatever the browser posts back to /auth/oauth2/login ([posted]) goes through the filter into
   pendingOauth2 ([pending_store] is the only store); the callback redirects to the parked
   value, or to the profile page when it is empty.  The prompt itself never starts a federated
   login, whatever oauth2.force_redirect says (it only hides the password form).
   ------------------------------------------------------------------------------------------ *)
Definition is_nil (s : bs) : bool := match s with [] => true | _ => false end.

Record prompt_req := {
  pr_post : bool;
  pr_comeback : bool;
  pr_url : bs;
  pr_form : bs
}.
Definition page_destination (q : prompt_req) : bs :=
  if pr_post q && negb (is_nil (pr_form q)) then get_login_destination (pr_form q)
  else if pr_comeback q then pr_url q else profile.

Definition prompt_starts_federated (oauth2_enabled force_redirect : bool) : bool := false.

Definition pending_store (form_value : bs) : bs := get_login_destination form_value.
Definition callback_target (pending : bs) : bs := if is_nil pending then profile else pending.
Definition callback_location (parse_fails : bool) (pending : bs) : bs :=
  hex_escape (redirect_location parse_fails (callback_target pending)).
Definition federated_location (parse_fails : bool) (form_value : bs) : bs :=
  callback_location parse_fails (pending_store form_value).

Definition prompt_flow_pending (oauth2_enabled force_redirect : bool) (q : prompt_req) (posted : bs) : bs :=
  if prompt_starts_federated oauth2_enabled force_redirect then page_destination q
  else pending_store posted.
Definition prompt_flow_location (oauth2_enabled force_redirect parse_fails : bool) (q : prompt_req) (posted : bs) : bs :=
  callback_location parse_fails (prompt_flow_pending oauth2_enabled force_redirect q posted).

(* http.Redirect leaves a target alone when url.Parse finds a scheme or a host in it
   ([authority], an input computed by the real parser like [parse_fails]) *)
Definition redirect_emit (parse_fails authority : bool) (d : bs) : bs :=
  if parse_fails || authority then d else redirect_location false d.

(* "/?user=" *)
Definition logout_prefix : bs := [47; 63; 117; 115; 101; 114; 61].
Definition logout_target (user : bs) : bs := if is_nil user then [SL] else logout_prefix ++ user.
Definition logout_location (parse_fails : bool) (user : bs) : bs :=
  hex_escape (redirect_location parse_fails (logout_target user)).

(* correspondence of the prompt flow: (force_redirect, r.URL.Path is a come-back path, r.URL.String(),
   what the prompt did (0 = login page, 1 = went to the provider by itself), value posted to
   /auth/oauth2/login, url.Parse of it failed?, Location of the callback) *)
Definition c17_flow_bad (c : bool * bool * bs * N * bs * bool * bs) : bool :=
  let '(force, comeback, u, kind, posted, pf, loc) := c in
  let q := {| pr_post := false; pr_comeback := comeback; pr_url := u; pr_form := [] |} in
  negb (N.eqb kind (if prompt_starts_federated true force then 1 else 0)) ||
  negb (bs_eqb (prompt_flow_location true force pf q posted) loc).

(* correspondence of the logout redirect: (url.Parse failed?, user of the session, Location) *)
Definition c17_logout_bad (c : bool * bs * bs) : bool :=
  let '(pf, u, o) := c in negb (bs_eqb (logout_location pf u) o).

(* correspondence of the login page's hidden input for a GET: (come-back path?, r.URL.String(),
   ensureHTMLSafeLoginDestination of it, ensureHTMLSafeLoginDestination of the profile page — the
   url.Parse/String round trip is an input —, value of the hidden input in the served page) *)
Definition c17_page_bad (c : bool * bs * bs * bs * bs) : bool :=
  let '(comeback, u, e_u, e_profile, hidden) := c in
  let q := {| pr_post := false; pr_comeback := comeback; pr_url := u; pr_form := [] |} in
  negb (bs_eqb hidden (if bs_eqb (page_destination q) u then e_u else e_profile)).
