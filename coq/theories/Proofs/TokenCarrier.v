(* C04 — the carrier dimension: lemmas over Model/TokenCarrier.v *)
From Coq Require Import String ZArith NArith List Bool.
From KM Require Import Base.Bytes Base.Tactics Model.Tokens Model.OIDC Model.TokenCarrier Proofs.Tokens Proofs.OIDC.
Import ListNotations.
Open Scope Z_scope.

Lemma accepts_via_reads i now c k t : accepts_via i now c k t = true ->
  reads c k = true /\ accepts i now c t = true.
Proof.
  unfold accepts_via, exec_via, accepts. destruct (reads c k); [auto|]. cbn. discriminate.
Qed.

(* acceptance in ANY carrier implies everything c04_accept_sound says of the artefact *)
Lemma accepts_via_sound i now c k t : accepts_via i now c k t = true ->
  reads c k = true /\
  genuine (srv i) t /\ rd_str (kind_claim c) (t_claims t) = Some (kind_const c) /\
  window now c (t_claims t) /\ (must_name_server c -> names_server (srv i) (t_claims t)) /\
  subject_bound c (t_claims t).
Proof.
  intro H. apply accepts_via_reads in H. destruct H as [R A]. split; [exact R|]. exact (accepts_sound i now c t A).
Qed.

(* a carrier the consumer does not read: nothing is honoured, nothing emitted, nobody named *)
Lemma unread_carrier_refused i now c k t : reads c k = false -> exec_via i now c k t = refused.
Proof. intro R. unfold exec_via. rewrite R. reflexivity. Qed.

(* the verdict does not depend on which of the read carriers brought the artefact *)
Lemma carrier_irrelevant i now c k k' t : reads c k = true -> reads c k' = true ->
  exec_via i now c k t = exec_via i now c k' t.
Proof. intros R R'. unfold exec_via. rewrite R, R'. reflexivity. Qed.

(* out of window / wrong kind / not genuine / naming another server: refused in every carrier *)
Lemma carrier_never_rescues i now c t : accepts i now c t = false -> forall k, accepts_via i now c k t = false.
Proof.
  intros A k. unfold accepts_via, exec_via. destruct (reads c k); [exact A|reflexivity].
Qed.

(* every consumer reads at least its usual carrier (the table is not empty anywhere) *)
Definition usual_carrier (c : consumer) : carrier :=
  match c with
  | CSession _ | CUpdate _ => KCookie
  | CCliVerify => KForm NToken
  | CCliSend _ _ => KQuery NToken
  | CStorage _ _ _ _ => KRow
  | CToken _ => KForm NCode
  | CUserinfo => KBearer
  end.

Lemma usual_carrier_read c : reads c (usual_carrier c) = true.
Proof. destruct c; reflexivity. Qed.

Lemma usual_carrier_accepts i now c t : accepts_via i now c (usual_carrier c) t = accepts i now c t.
Proof. unfold accepts_via, exec_via. rewrite usual_carrier_read. reflexivity. Qed.

(* the bearer branch without the expiry comparison (NOT the code): a session cookie minted at 1000 s
   for 16 h is honoured at 100000 s in "Authorization: Bearer" and "authorization: bearer", while the
   code refuses it in every carrier - and honours it in the cookie inside its window *)
Lemma bearer_branch_without_expiry_refuted :
  let i := {| srv := srv0; clients := [] |} in
  let t := emit srv0 (1000 * NS) (ASession (b "alice") 2 57600) in
  let late := 100000 * NS in
  accepts_via_bearer_branch i late (CSession 2) KBearer t = true /\
  accepts_via_bearer_branch i late (CSession 2) KBearerLower t = true /\
  (exists e, rd_int "exp" (t_claims t) = Some e /\ e * NS < late) /\
  (forall k, accepts_via i late (CSession 2) k t = false) /\
  accepts_via i (2000 * NS) (CSession 2) KCookie t = true /\
  accepts_via i (2000 * NS) (CSession 2) KBearer t = false.
Proof.
  cbv zeta. split; [vm_compute; reflexivity|]. split; [vm_compute; reflexivity|].
  split; [exists 58600; split; vm_compute; reflexivity|].
  split; [intro k; apply carrier_never_rescues; vm_compute; reflexivity|].
  split; vm_compute; reflexivity.
Qed.
