(* C20 — proofs about Model/EventsReaders.v *)
From KM Require Import Base.Bytes Base.Tactics Model.Events Proofs.Events Model.EventsReaders.

(* a reader that leaves what it was handed as it found it *)
Definition reader_pure (f : rstate -> rstate) : Prop := forall s, f s = s.

Fixpoint readers_pure (ops : list lop2) : Prop :=
  match ops with
  | [] => True
  | LOp _ :: r => readers_pure r
  | LRead f :: r => reader_pure f /\ readers_pure r
  end.

(* a pure reader is a plain request *)
Lemma pure_read_is_request st f : reader_pure f -> lstep2 st (LRead f) = lstep st LRequest.
Proof.
  intro P. unfold lstep2, lstep, l_get. destruct st as [m [c|] fi ar]; simpl; rewrite P; reflexivity.
Qed.

Definition as_lop (o : lop2) : lop := match o with LOp o => o | LRead _ => LRequest end.

Lemma lrun2_pure ops : forall st, readers_pure ops -> lrun2 ops st = lrun (map as_lop ops) st.
Proof.
  induction ops as [|o r IH]; intros st P; [reflexivity|].
  change (lrun2 (o :: r) st) with (lrun2 r (lstep2 st o)).
  change (lrun (map as_lop (o :: r)) st) with (lrun (map as_lop r) (lstep st (as_lop o))).
  destruct o as [o|f].
  - apply IH, P.
  - destruct P as [Pf Pr]. rewrite (pure_read_is_request st f Pf). apply IH, Pr.
Qed.

Lemma linv_run2 m0 ops st : readers_pure ops -> linv m0 st -> linv m0 (lrun2 ops st).
Proof. intros P I. rewrite (lrun2_pure ops st P). apply linv_run, I. Qed.

(* serving a pure reader changes nothing one can see: history, file, pending save, and what the
   next reader or the save will be handed *)
Lemma read_pure now file ops f : readers_pure ops -> reader_pure f ->
  let st := lrun2 ops (l_start now file) in
  let st' := lstep2 st (LRead f) in
  l_map st' = l_map st /\ l_file st' = l_file st /\ l_armed st' = l_armed st /\
  snd (l_get st') = snd (l_get st) /\ snd (l_get st') = l_map st.
Proof.
  intros P Pf st st'. subst st'. rewrite (pure_read_is_request st f Pf). simpl.
  assert (I : linv (l_map (l_start now file)) st) by (apply linv_run2; [exact P|apply linv_start]).
  destruct (l_get_current _ st I) as (S & I' & M & Fi & Ar & Ca).
  destruct (l_get_current _ _ I') as (S' & _).
  rewrite S', S, M. auto.
Qed.

(* two loop states that agree on everything but the cache *)
Definition same_hist (a b : lstate) : Prop :=
  l_map a = l_map b /\ l_file a = l_file b /\ l_armed a = l_armed b.

Lemma same_hist_step m0 a b o : linv m0 a -> linv m0 b -> same_hist a b -> same_hist (lstep a o) (lstep b o).
Proof.
  intros Ia Ib (M & Fi & Ar). destruct o as [r|now| |]; simpl.
  - destruct (rop_event r); [|split; auto]. unfold same_hist. simpl. rewrite M, Fi. auto.
  - rewrite M. destruct (expire_changed now (l_map b)); [|split; auto].
    unfold same_hist. simpl. rewrite Fi. auto.
  - destruct (l_get_current m0 a Ia) as (_ & _ & Ma & Fa & Aa & _).
    destruct (l_get_current m0 b Ib) as (_ & _ & Mb & Fb & Ab & _).
    unfold same_hist. rewrite Ma, Fa, Aa, Mb, Fb, Ab. auto.
  - rewrite Ar. destruct (l_armed b) eqn:Ab0; [|repeat split; congruence].
    destruct (l_get_current m0 a Ia) as (Sa & _ & Ma & Fa & Aa & _).
    destruct (l_get_current m0 b Ib) as (Sb & _ & Mb & Fb & Ab & _).
    destruct (l_get a) as [a' sa]. destruct (l_get b) as [b' sb]. simpl in *.
    unfold same_hist. simpl. rewrite Ma, Mb, Sa, Sb, M. auto.
Qed.

Lemma same_hist_request m0 a b : linv m0 a -> same_hist a b -> same_hist (lstep a LRequest) b.
Proof.
  intros Ia (M & Fi & Ar). destruct (l_get_current m0 a Ia) as (_ & _ & Ma & Fa & Aa & _).
  unfold same_hist. simpl. rewrite Ma, Fa, Aa. auto.
Qed.

Lemma drop_reads_run m0 ops : forall a b, readers_pure ops -> linv m0 a -> linv m0 b -> same_hist a b ->
  same_hist (lrun2 ops a) (lrun (drop_reads ops) b).
Proof.
  induction ops as [|o r IH]; intros a b P Ia Ib S; [exact S|].
  destruct o as [o|f].
  - destruct o as [x|now| |].
    + change (same_hist (lrun2 r (lstep a (LRec x))) (lrun (drop_reads r) (lstep b (LRec x)))).
      apply IH; [exact P|apply linv_step, Ia|apply linv_step, Ib|apply (same_hist_step m0); assumption].
    + change (same_hist (lrun2 r (lstep a (LHourly now))) (lrun (drop_reads r) (lstep b (LHourly now)))).
      apply IH; [exact P|apply linv_step, Ia|apply linv_step, Ib|apply (same_hist_step m0); assumption].
    + change (same_hist (lrun2 r (lstep a LRequest)) (lrun (drop_reads r) b)).
      apply IH; [exact P|apply linv_step, Ia|exact Ib|apply (same_hist_request m0); assumption].
    + change (same_hist (lrun2 r (lstep a LSave)) (lrun (drop_reads r) (lstep b LSave))).
      apply IH; [exact P|apply linv_step, Ia|apply linv_step, Ib|apply (same_hist_step m0); assumption].
  - destruct P as [Pf Pr]. change (same_hist (lrun2 r (lstep2 a (LRead f))) (lrun (drop_reads r) b)).
    rewrite (pure_read_is_request a f Pf).
    apply IH; [exact Pr|apply linv_step, Ia|exact Ib|apply (same_hist_request m0); assumption].
Qed.

(* whatever pure readers came by, and whenever: the history, the file and the pending save are those
   of the same life without any reader; in particular the file holds the current history whenever
   no save is pending *)
Lemma readers_transparent now file ops : readers_pure ops ->
  let st := lrun2 ops (l_start now file) in
  let st0 := lrun (drop_reads ops) (l_start now file) in
  (l_map st = l_map st0 /\ l_file st = l_file st0 /\ l_armed st = l_armed st0) /\
  (l_armed st = false -> l_file st = Some (l_map st) \/ l_map st = l_map (l_start now file)).
Proof.
  intros P st st0. split.
  - apply (drop_reads_run (l_map (l_start now file))); [exact P|apply linv_start|apply linv_start|].
    unfold same_hist. auto.
  - apply (linv_run2 _ ops _ P (linv_start now file)).
Qed.

(* a reader that filters the slices it was handed in place: the next save writes the compacted
   arrays, not the history *)
Definition ex_user : bs := [97%N].
Definition ex_mutating_history : list lop2 :=
  [LOp (LRec (RCert 1 ex_user 3600000 true false)); LOp (LRec (RWeb 2 ex_user));
   LRead (map_lists (compact_in_place ssh)); LOp LSave].

Lemma mutating_reader_corrupts :
  let st := lrun2 ex_mutating_history (l_start 0 None) in
  l_armed st = false /\ l_map st <> l_map (l_start 0 None) /\ l_file st <> Some (l_map st) /\
  l_file (lrun (drop_reads ex_mutating_history) (l_start 0 None)) = Some (l_map st).
Proof. vm_compute. repeat split; discriminate. Qed.
