From Coq Require Import NArith List Bool Arith.
From KM Require Import Base.Bytes Model.KeyStrength Proofs.KeyStrength Model.ClaimAccess Model.KeyFraming.
Import ListNotations.

(* two bytes at a time: statements about [s] and [x :: s] together *)
Lemma dec16_guarded_total_aux le : forall s,
  dec16 true le s <> Panic /\ forall x, dec16 true le (x :: s) <> Panic.
Proof.
  induction s as [|y s [IH1 IH2]].
  - split; [discriminate|]. intros x. simpl. discriminate.
  - split; [apply IH2|]. intros x. simpl.
    destruct (dec16 true le s) eqn:E; [discriminate|discriminate|]. exfalso. apply IH1. reflexivity.
Qed.
Lemma dec16_guarded_total le s : dec16 true le s <> Panic.
Proof. apply dec16_guarded_total_aux. Qed.

Definition dec16_spec (g le : bool) (s : bs) : Prop :=
  if Nat.odd (length s) then dec16 g le s = (if g then Err else Panic)
  else exists t, dec16 g le s = Ok t.
Lemma dec16_parity_aux g le : forall s, dec16_spec g le s /\ forall x, dec16_spec g le (x :: s).
Proof.
  induction s as [|y s [IH1 IH2]].
  - split.
    + unfold dec16_spec. simpl. exists []. reflexivity.
    + intros x. unfold dec16_spec. simpl. reflexivity.
  - split; [apply IH2|]. intros x. unfold dec16_spec in *.
    change (length (x :: y :: s)) with (S (S (length s))).
    rewrite Nat.odd_succ_succ.
    change (dec16 g le (x :: y :: s)) with
      (match dec16 g le s with
       | Ok t => Ok (utf8_of_unit (if le then x + 256 * y else 256 * x + y) ++ t)
       | o => o end).
    destruct (Nat.odd (length s)).
    + rewrite IH1. destruct g; reflexivity.
    + destruct IH1 as [t ->]. eexists. reflexivity.
Qed.
Lemma dec16_parity g le s : dec16_spec g le s.
Proof. apply dec16_parity_aux. Qed.

Lemma dec16_panic_iff g le s : dec16 g le s = Panic <-> g = false /\ Nat.odd (length s) = true.
Proof.
  pose proof (dec16_parity g le s) as H. unfold dec16_spec in H.
  destruct (Nat.odd (length s)).
  - rewrite H. destruct g; split; try discriminate; auto. intros [A _]. discriminate.
  - destruct H as [t ->]. split; [discriminate|]. intros [_ A]. discriminate.
Qed.

Theorem normalize_guarded_total c up : guarded16 c = true -> normalize c up <> Panic.
Proof.
  intros G. unfold normalize. rewrite G.
  destruct (strip8 c && prefix_b utf8_mark up); [discriminate|].
  destruct (le16 c && prefix_b utf16le_mark up); [apply dec16_guarded_total|].
  destruct (be16 c && prefix_b utf16be_mark up); [apply dec16_guarded_total|discriminate].
Qed.

Lemma prefix_skipn p s : prefix_b p s = true -> s = p ++ skipn (length p) s.
Proof.
  intros H. apply prefix_b_spec in H. destruct H as [t ->].
  rewrite skipn_app, skipn_all, Nat.sub_diag. reflexivity.
Qed.

(* the unguarded transcoder panics exactly on a UTF-16 mark (of a flavour it transcodes, not shadowed by a
   stripped UTF-8 mark) followed by an odd number of bytes *)
Theorem normalize_panic c up : normalize c up = Panic ->
  guarded16 c = false /\ exists m r, (m = utf16le_mark \/ m = utf16be_mark) /\ up = m ++ r /\ Nat.odd (length r) = true.
Proof.
  unfold normalize.
  destruct (strip8 c && prefix_b utf8_mark up); [discriminate|].
  destruct (le16 c && prefix_b utf16le_mark up) eqn:L.
  - intros H. apply dec16_panic_iff in H. destruct H as [G O]. split; [exact G|].
    apply andb_true_iff in L. destruct L as [_ L].
    exists utf16le_mark, (skipn 2 up). split; [left; reflexivity|]. split; [exact (prefix_skipn _ _ L)|exact O].
  - destruct (be16 c && prefix_b utf16be_mark up) eqn:B; [|discriminate].
    intros H. apply dec16_panic_iff in H. destruct H as [G O]. split; [exact G|].
    apply andb_true_iff in B. destruct B as [_ B].
    exists utf16be_mark, (skipn 2 up). split; [right; reflexivity|]. split; [exact (prefix_skipn _ _ B)|exact O].
Qed.

Theorem normalize_unguarded_panics : exists c up, strip8 c = true /\ le16 c = true /\ be16 c = true /\ normalize c up = Panic.
Proof.
  exists {| strip8 := true; le16 := true; be16 := true; guarded16 := false |}, [255; 254; 65].
  repeat split.
Qed.

(* every byte string: refused with a client error, or a certificate for the key the parser reads out of the
   normalised text, which passes the strength predicate *)
Theorem upload_refused_or_admissible c pv ps p up :
  guarded16 c = true ->
  (parses_twice p = true -> forall t, ps t = pv t) ->
  upload_pipeline c pv ps p up = Ok ClientError \/
  exists t k, normalize c up = Ok t /\ pv t = Some k /\ validate (snd k) = true /\
              upload_pipeline c pv ps p up = Ok (Signed (snd k)).
Proof.
  intros G A. unfold upload_pipeline.
  destruct (normalize c up) as [t| |] eqn:N.
  - unfold pipeline_of, pipeline2. simpl.
    destruct (pv t) as [kv|] eqn:V; [|left; reflexivity].
    destruct (validate (snd kv)) eqn:S; [|left; reflexivity].
    right. exists t, kv. repeat split; auto.
    destruct (parses_twice p) eqn:T; [rewrite (A eq_refl t), V|]; reflexivity.
  - left; reflexivity.
  - exfalso. exact (normalize_guarded_total c up G N).
Qed.

Theorem framed_upload_refused_or_admissible c pv ps p pre suf cut body :
  guarded16 c = true ->
  (parses_twice p = true -> forall t, ps t = pv t) ->
  upload_pipeline c pv ps p (frame pre suf cut body) = Ok ClientError \/
  exists t k, normalize c (frame pre suf cut body) = Ok t /\ pv t = Some k /\ validate (snd k) = true /\
              upload_pipeline c pv ps p (frame pre suf cut body) = Ok (Signed (snd k)).
Proof. apply upload_refused_or_admissible. Qed.

(* today's code (no normalisation): the framed bytes themselves are what the parser sees *)
Theorem upload_today pv ps p up : upload_pipeline norm_today pv ps p up = Ok (pipeline_of p (pv up) (ps up)).
Proof. reflexivity. Qed.

Theorem upload_pipeline_total c pv ps p up : guarded16 c = true -> upload_pipeline c pv ps p up <> Panic.
Proof.
  intros G. unfold upload_pipeline. destruct (normalize c up) eqn:N; try discriminate.
  exfalso. exact (normalize_guarded_total c up G N).
Qed.

Theorem unguarded_transcoder_refuted :
  (exists c up, strip8 c = true /\ le16 c = true /\ be16 c = true /\ normalize c up = Panic) /\
  (forall c up, normalize c up = Panic ->
     guarded16 c = false /\
     exists m r, (m = utf16le_mark \/ m = utf16be_mark) /\ up = m ++ r /\ Nat.odd (length r) = true).
Proof. split; [exact normalize_unguarded_panics|exact normalize_panic]. Qed.
