(* C02 — the daemon's process environment is no input of an issued certificate *)
From Coq Require Import ZArith.
From KM Require Import Base.Bytes Model.Auth Model.Certgen Model.CertgenCases Model.CertgenEnv
                       Proofs.CertgenSpec Proofs.CertgenCert.
From KM Require Model.Seal.
Open Scope N_scope.

Section EnvIndependent.
Variable shexpand : (bs -> bs) -> bs -> option bs.

(* the expansion the code performs under any environment IS the expansion for the user alone *)
Lemma expand_under_user env t user :
  expand_under shexpand user_mapper env t user = expand_user shexpand t user.
Proof. reflexivity. Qed.

Lemma certgen_env_any env env' st now lim q :
  certgen_env shexpand env st now lim q = certgen_env shexpand env' st now lim q.
Proof. reflexivity. Qed.

Theorem extensions_env_independent env st now lim q u c :
  certgen_env shexpand env st now lim q = Issued u c ->
  (d_ssh c = true ->
   (forall k, lookup (d_exts c) k = spec_ext (expand_user shexpand) (s_templates st) (s_name st u) k) /\
   NoDup (map fst (d_exts c)) /\
   (forall k v, In (k, v) (s_templates st) ->
      expand_user shexpand k (s_name st u) <> None /\ expand_user shexpand v (s_name st u) <> None)) /\
  (forall env', certgen_env shexpand env' st now lim q = Issued u c).
Proof.
  intro H. split.
  - intro SSH. unfold certgen_env, certgen_mapped in H.
    destruct (extensions (expand_under shexpand user_mapper env) st now lim q u c H SSH) as [E N].
    split; [exact E|]. split; [exact N|].
    exact (failed_expansion_refused (expand_under shexpand user_mapper env) st now lim q u c H SSH).
  - intro env'. rewrite (certgen_env_any env' env). exact H.
Qed.
End EnvIndependent.

(* ---- NOT the code: a mapper that looks the variable up in the environment first.  One configured
   template login -> ${USERNAME} ("$" for the toy expander), the daemon started with USERNAME=root
   in its environment: alice's SSH certificate says root, for every user *)
Definition shadow_server : server :=
  let kc := {| Seal.right_pass := key_pass; Seal.main_key := 1; Seal.main_res := Seal.FGood; Seal.role_ok := true;
               Seal.ed_file := None; Seal.extra_pubkeys := [] |} in
  {| s_keys := Seal.inject_all kc (Seal.sealed_init kc) [Seal.admin_inj (Some key_pass)];
     s_cfg := [sU2F]; s_name := case_name; s_host := case_host; s_addr := s_port443;
     s_templates := [([108], [36])];
     s_realm := None; s_groups := fun _ => Some []; s_methods := fun _ => Some [] |}.
Definition shadow_req : certreq := case_req (nth 8 shapes default_shape) 0 0.
Definition n_root : bs := [114;111;111;116].
Definition shadow_env : environ := [(v_USERNAME, n_root)].

Lemma env_shadows_user_refuted :
  exists shexpand env st now lim q u c,
    certgen_env_shadow shexpand env st now lim q = Issued u c /\ d_ssh c = true /\
    (exists k, lookup (d_exts c) k <> spec_ext (expand_user shexpand) (s_templates st) (s_name st u) k) /\
    certgen_env_shadow shexpand [] st now lim q <> certgen_env_shadow shexpand env st now lim q /\
    (* the code on the same input *)
    certgen_env shexpand env st now lim q = certgen_env shexpand [] st now lim q.
Proof.
  exists toy_shexpand, shadow_env, shadow_server, 0%Z, true, shadow_req.
  remember (certgen_env_shadow toy_shexpand shadow_env shadow_server 0 true shadow_req) as r eqn:R.
  vm_compute in R. destruct r as [u c|code]; [|discriminate R].
  exists u, c. injection R as Ru Rc. subst u c.
  split; [reflexivity|]. split; [reflexivity|]. split.
  - exists [108]. vm_compute. discriminate.
  - split; [vm_compute; discriminate|reflexivity].
Qed.

(* non-vacuity: under the code's mapper the same server, request and environment yield login -> alice *)
Example env_example :
  match certgen_env toy_shexpand shadow_env shadow_server 0%Z true shadow_req with
  | Issued u c => lookup (d_exts c) [108] = Some (case_name u) /\ case_name u = n_alice
  | Refused _ => False
  end.
Proof. vm_compute. split; reflexivity. Qed.
