(* C04 — lemmas about the symbolic tokens: what acceptance by each consumer implies. *)
From Coq Require Import String ZArith NArith List Bool Lia.
From KM Require Import Base.Bytes Model.Tokens.
Import ListNotations.
Open Scope Z_scope.

(* ---------------------------------------------------------------- small facts *)

Lemma verify_sound st t : verify st t = true ->
  trusted_key st (t_signer t) = true /\ allowed_alg st (t_alg t) = true /\ t_tampered t = false.
Proof.
  unfold verify. intro H. apply andb_true_iff in H. destruct H as [H Ht].
  apply andb_true_iff in H. destruct H as [Hk Ha]. apply negb_true_iff in Ht. auto.
Qed.

Lemma verify_false st t :
  trusted_key st (t_signer t) = false \/ allowed_alg st (t_alg t) = false \/ t_tampered t = true ->
  verify st t = false.
Proof.
  unfold verify. intros [H|[H|H]]; rewrite H; simpl; auto using andb_false_r.
  rewrite andb_false_r. reflexivity.
Qed.

Lemma std_ok_sound st now iss aud tt kind nbf : std_ok st now iss aud tt kind nbf = true ->
  iss = s_issuer st /\ tt = kind /\ (exists rest, aud = s_issuer st :: rest) /\ nbf <= unix now.
Proof.
  unfold std_ok. intro H.
  apply andb_true_iff in H. destruct H as [H Hn]. apply andb_true_iff in H. destruct H as [H Ha].
  apply andb_true_iff in H. destruct H as [Hi Hk].
  apply bs_eqb_eq in Hi. apply bs_eqb_eq in Hk. repeat split; auto.
  - unfold aud0_is in Ha. destruct aud as [|a rest]; [discriminate|]. apply bs_eqb_eq in Ha. subst. eauto.
  - apply negb_true_iff in Hn. rewrite Z.gtb_ltb in Hn. apply Z.ltb_ge in Hn. exact Hn.
Qed.

Lemma std_ok_complete st now kind nbf rest : nbf <= unix now ->
  std_ok st now (s_issuer st) (s_issuer st :: rest) kind kind nbf = true.
Proof.
  intro H. unfold std_ok, aud0_is. rewrite !bs_eqb_refl. simpl.
  apply negb_true_iff. rewrite Z.gtb_ltb. apply Z.ltb_ge. exact H.
Qed.

(* replacing (or adding) one claim *)
Fixpoint set_claim (n : string) (v : jval) (c : claimset) : claimset :=
  match c with
  | [] => [(n, v)]
  | (k, x) :: r => if String.eqb n k then (n, v) :: r else (k, x) :: set_claim n v r
  end.

Lemma lookup_set_same n v c : lookup n (set_claim n v c) = Some v.
Proof.
  induction c as [|[k x] r IH]; simpl.
  - rewrite String.eqb_refl. reflexivity.
  - destruct (String.eqb n k) eqn:E; simpl.
    + rewrite String.eqb_refl. reflexivity.
    + rewrite E. exact IH.
Qed.

Lemma lookup_set_other n m v c : String.eqb m n = false -> lookup m (set_claim n v c) = lookup m c.
Proof.
  intro Hmn. induction c as [|[k x] r IH]; simpl.
  - rewrite Hmn. reflexivity.
  - destruct (String.eqb n k) eqn:E; simpl.
    + apply String.eqb_eq in E. subst k. rewrite Hmn. reflexivity.
    + destruct (String.eqb m k); auto.
Qed.

(* ---------------------------------------------------------------- decoding *)

Ltac undo H :=
  unfold dec_auth, dec_storage, dec_code, dec_access, dec_id, bind in H;
  repeat match type of H with
         | context [match ?x with _ => _ end] => let E := fresh "E" in destruct x eqn:E; try discriminate H
         end;
  inversion H; subst; clear H.

Lemma dec_auth_fields c a : dec_auth c = Some a ->
  rd_str "iss" c = Some (a_iss a) /\ rd_str "sub" c = Some (a_sub a) /\ rd_list "aud" c = Some (a_aud a) /\
  rd_int "exp" c = Some (a_exp a) /\ rd_int "nbf" c = Some (a_nbf a) /\ rd_int "iat" c = Some (a_iat a) /\
  rd_str "token_type" c = Some (a_token_type a) /\ rd_int "auth_type" c = Some (a_auth_type a).
Proof. intro H. undo H. simpl. repeat split; reflexivity. Qed.

Lemma dec_storage_fields c g : dec_storage c = Some g ->
  rd_str "iss" c = Some (g_iss g) /\ rd_str "sub" c = Some (g_sub g) /\ rd_list "aud" c = Some (g_aud g) /\
  rd_int "nbf" c = Some (g_nbf g) /\ rd_int "exp" c = Some (g_exp g) /\
  rd_str "token_type" c = Some (g_token_type g) /\ rd_str "data" c = Some (g_data g).
Proof. intro H. undo H. simpl. repeat split; reflexivity. Qed.

Lemma dec_code_fields c k : dec_code c = Some k ->
  rd_str "sub" c = Some (c_sub k) /\ rd_int "exp" c = Some (c_exp k) /\
  rd_str "username" c = Some (c_username k) /\ rd_int "auth_exp" c = Some (c_auth_exp k) /\
  rd_str "nonce" c = Some (c_nonce k) /\ rd_str "redirect_uri" c = Some (c_redirect k) /\
  rd_str "type" c = Some (c_type k) /\ rd_str "jti" c = Some (c_jti k).
Proof. intro H. undo H. simpl. repeat split; reflexivity. Qed.

Lemma dec_access_fields c x : dec_access c = Some x ->
  rd_str "iss" c = Some (x_iss x) /\ rd_list "aud" c = Some (x_aud x) /\
  rd_str "username" c = Some (x_username x) /\ rd_int "exp" c = Some (x_exp x) /\
  rd_str "type" c = Some (x_type x).
Proof. intro H. undo H. simpl. repeat split; reflexivity. Qed.

Lemma dec_enc_auth a : dec_auth (enc_auth a) = Some a.
Proof. destruct a. reflexivity. Qed.
Lemma dec_enc_storage g : dec_storage (enc_storage g) = Some g.
Proof. destruct g. reflexivity. Qed.
Lemma dec_enc_access x : dec_access (enc_access x) = Some x.
Proof. destruct x. reflexivity. Qed.
Lemma dec_enc_id i : dec_id (enc_id i) = Some i.
Proof. destruct i. reflexivity. Qed.
Lemma dec_enc_code k : dec_code (enc_code k) = Some k.
Proof. destruct k as [? ? ? ? ? ? ? ? ? ? ? ? ? ? [[[n ch] m]|]]; reflexivity. Qed.

(* ---------------------------------------------------------------- consumers: soundness *)

(* the readable specification of "token t is a genuine, current artefact of kind K naming this
   server", over the raw claims *)
Definition genuine (st : server) (t : token) : Prop :=
  trusted_key st (t_signer t) = true /\ allowed_alg st (t_alg t) = true /\ t_tampered t = false.

Definition names_server (st : server) (c : claimset) : Prop :=
  rd_str "iss" c = Some (s_issuer st) /\ exists rest, rd_list "aud" c = Some (s_issuer st :: rest).

Lemma auth_info_sound st now kind t i : auth_info st now kind t = Some i ->
  genuine st t /\ names_server st (t_claims t) /\
  rd_str "token_type" (t_claims t) = Some kind /\
  (exists nbf, rd_int "nbf" (t_claims t) = Some nbf /\ nbf <= unix now) /\
  rd_int "exp" (t_claims t) = Some (ai_exp i) /\ rd_str "sub" (t_claims t) = Some (ai_user i) /\
  rd_int "auth_type" (t_claims t) = Some (ai_level i).
Proof.
  unfold auth_info. destruct (verify st t) eqn:V; [|discriminate].
  destruct (dec_auth (t_claims t)) as [a|] eqn:D; simpl; [|discriminate].
  destruct (std_ok _ _ _ _ _ _ _) eqn:S; [|discriminate]. intro H. inversion H; subst; clear H. simpl.
  apply verify_sound in V. apply std_ok_sound in S. destruct S as [Si [Sk [[rest Sa] Sn]]].
  apply dec_auth_fields in D. destruct D as [D1 [D2 [D3 [D4 [D5 [D6 [D7 D8]]]]]]].
  split; [exact V|]. split; [split; [congruence| exists rest; congruence]|].
  split; [congruence|]. split; [exists (a_nbf a); auto|]. auto.
Qed.

Lemma c_session_sound st now req t i : c_session st now req t = Some i ->
  auth_info st now k_session t = Some i /\ now <= ai_exp i * NS /\ Z.land (ai_level i) req <> 0.
Proof.
  unfold c_session, bind. destruct (auth_info st now k_session t) as [j|]; [|discriminate].
  destruct (ai_exp j * NS <? now) eqn:E; [discriminate|].
  destruct (Z.land (ai_level j) req =? 0) eqn:L; [discriminate|]. intro H. inversion H; subst.
  apply Z.ltb_ge in E. apply Z.eqb_neq in L. auto.
Qed.

Lemma c_update_sound st now l t t' : c_update st now l t = Some t' ->
  genuine st t /\ names_server st (t_claims t) /\
  rd_str "token_type" (t_claims t) = Some k_session /\
  (exists nbf, rd_int "nbf" (t_claims t) = Some nbf /\ nbf <= unix now) /\
  exists a, dec_auth (t_claims t) = Some a /\
    t' = sign st (enc_auth {| a_iss := a_iss a; a_sub := a_sub a; a_aud := a_aud a; a_exp := a_exp a;
                              a_nbf := a_nbf a; a_iat := a_iat a; a_token_type := a_token_type a;
                              a_auth_type := l |}).
Proof.
  unfold c_update. destruct (verify st t) eqn:V; [|discriminate].
  destruct (dec_auth (t_claims t)) as [a|] eqn:D; simpl; [|discriminate].
  destruct (std_ok _ _ _ _ _ _ _) eqn:S; [|discriminate]. intro H. inversion H; subst; clear H.
  apply verify_sound in V. apply std_ok_sound in S. destruct S as [Si [Sk [[rest Sa] Sn]]].
  pose proof (dec_auth_fields _ _ D) as [D1 [D2 [D3 [D4 [D5 [D6 [D7 D8]]]]]]].
  split; [exact V|]. split; [split; [congruence| exists rest; congruence]|].
  split; [congruence|]. split; [exists (a_nbf a); auto|]. exists a. auto.
Qed.

Lemma c_cli_verify_sound st now t : c_cli_verify st now t = true ->
  exists i, auth_info st now k_cli t = Some i /\ now <= ai_exp i * NS.
Proof.
  unfold c_cli_verify. destruct (auth_info st now k_cli t) as [i|]; [|discriminate].
  intro H. apply negb_true_iff in H. apply Z.ltb_ge in H. exists i. split; auto. lia.
Qed.

Lemma c_cli_send_sound st now l u t t' : c_cli_send st now l u t = Some t' ->
  exists i, auth_info st now k_cli t = Some i /\ ai_user i = u /\ now <= ai_exp i * NS /\
            t' = p_session st now u l (Z.quot (ai_exp i * NS - now) NS).
Proof.
  unfold c_cli_send, bind. destruct (auth_info st now k_cli t) as [i|]; [|discriminate].
  destruct (bs_eqb (ai_user i) u) eqn:U; simpl; [|discriminate]. apply bs_eqb_eq in U.
  destruct (ai_exp i * NS - now <? 0) eqn:E; [discriminate|]. apply Z.ltb_ge in E.
  intro H. inversion H; subst. exists i. repeat split; auto. lia.
Qed.

Lemma storage_data_sound st now t g : storage_data st now t = Some g ->
  genuine st t /\ names_server st (t_claims t) /\
  rd_str "token_type" (t_claims t) = Some k_storage /\
  (exists nbf, rd_int "nbf" (t_claims t) = Some nbf /\ nbf <= unix now) /\
  rd_int "exp" (t_claims t) = Some (g_exp g) /\ unix now <= g_exp g /\
  rd_str "sub" (t_claims t) = Some (g_sub g) /\ rd_str "data" (t_claims t) = Some (g_data g).
Proof.
  unfold storage_data. destruct (verify st t) eqn:V; [|discriminate].
  destruct (dec_storage (t_claims t)) as [a|] eqn:D; simpl; [|discriminate].
  destruct (std_ok _ _ _ _ _ _ _ && _) eqn:S; [|discriminate]. intro H. inversion H; subst; clear H.
  apply andb_true_iff in S. destruct S as [S X]. apply negb_true_iff in X. apply Z.ltb_ge in X.
  apply verify_sound in V. apply std_ok_sound in S. destruct S as [Si [Sk [[rest Sa] Sn]]].
  apply dec_storage_fields in D. destruct D as [D1 [D2 [D3 [D4 [D5 [D6 D7]]]]]].
  split; [exact V|]. split; [split; [congruence| exists rest; congruence]|].
  split; [congruence|]. split; [exists (g_nbf g); auto|]. auto.
Qed.

Lemma c_storage_sound st now u r d : c_storage st now u r = Some d ->
  unix now < r_col_exp r /\ exists g, storage_data st now (r_jws r) = Some g /\ g_sub g = u /\ g_data g = d.
Proof.
  unfold c_storage, bind. destruct (r_col_exp r >? unix now) eqn:C; [|discriminate].
  destruct (storage_data st now (r_jws r)) as [g|]; [|discriminate].
  destruct (bs_eqb (g_sub g) u) eqn:U; [|discriminate]. apply bs_eqb_eq in U.
  intro H. inversion H; subst. apply Z.gtb_lt in C. split; [lia|]. exists g. auto.
Qed.

Lemma c_userinfo_sound st now t u : c_userinfo st now t = Some u ->
  genuine st t /\ rd_str "type" (t_claims t) = Some k_access /\ rd_str "iss" (t_claims t) = Some (s_issuer st) /\
  (exists e, rd_int "exp" (t_claims t) = Some e /\ unix now <= e) /\
  (exists aud, rd_list "aud" (t_claims t) = Some aud /\ (aud = [] \/ In (s_userinfo st) aud)) /\
  rd_str "username" (t_claims t) = Some u.
Proof.
  unfold c_userinfo. destruct (verify st t) eqn:V; [|discriminate].
  destruct (dec_access (t_claims t)) as [x|] eqn:D; cbn [bind]; [|discriminate].
  destruct (x_exp x <? unix now) eqn:E; [discriminate|].
  destruct (bs_eqb (x_type x) k_access) eqn:T; cbn [negb]; [|discriminate].
  destruct (bs_eqb (x_iss x) (s_issuer st)) eqn:I; cbn [negb]; [|discriminate].
  apply dec_access_fields in D. destruct D as [D1 [D2 [D3 [D4 D5]]]].
  apply bs_eqb_eq in T. apply bs_eqb_eq in I. apply Z.ltb_ge in E. apply verify_sound in V.
  destruct (has_elems (x_aud x) && negb (mem_bs (s_userinfo st) (x_aud x))) eqn:M; [discriminate|].
  assert (A : x_aud x = [] \/ In (s_userinfo st) (x_aud x)).
  { destruct (x_aud x) as [|a0 ar] eqn:A; [left; reflexivity|right].
    cbn [has_elems andb] in M. apply negb_false_iff in M. apply mem_bs_In in M. exact M. }
  intro H; inversion H; subst.
  split; [exact V|]; split; [congruence|]; split; [congruence|]; split; [eauto|]; split; [eauto|]; congruence.
Qed.

(* the pre-fix storage consumer serves an expired record once the unsigned column is extended *)
Definition srv0 : server :=
  {| s_issuer := b "https://keymaster.example"; s_keys := [(1, 1)]%N; s_signer := 1%N; s_signer_alg := 1%N;
     s_userinfo := b "https://keymaster.example/idp/oauth2/userinfo" |}.

Lemma old_storage_ignores_exp :
  let now := 2000 * NS in
  let t := p_storage srv0 (1000 * NS) (b "alice") 1 (b "hash") 1500 in
  c_storage_old srv0 now (b "alice") {| r_col_exp := 9999; r_jws := t |} = Some (b "hash") /\
  c_storage srv0 now (b "alice") {| r_col_exp := 9999; r_jws := t |} = None.
Proof. vm_compute. split; reflexivity. Qed.

(* GetSigned through either arm of its select, whatever the other store holds: a served record
   sits in the slot of the store that answered, with an expiration column in the future, is
   genuine, of kind storage_data, names this server, lies inside its signed window, and was
   signed FOR THE REQUESTED USER *)
Lemma get_signed_via_sound p st now u prim cache d : get_signed_via p st now u prim cache = Some d ->
  exists r, answering_row p prim cache = Some r /\ unix now < r_col_exp r /\
    genuine st (r_jws r) /\ names_server st (t_claims (r_jws r)) /\
    rd_str "token_type" (t_claims (r_jws r)) = Some k_storage /\
    (exists nbf, rd_int "nbf" (t_claims (r_jws r)) = Some nbf /\ nbf <= unix now) /\
    (exists e, rd_int "exp" (t_claims (r_jws r)) = Some e /\ unix now <= e) /\
    rd_str "sub" (t_claims (r_jws r)) = Some u /\ rd_str "data" (t_claims (r_jws r)) = Some d.
Proof.
  unfold get_signed_via. destruct (answering_row p prim cache) as [r|]; [|discriminate].
  intro H. apply c_storage_sound in H. destruct H as [C [g [SD [SU DA]]]].
  apply storage_data_sound in SD. destruct SD as [G [NS [K [N [X [XE [S D]]]]]]].
  exists r. split; [reflexivity|]. split; [exact C|]. split; [exact G|]. split; [exact NS|]. split; [exact K|].
  split; [exact N|]. split; [exists (g_exp g); split; assumption|]. subst u d. split; assumption.
Qed.

(* the arm that answers decides alone: the other store's content is irrelevant *)
Lemma get_signed_via_other p st now u r x y :
  get_signed_via p st now u (match p with PPrimary => r | PCache => x end) (match p with PPrimary => x | PCache => r end) =
  get_signed_via p st now u (match p with PPrimary => r | PCache => y end) (match p with PPrimary => y | PCache => r end).
Proof. destruct p; reflexivity. Qed.

(* a cache arm that skips the subject comparison serves bob's genuine record, moved into alice's
   row of the cache, as alice's; the code refuses it on both arms *)
Lemma cache_arm_without_subject_refuted :
  let now := 2000 * NS in
  let t := p_storage srv0 (1000 * NS) (b "bob") 1 (b "bobs-hash") 5000 in
  let moved := Some {| r_col_exp := 5000; r_jws := t |} in
  c_storage_nosub srv0 now (b "alice") {| r_col_exp := 5000; r_jws := t |} = Some (b "bobs-hash") /\
  get_signed_via PCache srv0 now (b "alice") None moved = None /\
  get_signed_via PPrimary srv0 now (b "alice") moved None = None /\
  get_signed_via PCache srv0 now (b "bob") None moved = Some (b "bobs-hash").
Proof. vm_compute. repeat split; reflexivity. Qed.

(* what the storage consumer does NOT bind: the signed data_type.  Two records that differ only in
   their data_type get the same verdict, whatever slot they sit in (GetSigned(user, type) selects
   the row by the unsigned type column and never compares it with the signed claim). *)
Lemma storage_data_type_unbound st now issue user dt dt' data exp col :
  c_storage st now user {| r_col_exp := col; r_jws := p_storage st issue user dt data exp |} =
  c_storage st now user {| r_col_exp := col; r_jws := p_storage st issue user dt' data exp |}.
Proof.
  unfold c_storage, storage_data, p_storage. cbn [r_col_exp r_jws].
  destruct (col >? unix now); [|reflexivity].
  unfold sign, verify. cbn [t_signer t_alg t_tampered t_claims].
  destruct (trusted_key st (s_signer st) && allowed_alg st (s_signer_alg st) && negb false); [|reflexivity].
  rewrite !dec_enc_storage. cbn [bind g_iss g_aud g_token_type g_nbf g_exp g_sub g_data].
  destruct (std_ok st now (s_issuer st) [s_issuer st] k_storage k_storage (unix issue) && negb (exp <? unix now)); reflexivity.
Qed.
