(* C16 — a one-time value is not honoured again AFTER an overlapping pair of requests has been answered.
   Pools of three requests: request 0 (writes the place the one-time value lives in) overlaps with
   request 1 (presents the value) under ALL schedules at single-action granularity; request 2 — the same
   presentation again — starts when both have been answered.  Phase 1 is the closed-reachable-set argument
   of ConcExplore.v with thread 2 never scheduled; phase 2 is checked on every reachable world. *)
From Coq Require Import Lia.
From KM Require Import Base.Bytes Model.Conc Proofs.Conc Proofs.ConcExplore.
Open Scope N_scope.

(* ------------------------------------------------------------------ schedules over the first n requests *)
Section ClosureLt.
  Variable stepf : world -> nat -> world.
  Variable n : nat.
  Variable S : list world.
  Variable w0 : world.
  Hypothesis closed : forall k i, (k < length S)%nat -> (i < n)%nat -> In (stepf (nth k S w0) i) S.

  Lemma closed_run_lt sched : Forall (fun i => (i < n)%nat) sched -> forall w, In w S -> In (fold_left stepf sched w) S.
  Proof.
    induction sched as [|i r IH]; intros HF w Hw; simpl; [exact Hw|].
    inversion HF as [|? ? Hi Hr]; subst. apply IH; [exact Hr|].
    destruct (In_nth S w w0 Hw) as [k [Hk E]]. rewrite <- E. apply closed; assumption.
  Qed.
End ClosureLt.

(* ------------------------------------------------------------------ a request that cannot move *)
Definition stuck_at (w : world) (i : nat) : bool :=
  match nth_error (threads w) i with
  | None => true
  | Some t => match prog t with
              | [] => true
              | Lock l :: _ => is_some (owner_of l (owner w))
              | _ => false
              end
  end.

Lemma stuck_step w i : stuck_at w i = true -> step w i = w.
Proof.
  unfold stuck_at, step. destruct (nth_error (threads w) i) as [t|]; [|reflexivity].
  destruct (prog t) as [|a r]; [reflexivity|].
  destruct a; try discriminate. destruct (owner_of l (owner w)); [reflexivity|discriminate].
Qed.

Lemma stuck_run w i n : stuck_at w i = true -> run w (repeat i n) = w.
Proof. intros H. induction n as [|n IH]; simpl; [reflexivity|]. rewrite (stuck_step w i H). exact IH. Qed.

Lemma run_repeat_add w i a b : run w (repeat i (a + b)) = run (run w (repeat i a)) (repeat i b).
Proof. rewrite repeat_app. apply run_app. Qed.

(* `ok` holds however many steps request r is given from w: checked for 0..K steps, after K steps r cannot move *)
Definition later_ok (ok : world -> bool) (r K : nat) (w : world) : bool :=
  forallb (fun n => ok (run w (repeat r n))) (seq 0 (S K)) && stuck_at (run w (repeat r K)) r.

Lemma later_ok_sound ok r K w : later_ok ok r K w = true -> forall n, ok (run w (repeat r n)) = true.
Proof.
  intros H n. unfold later_ok in H. apply andb_true_iff in H. destruct H as [HA HS].
  rewrite forallb_forall in HA.
  destruct (Nat.le_gt_cases n K) as [L|G].
  - apply HA. apply in_seq. lia.
  - replace n with (K + (n - K))%nat by lia. rewrite run_repeat_add, (stuck_run _ _ _ HS).
    apply HA. apply in_seq. lia.
Qed.

(* the two presentations (requests 1 and 2) are not both honoured *)
Definition once12 (w : world) : bool := negb (oN_eq (resp_at w 1) (Some 200) && oN_eq (resp_at w 2) (Some 200)).

Lemma once12_sound w : once12 w = true -> ~ (resp_at w 1 = Some 200 /\ resp_at w 2 = Some 200).
Proof. unfold once12. intros H [A B]. rewrite A, B in H. discriminate. Qed.

Definition replay_ok (K : nat) (w : world) : bool :=
  if answered w 0 && answered w 1 then later_ok once12 2 K w else true.

Lemma no_replay_of_closed (stepf : world -> nat -> world) (S : list world) (w0 : world) (K : nat) :
  (forall k i, (k < length S)%nat -> (i < 2)%nat -> In (stepf (nth k S w0) i) S) ->
  In w0 S -> forallb (replay_ok K) S = true ->
  forall s1 n, Forall (fun i => (i < 2)%nat) s1 ->
  let w1 := fold_left stepf s1 w0 in
  answered w1 0 = true -> answered w1 1 = true ->
  let w2 := run w1 (repeat 2%nat n) in
  ~ (resp_at w2 1 = Some 200 /\ resp_at w2 2 = Some 200).
Proof.
  intros Hc H0 Hall s1 n Hs w1 A0 A1 w2.
  assert (Hin : In w1 S) by (apply (closed_run_lt stepf 2 S w0 Hc s1 Hs), H0).
  rewrite forallb_forall in Hall. specialize (Hall w1 Hin).
  unfold replay_ok in Hall. rewrite A0, A1 in Hall. simpl in Hall.
  apply once12_sound. apply (later_ok_sound once12 2 K w1 Hall).
Qed.

Tactic Notation "close_pool" integer(N) :=
  let Hk := fresh "Hk" in let Hi := fresh "Hi" in
  intros Hk Hi;
  match goal with
  | |- In (_ (nth ?k _ _) ?i) _ =>
      destruct i as [|[|i]]; [| |exfalso; lia];
      (do N (destruct k as [|k]; [close_one|]); vm_compute in Hk; exfalso; lia)
  end.

(* ------------------------------------------------------------------ (8) U2F: sign request || sign response, then the answer again *)
Definition rp_w0 : world :=
  init_world ex_db [(M_localAuth, 1, 3)] [handler (HU2fSignReq 1 4); handler (HU2fSignResp 1 3); handler (HU2fSignResp 1 3)].
Definition rp_S : list world := Eval vm_compute in explore step 2 5000 [rp_w0] [].

Lemma rp_closed k i : (k < length rp_S)%nat -> (i < 2)%nat -> In (step (nth k rp_S rp_w0) i) rp_S.
Proof. close_pool 86. Qed.

Theorem u2f_no_replay_after_overlap s1 n :
  Forall (fun i => (i < 2)%nat) s1 ->
  let w1 := run rp_w0 s1 in
  answered w1 0 = true -> answered w1 1 = true ->
  let w2 := run w1 (repeat 2%nat n) in
  ~ (resp_at w2 1 = Some 200 /\ resp_at w2 2 = Some 200).
Proof.
  apply (no_replay_of_closed step rp_S rp_w0 12 rp_closed); [left; reflexivity|vm_compute; reflexivity].
Qed.

(* the same at the granularity of the schedules the harness replays (one entry = from one parking point to the next) *)
Definition rp_Sg : list world := Eval vm_compute in explore seg 2 5000 [start rp_w0] [].

Lemma rp_closed_seg k i : (k < length rp_Sg)%nat -> (i < 2)%nat -> In (seg (nth k rp_Sg (start rp_w0)) i) rp_Sg.
Proof. close_pool 14. Qed.

Theorem u2f_no_replay_after_overlap_seg s1 n :
  Forall (fun i => (i < 2)%nat) s1 ->
  let w1 := run_seg rp_w0 s1 in
  answered w1 0 = true -> answered w1 1 = true ->
  let w2 := run w1 (repeat 2%nat n) in
  ~ (resp_at w2 1 = Some 200 /\ resp_at w2 2 = Some 200).
Proof.
  apply (no_replay_of_closed seg rp_Sg (start rp_w0) 12 rp_closed_seg); [left; reflexivity|vm_compute; reflexivity].
Qed.

(* a schedule of the harness that ends with entries of request 2 only: those entries are steps of request 2 *)
Lemma seg_is_run_rep w i : exists k, seg w i = run w (repeat i (S k)).
Proof.
  unfold seg. destruct (burst_is_run (fuel_of (step w i) i) (step w i) i) as [k Hk].
  exists k. simpl. exact Hk.
Qed.

Lemma segs_rep i k : forall w, exists n, fold_left seg (repeat i k) w = run w (repeat i n).
Proof.
  induction k as [|k IH]; intros w; simpl; [exists 0%nat; reflexivity|].
  destruct (seg_is_run_rep w i) as [a Ha]. destruct (IH (seg w i)) as [n Hn].
  exists (S a + n)%nat. rewrite Hn, Ha. symmetry. apply run_repeat_add.
Qed.

Theorem u2f_no_replay_replayed_schedule s1 k :
  Forall (fun i => (i < 2)%nat) s1 ->
  let w1 := run_seg rp_w0 s1 in
  answered w1 0 = true -> answered w1 1 = true ->
  let w2 := run_seg rp_w0 (s1 ++ repeat 2%nat k) in
  ~ (resp_at w2 1 = Some 200 /\ resp_at w2 2 = Some 200).
Proof.
  intros Hs w1 A0 A1 w2. unfold w2, run_seg. rewrite fold_left_app.
  destruct (segs_rep 2 k (fold_left seg s1 (start rp_w0))) as [n E]. rewrite E.
  apply (u2f_no_replay_after_overlap_seg s1 n Hs A0 A1).
Qed.

(* non-vacuity: the overlapping pair can both be answered 200, the replay is then refused; and a
   presentation after the pair IS honoured when the first one was not made with that answer *)
Example rp_pair_both_200 :
  let w1 := run rp_w0 [1; 1; 1; 1; 1; 0; 0; 0; 0; 0; 0; 1; 1; 1; 1; 1; 1]%nat in
  answered w1 0 = true /\ answered w1 1 = true /\
  map resp (threads (run w1 (repeat 2%nat 11))) = [Some 200; Some 200; Some 400].
Proof. vm_compute. repeat split; reflexivity. Qed.

(* ------------------------------------------------------------------ the re-issuing sign request (NOT the code) *)
Definition ri_w0 : world :=
  init_world ex_db [(M_localAuth, 1, 3)] [u2f_signreq_reissue 1 4; handler (HU2fSignResp 1 3); handler (HU2fSignResp 1 3)].

Lemma reissue_disciplined u chal : disciplined (u2f_signreq_reissue u chal) = true.
Proof. reflexivity. Qed.

Lemma reissue_replay :
  (exists s1 n, Forall (fun i => (i < 2)%nat) s1 /\
     let w1 := run ri_w0 s1 in
     answered w1 0 = true /\ answered w1 1 = true /\ resp_at w1 2 = None /\
     let w2 := run w1 (repeat 2%nat n) in
     resp_at w2 1 = Some 200 /\ resp_at w2 2 = Some 200) /\
  (exists s1 s2, Forall (fun i => (i < 2)%nat) s1 /\ Forall (fun i => i = 2%nat) s2 /\
     let w1 := run_seg ri_w0 s1 in
     answered w1 0 = true /\ answered w1 1 = true /\ resp_at w1 2 = None /\
     let w2 := fold_left seg s2 w1 in
     resp_at w2 1 = Some 200 /\ resp_at w2 2 = Some 200) /\
  forallb (fun o => let '(r, _, _) := o in negb (oN_eq (nth 1 r None) (Some 200) && oN_eq (nth 2 r None) (Some 200)))
          (serial_outcomes [1; 2] ri_w0) = true.
Proof.
  split; [|split].
  - exists [0; 0; 0; 0; 0; 1; 1; 1; 1; 1; 1; 1; 1; 1; 1; 1; 0; 0; 0; 0]%nat, 11%nat.
    split; [repeat constructor|]. vm_compute. repeat split; reflexivity.
  - exists [0; 0; 1; 1; 1; 0]%nat, [2; 2; 2]%nat.
    split; [repeat constructor|]. split; [repeat constructor|]. vm_compute. repeat split; reflexivity.
  - vm_compute. reflexivity.
Qed.

(* ... while at storage-operation granularity (no pre-emption between the two critical sections: there is no
   storage operation between lookup and store) the re-issuing variant cannot be told from the code *)
Definition ri_Ss : list world := Eval vm_compute in explore sseg 2 5000 [sstart ri_w0] [].

Lemma ri_closed_sseg k i : (k < length ri_Ss)%nat -> (i < 2)%nat -> In (sseg (nth k ri_Ss (sstart ri_w0)) i) ri_Ss.
Proof. close_pool 5. Qed.

Theorem reissue_invisible_at_storage_granularity s1 n :
  Forall (fun i => (i < 2)%nat) s1 ->
  let w1 := run_sseg ri_w0 s1 in
  answered w1 0 = true -> answered w1 1 = true ->
  let w2 := run w1 (repeat 2%nat n) in
  ~ (resp_at w2 1 = Some 200 /\ resp_at w2 2 = Some 200).
Proof.
  apply (no_replay_of_closed sseg ri_Ss (sstart ri_w0) 12 ri_closed_sseg); [left; reflexivity|vm_compute; reflexivity].
Qed.

(* ------------------------------------------------------------------ (9) the other one-time values *)
(* bootstrap OTP: a new OTP is generated for the user while the old one is presented; then the old one again *)
Definition bo_w0 : world :=
  init_world ex_db [] [handler (HGenBoot 2 9); handler (HBootAuth 2 7); handler (HBootAuth 2 7)].
Definition bo_S : list world := Eval vm_compute in explore step 2 5000 [bo_w0] [].

Lemma bo_closed k i : (k < length bo_S)%nat -> (i < 2)%nat -> In (step (nth k bo_S bo_w0) i) bo_S.
Proof. close_pool 56. Qed.

Theorem boot_no_replay_after_overlap s1 n :
  Forall (fun i => (i < 2)%nat) s1 ->
  let w1 := run bo_w0 s1 in
  answered w1 0 = true -> answered w1 1 = true ->
  let w2 := run w1 (repeat 2%nat n) in
  ~ (resp_at w2 1 = Some 200 /\ resp_at w2 2 = Some 200).
Proof.
  apply (no_replay_of_closed step bo_S bo_w0 6 bo_closed); [left; reflexivity|vm_compute; reflexivity].
Qed.

(* OAuth2 state parameter: another login is parked while the callback of the pending one runs; then the callback again *)
Definition oa_w0 : world :=
  init_world [] [(M_pendingOauth2, 9, 5)] [handler (HOauthBegin 8 6); handler (HOauthCallback 9 5); handler (HOauthCallback 9 5)].
Definition oa_S : list world := Eval vm_compute in explore step 2 5000 [oa_w0] [].

Lemma oa_closed k i : (k < length oa_S)%nat -> (i < 2)%nat -> In (step (nth k oa_S oa_w0) i) oa_S.
Proof. close_pool 42. Qed.

Theorem oauth_no_replay_after_overlap s1 n :
  Forall (fun i => (i < 2)%nat) s1 ->
  let w1 := run oa_w0 s1 in
  answered w1 0 = true -> answered w1 1 = true ->
  let w2 := run w1 (repeat 2%nat n) in
  ~ (resp_at w2 1 = Some 200 /\ resp_at w2 2 = Some 200).
Proof.
  apply (no_replay_of_closed step oa_S oa_w0 10 oa_closed); [left; reflexivity|vm_compute; reflexivity].
Qed.

Example bo_first_honoured :
  map resp (threads (run bo_w0 [1; 1; 1; 0; 0; 0; 0; 0; 1; 1; 2; 2; 2; 2; 2]%nat)) = [Some 200; Some 200; Some 412].
Proof. vm_compute. reflexivity. Qed.
Example oa_first_honoured :
  map resp (threads (run oa_w0 ([1; 1; 1; 0; 0; 0; 0; 1; 1; 1; 1; 1; 1] ++ repeat 2 9)%nat)) = [Some 200; Some 200; Some 400].
Proof. vm_compute. reflexivity. Qed.
