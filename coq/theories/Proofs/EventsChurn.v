(* C20 — proofs about Model/EventsChurn.v *)
From KM Require Import Base.Bytes Base.Tactics Model.Events Proofs.Events Model.EventsChurn.
Open Scope nat_scope.

(* what the invariant needs to know of a connection: key, connected, channel open *)
Definition meta (c : kconn) : nat * bool * bool := (kc_key c, kc_on c, live (kc_ch c)).

Lemma map_meta_update f : (forall c, meta (f c) = meta c) ->
  forall i l, map meta (update_nth i f l) = map meta l.
Proof.
  intros F i l. revert i. induction l as [|x r IH]; intros [|i]; simpl; try reflexivity.
  - rewrite F. reflexivity.
  - rewrite IH. reflexivity.
Qed.

Lemma meta_send e c : meta (send_conn e c) = meta c.
Proof.
  unfold meta, send_conn, try_send. simpl.
  destruct (negb (live (kc_ch c))); [reflexivity|]. destruct (_ <? _); reflexivity.
Qed.
Lemma meta_recv c : meta (recv_conn c) = meta c.
Proof. unfold meta, recv_conn, recv_chan. simpl. destruct (buf (kc_ch c)); reflexivity. Qed.

Definition fan (e : event) (cs : list kconn) (kv : nat * nat) : list kconn :=
  update_nth (snd kv) (send_conn e) cs.

Lemma map_meta_fold e tab : forall cs,
  map meta (fold_left (fan e) tab cs) = map meta cs.
Proof.
  induction tab as [|kv r IH]; intro cs; [reflexivity|]. simpl. rewrite IH.
  apply map_meta_update, meta_send.
Qed.

Lemma kpublish_fan e st : kpublish e st = mkK (fold_left (fan e) (k_tab st) (k_conns st)) (k_tab st).
Proof. reflexivity. Qed.

(* the fan-out reaches exactly the connections the table points to *)
Lemma fold_send_notin e tab : forall cs i, ~ In i (map snd tab) ->
  nth_error (fold_left (fan e) tab cs) i = nth_error cs i.
Proof.
  induction tab as [|[k j] r IH]; intros cs i N; [reflexivity|]. simpl in *.
  rewrite IH by tauto. unfold fan. simpl. rewrite nth_error_update_nth.
  destruct (Nat.eqb i j) eqn:E; [|reflexivity]. apply Nat.eqb_eq in E. subst. tauto.
Qed.

Lemma fold_send_in e tab : forall cs i c, NoDup (map snd tab) -> In i (map snd tab) ->
  nth_error cs i = Some c ->
  nth_error (fold_left (fan e) tab cs) i = Some (send_conn e c).
Proof.
  induction tab as [|[k j] r IH]; intros cs i c D I H; [destruct I|]. simpl in *.
  inversion D as [|x l Nj Dr]; subst. destruct (Nat.eq_dec j i) as [->|Ne].
  - rewrite fold_send_notin by exact Nj. unfold fan. simpl. rewrite nth_error_update_nth, Nat.eqb_refl, H. reflexivity.
  - destruct I as [I|I]; [congruence|]. apply IH; [exact Dr|exact I|].
    unfold fan. simpl. rewrite nth_error_update_nth. destruct (Nat.eqb i j) eqn:E; [apply Nat.eqb_eq in E; congruence|exact H].
Qed.

(* reachable states of the code's table (key = the connection's own channel) *)
Definition kinv (st : kstate) : Prop :=
  (forall k i, In (k, i) (k_tab st) -> k = i /\ nth_error (map meta (k_conns st)) i = Some (i, true, true)) /\
  (forall i k lv, nth_error (map meta (k_conns st)) i = Some (k, true, lv) -> In (i, i) (k_tab st)) /\
  NoDup (map snd (k_tab st)).

Lemma kinv_init : kinv k_init.
Proof.
  split; [intros k i []|]. split; [intros [|i] k lv H; discriminate|constructor].
Qed.

Lemma tab_del_in key tab k i : In (k, i) (tab_del key tab) <-> In (k, i) tab /\ k <> key.
Proof.
  unfold tab_del. rewrite filter_In. simpl. rewrite negb_true_iff, Nat.eqb_neq. tauto.
Qed.

Lemma tab_del_absent key tab : (forall k i, In (k, i) tab -> k <> key) -> tab_del key tab = tab.
Proof.
  intro H. unfold tab_del. induction tab as [|[k i] r IH]; [reflexivity|]. simpl.
  assert (K : k <> key) by (apply (H k i); left; reflexivity).
  apply Nat.eqb_neq in K. rewrite K. simpl. rewrite IH; [reflexivity|].
  intros k' i' I. apply (H k' i'). right. exact I.
Qed.

Lemma NoDup_snd_filter (f : nat * nat -> bool) tab : NoDup (map snd tab) -> NoDup (map snd (filter f tab)).
Proof.
  induction tab as [|kv r IH]; intro D; [constructor|]. simpl in *. inversion D as [|x l N Dr]; subst.
  destruct (f kv); [|apply IH, Dr]. simpl. constructor; [|apply IH, Dr].
  intro I. apply N. apply in_map_iff in I. destruct I as (y & E & I). apply filter_In in I.
  apply in_map_iff. exists y. tauto.
Qed.

Lemma NoDup_snoc {A} (l : list A) x : NoDup l -> ~ In x l -> NoDup (l ++ [x]).
Proof.
  induction l as [|y r IH]; simpl; intros D N; [constructor; [intros []|constructor]|].
  inversion D as [|z l' Ny Dr]; subst. constructor.
  - intro I. apply in_app_iff in I. destruct I as [I|[I|[]]]; [tauto|subst; apply N; left; reflexivity].
  - apply IH; [exact Dr|tauto].
Qed.

Lemma nth_error_map_length {A B} (f : A -> B) l i x : nth_error (map f l) i = Some x -> i < length l.
Proof. intro H. rewrite <- (map_length f l). apply nth_error_Some. congruence. Qed.

Lemma kinv_step st o : kinv st -> kinv (kstep kalloc_chan st o).
Proof.
  intros (K1 & K2 & K3). destruct o as [e|i|cap|i]; simpl.
  - change (kinv (kpublish e st)). rewrite kpublish_fan. unfold kinv. cbn [k_conns k_tab]. rewrite map_meta_fold. auto.
  - unfold kinv. simpl. rewrite (map_meta_update recv_conn meta_recv). auto.
  - unfold kalloc_chan. set (n := length (k_conns st)).
    assert (Fresh : forall k i, In (k, i) (k_tab st) -> k <> n /\ i <> n).
    { intros k i I. destruct (K1 k i I) as [-> H]. apply nth_error_map_length in H. unfold n. lia. }
    unfold tab_set. rewrite tab_del_absent by (intros k i I; apply (Fresh k i I)).
    unfold kinv. simpl. rewrite map_app. simpl. unfold meta at 2. simpl.
    assert (L : length (map meta (k_conns st)) = n) by apply map_length.
    split; [|split].
    + intros k i I. apply in_app_iff in I. destruct I as [I|[I|[]]].
      * destruct (K1 k i I) as [-> H]. split; [reflexivity|]. rewrite nth_error_app1; [exact H|].
        rewrite L. apply (nth_error_map_length _ _ _ _ H).
      * inversion I; subst. split; [reflexivity|]. rewrite nth_error_app2 by lia. rewrite L, Nat.sub_diag. reflexivity.
    + intros i k lv H. apply in_app_iff. destruct (Nat.lt_ge_cases i n) as [Lt|Ge].
      * left. rewrite nth_error_app1 in H by lia. apply (K2 i k lv H).
      * right. rewrite nth_error_app2 in H by lia. rewrite L in H.
        destruct (i - n) as [|d] eqn:E; [|destruct d; discriminate].
        assert (i = n) by lia. subst. left. reflexivity.
    + rewrite map_app. simpl. apply NoDup_snoc; [exact K3|].
      intros I. apply in_map_iff in I. destruct I as ([k i] & E & I). simpl in E. subst.
      apply (Fresh k n I). reflexivity.
  - destruct (nth_error (k_conns st) i) as [c|] eqn:H; [|exact (conj K1 (conj K2 K3))].
    destruct (kc_on c) eqn:On; [|exact (conj K1 (conj K2 K3))].
    assert (Hm : nth_error (map meta (k_conns st)) i = Some (kc_key c, true, live (kc_ch c))).
    { rewrite nth_error_map, H. simpl. unfold meta. rewrite On. reflexivity. }
    assert (Key : kc_key c = i).
    { pose proof (K2 i _ _ Hm) as I. destruct (K1 i i I) as [_ H']. rewrite H' in Hm. congruence. }
    unfold kinv. simpl. rewrite Key. split; [|split].
    + intros k j I. apply tab_del_in in I. destruct I as [I Ne]. destruct (K1 k j I) as [-> Hj].
      split; [reflexivity|]. rewrite nth_error_map, nth_error_update_nth.
      destruct (Nat.eqb j i) eqn:E; [apply Nat.eqb_eq in E; congruence|]. rewrite <- nth_error_map. exact Hj.
    + intros j k lv Hj. rewrite nth_error_map, nth_error_update_nth in Hj.
      destruct (Nat.eqb j i) eqn:E.
      * apply Nat.eqb_eq in E. subst j. rewrite H in Hj. simpl in Hj. discriminate.
      * rewrite <- nth_error_map in Hj. apply tab_del_in. split; [apply (K2 j k lv Hj)|].
        apply Nat.eqb_neq in E. exact E.
    + apply NoDup_snd_filter, K3.
Qed.

Lemma kinv_run ops : forall st, kinv st -> kinv (krun kalloc_chan ops st).
Proof. induction ops as [|o r IH]; intros st I; [exact I|]. simpl. apply IH, kinv_step, I. Qed.

(* in a reachable state the fan-out reaches every connected connection, once, and no other *)
Lemma publish_reaches st e i c : kinv st -> nth_error (k_conns st) i = Some c ->
  (kc_on c = true -> live (kc_ch c) = true /\ nth_error (k_conns (kpublish e st)) i = Some (send_conn e c)) /\
  (kc_on c = false -> nth_error (k_conns (kpublish e st)) i = Some c).
Proof.
  intros (K1 & K2 & K3) H. rewrite kpublish_fan. cbn [k_conns]. split; intro On.
  - assert (Hm : nth_error (map meta (k_conns st)) i = Some (kc_key c, true, live (kc_ch c))).
    { rewrite nth_error_map, H. simpl. unfold meta. rewrite On. reflexivity. }
    pose proof (K2 i _ _ Hm) as I. destruct (K1 i i I) as [_ H']. rewrite H' in Hm.
    split; [congruence|]. apply fold_send_in; [exact K3| |exact H].
    apply in_map_iff. exists (i, i). split; [reflexivity|exact I].
  - rewrite fold_send_notin; [exact H|]. intro I. apply in_map_iff in I. destruct I as ([k j] & E & I).
    simpl in E. subst j. destruct (K1 k i I) as [_ Hm]. rewrite nth_error_map, H in Hm. simpl in Hm.
    unfold meta in Hm. rewrite On in Hm. discriminate.
Qed.

(* after ANY history of connects, disconnects, publishes and reads: a connection that is connected
   and has a free slot is handed the next published event, as the newest of its queue; one that has
   left is handed nothing *)
Lemma churn_delivered ops i c e :
  let st := krun kalloc_chan ops k_init in
  nth_error (k_conns st) i = Some c ->
  (kc_on c = true -> length (buf (kc_ch c)) < cap (kc_ch c) ->
     exists c', nth_error (k_conns (kstep kalloc_chan st (KPub e))) i = Some c' /\ kc_on c' = true /\
                buf (kc_ch c') = buf (kc_ch c) ++ [e] /\ got (kc_ch c') = got (kc_ch c)) /\
  (kc_on c = false -> nth_error (k_conns (kstep kalloc_chan st (KPub e))) i = Some c).
Proof.
  intros st H. assert (I : kinv st) by (apply kinv_run, kinv_init).
  destruct (publish_reaches st e i c I H) as [A B]. split.
  - intros On F. destruct (A On) as [L N]. exists (send_conn e c). split; [exact N|].
    unfold send_conn. simpl. rewrite (try_send_free e _ L F). simpl. auto.
  - exact B.
Qed.

(* a table keyed by its own size + 1: after one departure the next arrival takes the key of a
   connection that is still there, which is then connected, has an empty queue, and is handed nothing *)
Definition ex_churn : list kop := [KConn 16; KConn 16; KDisc 0; KConn 16].
Lemma count_keyed_loses :
  let st := krun kalloc_count ex_churn k_init in
  exists c, nth_error (k_conns st) 1 = Some c /\ kc_on c = true /\ buf (kc_ch c) = [] /\
    forall e, nth_error (k_conns (kstep kalloc_count st (KPub e))) 1 = Some c.
Proof. vm_compute. eexists. repeat split. Qed.
