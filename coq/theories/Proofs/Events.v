(* C20 — proofs about Model/Events.v *)
From Coq Require Import String.
From KM Require Import Base.Bytes Base.Tactics Model.Events.
Open Scope nat_scope.

(* ================================================================== notifier *)

Inductive sublist {A} : list A -> list A -> Prop :=
| sl_nil : sublist [] []
| sl_skip x l1 l2 : sublist l1 l2 -> sublist l1 (x :: l2)
| sl_keep x l1 l2 : sublist l1 l2 -> sublist (x :: l1) (x :: l2).

Lemma sublist_refl {A} (l : list A) : sublist l l.
Proof. induction l; [constructor|apply sl_keep; auto]. Qed.

Lemma sublist_nil_l {A} (l : list A) : sublist [] l.
Proof. induction l; constructor; auto. Qed.

Lemma sublist_app {A} (a b c d : list A) : sublist a b -> sublist c d -> sublist (a ++ c) (b ++ d).
Proof. induction 1; intro Hcd; simpl; [exact Hcd|apply sl_skip; auto|apply sl_keep; auto]. Qed.

Lemma sublist_in {A} (a b : list A) x : sublist a b -> In x a -> In x b.
Proof. induction 1; simpl; intuition. Qed.

Lemma try_send_not_blocked e c : fst (try_send e c) <> Blocked.
Proof. unfold try_send. destruct (negb (live c)); [discriminate|]. destruct (_ <? _); discriminate. Qed.

Lemma publish_length e s :
  length (fst (publish e s)) = length s /\ length (snd (publish e s)) = length s.
Proof.
  unfold publish. induction s as [|c r IH]; simpl; [auto|].
  destruct (try_send e c) as [o c']. destruct (publish_with try_send e r) as [os r'].
  simpl in *. destruct IH; split; congruence.
Qed.

Lemma publish_never_blocks e s : Forall (fun o => o <> Blocked) (fst (publish e s)).
Proof.
  unfold publish. induction s as [|c r IH]; simpl; [constructor|].
  pose proof (try_send_not_blocked e c) as H.
  destruct (try_send e c) as [o c']. destruct (publish_with try_send e r) as [os r'].
  simpl in *. constructor; auto.
Qed.

Lemma publish_cost_length e s : publish_cost e s = length s.
Proof. unfold publish_cost. apply publish_length. Qed.

Lemma publish_nth e s : forall i c, nth_error s i = Some c ->
  nth_error (snd (publish e s)) i = Some (snd (try_send e c)).
Proof.
  unfold publish. induction s as [|c0 r IH]; intros i c H; [destruct i; discriminate|].
  simpl. destruct (try_send e c0) as [o c'] eqn:E. destruct (publish_with try_send e r) as [os r'] eqn:P.
  destruct i as [|i]; simpl in *.
  - inversion H; subst. rewrite E. reflexivity.
  - exact (IH i c H).
Qed.

Lemma try_send_free e c : live c = true -> length (buf c) < cap c ->
  try_send e c = (Delivered, mkChan (cap c) (live c) (buf c ++ [e]) (got c)).
Proof.
  intros L F. unfold try_send. rewrite L. simpl.
  destruct (length (buf c) <? cap c) eqn:E; [reflexivity|]. apply Nat.ltb_ge in E. lia.
Qed.

Lemma try_send_full e c : cap c <= length (buf c) -> snd (try_send e c) = c.
Proof.
  intros F. unfold try_send. destruct (negb (live c)); [reflexivity|].
  destruct (length (buf c) <? cap c) eqn:E; [|reflexivity]. apply Nat.ltb_lt in E. lia.
Qed.

(* what one send does to one subscriber, whatever its state *)
Lemma try_send_cases e c :
  let c' := snd (try_send e c) in
  cap c' = cap c /\ live c' = live c /\ got c' = got c /\
  ((buf c' = buf c ++ [e] /\ live c = true /\ length (buf c) < cap c) \/
   (c' = c /\ (live c = false \/ cap c <= length (buf c)))).
Proof.
  unfold try_send. destruct (live c) eqn:L; simpl.
  - destruct (length (buf c) <? cap c) eqn:E; simpl.
    + apply Nat.ltb_lt in E. repeat split; auto.
    + apply Nat.ltb_ge in E. repeat split; auto.
  - repeat split; auto.
Qed.

Lemma nth_error_update_nth {A} (f : A -> A) (l : list A) : forall i j,
  nth_error (update_nth j f l) i = if Nat.eqb i j then option_map f (nth_error l i) else nth_error l i.
Proof.
  induction l as [|x r IH]; intros i j.
  - destruct j, i; simpl; try reflexivity; destruct (Nat.eqb _ _); reflexivity.
  - destruct j as [|j], i as [|i]; simpl; try reflexivity. apply IH.
Qed.

Lemma delivered_recv c : delivered (recv_chan c) = delivered c.
Proof.
  unfold recv_chan, delivered. destruct (buf c) as [|e r] eqn:B; [rewrite B; reflexivity|].
  simpl. rewrite <- app_assoc. reflexivity.
Qed.

(* one step seen from subscriber i *)
Lemma nstep_nth s o i c : nth_error s i = Some c ->
  exists c1, nth_error (nstep s o) i = Some c1 /\ cap c1 = cap c /\
    (live c1 = live c \/ o = NUnsub i) /\
    ((delivered c1 = delivered c /\ length (buf c1) <= length (buf c)) \/
     (exists e, o = NPub e /\ delivered c1 = delivered c ++ [e] /\ buf c1 = buf c ++ [e] /\
                live c = true /\ length (buf c) < cap c)) /\
    (forall e, o = NPub e -> live c = true -> length (buf c) < cap c -> buf c1 = buf c ++ [e]).
Proof.
  intros H. destruct o as [e|j|k|j]; simpl.
  - exists (snd (try_send e c)). split; [apply publish_nth; exact H|].
    destruct (try_send_cases e c) as (Hc & Hl & Hg & [(Hb & L & F)|(He & _)]).
    + split; [exact Hc|]. split; [left; exact Hl|]. split.
      * right. exists e. repeat split; auto. unfold delivered. rewrite Hb, Hg, app_assoc. reflexivity.
      * intros e' E _ _. inversion E; subst. exact Hb.
    + split; [exact Hc|]. split; [left; exact Hl|]. split.
      * left. rewrite He. split; auto.
      * intros e' E L F. inversion E; subst. rewrite (try_send_free e' c L F). reflexivity.
  - rewrite nth_error_update_nth. destruct (Nat.eqb i j) eqn:E.
    + rewrite H. simpl. exists (recv_chan c). split; [reflexivity|].
      split; [unfold recv_chan; destruct (buf c); reflexivity|].
      split; [left; unfold recv_chan; destruct (buf c); reflexivity|]. split.
      * left. split; [apply delivered_recv|]. unfold recv_chan. destruct (buf c) eqn:B; simpl; rewrite ?B; simpl; lia.
      * intros e E'. discriminate.
    + exists c. repeat split; auto. intros e E'. discriminate.
  - exists c. split.
    + rewrite nth_error_app1; [exact H|]. apply nth_error_Some. congruence.
    + repeat split; auto. intros e E'. discriminate.
  - rewrite nth_error_update_nth. destruct (Nat.eqb i j) eqn:E.
    + rewrite H. simpl. exists (unsub_chan c). split; [reflexivity|]. split; [reflexivity|].
      split; [right; apply Nat.eqb_eq in E; subst; reflexivity|]. split.
      * left. split; [reflexivity|]. simpl. lia.
      * intros e E'. discriminate.
    + exists c. repeat split; auto. intros e E'. discriminate.
Qed.

(* over any history the stream a subscriber has been handed (read + still buffered) grows by a
   subsequence of the published events, in publication order *)
Lemma nrun_delivered_sublist ops : forall s i c, nth_error s i = Some c ->
  exists c' l, nth_error (nrun ops s) i = Some c' /\ cap c' = cap c /\
               delivered c' = delivered c ++ l /\ sublist l (pubs ops).
Proof.
  induction ops as [|o r IH]; intros s i c H.
  - exists c, []. simpl. rewrite app_nil_r. repeat split; auto. constructor.
  - destruct (nstep_nth s o i c H) as (c1 & H1 & Hc & _ & Hd & _).
    destruct (IH (nstep s o) i c1 H1) as (c' & l & H2 & Hc' & Hd' & Hs).
    destruct Hd as [(Hd & _)|(e & -> & Hd & _)].
    + exists c', l. simpl. repeat split; auto; try congruence.
      destruct o; simpl; try exact Hs. apply sl_skip. exact Hs.
    + exists c', (e :: l). simpl. repeat split; auto; try congruence.
      * rewrite Hd', Hd, <- app_assoc. reflexivity.
      * apply sl_keep. exact Hs.
Qed.

(* a connected subscriber whose channel has room for them receives every published event, in
   publication order, however slowly it reads *)
Lemma nrun_delivered_all ops : forall s i c, nth_error s i = Some c -> live c = true ->
  Forall (fun o => o <> NUnsub i) ops ->
  length (buf c) + length (pubs ops) <= cap c ->
  exists c', nth_error (nrun ops s) i = Some c' /\ delivered c' = delivered c ++ pubs ops.
Proof.
  induction ops as [|o r IH]; intros s i c H L NU F.
  - exists c. simpl. rewrite app_nil_r. auto.
  - inversion NU as [|o' r' NU1 NU2]; subst.
    destruct (nstep_nth s o i c H) as (c1 & H1 & Hc & Hl & Hd & Hfree).
    assert (L1 : live c1 = true) by (destruct Hl as [Hl|Hl]; [congruence|contradiction]).
    destruct o as [e|j|k|j]; simpl in *.
    + assert (Fr : length (buf c) < cap c) by lia.
      specialize (Hfree e eq_refl L Fr).
      destruct Hd as [(Hd & Hb)|(e' & E & Hd & Hb & _)].
      * rewrite Hfree, app_length in Hb. simpl in Hb. lia.
      * inversion E; subst e'.
        destruct (IH _ i c1 H1 L1 NU2) as (c' & H2 & Hd').
        { rewrite Hc, Hb, app_length. simpl. lia. }
        exists c'. split; [exact H2|]. rewrite Hd', Hd, <- app_assoc. reflexivity.
    + destruct Hd as [(Hd & Hb)|(e' & E & _)]; [|discriminate].
      destruct (IH _ i c1 H1 L1 NU2) as (c' & H2 & Hd'); [rewrite Hc; lia|].
      exists c'. split; [exact H2|]. rewrite Hd', Hd. reflexivity.
    + destruct Hd as [(Hd & Hb)|(e' & E & _)]; [|discriminate].
      destruct (IH _ i c1 H1 L1 NU2) as (c' & H2 & Hd'); [rewrite Hc; lia|].
      exists c'. split; [exact H2|]. rewrite Hd', Hd. reflexivity.
    + destruct Hd as [(Hd & Hb)|(e' & E & _)]; [|discriminate].
      destruct (IH _ i c1 H1 L1 NU2) as (c' & H2 & Hd'); [rewrite Hc; lia|].
      exists c'. split; [exact H2|]. rewrite Hd', Hd. reflexivity.
Qed.

(* a reader that lags but whose queue has a free slot at every publish receives every event, in order *)
Lemma nrun_lagging_all ops : forall s i c, nth_error s i = Some c -> live c = true ->
  Forall (fun o => o <> NUnsub i) ops -> never_full i ops s = true ->
  exists c', nth_error (nrun ops s) i = Some c' /\ delivered c' = delivered c ++ pubs ops.
Proof.
  induction ops as [|o r IH]; intros s i c H L NU F.
  - exists c. simpl. rewrite app_nil_r. auto.
  - inversion NU as [|o' r' NU1 NU2]; subst.
    destruct (nstep_nth s o i c H) as (c1 & H1 & Hc & Hl & Hd & Hfree).
    assert (L1 : live c1 = true) by (destruct Hl as [Hl|Hl]; [congruence|contradiction]).
    simpl in F. apply andb_true_iff in F. destruct F as [F0 F].
    destruct (IH _ i c1 H1 L1 NU2 F) as (c' & H2 & Hd').
    destruct o as [e|j|k|j]; simpl in *.
    + rewrite H in F0. apply Nat.ltb_lt in F0.
      specialize (Hfree e eq_refl L F0).
      destruct Hd as [(Hd & Hb)|(e' & E & Hd & Hb & _)].
      * rewrite Hfree, app_length in Hb. simpl in Hb. lia.
      * inversion E; subst e'. exists c'. split; [exact H2|]. rewrite Hd', Hd, <- app_assoc. reflexivity.
    + destruct Hd as [(Hd & Hb)|(e' & E & _)]; [|discriminate].
      exists c'. split; [exact H2|]. rewrite Hd', Hd. reflexivity.
    + destruct Hd as [(Hd & Hb)|(e' & E & _)]; [|discriminate].
      exists c'. split; [exact H2|]. rewrite Hd', Hd. reflexivity.
    + destruct Hd as [(Hd & Hb)|(e' & E & _)]; [|discriminate].
      exists c'. split; [exact H2|]. rewrite Hd', Hd. reflexivity.
Qed.

(* ================================================================== issuing paths *)

Definition no_respond (tr : list effect) : Prop := forall c, ~ In (Respond c) tr.

(* the specification: somewhere in the trace c is signed, later an event carrying exactly c is
   published, later c is written to the response, and nothing is written before that *)
Definition reported (c : bs) (tr : list effect) : Prop :=
  exists ty l1 l2 l3 l4,
    tr = l1 ++ Sign c :: l2 ++ Publish (ECert ty c) :: l3 ++ Respond c :: l4 /\
    no_respond (l1 ++ l2 ++ l3).

Lemma no_respond_nil : no_respond [].
Proof. intros c H. destruct H. Qed.

Lemma no_respond_cons x l : (forall c, x <> Respond c) -> no_respond l -> no_respond (x :: l).
Proof. intros Hx Hl c [E|H]; [eapply Hx; eauto|eapply Hl; eauto]. Qed.

Lemma scan2 c : forall tr, trace_scan c 2 tr = true ->
  exists l3 l4, tr = l3 ++ Respond c :: l4 /\ no_respond l3.
Proof.
  induction tr as [|x r IH]; simpl; intro H; [discriminate|].
  destruct x as [c'|e|c'].
  - simpl in H. destruct (IH H) as (l3 & l4 & -> & N).
    exists (Sign c' :: l3), l4. split; [reflexivity|]. apply no_respond_cons; [discriminate|exact N].
  - assert (H' : trace_scan c 2 r = true) by (destruct e; simpl in H; exact H).
    destruct (IH H') as (l3 & l4 & -> & N).
    exists (Publish e :: l3), l4. split; [reflexivity|]. apply no_respond_cons; [discriminate|exact N].
  - simpl in H. apply bs_eqb_eq in H. subst c'. exists [], r. split; [reflexivity|apply no_respond_nil].
Qed.

Lemma scan1 c : forall tr, trace_scan c 1 tr = true ->
  exists ty l2 l3 l4, tr = l2 ++ Publish (ECert ty c) :: l3 ++ Respond c :: l4 /\ no_respond (l2 ++ l3).
Proof.
  induction tr as [|x r IH]; simpl; intro H; [discriminate|].
  destruct x as [c'|e|c'].
  - simpl in H. destruct (IH H) as (ty & l2 & l3 & l4 & -> & N).
    exists ty, (Sign c' :: l2), l3, l4. split; [reflexivity|]. apply no_respond_cons; [discriminate|exact N].
  - destruct e as [ty d|a u|u|l u].
    + simpl in H. destruct (bs_eqb d c) eqn:E.
      * apply bs_eqb_eq in E. subst d. destruct (scan2 c r H) as (l3 & l4 & -> & N).
        exists ty, [], l3, l4. split; [reflexivity|exact N].
      * destruct (IH H) as (ty' & l2 & l3 & l4 & -> & N).
        exists ty', (Publish (ECert ty d) :: l2), l3, l4. split; [reflexivity|].
        apply no_respond_cons; [discriminate|exact N].
    + destruct (IH H) as (ty' & l2 & l3 & l4 & -> & N).
      exists ty', (Publish (EAuth a u) :: l2), l3, l4. split; [reflexivity|].
      apply no_respond_cons; [discriminate|exact N].
    + destruct (IH H) as (ty' & l2 & l3 & l4 & -> & N).
      exists ty', (Publish (EWebLogin u) :: l2), l3, l4. split; [reflexivity|].
      apply no_respond_cons; [discriminate|exact N].
    + destruct (IH H) as (ty' & l2 & l3 & l4 & -> & N).
      exists ty', (Publish (ESPLogin l u) :: l2), l3, l4. split; [reflexivity|].
      apply no_respond_cons; [discriminate|exact N].
  - simpl in H. discriminate.
Qed.

Lemma trace_ok_reported c tr : trace_ok c tr = true -> reported c tr.
Proof.
  unfold trace_ok. induction tr as [|x r IH]; simpl; intro H; [discriminate|].
  destruct x as [c'|e|c'].
  - simpl in H. destruct (bs_eqb c' c) eqn:E.
    + apply bs_eqb_eq in E. subst c'. destruct (scan1 c r H) as (ty & l2 & l3 & l4 & -> & N).
      exists ty, [], l2, l3, l4. split; [reflexivity|exact N].
    + destruct (IH H) as (ty & l1 & l2 & l3 & l4 & -> & N).
      exists ty, (Sign c' :: l1), l2, l3, l4. split; [reflexivity|].
      apply no_respond_cons; [discriminate|exact N].
  - assert (H' : trace_scan c 0 r = true) by (destruct e; simpl in H; exact H).
    destruct (IH H') as (ty & l1 & l2 & l3 & l4 & -> & N).
    exists ty, (Publish e :: l1), l2, l3, l4. split; [reflexivity|].
    apply no_respond_cons; [discriminate|exact N].
  - simpl in H. discriminate.
Qed.

Lemma issue_trace_ok p c : trace_ok c (issue_effects p c) = true.
Proof. unfold trace_ok, issue_effects. simpl. rewrite !bs_eqb_refl. reflexivity. Qed.

Lemma issue_reported p c : reported c (issue_effects p c).
Proof. apply trace_ok_reported, issue_trace_ok. Qed.

Lemma site_row_reported fn callee class pub :
  site_row_ok (fn, callee, class, pub) = true ->
  class = "ca-init"%string \/ forall ty c, reported c (site_effects ty pub c).
Proof.
  unfold site_row_ok. intro H. apply orb_true_iff in H. destruct H as [H|H].
  - left. apply String.eqb_eq. exact H.
  - right. intros ty c. apply trace_ok_reported. unfold site_effects. rewrite H.
    unfold trace_ok. simpl. rewrite !bs_eqb_refl. reflexivity.
Qed.

(* a trace without any publish reports nothing *)
Lemma reported_needs_publish c tr : reported c tr -> exists ty, In (Publish (ECert ty c)) tr.
Proof.
  intros (ty & l1 & l2 & l3 & l4 & -> & _). exists ty.
  apply in_or_app. right. right. apply in_or_app. right. left. reflexivity.
Qed.

Lemma old_aws_not_reported c : ~ reported c (issue_effects_old PAws c).
Proof.
  intro H. apply reported_needs_publish in H. destruct H as (ty & [H|[H|[]]]); discriminate.
Qed.

(* the other verdicts of the table do not satisfy the specification either *)
Lemma site_other_not_ok ty pub c :
  pub <> "same-bytes-before-response"%string -> trace_ok c (site_effects ty pub c) = false.
Proof.
  intro Hne. unfold site_effects. apply String.eqb_neq in Hne. rewrite Hne.
  destruct (String.eqb pub "after-response"); [unfold trace_ok; simpl; rewrite bs_eqb_refl; reflexivity|].
  destruct (String.eqb pub "other-bytes"); unfold trace_ok; simpl; rewrite bs_eqb_refl; simpl.
  - assert (E : bs_eqb (0%N :: c) c = false).
    { apply bs_eqb_neq. intro E. apply (f_equal (@length BinNums.N)) in E. simpl in E. lia. }
    simpl in E. rewrite E. reflexivity.
  - reflexivity.
Qed.

(* the daemon step for a successful issuance is exactly one publish of the certificate event *)
Lemma dstep_issue s p c :
  dstep s (DIssue p true c) = snd (publish (ECert (cert_type p) c) s).
Proof. reflexivity. Qed.

Lemma dstep_issue_delivers s p c i ch :
  nth_error s i = Some ch -> live ch = true -> length (buf ch) < cap ch ->
  exists ch', nth_error (dstep s (DIssue p true c)) i = Some ch' /\
              buf ch' = buf ch ++ [ECert (cert_type p) c] /\ got ch' = got ch.
Proof.
  intros H L F. rewrite dstep_issue. eexists. split; [apply publish_nth; exact H|].
  rewrite (try_send_free _ ch L F). simpl. auto.
Qed.

(* ================================================================== recorder *)

Open Scope Z_scope.

Lemma fresh_not_old m e : fresh m e = negb (is_old m e).
Proof. unfold fresh, is_old. apply Z.leb_antisym. Qed.

Lemma link_fold m l : forall acc,
  fold_left (link_kept m) l acc = rev (filter (fresh m) l) ++ acc.
Proof.
  induction l as [|e r IH]; intro acc; simpl; [reflexivity|].
  rewrite IH. unfold link_kept. rewrite fresh_not_old. destruct (is_old m e); simpl; [reflexivity|].
  rewrite <- app_assoc. reflexivity.
Qed.

Lemma filter_rev {A} (f : A -> bool) (l : list A) : filter f (rev l) = rev (filter f l).
Proof.
  induction l as [|x r IH]; simpl; [reflexivity|].
  rewrite filter_app, IH. simpl. destruct (f x); simpl; [reflexivity|apply app_nil_r].
Qed.

Lemma load_is_filter m saved : load m saved = filter (fresh m) saved.
Proof. unfold load. rewrite link_fold, app_nil_r, filter_rev, rev_involutive. reflexivity. Qed.

Lemma load_old_is_rev_filter m saved : load_old m saved = rev (filter (fresh m) saved).
Proof. unfold load_old. rewrite link_fold, app_nil_r. reflexivity. Qed.

Lemma roundtrip m l : load m (save l) = filter (fresh m) l.
Proof. apply load_is_filter. Qed.

(* newest first: creation times never increase towards the tail *)
Fixpoint sorted (l : list ev) : Prop :=
  match l with
  | [] => True
  | e :: r => Forall (fun x => ctime x <= ctime e) r /\ sorted r
  end.

(* oldest first *)
Fixpoint ascending (l : list ev) : Prop :=
  match l with
  | [] => True
  | e :: r => Forall (fun x => ctime e <= ctime x) r /\ ascending r
  end.

Lemma ascending_app a b : ascending a -> ascending b ->
  (forall x y, In x a -> In y b -> ctime x <= ctime y) -> ascending (a ++ b).
Proof.
  induction a as [|e r IH]; simpl; intros Ha Hb H; [exact Hb|].
  destruct Ha as [F Ha]. split.
  - apply Forall_app. split; [exact F|]. apply Forall_forall. intros y Hy. apply H; auto.
  - apply IH; auto.
Qed.

Lemma sorted_rev_ascending l : sorted l -> ascending (rev l).
Proof.
  induction l as [|e r IH]; simpl; intro H; [exact I|]. destruct H as [F S].
  apply ascending_app; [apply IH; exact S|simpl; auto|].
  intros x y Hx [<-|[]]. apply in_rev in Hx. rewrite Forall_forall in F. apply F. exact Hx.
Qed.

Lemma filter_all {A} (f : A -> bool) l : (forall x, In x l -> f x = true) -> filter f l = l.
Proof.
  induction l as [|x r IH]; simpl; intro H; [reflexivity|].
  rewrite (H x (or_introl eq_refl)), IH; [reflexivity|]. intros y Hy. apply H. right. exact Hy.
Qed.

Lemma drop_old_ascending m l : ascending l -> drop_old m l = filter (fresh m) l.
Proof.
  induction l as [|e r IH]; simpl; intro H; [reflexivity|]. destruct H as [F A].
  rewrite fresh_not_old. destruct (is_old m e) eqn:O; simpl; [apply IH; exact A|].
  f_equal. symmetry. apply filter_all. intros x Hx.
  rewrite Forall_forall in F. specialize (F x Hx). unfold fresh. unfold is_old in O.
  apply Z.ltb_ge in O. apply Z.leb_le. lia.
Qed.

Lemma expire_sorted m l : sorted l -> expire m l = filter (fresh m) l.
Proof.
  intro S. unfold expire. rewrite drop_old_ascending by (apply sorted_rev_ascending; exact S).
  rewrite filter_rev, rev_involutive. reflexivity.
Qed.

(* without any assumption on the order: expiry removes a block at the old end, every removed
   entry is older than the retention, and the oldest survivor is not *)
Lemma drop_old_split m l : exists d, l = d ++ drop_old m l /\ Forall (fun e => is_old m e = true) d /\
  match drop_old m l with [] => True | e :: _ => is_old m e = false end.
Proof.
  induction l as [|e r IH]; simpl.
  - exists []. repeat split; auto.
  - destruct (is_old m e) eqn:O.
    + destruct IH as (d & E & F & H). exists (e :: d). repeat split; auto.
      simpl. f_equal. exact E.
    + exists []. repeat split; auto.
Qed.

Lemma expire_split m l : exists d, l = expire m l ++ d /\ Forall (fun e => is_old m e = true) d /\
  (forall e, In e (expire m l) -> In e l) /\
  match rev (expire m l) with [] => True | e :: _ => is_old m e = false end.
Proof.
  destruct (drop_old_split m (rev l)) as (d & E & F & H). exists (rev d). unfold expire.
  split; [|split; [|split]].
  - rewrite <- rev_app_distr, <- E, rev_involutive. reflexivity.
  - apply Forall_rev. exact F.
  - intros e He. apply in_rev in He. apply in_rev. rewrite E. apply in_or_app. right. exact He.
  - rewrite rev_involutive. exact H.
Qed.

Lemma sorted_filter f l : sorted l -> sorted (filter f l).
Proof.
  induction l as [|e r IH]; simpl; intro H; [exact I|]. destruct H as [F S].
  destruct (f e); simpl; [split|]; auto.
  apply Forall_forall. intros x Hx. apply filter_In in Hx. rewrite Forall_forall in F. apply F. tauto.
Qed.

(* ------------------------------------------------------------------ the map *)

Lemma lookup_record_same u e s : lookup u (record u e s) = Some (push e (events_of u s)).
Proof.
  unfold events_of. induction s as [|[k l] r IH]; simpl.
  - rewrite bs_eqb_refl. reflexivity.
  - destruct (bs_eqb k u) eqn:E; simpl; rewrite E; [reflexivity|exact IH].
Qed.

Lemma lookup_record_other u u' e s : u' <> u -> lookup u (record u' e s) = lookup u s.
Proof.
  intro N. induction s as [|[k l] r IH]; simpl.
  - assert (E : bs_eqb u' u = false) by (apply bs_eqb_neq; exact N). rewrite E. reflexivity.
  - destruct (bs_eqb k u') eqn:E; simpl.
    + apply bs_eqb_eq in E. subst k.
      assert (E : bs_eqb u' u = false) by (apply bs_eqb_neq; exact N). rewrite E. reflexivity.
    + destruct (bs_eqb k u); [reflexivity|exact IH].
Qed.

Lemma events_of_record u u' e s :
  events_of u (record u' e s) = if bs_eqb u' u then e :: events_of u s else events_of u s.
Proof.
  destruct (bs_eqb u' u) eqn:E.
  - apply bs_eqb_eq in E. subst u'. unfold events_of at 1. rewrite lookup_record_same. reflexivity.
  - apply bs_eqb_neq in E. unfold events_of. rewrite lookup_record_other by exact E. reflexivity.
Qed.

Lemma events_of_map_lists f u s : f [] = [] -> events_of u (map_lists f s) = f (events_of u s).
Proof.
  intro F. unfold events_of. induction s as [|[k l] r IH]; simpl; [symmetry; exact F|].
  destruct (bs_eqb k u); [reflexivity|exact IH].
Qed.

(* ------------------------------------------------------------------ histories *)

(* everything ever recorded for u, newest first *)
Definition rec_step (u : bs) (acc : ulist) (o : rop) : ulist :=
  match rop_event o with
  | Some (u', e) => if bs_eqb u' u then e :: acc else acc
  | None => acc
  end.
Definition recorded (u : bs) (ops : list rop) : ulist := fold_left (rec_step u) ops [].

(* the strictest cut-off applied so far by an expiry or a reload *)
Definition cut_join (c : option Z) (m : Z) : option Z :=
  Some (match c with None => m | Some c' => Z.max c' m end).
Definition cut_step (c : option Z) (o : rop) : option Z :=
  match o with
  | RExpire now | RReload now => cut_join c (min_ctime now)
  | _ => c
  end.
Definition cut_of (ops : list rop) : option Z := fold_left cut_step ops None.
Definition keep (c : option Z) (e : ev) : bool :=
  match c with None => true | Some m => fresh m e end.

Definition clock_step (t : Z) (o : rop) : Z := match rop_clock o with Some n => n | None => t end.
Definition last_clock (t0 : Z) (ops : list rop) : Z := fold_left clock_step ops t0.

(* clock readings never go backwards *)
Fixpoint monotone (t : Z) (ops : list rop) : Prop :=
  match ops with
  | [] => True
  | o :: r => match rop_clock o with
              | Some n => t <= n /\ monotone n r
              | None => monotone t r
              end
  end.

Lemma monotone_snoc ops : forall t o, monotone t (ops ++ [o]) <->
  monotone t ops /\ match rop_clock o with Some n => last_clock t ops <= n | None => True end.
Proof.
  unfold last_clock. induction ops as [|x r IH]; intros t o; simpl.
  - destruct (rop_clock o); tauto.
  - unfold clock_step at 2. destruct (rop_clock x) as [n|]; rewrite IH; tauto.
Qed.

Lemma keep_join c m e : keep (cut_join c m) e = keep c e && fresh m e.
Proof.
  unfold keep, cut_join, fresh. destruct c as [c'|]; [|reflexivity].
  destruct (Z.max c' m <=? ctime e) eqn:A, (c' <=? ctime e) eqn:B, (m <=? ctime e) eqn:C; simpl; try reflexivity;
    rewrite ?Z.leb_le, ?Z.leb_gt in *; lia.
Qed.

Lemma filter_filter {A} (f g : A -> bool) l : filter f (filter g l) = filter (fun x => g x && f x) l.
Proof.
  induction l as [|x r IH]; simpl; [reflexivity|].
  destruct (g x); simpl; [destruct (f x); simpl; rewrite IH; reflexivity|exact IH].
Qed.

Lemma filter_ext' {A} (f g : A -> bool) l : (forall x, f x = g x) -> filter f l = filter g l.
Proof. intro H. induction l as [|x r IH]; simpl; [reflexivity|]. rewrite H, IH. reflexivity. Qed.

Record hist_inv (t0 : Z) (ops : list rop) (s : rstate) : Prop := {
  hi_state : forall u, events_of u s = filter (keep (cut_of ops)) (recorded u ops);
  hi_sorted : forall u, sorted (recorded u ops);
  hi_bound : forall u, Forall (fun e => ctime e <= last_clock t0 ops) (recorded u ops);
  hi_cut : match cut_of ops with Some m => m <= last_clock t0 ops | None => True end
}.

Lemma retention_nonneg : 0 <= retention.
Proof. unfold retention. lia. Qed.

Lemma hist_inv_step t0 ops s o :
  hist_inv t0 ops s ->
  match rop_clock o with Some n => last_clock t0 ops <= n | None => True end ->
  hist_inv t0 (ops ++ [o]) (rstep s o).
Proof.
  intros [Hs Hso Hb Hc] Hm.
  assert (Erec : forall u, recorded u (ops ++ [o]) = rec_step u (recorded u ops) o)
    by (intro u; unfold recorded; rewrite fold_left_app; reflexivity).
  assert (Ecut : cut_of (ops ++ [o]) = cut_step (cut_of ops) o)
    by (unfold cut_of; rewrite fold_left_app; reflexivity).
  assert (Eclk : last_clock t0 (ops ++ [o]) = clock_step (last_clock t0 ops) o)
    by (unfold last_clock; rewrite fold_left_app; reflexivity).
  destruct (rop_event o) as [[u' e]|] eqn:Ev.
  - (* a recording operation: the new event carries the operation's clock reading *)
    assert (Hclk : rop_clock o = Some (ctime e) /\ cut_step (cut_of ops) o = cut_of ops).
    { destruct o; simpl in Ev; inversion Ev; subst; simpl; auto. }
    destruct Hclk as [Hclk Hcs]. rewrite Hclk in Hm.
    assert (Estep : rstep s o = record u' e s) by (unfold rstep; rewrite Ev; reflexivity).
    assert (Elast : last_clock t0 (ops ++ [o]) = ctime e) by (rewrite Eclk; unfold clock_step; rewrite Hclk; reflexivity).
    assert (Hkeep : keep (cut_of ops) e = true).
    { destruct (cut_of ops) as [m|]; [|reflexivity]. simpl. unfold fresh. apply Z.leb_le. lia. }
    constructor.
    + intro u. rewrite Estep, events_of_record, Erec, Ecut, Hcs. unfold rec_step. rewrite Ev.
      destruct (bs_eqb u' u); [|apply Hs]. simpl. rewrite Hkeep, Hs. reflexivity.
    + intro u. rewrite Erec. unfold rec_step. rewrite Ev. destruct (bs_eqb u' u); [|apply Hso].
      simpl. split; [|apply Hso]. eapply Forall_impl; [|apply (Hb u)]. simpl. intros a Ha. lia.
    + intro u. rewrite Elast, Erec. unfold rec_step. rewrite Ev.
      assert (F : Forall (fun a => ctime a <= ctime e) (recorded u ops))
        by (eapply Forall_impl; [|apply (Hb u)]; simpl; intros a Ha; lia).
      destruct (bs_eqb u' u); [constructor; [lia|exact F]|exact F].
    + rewrite Ecut, Hcs, Elast. destruct (cut_of ops); [lia|exact I].
  - assert (Erec' : forall u, recorded u (ops ++ [o]) = recorded u ops)
      by (intro u; rewrite Erec; unfold rec_step; rewrite Ev; reflexivity).
    destruct o as [n u a v|n u ms b1 b2|n u sp|n u|now|now|]; simpl in Ev; try discriminate.
    + (* expire *)
      simpl in Hm. constructor.
      * intro u. unfold rstep. simpl. rewrite events_of_map_lists by reflexivity.
        rewrite Hs, Erec', Ecut. simpl.
        rewrite expire_sorted by (apply sorted_filter, Hso).
        rewrite filter_filter. apply filter_ext'. intro x. rewrite keep_join. reflexivity.
      * intro u. rewrite Erec'. apply Hso.
      * intro u. rewrite Erec', Eclk. unfold clock_step. simpl.
        eapply Forall_impl; [|apply (Hb u)]. simpl. intros a Ha. lia.
      * rewrite Ecut, Eclk. unfold clock_step. simpl. unfold min_ctime.
        pose proof retention_nonneg. destruct (cut_of ops); lia.
    + (* reload *)
      simpl in Hm. constructor.
      * intro u. unfold rstep. simpl. rewrite events_of_map_lists by reflexivity.
        rewrite roundtrip, Hs, Erec', Ecut. simpl.
        rewrite filter_filter. apply filter_ext'. intro x. rewrite keep_join. reflexivity.
      * intro u. rewrite Erec'. apply Hso.
      * intro u. rewrite Erec', Eclk. unfold clock_step. simpl.
        eapply Forall_impl; [|apply (Hb u)]. simpl. intros a Ha. lia.
      * rewrite Ecut, Eclk. unfold clock_step. simpl. unfold min_ctime.
        pose proof retention_nonneg. destruct (cut_of ops); lia.
    + (* get *)
      constructor.
      * intro u. rewrite Erec', Ecut. simpl. apply Hs.
      * intro u. rewrite Erec'. apply Hso.
      * intro u. rewrite Erec', Eclk. apply Hb.
      * rewrite Ecut, Eclk. simpl. exact Hc.
Qed.

Lemma hist_inv_run t0 ops : monotone t0 ops -> hist_inv t0 ops (rrun ops []).
Proof.
  induction ops as [|o r IH] using rev_ind; intro M.
  - constructor; simpl; auto. intro u. constructor.
  - apply monotone_snoc in M. destruct M as [M Ho].
    unfold rrun. rewrite fold_left_app. simpl. apply hist_inv_step; [apply IH; exact M|exact Ho].
Qed.

(* the history theorem: with a clock that never goes backwards, after any sequence of recordings,
   expiries and save/restart cycles each user's history is exactly what was recorded for that
   user, in order, minus the entries older than the strictest cut-off applied so far *)
Lemma history t0 ops u : monotone t0 ops ->
  events_of u (rrun ops []) = filter (keep (cut_of ops)) (recorded u ops).
Proof. intro M. apply (hi_state _ _ _ (hist_inv_run t0 ops M)). Qed.

(* ------------------------------------------------------------------ the old loader *)

Definition evA : ev := mkEv 1000 0 0 [] false true false 0.
Definition evB : ev := mkEv 2000000 0 0 [] false true false 0.

Lemma old_roundtrip_reverses :
  load_old (min_ctime 2000001) (save [evB; evA]) = [evA; evB] /\
  filter (fresh (min_ctime 2000001)) [evB; evA] = [evB; evA].
Proof. vm_compute. split; reflexivity. Qed.

(* after the reversed reload the expiry loop starts at the newest event, finds it young, and
   stops: the event that is older than the retention survives *)
Lemma old_expire_after_reload :
  let ops := [RWeb 1000 [97%N]; RWeb 2000000 [97%N]; RReload 2000001; RExpire (1010 + retention)] in
  monotone 0 ops /\
  events_of [97%N] (fold_left rstep_old ops []) = [evA; evB] /\
  events_of [97%N] (rrun ops []) = [evB].
Proof. vm_compute. repeat split; intros; discriminate. Qed.

(* ------------------------------------------------------------------ the event loop *)

Lemma expire_same_length m l : length (expire m l) = length l -> expire m l = l.
Proof.
  intro H. destruct (expire_split m l) as (d & E & _).
  assert (L : length l = (length (expire m l) + length d)%nat) by (rewrite E at 1; apply app_length).
  destruct d as [|x d]; [rewrite app_nil_r in E; symmetry; exact E|]. simpl in L. lia.
Qed.

Lemma expire_unchanged now s : expire_changed now s = false -> map_lists (expire (min_ctime now)) s = s.
Proof.
  unfold expire_changed, map_lists. induction s as [|[k l] r IH]; simpl; intro H; [reflexivity|].
  apply orb_false_iff in H. destruct H as [H1 H2]. apply negb_false_iff, Nat.eqb_eq in H1.
  rewrite (expire_same_length _ _ H1), (IH H2). reflexivity.
Qed.

(* the cache, when present, is the current history; when no save is pending the file holds the
   current history (or nothing has changed since the start) *)
Definition linv (m0 : rstate) (st : lstate) : Prop :=
  (l_cache st = None \/ l_cache st = Some (l_map st)) /\
  (l_armed st = false -> l_file st = Some (l_map st) \/ l_map st = m0).

Lemma l_get_current m0 st : linv m0 st -> snd (l_get st) = l_map st /\ linv m0 (fst (l_get st)) /\
  l_map (fst (l_get st)) = l_map st /\ l_file (fst (l_get st)) = l_file st /\
  l_armed (fst (l_get st)) = l_armed st /\ l_cache (fst (l_get st)) = Some (l_map st).
Proof.
  intros [[C|C] F]; unfold l_get; rewrite C; simpl.
  - split; [reflexivity|]. split; [|auto]. unfold linv. simpl. auto.
  - split; [reflexivity|]. split; [|auto]. unfold linv. rewrite C. auto.
Qed.

Lemma linv_step m0 st o : linv m0 st -> linv m0 (lstep st o).
Proof.
  intro I. destruct o as [r|now| |]; simpl.
  - destruct (rop_event r); [|exact I]. split; simpl; [left; reflexivity|discriminate].
  - destruct (expire_changed now (l_map st)); [|exact I]. split; simpl; [left; reflexivity|discriminate].
  - apply (l_get_current m0 st I).
  - destruct (l_armed st) eqn:A; [|exact I].
    destruct (l_get_current m0 st I) as (S & I' & M & Fi & Ar & Ca).
    destruct (l_get st) as [st' snap]. simpl in *. subst snap. split; simpl.
    + right. rewrite Ca, M. reflexivity.
    + intros _. left. rewrite M. reflexivity.
Qed.

Lemma linv_run m0 ops : forall st, linv m0 st -> linv m0 (lrun ops st).
Proof. induction ops as [|o r IH]; intros st I; [exact I|]. simpl. apply IH, linv_step, I. Qed.

Lemma linv_start now file : linv (l_map (l_start now file)) (l_start now file).
Proof. unfold linv, l_start. simpl. split; [right; reflexivity|intros _; right; reflexivity]. Qed.

(* every history request is answered with the history as it is now *)
Lemma loop_request_current now file ops :
  let st := lrun ops (l_start now file) in snd (l_get st) = l_map st.
Proof.
  intros st. apply (l_get_current (l_map (l_start now file))). apply linv_run, linv_start.
Qed.

(* whenever no save is pending, a restart at time now' finds what a restart of the in-memory
   history would find: nothing is lost between the last save and now *)
Lemma loop_saved now file ops :
  let st := lrun ops (l_start now file) in
  l_armed st = false -> l_file st = Some (l_map st) \/ l_map st = l_map (l_start now file).
Proof. intros st. apply (linv_run _ ops _ (linv_start now file)). Qed.

(* ================================================================== a stalled subscriber *)
Open Scope nat_scope.

(* s1 and s2 have the same subscribers except possibly the j-th *)
Fixpoint agree (j : nat) (s1 s2 : nstate) {struct s1} : Prop :=
  match s1, s2 with
  | [], [] => True
  | c1 :: r1, c2 :: r2 => match j with O => r1 = r2 | S j' => c1 = c2 /\ agree j' r1 r2 end
  | _, _ => False
  end.

Lemma publish_cons e c r :
  snd (publish e (c :: r)) = snd (try_send e c) :: snd (publish e r).
Proof.
  unfold publish. simpl. destruct (try_send e c) as [o c']. destruct (publish_with try_send e r) as [os r'].
  reflexivity.
Qed.

Lemma agree_publish e : forall j s1 s2, agree j s1 s2 -> agree j (snd (publish e s1)) (snd (publish e s2)).
Proof.
  intros j s1. revert j. induction s1 as [|c1 r1 IH]; intros j s2 A; destruct s2 as [|c2 r2]; simpl in A; try contradiction.
  - unfold publish. simpl. exact I.
  - rewrite !publish_cons. destruct j as [|j]; simpl.
    + subst. reflexivity.
    + destruct A as [E A]. subst. split; [reflexivity|]. apply IH, A.
Qed.

Lemma agree_update f i : forall j s1 s2, agree j s1 s2 -> agree j (update_nth i f s1) (update_nth i f s2).
Proof.
  revert i. intros i j s1. revert i j. induction s1 as [|c1 r1 IH]; intros i j s2 A; destruct s2 as [|c2 r2]; simpl in A; try contradiction.
  - destruct i; exact I.
  - destruct i as [|i], j as [|j]; simpl.
    + exact A.
    + destruct A as [E A]. subst. split; [reflexivity|exact A].
    + subst. reflexivity.
    + destruct A as [E A]. subst. split; [reflexivity|]. apply IH, A.
Qed.

Lemma agree_app x : forall j s1 s2, agree j s1 s2 -> agree j (s1 ++ [x]) (s2 ++ [x]).
Proof.
  intros j s1. revert j. induction s1 as [|c1 r1 IH]; intros j s2 A; destruct s2 as [|c2 r2]; simpl in A; try contradiction.
  - simpl. destruct j; [reflexivity|split; [reflexivity|exact I]].
  - simpl. destruct j as [|j].
    + subst. reflexivity.
    + destruct A as [E A]. subst. split; [reflexivity|]. apply IH, A.
Qed.

Lemma agree_step o j s1 s2 : agree j s1 s2 -> agree j (nstep s1 o) (nstep s2 o).
Proof.
  intro A. destruct o as [e|i|k|i]; simpl.
  - apply agree_publish, A.
  - apply agree_update, A.
  - apply agree_app, A.
  - apply agree_update, A.
Qed.

Lemma agree_run ops : forall j s1 s2, agree j s1 s2 -> agree j (nrun ops s1) (nrun ops s2).
Proof.
  induction ops as [|o r IH]; intros j s1 s2 A; [exact A|]. simpl. apply IH, agree_step, A.
Qed.

Lemma agree_set cj : forall j s, agree j (update_nth j (fun _ => cj) s) s.
Proof.
  intros j s. revert j. induction s as [|c r IH]; intros j.
  - destruct j; exact I.
  - destruct j as [|j]; simpl; [reflexivity|]. split; [reflexivity|apply IH].
Qed.

Lemma agree_others : forall j s1 s2, agree j s1 s2 -> others j s1 = others j s2.
Proof.
  intros j s1. revert j. induction s1 as [|c1 r1 IH]; intros j s2 A; destruct s2 as [|c2 r2]; simpl in A; try contradiction.
  - reflexivity.
  - destruct j as [|j]; unfold others; simpl.
    + subst. reflexivity.
    + destruct A as [E A]. subst. f_equal. apply (IH j r2 A).
Qed.

(* what the other subscribers hold and have been handed does not depend on subscriber j *)
Lemma others_independent ops s j cj :
  others j (nrun ops (update_nth j (fun _ => cj) s)) = others j (nrun ops s).
Proof. apply agree_others, agree_run, agree_set. Qed.

Lemma update_nth_length {A} (f : A -> A) : forall i l, length (update_nth i f l) = length l.
Proof.
  intros i l. revert i. induction l as [|x r IH]; intros i; [destruct i; reflexivity|].
  destruct i; simpl; [reflexivity|]. rewrite IH. reflexivity.
Qed.

(* one step that is not a read by subscriber j, seen from j: nothing is handed over, the queue
   stays within its capacity *)
Lemma nstep_stalled s o j c : nth_error s j = Some c -> o <> NRecv j ->
  exists c1, nth_error (nstep s o) j = Some c1 /\ got c1 = got c /\ cap c1 = cap c /\
             (length (buf c) <= cap c -> length (buf c1) <= cap c1).
Proof.
  intros H NR. destruct o as [e|i|k|i]; simpl.
  - exists (snd (try_send e c)). split; [apply publish_nth; exact H|].
    destruct (try_send_cases e c) as (Hc & _ & Hg & [(Hb & _ & F)|(He & _)]).
    + split; [exact Hg|]. split; [exact Hc|]. intros _. rewrite Hb, Hc, app_length. simpl. lia.
    + rewrite He. auto.
  - rewrite nth_error_update_nth. destruct (Nat.eqb j i) eqn:E.
    + apply Nat.eqb_eq in E. subst. contradiction NR. reflexivity.
    + exists c. auto.
  - exists c. split; [|auto]. rewrite nth_error_app1; [exact H|]. apply nth_error_Some. congruence.
  - rewrite nth_error_update_nth. destruct (Nat.eqb j i) eqn:E.
    + rewrite H. simpl. exists (unsub_chan c). simpl. auto.
    + exists c. auto.
Qed.

Lemma nrun_stalled ops : forall s j c, nth_error s j = Some c -> stalled j ops = true ->
  exists c1, nth_error (nrun ops s) j = Some c1 /\ got c1 = got c /\
             (length (buf c) <= cap c -> length (buf c1) <= cap c1).
Proof.
  induction ops as [|o r IH]; intros s j c H St.
  - exists c. auto.
  - assert (NR : o <> NRecv j /\ stalled j r = true).
    { destruct o as [e|i|k|i]; simpl in St; try (split; [discriminate|exact St]).
      apply andb_true_iff in St. destruct St as [N St]. split; [|exact St].
      intro E. inversion E; subst. rewrite Nat.eqb_refl in N. discriminate. }
    destruct NR as [NR St'].
    destruct (nstep_stalled s o j c H NR) as (c1 & H1 & G1 & C1 & B1).
    destruct (IH (nstep s o) j c1 H1 St') as (c2 & H2 & G2 & B2).
    exists c2. simpl. split; [exact H2|]. split; [congruence|]. intro L. apply B2, B1, L.
Qed.

Lemma stalled_subscriber ops s j cj :
  stalled j ops = true -> nth_error s j = Some cj ->
  (forall pre e post, ops = pre ++ NPub e :: post ->
     let st := nrun pre s in
     Forall (fun o => o <> Blocked) (fst (publish e st)) /\
     forall cj', publish_cost e (update_nth j (fun _ => cj') st) = publish_cost e st) /\
  (exists cj', nth_error (nrun ops s) j = Some cj' /\ got cj' = got cj /\
               (length (buf cj) <= cap cj -> length (buf cj') <= cap cj')) /\
  (forall cj', others j (nrun ops (update_nth j (fun _ => cj') s)) = others j (nrun ops s)) /\
  (forall i c, i <> j -> nth_error s i = Some c -> live c = true ->
     Forall (fun o => o <> NUnsub i) ops -> never_full i ops s = true ->
     exists c', nth_error (nrun ops s) i = Some c' /\ delivered c' = delivered c ++ pubs ops).
Proof.
  intros St H. split; [|split; [|split]].
  - intros pre e post _ st. split; [apply publish_never_blocks|].
    intro cj'. rewrite !publish_cost_length. apply update_nth_length.
  - apply nrun_stalled; assumption.
  - intro cj'. apply others_independent.
  - intros i c _ Hi L NU NF. apply nrun_lagging_all; assumption.
Qed.

(* a fan-out that waits for a free slot does block on a stalled subscriber whose queue is full *)
Lemma waiting_fanout_blocks :
  exists e s j c, nth_error s j = Some c /\ live c = true /\ length (buf c) = cap c /\
    In Blocked (fst (publish_with blocking_send e s)).
Proof.
  exists (ECert 1 [7%N]), [mkChan 16 true [] []; mkChan 1 true [EWebLogin [1%N]] []], 1, (mkChan 1 true [EWebLogin [1%N]] []).
  vm_compute. repeat split; auto.
Qed.

(* ================================================================== the history file *)

Lemma fs_get_del n m fs : fs_get n (fs_del m fs) = if bs_eqb m n then None else fs_get n fs.
Proof.
  induction fs as [|[k c] r IH]; simpl.
  - destruct (bs_eqb m n); reflexivity.
  - destruct (bs_eqb k m) eqn:E.
    + apply bs_eqb_eq in E. subst k. rewrite IH. destruct (bs_eqb m n); reflexivity.
    + simpl. rewrite IH. destruct (bs_eqb k n) eqn:E2; [|reflexivity].
      apply bs_eqb_eq in E2. subst k. rewrite bs_eqb_neq in E.
      destruct (bs_eqb m n) eqn:E3; [|reflexivity]. apply bs_eqb_eq in E3. congruence.
Qed.

Lemma fs_get_set n m c fs : fs_get n (fs_set m c fs) = if bs_eqb m n then Some c else fs_get n fs.
Proof.
  unfold fs_set. simpl. destruct (bs_eqb m n) eqn:E; [reflexivity|]. rewrite fs_get_del, E. reflexivity.
Qed.

Lemma tmp_name_neq f : bs_eqb (tmp_name f) f = false.
Proof.
  apply bs_eqb_neq. intro E. apply (f_equal (@length N)) in E. unfold tmp_name in E.
  rewrite app_length in E. simpl in E. lia.
Qed.
Lemma tmp_name_neq' f : bs_eqb f (tmp_name f) = false.
Proof. apply bs_eqb_neq. intro E. symmetry in E. apply bs_eqb_neq in E; [exact E|apply tmp_name_neq]. Qed.

Ltac fs_simpl :=
  repeat (rewrite ?fs_get_set, ?fs_get_del, ?tmp_name_neq, ?tmp_name_neq', ?bs_eqb_refl; simpl).

(* the file system after a save that completes, crashes before step k or fails at step k: name f
   holds what it held before or the new generation; every name but f and f~ is untouched *)
Lemma save_get f g st fs :
  let fs' := run_save (save_prog f g) (save_cleanup f) st fs in
  (fs_get f fs' = fs_get f fs \/ fs_get f fs' = Some (FWhole g)) /\
  (st = Completes -> fs_get f fs' = Some (FWhole g)) /\
  (forall k, st = FaultAt k -> k <= 5 -> fs_get f fs' = fs_get f fs) /\
  (forall k, st = CrashAt k -> k <= 5 -> fs_get f fs' = fs_get f fs) /\
  (forall n, n <> f -> n <> tmp_name f -> fs_get n fs' = fs_get n fs).
Proof.
  assert (OTH : forall n, n <> f -> n <> tmp_name f -> bs_eqb (tmp_name f) n = false /\ bs_eqb f n = false).
  { intros n A B. split; apply bs_eqb_neq; congruence. }
  destruct st as [|k|k]; unfold run_save, save_prog, save_cleanup, fs_run.
  - simpl. fs_simpl. split; [right; reflexivity|]. split; [reflexivity|]. split; [discriminate|]. split; [discriminate|].
    intros n A B. destruct (OTH n A B) as [E1 E2]. fs_simpl. rewrite ?E1, ?E2. simpl. fs_simpl. rewrite ?E1, ?E2. reflexivity.
  - split; [|split; [discriminate|split; [discriminate|split]]].
    + destruct k as [|[|[|[|[|[|[|k]]]]]]]; simpl; fs_simpl; auto. destruct k; simpl; fs_simpl; auto.
    + intros k' E L. inversion E; subst k'.
      destruct k as [|[|[|[|[|[|k]]]]]]; simpl; fs_simpl; auto. lia.
    + intros n A B. destruct (OTH n A B) as [E1 E2].
      destruct k as [|[|[|[|[|[|[|k]]]]]]]; simpl; fs_simpl; rewrite ?E1, ?E2; simpl; fs_simpl; rewrite ?E1, ?E2; auto.
      destruct k; simpl; fs_simpl; rewrite ?E1, ?E2; simpl; fs_simpl; rewrite ?E1, ?E2; auto.
  - split; [|split; [discriminate|split; [|split; [discriminate|]]]].
    + destruct k as [|[|[|[|[|[|[|k]]]]]]]; simpl; fs_simpl; auto. destruct k; simpl; fs_simpl; auto.
    + intros k' E L. inversion E; subst k'.
      destruct k as [|[|[|[|[|[|k]]]]]]; simpl; fs_simpl; auto. lia.
    + intros n A B. destruct (OTH n A B) as [E1 E2].
      destruct k as [|[|[|[|[|[|[|k]]]]]]]; simpl; fs_simpl; rewrite ?E1, ?E2; simpl; fs_simpl; rewrite ?E1, ?E2; auto.
      destruct k; simpl; fs_simpl; rewrite ?E1, ?E2; simpl; fs_simpl; rewrite ?E1, ?E2; auto.
Qed.

Lemma save_get_late f g st fs k : (st = FaultAt k \/ st = CrashAt k) -> 6 <= k ->
  fs_get f (run_save (save_prog f g) (save_cleanup f) st fs) = Some (FWhole g).
Proof.
  intros [E|E] L; subst st; unfold run_save, save_prog, save_cleanup, fs_run;
    (destruct k as [|[|[|[|[|[|[|k]]]]]]]; try lia; simpl; fs_simpl; auto; destruct k; simpl; fs_simpl; auto).
Qed.

(* did the save get as far as its rename? *)
Definition renamed (st : stop) : bool :=
  match st with Completes => true | CrashAt k | FaultAt k => 6 <=? k end.

Lemma save_load f g st fs :
  startup_load (run_save (save_prog f g) (save_cleanup f) st fs) f =
  if renamed st then LGen g else startup_load fs f.
Proof.
  unfold startup_load. destruct (save_get f g st fs) as (_ & C & F & K & _).
  destruct st as [|k|k]; unfold renamed.
  - rewrite (C eq_refl). reflexivity.
  - destruct (6 <=? k) eqn:E.
    + apply Nat.leb_le in E. rewrite (save_get_late f g (CrashAt k) fs k (or_intror eq_refl) E). reflexivity.
    + apply Nat.leb_gt in E. rewrite (K k eq_refl); [reflexivity|lia].
  - destruct (6 <=? k) eqn:E.
    + apply Nat.leb_le in E. rewrite (save_get_late f g (FaultAt k) fs k (or_introl eq_refl) E). reflexivity.
    + apply Nat.leb_gt in E. rewrite (F k eq_refl); [reflexivity|lia].
Qed.

(* any number of saves, each ending in any way *)
Definition run_saves (f : bs) (saves : list (rstate * stop)) (fs : fsys) : fsys :=
  fold_left (fun fs gs => run_save (save_prog f (fst gs)) (save_cleanup f) (snd gs) fs) saves fs.
Fixpoint last_renamed (saves : list (rstate * stop)) (acc : option rstate) : option rstate :=
  match saves with
  | [] => acc
  | (g, st) :: r => last_renamed r (if renamed st then Some g else acc)
  end.

Lemma saves_load f saves : forall fs,
  startup_load (run_saves f saves fs) f =
  match last_renamed saves None with Some g => LGen g | None => startup_load fs f end.
Proof.
  induction saves as [|[g st] r IH]; intros fs; [reflexivity|].
  unfold run_saves in *. simpl. rewrite IH, save_load. simpl.
  destruct (renamed st).
  - assert (E : forall r acc, last_renamed r acc = match last_renamed r None with Some x => Some x | None => acc end).
    { clear. induction r as [|[g' st'] r IH]; intros acc; simpl; [reflexivity|].
      destruct (renamed st'); [|apply IH].
      rewrite (IH (Some g')). destruct (last_renamed r None); reflexivity. }
    rewrite (E r (Some g)). destruct (last_renamed r None); reflexivity.
  - reflexivity.
Qed.

Lemma aside_loses :
  exists f g old fs, fs_get f fs = Some (FWhole old) /\
    (exists k, startup_load (run_save (save_prog_aside f g) (save_cleanup f) (CrashAt k) fs) f = LFirstStart) /\
    (exists k, startup_load (run_save (save_prog_aside f g) (save_cleanup f) (FaultAt k) fs) f = LFirstStart).
Proof.
  exists [102%N], (gen_tag 2), (gen_tag 1), [([102%N], FWhole (gen_tag 1))].
  split; [reflexivity|]. split; [exists 4|exists 4]; vm_compute; reflexivity.
Qed.

Lemma startup_name_only now fs fs' f : fs_get f fs = fs_get f fs' -> startup now fs f = startup now fs' f.
Proof. intro E. unfold startup, startup_load. rewrite E. reflexivity. Qed.

Lemma startup_leftover now fs f n c : n <> f ->
  startup now (fs_set n c fs) f = startup now fs f /\ startup now (fs_del n fs) f = startup now fs f.
Proof.
  intro N. assert (E : bs_eqb n f = false) by (apply bs_eqb_neq; exact N).
  split; apply startup_name_only; [rewrite fs_get_set|rewrite fs_get_del]; rewrite E; reflexivity.
Qed.

Lemma save_atomic f g st fs :
  let fs' := run_save (save_prog f g) (save_cleanup f) st fs in
  (startup_load fs' f = startup_load fs f \/ startup_load fs' f = LGen g) /\
  (forall old, fs_get f fs = Some (FWhole old) ->
     startup_load fs' f = LGen old \/ startup_load fs' f = LGen g) /\
  (st = Completes -> startup_load fs' f = LGen g) /\
  (forall k, st = FaultAt k \/ st = CrashAt k -> k <= 5 -> startup_load fs' f = startup_load fs f) /\
  (forall n, n <> f -> n <> tmp_name f -> fs_get n fs' = fs_get n fs).
Proof.
  intro fs'. subst fs'. rewrite save_load. split; [destruct (renamed st); auto|]. split; [|split; [|split]].
  - intros old E. destruct (renamed st); [auto|]. left. unfold startup_load. rewrite E. reflexivity.
  - intro E. subst. reflexivity.
  - intros k [E|E] L; subst; unfold renamed; (destruct (6 <=? k) eqn:E; [apply Nat.leb_le in E; lia|reflexivity]).
  - apply save_get.
Qed.
