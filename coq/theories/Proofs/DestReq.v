From KM Require Import Base.Bytes Model.Dest Model.DestReq Proofs.Dest.

(* the Location is a function of the form/query channel alone *)
Theorem req_location_channels : forall pf r r',
  lr_form r = lr_form r' ->
  req_location pf r = req_location pf r' /\ req_federated_location pf r = req_federated_location pf r'.
Proof.
  intros pf r r' H. unfold req_location, req_federated_location, req_destination, form_value.
  rewrite H. split; reflexivity.
Qed.

(* whatever the channels carry *)
Theorem req_location_same_origin : forall pf r,
  same_origin (req_location pf r) = true /\ same_origin (req_federated_location pf r) = true.
Proof.
  intros pf r. split.
  - apply location_same_origin.
  - apply federated_same_origin.
Qed.

(* no form/query value (or an empty one): the profile page *)
Theorem req_no_form_value : forall pf r,
  form_value r = [] ->
  req_location pf r = profile /\ req_federated_location pf r = profile.
Proof.
  intros pf r H. unfold req_location, req_federated_location, req_destination, federated_location.
  rewrite H. destruct pf; vm_compute; split; reflexivity.
Qed.

(* a fallback to a cookie that skips the filter is refuted: "/\e" in the cookie *)
Theorem cookie_fallback_refuted : exists pf authority r,
  lr_form r = None /\ same_origin (req_location_cookie_fallback pf authority r) = false.
Proof.
  exists false, false,
    {| lr_form := None; lr_cookies := [(param_name, [47;92;101])]; lr_headers := []; lr_body := [];
       lr_path_suffix := [] |}.
  split; vm_compute; reflexivity.
Qed.
