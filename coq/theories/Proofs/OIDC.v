(* C04 / C12 — proofs over Model.OIDC: the token endpoint, the producer x consumer matrix,
   single-claim mutations, absence of side effects, and the history theorems (which authorization
   step a released ID token / a userinfo answer goes back to). *)
From Coq Require Import String ZArith NArith List Bool Lia.
From KM Require Import Base.Bytes Model.Tokens Model.OIDC Proofs.Tokens.
Import ListNotations.
Open Scope Z_scope.

(* ---------------------------------------------------------------- token endpoint *)

(* who the caller says it is and the secret it shows *)
Definition presented_creds (r : treq) : bs * bs :=
  match tr_basic r with Some p => p | None => (tr_form_client r, tr_form_secret r) end.

(* RFC 7636: the verifier matches the challenge that was sealed into this very code *)
Definition pkce_match (k : codejwt) (verifier vhash : bs) : Prop :=
  exists chal meth, c_sealed k = Some (c_jti k, chal, meth) /\
    (((meth = [] \/ meth = m_plain) /\ verifier = chal) \/ (meth = m_S256 /\ vhash = chal)).

(* the caller proved to be client [c]: by the secret, or - secret-less clients only - by PKCE *)
Definition client_authenticated (c : client) (k : codejwt) (r : treq) : Prop :=
  (cl_secret c <> [] /\ tr_verifier r = [] /\ snd (presented_creds r) = cl_secret c) \/
  (cl_secret c = [] /\ tr_verifier r <> [] /\ pkce_match k (tr_verifier r) (tr_vhash r)).

Lemma nonempty_false s : nonempty s = false <-> s = [].
Proof. destruct s; simpl; split; intro H; auto; discriminate. Qed.
Lemma nonempty_true s : nonempty s = true <-> s <> [].
Proof. destruct s; simpl; split; intro H; auto; try discriminate; congruence. Qed.

Lemma find_client_sound id l c : find_client id l = Some c -> In c l /\ cl_id c = id.
Proof.
  induction l as [|x r IH]; simpl; [discriminate|].
  destruct (bs_eqb (cl_id x) id) eqn:E.
  - intro H. inversion H; subst. apply bs_eqb_eq in E. auto.
  - intro H. destruct (IH H). auto.
Qed.

Lemma pkce_ok_sound st k v h : pkce_ok st k v h = true -> pkce_match k v h.
Proof.
  unfold pkce_ok, pkce_match. destruct (c_sealed k) as [[[n chal] meth]|]; [|discriminate].
  destruct (can_open st); cbn [negb]; [|discriminate].
  destruct (bs_eqb n (c_jti k)) eqn:N; cbn [negb]; [|discriminate]. apply bs_eqb_eq in N. subst n.
  destruct (bs_eqb meth [] || bs_eqb meth m_plain) eqn:P.
  - intro H. apply bs_eqb_eq in H. exists chal, meth. split; [reflexivity|]. left. split; [|exact H].
    apply orb_true_iff in P. destruct P as [P|P]; apply bs_eqb_eq in P; auto.
  - destruct (bs_eqb meth m_S256) eqn:S; [|discriminate]. intro H. apply bs_eqb_eq in H. apply bs_eqb_eq in S.
    exists chal, meth. split; [reflexivity|]. right. auto.
Qed.

Lemma caller_creds r id pass : caller r = inl (id, pass) -> presented_creds r = (id, pass).
Proof.
  unfold caller, presented_creds. destruct (tr_basic r) as [[a p]|].
  - intro H. inversion H. reflexivity.
  - destruct (negb (nonempty (tr_form_secret r)) && negb (nonempty (tr_verifier r))); [discriminate|].
    destruct (negb (nonempty (tr_form_client r))); [discriminate|]. intro H. inversion H. reflexivity.
Qed.

Lemma token_release_sound i now r idt act : token_endpoint i now r = Release idt act ->
  exists k c, verify (srv i) (tr_code r) = true /\ dec_code (t_claims (tr_code r)) = Some k /\
    find_client (fst (presented_creds r)) (clients i) = Some c /\
    client_authenticated c k r /\ c_sub k = fst (presented_creds r) /\ unix now <= c_exp k /\
    c_redirect k = tr_redirect r /\ c_type k = k_code /\
    idt = p_id (srv i) now (fst (presented_creds r)) k /\ act = p_access (srv i) now k.
Proof.
  unfold token_endpoint, token_endpoint_gen. cbn [andb negb]. rewrite !andb_true_r.
  destruct (tr_post r); cbn [negb]; [|discriminate].
  destruct (bs_eqb (tr_grant r) gt_authcode); cbn [negb]; [|discriminate].
  destruct (nonempty (tr_redirect r)); cbn [negb]; [|discriminate].
  destruct (verify (srv i) (tr_code r)) eqn:V; cbn [negb]; [|discriminate].
  destruct (dec_code (t_claims (tr_code r))) as [k|] eqn:D; [|discriminate].
  destruct (caller r) as [[id pass]|s] eqn:C; [|discriminate].
  apply caller_creds in C.
  destruct (find_client id (clients i)) as [c|] eqn:F; [|discriminate].
  destruct (nonempty (tr_verifier r) && nonempty (cl_secret c)) eqn:X; [discriminate|].
  set (v1 := nonempty (tr_verifier r) && pkce_ok (srv i) k (tr_verifier r) (tr_vhash r)).
  destruct (if negb v1 && nonempty pass then bs_eqb pass (cl_secret c) else v1) eqn:VALID; cbn [negb]; [|discriminate].
  destruct (bs_eqb id (c_sub k)) eqn:S; cbn [negb]; [|discriminate].
  destruct (c_exp k <? unix now) eqn:E; [discriminate|].
  destruct (bs_eqb (c_redirect k) (tr_redirect r)) eqn:R; cbn [negb]; [|discriminate].
  destruct (bs_eqb (c_type k) k_code) eqn:T; cbn [negb]; [|discriminate].
  intro H. inversion H; subst idt act. clear H.
  apply bs_eqb_eq in S. apply bs_eqb_eq in R. apply bs_eqb_eq in T. apply Z.ltb_ge in E.
  exists k, c. rewrite C. cbn [fst snd].
  repeat split; auto.
  unfold client_authenticated. rewrite C. cbn [snd].
  destruct (nonempty (tr_verifier r)) eqn:NV.
  - (* a verifier was sent: the client is secret-less and PKCE decided *)
    cbn [andb] in X. apply nonempty_false in X. right. split; [exact X|]. split; [apply nonempty_true; exact NV|].
    subst v1. cbn [andb] in VALID.
    destruct (pkce_ok (srv i) k (tr_verifier r) (tr_vhash r)) eqn:P.
    + eapply pkce_ok_sound. exact P.
    + cbn [negb andb] in VALID. destruct (nonempty pass) eqn:NP.
      * apply bs_eqb_eq in VALID. rewrite X in VALID. subst pass. discriminate.
      * discriminate.
  - (* no verifier: the secret decided *)
    subst v1. cbn [andb negb] in VALID. destruct (nonempty pass) eqn:NP; [|discriminate].
    apply bs_eqb_eq in VALID. left. apply nonempty_false in NV. apply nonempty_true in NP.
    split; [congruence|]. auto.
Qed.

(* ---------------------------------------------------------------- what acceptance means (C04) *)

Definition kind_claim (c : consumer) : string :=
  match c with CToken _ | CUserinfo => "type" | _ => "token_type" end%string.

Definition kind_const (c : consumer) : bs :=
  match consumes c with
  | KSession => k_session | KCli => k_cli | KStorage => k_storage | KCode => k_code | KAccess => k_access
  | KId => []
  end.

(* does the consumer insist that the token names this server as issuer and first audience *)
Definition must_name_server (c : consumer) : Prop :=
  match c with CToken _ | CUserinfo => False | _ => True end.

(* the expiry comparison each consumer makes on the signed exp claim *)
Definition exp_ok (now : Z) (c : consumer) (exp : Z) : Prop :=
  match c with
  | CSession _ | CCliVerify | CCliSend _ _ => now <= exp * NS
  | CUpdate _ => True      (* the re-signed cookie keeps exp: see update_keeps_expiry *)
  | CStorage _ _ _ _ | CToken _ | CUserinfo => unix now <= exp
  end.

(* consumers whose struct declares a not-before claim *)
Definition checks_nbf (c : consumer) : Prop :=
  match c with CToken _ | CUserinfo => False | _ => True end.

Definition window (now : Z) (c : consumer) (cl : claimset) : Prop :=
  (exists exp, rd_int "exp" cl = Some exp /\ exp_ok now c exp) /\
  (checks_nbf c -> exists nbf, rd_int "nbf" cl = Some nbf /\ nbf <= unix now) /\
  match c with CStorage _ _ col _ => unix now < col | _ => True end.

(* consumers that compare the signed subject with somebody *)
Definition subject_bound (c : consumer) (cl : claimset) : Prop :=
  match c with
  | CCliSend _ u | CStorage _ u _ _ => rd_str "sub" cl = Some u
  | CSession req => exists l, rd_int "auth_type" cl = Some l /\ Z.land l req <> 0
  | CToken r => rd_str "sub" cl = Some (fst (presented_creds r))
      (* the code's subject is the ONE client the request authenticated as: the header's when an
         Authorization header is present, the body's client_id only otherwise *)
  | _ => True
  end.

Lemma dec_auth_exp c a : dec_auth c = Some a -> rd_int "exp" c = Some (a_exp a).
Proof. intro D. apply dec_auth_fields in D. tauto. Qed.

Lemma accepts_sound i now c t : accepts i now c t = true ->
  genuine (srv i) t /\ rd_str (kind_claim c) (t_claims t) = Some (kind_const c) /\
  window now c (t_claims t) /\ (must_name_server c -> names_server (srv i) (t_claims t)) /\
  subject_bound c (t_claims t).
Proof.
  unfold accepts, window. destruct c as [req|l| |l u|p u col other|r|];
    cbn [op_of exec kind_claim kind_const consumes must_name_server checks_nbf exp_ok subject_bound].
  - destruct (c_session (srv i) now req t) as [a|] eqn:C; [|discriminate]. intros _.
    apply c_session_sound in C. destruct C as [A [E L]].
    apply auth_info_sound in A. destruct A as [G [NS [K [N [X [S LV]]]]]].
    split; [exact G|]. split; [exact K|]. split; [|split; [auto|eauto]].
    split; [eauto|]. auto.
  - destruct (c_update (srv i) now l t) as [t'|] eqn:C; [|discriminate]. intros _.
    apply c_update_sound in C. destruct C as [G [NS [K [N [a [D _]]]]]].
    apply dec_auth_exp in D.
    split; [exact G|]. split; [exact K|]. split; [|split; [auto|exact I]].
    split; [eauto|]. auto.
  - destruct (c_cli_verify (srv i) now t) eqn:C; [|discriminate]. intros _.
    apply c_cli_verify_sound in C. destruct C as [a [A E]].
    apply auth_info_sound in A. destruct A as [G [NS [K [N [X _]]]]].
    split; [exact G|]. split; [exact K|]. split; [|split; [auto|exact I]].
    split; [eauto|]. auto.
  - destruct (c_cli_send (srv i) now l u t) as [t'|] eqn:C; [|discriminate]. intros _.
    apply c_cli_send_sound in C. destruct C as [a [A [U [E _]]]].
    apply auth_info_sound in A. destruct A as [G [NS [K [N [X [S _]]]]]].
    split; [exact G|]. split; [exact K|]. split; [|split; [auto|congruence]].
    split; [eauto|]. auto.
  - assert (o_ok (exec i (op_of now (CStorage p u col other) t)) =
            match c_storage (srv i) now u {| r_col_exp := col; r_jws := t |} with Some _ => true | None => false end) as EQ.
    { destruct p; cbn [op_of exec get_signed_via answering_row];
        destruct (c_storage (srv i) now u {| r_col_exp := col; r_jws := t |}); reflexivity. }
    cbn [op_of] in EQ. rewrite EQ. clear EQ.
    destruct (c_storage (srv i) now u {| r_col_exp := col; r_jws := t |}) as [d|] eqn:C; [|discriminate]. intros _.
    apply c_storage_sound in C. cbn [r_col_exp r_jws] in C. destruct C as [CE [g [SD [SU _]]]].
    apply storage_data_sound in SD. destruct SD as [G [NS [K [N [X [XE [S _]]]]]]].
    split; [exact G|]. split; [exact K|]. split; [|split; [auto|congruence]].
    split; [eauto|]. auto.
  - destruct (token_endpoint i now (with_code r t)) as [idt act|s] eqn:C; [|discriminate]. intros _.
    apply token_release_sound in C. cbn [with_code tr_code] in C.
    destruct C as [k [c [V [D [_ [_ [SUB [E [_ [T _]]]]]]]]]].
    apply verify_sound in V. pose proof (dec_code_fields _ _ D) as [SB [X [_ [_ [_ [_ [TY _]]]]]]].
    split; [exact V|]. split; [congruence|]. split; [|split; [intros []|]].
    + split; [eauto|]. split; [intros []|exact I].
    + unfold presented_creds in *. cbn [with_code tr_basic tr_form_client tr_form_secret] in SUB. congruence.
  - destruct (c_userinfo (srv i) now t) as [u|] eqn:C; [|discriminate]. intros _.
    apply c_userinfo_sound in C. destruct C as [G [K [_ [E _]]]].
    split; [exact G|]. split; [exact K|]. split; [|split; [intros []|exact I]].
    split; [exact E|]. split; [intros []|exact I].
Qed.

(* ---------------------------------------------------------------- producer x consumer matrix *)

Lemma accepts_matrix i t_issue now a c : kind_of a <> consumes c -> accepts i now c (emit (srv i) t_issue a) = false.
Proof.
  intro NE. destruct (accepts i now c (emit (srv i) t_issue a)) eqn:A; [|reflexivity]. exfalso.
  apply accepts_sound in A. destruct A as [_ [K _]].
  destruct a as [u l d|u life|u dt d e|cl u sc red n j ch m aa|k|cl k];
    destruct c as [req|l'| |l' u'|u' col|r|]; cbn [kind_of consumes] in NE; try (apply NE; reflexivity);
    cbn [emit kind_claim kind_const consumes] in K;
    try (destruct ch); vm_compute in K; discriminate K.
Qed.

(* ---------------------------------------------------------------- alteration without a trusted signature *)

Lemma accepts_not_genuine i now c t :
  trusted_key (srv i) (t_signer t) = false \/ allowed_alg (srv i) (t_alg t) = false \/ t_tampered t = true ->
  accepts i now c t = false.
Proof.
  intro H. destruct (accepts i now c t) eqn:A; [|reflexivity]. exfalso.
  apply accepts_sound in A. destruct A as [[G1 [G2 G3]] _]. destruct H as [H|[H|H]]; congruence.
Qed.

(* ---------------------------------------------------------------- one claim changed, signed again by the server's key *)

Definition reclaim (t : token) (n : string) (v : jval) : token :=
  {| t_signer := t_signer t; t_alg := t_alg t; t_tampered := t_tampered t; t_claims := set_claim n v (t_claims t) |}.

Lemma rd_str_set n v c s : rd_str n (set_claim n v c) = Some s -> v = VStr s.
Proof. unfold rd_str. rewrite lookup_set_same. destruct v; intro H; inversion H; reflexivity. Qed.
Lemma rd_int_set n v c z : rd_int n (set_claim n v c) = Some z -> v = VInt z.
Proof. unfold rd_int. rewrite lookup_set_same. destruct v; intro H; inversion H; reflexivity. Qed.
Lemma rd_list_set n v c l : rd_list n (set_claim n v c) = Some l -> v = VList l.
Proof. unfold rd_list. rewrite lookup_set_same. destruct v; intro H; inversion H; reflexivity. Qed.

Lemma single_claim_resigned i now c t n v : accepts i now c (reclaim t n v) = true ->
  (n = kind_claim c -> v = VStr (kind_const c)) /\
  (n = "iss"%string -> must_name_server c -> v = VStr (s_issuer (srv i))) /\
  (n = "aud"%string -> must_name_server c -> exists rest, v = VList (s_issuer (srv i) :: rest)) /\
  (n = "nbf"%string -> checks_nbf c -> exists z, v = VInt z /\ z <= unix now) /\
  (n = "exp"%string -> exists z, v = VInt z /\ exp_ok now c z) /\
  (n = "sub"%string -> match c with CCliSend _ u | CStorage _ u _ _ => v = VStr u
                                  | CToken r => v = VStr (fst (presented_creds r)) | _ => True end) /\
  (n = "auth_type"%string -> match c with CSession req => exists l, v = VInt l /\ Z.land l req <> 0 | _ => True end).
Proof.
  intro A. apply accepts_sound in A. cbn [reclaim t_claims] in A.
  destruct A as [_ [K [[[e [E1 E2]] [NB _]] [NM SB]]]].
  split; [intros ->; apply rd_str_set in K; exact K|].
  split; [intros -> M; destruct (NM M) as [I _]; apply rd_str_set in I; exact I|].
  split; [intros -> M; destruct (NM M) as [_ [rest I]]; apply rd_list_set in I; eauto|].
  split; [intros -> M; destruct (NB M) as [z [Z1 Z2]]; apply rd_int_set in Z1; eauto|].
  split; [intros ->; apply rd_int_set in E1; eauto|].
  split.
  - intros ->. destruct c; auto; cbn in SB; apply rd_str_set in SB; exact SB.
  - intros ->. destruct c; auto. cbn in SB. destruct SB as [l [L1 L2]]. apply rd_int_set in L1. eauto.
Qed.

(* ---------------------------------------------------------------- refusal has no effect *)

Lemma refusal_no_effect i o : o_ok (exec i o) = false -> o_emitted (exec i o) = [] /\ o_user (exec i o) = None.
Proof.
  destruct o; cbn [exec];
    try match goal with |- context [match ?x with _ => _ end] => destruct x end;
    cbn; intro H; try discriminate H; auto.
Qed.

(* ---------------------------------------------------------------- re-issued cookies never outlive their source *)

Lemma update_keeps_expiry st now l t t' : c_update st now l t = Some t' ->
  exists a, dec_auth (t_claims t) = Some a /\
    rd_int "exp" (t_claims t') = Some (a_exp a) /\ rd_str "sub" (t_claims t') = Some (a_sub a) /\
    rd_int "auth_type" (t_claims t') = Some l /\
    forall now' req i', c_session st now' req t' = Some i' -> now' <= a_exp a * NS /\ ai_user i' = a_sub a.
Proof.
  intro C. apply c_update_sound in C. destruct C as [_ [_ [_ [_ [a [D ->]]]]]].
  exists a. split; [exact D|]. cbn. repeat split; auto.
  - apply c_session_sound in H. destruct H as [A [E _]]. apply auth_info_sound in A.
    destruct A as [_ [_ [_ [_ [X _]]]]]. cbn in X. inversion X. lia.
  - apply c_session_sound in H. destruct H as [A _]. apply auth_info_sound in A.
    destruct A as [_ [_ [_ [_ [_ [S _]]]]]]. cbn in S. inversion S. reflexivity.
Qed.

Lemma cli_send_no_extension st now l u t t' : c_cli_send st now l u t = Some t' ->
  exists e e', rd_int "exp" (t_claims t) = Some e /\ rd_int "exp" (t_claims t') = Some e' /\ e' <= e /\
               rd_str "sub" (t_claims t') = Some u /\ rd_int "auth_type" (t_claims t') = Some l.
Proof.
  intro C. apply c_cli_send_sound in C. destruct C as [a [A [U [E ->]]]].
  apply auth_info_sound in A. destruct A as [_ [_ [_ [_ [X _]]]]].
  exists (ai_exp a), (unix now + Z.quot (ai_exp a * NS - now) NS). split; [exact X|]. cbn.
  repeat split; auto.
  unfold unix, NS in *. rewrite Z.quot_div_nonneg by lia.
  pose proof (Z.div_mod now 1000000000 ltac:(lia)). pose proof (Z.mod_pos_bound now 1000000000 ltac:(lia)).
  pose proof (Z.div_mod (ai_exp a * 1000000000 - now) 1000000000 ltac:(lia)).
  pose proof (Z.mod_pos_bound (ai_exp a * 1000000000 - now) 1000000000 ltac:(lia)). nia.
Qed.

(* ---------------------------------------------------------------- histories *)

Definition emitted_by (i : idp) (ops : list op) : list token := flat_map (fun o => o_emitted (exec i o)) ops.

Lemma valid_split i : forall pre past o post, valid i past (pre ++ o :: post) ->
  valid i past pre /\
  (forall t, In t (presented o) -> verify (srv i) t = true -> In t (past ++ emitted_by i pre)).
Proof.
  induction pre as [|p pre IH]; intros past o post H; simpl in *.
  - destruct H as [H _]. split; [exact I|]. intros t Ht Hv. rewrite app_nil_r. auto.
  - destruct H as [H1 H2]. apply IH in H2. destruct H2 as [H2 H3]. split; [split; auto|].
    intros t Ht Hv. specialize (H3 t Ht Hv). rewrite <- app_assoc in H3. exact H3.
Qed.

(* what each operation can put on the wire *)
Inductive shape (i : idp) : op -> token -> Prop :=
| ShAuth o a : shape i o (sign (srv i) (enc_auth a))
| ShStorage o g : shape i o (sign (srv i) (enc_storage g))
| ShId o d : shape i o (sign (srv i) (enc_id d))
| ShAccess now r idt act : token_endpoint i now r = Release idt act -> shape i (OToken now r) act
| ShCode now u a t : authorize i now u a = Some t -> shape i (OAuthorize now u a) t.

Lemma emitted_shape i o t : In t (o_emitted (exec i o)) -> shape i o t.
Proof.
  destruct o; cbn [exec].
  - cbn. intros [<-|[]]. apply ShAuth.
  - cbn. intros [<-|[]]. apply ShAuth.
  - cbn. intros [<-|[]]. apply ShStorage.
  - destruct (authorize i now user r) as [t'|] eqn:A; cbn; [|tauto]. intros [<-|[]]. apply ShCode. exact A.
  - destruct (token_endpoint i now r) as [idt act|s] eqn:T; cbn; [|tauto].
    intros [<-|[<-|[]]].
    + apply token_release_sound in T. destruct T as [k [c [_ [_ [_ [_ [_ [_ [_ [_ [-> _]]]]]]]]]]]. apply ShId.
    + eapply ShAccess. exact T.
  - destruct (c_userinfo (srv i) now t0); cbn; tauto.
  - destruct (c_session (srv i) now required t0); cbn; tauto.
  - destruct (c_update (srv i) now newlevel t0) as [t'|] eqn:U; cbn; [|tauto]. intros [<-|[]].
    apply c_update_sound in U. destruct U as [_ [_ [_ [_ [a [_ ->]]]]]]. apply ShAuth.
  - destruct (c_cli_verify (srv i) now t0); cbn; tauto.
  - destruct (c_cli_send (srv i) now cli_level session_user t0) as [t'|] eqn:U; cbn; [|tauto]. intros [<-|[]].
    apply c_cli_send_sound in U. destruct U as [a [_ [_ [_ ->]]]]. apply ShAuth.
  - unfold get_signed_via. destruct (answering_row p prim cache) as [r|]; [destruct (c_storage (srv i) now user r)|]; cbn; tauto.
Qed.

Lemma authorize_sound i now u a t : authorize i now u a = Some t ->
  t = p_code (srv i) now (ar_client a) u (ar_scope a) (ar_redirect a) (ar_nonce a) (ar_jti a)
             (ar_challenge a) (ar_method a) (if nonempty (ar_audience a) then [ar_audience a] else []) /\
  (exists c, find_client (ar_client a) (clients i) = Some c) /\ ar_redirect_ok a = true /\
  (ar_challenge a <> [] -> ar_method a = [] \/ ar_method a = m_S256).
Proof.
  unfold authorize.
  destruct (ar_method_ok a); cbn [negb]; [|discriminate].
  destruct (bs_eqb (ar_response_type a) rt_code); cbn [negb]; [|discriminate].
  destruct (nonempty (ar_client a)); cbn [negb]; [|discriminate].
  destruct (ar_scope_openid a); cbn [negb]; [|discriminate].
  destruct (find_client (ar_client a) (clients i)) as [c|]; [|discriminate].
  destruct (ar_redirect_ok a); cbn [negb]; [|discriminate].
  destruct (nonempty (ar_challenge a) && nonempty (ar_method a) && negb (bs_eqb (ar_method a) m_S256)) eqn:M; [discriminate|].
  destruct (nonempty (ar_challenge a) && negb (can_seal (srv i))); [discriminate|].
  destruct (nonempty (ar_audience a) && negb (cl_allow_aud c && ar_audience_ok a)); [discriminate|].
  destruct ((Z.of_nat (length (ar_nonce a)) <? 6) && nonempty (ar_nonce a)); [discriminate|].
  intro H. inversion H. split; [reflexivity|]. split; [eauto|]. split; [reflexivity|].
  intro NE. apply nonempty_true in NE. rewrite NE in M. cbn [andb] in M.
  destruct (nonempty (ar_method a)) eqn:NM; cbn [andb] in M.
  - right. apply negb_false_iff in M. apply bs_eqb_eq in M. exact M.
  - left. apply nonempty_false. exact NM.
Qed.

(* the decoded content of a code minted by the authorization step *)
Definition code_of (i : idp) (now : Z) (u : bs) (a : areq) : codejwt :=
  {| c_iss := s_issuer (srv i); c_sub := ar_client a; c_iat := unix now; c_exp := unix now + code_life;
     c_aud := []; c_username := u; c_auth_level := 0; c_auth_exp := unix now + auth_life;
     c_nonce := ar_nonce a; c_redirect := ar_redirect a;
     c_access_aud := if nonempty (ar_audience a) then [ar_audience a] else [];
     c_scope := ar_scope a; c_type := k_code; c_jti := ar_jti a;
     c_sealed := match ar_challenge a with [] => None | _ => Some (ar_jti a, ar_challenge a, ar_method a) end |}.

Lemma authorize_code i now u a t : authorize i now u a = Some t -> dec_code (t_claims t) = Some (code_of i now u a).
Proof.
  intro A. apply authorize_sound in A. destruct A as [-> _]. unfold p_code, sign. cbn [t_claims].
  rewrite dec_enc_code. reflexivity.
Qed.

(* only the authorization step emits something the token endpoint can take for a code *)
Lemma shape_code i o t k : shape i o t -> dec_code (t_claims t) = Some k -> c_type k = k_code ->
  exists now u a, o = OAuthorize now u a /\ authorize i now u a = Some t.
Proof.
  intros S D T. destruct S as [o a|o g|o d|now r idt act R|now u a t A].
  - exfalso. destruct a. cbn in D. inversion D; subst. vm_compute in T. discriminate T.
  - exfalso. destruct g. cbn in D. inversion D; subst. vm_compute in T. discriminate T.
  - exfalso. destruct d. cbn in D. inversion D; subst. vm_compute in T. discriminate T.
  - exfalso. apply token_release_sound in R.
    destruct R as [k' [c [_ [_ [_ [_ [_ [_ [_ [_ [_ ->]]]]]]]]]]].
    unfold p_access, sign in D. cbn in D. inversion D; subst. vm_compute in T. discriminate T.
  - eauto.
Qed.

(* only the token endpoint emits something userinfo can take for an access token *)
Lemma shape_access i o t : shape i o t -> rd_str "type" (t_claims t) = Some k_access ->
  exists now r idt, o = OToken now r /\ token_endpoint i now r = Release idt t.
Proof.
  intros S T. destruct S as [o a|o g|o d|now r idt act R|now u a t A].
  - exfalso. destruct a. vm_compute in T. discriminate T.
  - exfalso. destruct g. vm_compute in T. discriminate T.
  - exfalso. destruct d. vm_compute in T. discriminate T.
  - eauto.
  - exfalso. apply authorize_sound in A. destruct A as [-> _]. vm_compute in T. discriminate T.
Qed.

(* how the caller of the token endpoint proved to be the client of this authorization request *)
Definition authenticated_for (c : client) (a : areq) (r : treq) : Prop :=
  (cl_secret c <> [] /\ tr_verifier r = [] /\ snd (presented_creds r) = cl_secret c) \/
  (cl_secret c = [] /\ tr_verifier r <> [] /\ ar_challenge a <> [] /\
   ((ar_method a = [] /\ tr_verifier r = ar_challenge a) \/ (ar_method a = m_S256 /\ tr_vhash r = ar_challenge a))).

Lemma release_origin i pre now r post idt act :
  valid i [] (pre ++ OToken now r :: post) -> token_endpoint i now r = Release idt act ->
  exists t_a u a c,
    In (OAuthorize t_a u a) pre /\ authorize i t_a u a = Some (tr_code r) /\
    fst (presented_creds r) = ar_client a /\ find_client (ar_client a) (clients i) = Some c /\
    authenticated_for c a r /\ tr_redirect r = ar_redirect a /\ unix now <= unix t_a + code_life /\
    idt = p_id (srv i) now (ar_client a) (code_of i t_a u a) /\
    act = p_access (srv i) now (code_of i t_a u a).
Proof.
  intros V R. apply valid_split in V. destruct V as [_ V]. cbn [presented app] in V.
  apply token_release_sound in R.
  destruct R as [k [c [VF [D [F [AU [SUB [EXP [RED [TY [-> ->]]]]]]]]]]].
  specialize (V (tr_code r) (or_introl eq_refl) VF). unfold emitted_by in V. apply in_flat_map in V.
  destruct V as [o [Ho Hin]]. apply emitted_shape in Hin.
  destruct (shape_code _ _ _ _ Hin D TY) as [t_a [u [a [-> A]]]].
  pose proof (authorize_code _ _ _ _ _ A) as D'. rewrite D in D'. inversion D'. subst k. clear D'.
  cbn [code_of c_sub c_exp c_redirect] in SUB, EXP, RED.
  exists t_a, u, a, c. rewrite <- SUB in *. repeat split; auto.
  destruct AU as [AU|[S0 [NV [chal [meth [SE PK]]]]]]; [left; exact AU|right].
  cbn [code_of c_sealed c_jti] in SE. destruct (ar_challenge a) as [|c0 cr] eqn:CH; [discriminate|].
  inversion SE; subst chal meth. split; [exact S0|]. split; [exact NV|]. split; [discriminate|].
  apply authorize_sound in A. destruct A as [_ [_ [_ M]]]. rewrite CH in M. specialize (M ltac:(discriminate)).
  destruct PK as [[[P|P] E]|[P E]]; auto.
  destruct M as [M|M]; [auto|]. rewrite M in P. vm_compute in P. discriminate P.
Qed.

Lemma userinfo_origin i pre now t post u :
  valid i [] (pre ++ OUserinfo now t :: post) -> c_userinfo (srv i) now t = Some u ->
  exists pre1 t_r r post1 idt t_a a,
    pre = pre1 ++ OToken t_r r :: post1 /\ token_endpoint i t_r r = Release idt t /\
    In (OAuthorize t_a u a) pre1 /\ authorize i t_a u a = Some (tr_code r).
Proof.
  intros V U. apply valid_split in V. destruct V as [VP V]. cbn [presented app] in V.
  apply c_userinfo_sound in U. destruct U as [G [TY [_ [_ [_ UN]]]]].
  assert (VF : verify (srv i) t = true).
  { destruct G as [G1 [G2 G3]]. unfold verify. rewrite G1, G2, G3. reflexivity. }
  specialize (V t (or_introl eq_refl) VF). unfold emitted_by in V. apply in_flat_map in V.
  destruct V as [o [Ho Hin]]. apply emitted_shape in Hin.
  destruct (shape_access _ _ _ Hin TY) as [t_r [r [idt [-> R]]]].
  apply in_split in Ho. destruct Ho as [pre1 [post1 ->]].
  destruct (release_origin _ _ _ _ _ _ _ VP R) as [t_a [u0 [a [c [IN [A [_ [_ [_ [_ [_ [_ ACT]]]]]]]]]]]].
  subst t. cbn in UN. inversion UN. subst u0.
  exists pre1, t_r, r, post1, idt, t_a, a. auto.
Qed.
