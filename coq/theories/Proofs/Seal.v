(* C09 — proofs about Model/Seal.v *)
From KM Require Import Base.Bytes Base.Tactics Model.Seal.
Open Scope N_scope.

(* ------------------------------------------------------------------ small facts *)
Lemma mem_app_r k l : mem k (l ++ [k]) = true.
Proof. unfold mem. rewrite existsb_app. simpl. rewrite N.eqb_refl. apply orb_true_iff. right. reflexivity. Qed.

Lemma mem_app_l k x l : mem k l = true -> mem k (l ++ [x]) = true.
Proof. unfold mem. rewrite existsb_app. intros ->. reflexivity. Qed.

Lemma mem_add_same k l : mem k (add_key k l) = true.
Proof. unfold add_key. destruct (mem k l) eqn:E; [exact E|apply mem_app_r]. Qed.

Lemma mem_add_other k x l : mem k l = true -> mem k (add_key x l) = true.
Proof. unfold add_key. intros H. destruct (mem x l); [exact H|apply mem_app_l; exact H]. Qed.

Lemma add_pubkeys_signer s k : signer s = Some k -> mem k (add_pubkeys s) = true.
Proof. unfold add_pubkeys. intros ->. apply mem_add_same. Qed.

Lemma add_pubkeys_ed s e : ed s = Some e -> is_some (signer s) = true -> mem e (add_pubkeys s) = true.
Proof.
  unfold add_pubkeys. intros -> H. destruct (signer s); [|discriminate].
  apply mem_add_other, mem_add_same.
Qed.

Lemma okey_eqb_refl a : okey_eqb a a = true.
Proof. destruct a; simpl; [apply N.eqb_refl|reflexivity]. Qed.

Lemma okey_eqb_eq a b : okey_eqb a b = true -> a = b.
Proof. destruct a, b; simpl; intros H; try discriminate; [apply N.eqb_eq in H; congruence|reflexivity]. Qed.

Lemma mem_In k l : mem k l = true -> In k l.
Proof. unfold mem. intros H. apply existsb_exists in H. destruct H as [x [Hx E]]. apply N.eqb_eq in E. subst. exact Hx. Qed.

(* ------------------------------------------------------------------ unsealCA = its body run alone *)
Lemma unseal_ca_body c s p :
  unseal_ca c s p =
  let '(s', t') := run_body c (unseal_body p) s (mk_thread []) in (s', negb (aborted t')).
Proof.
  destruct c as [rp mk mres rok edf xp]. unfold unseal_ca, unseal_body, run_body, exec, decrypt_ok, main_ok. simpl.
  destruct (signer s) as [k|] eqn:Es; simpl; [reflexivity|].
  destruct (bs_eqb p rp) eqn:Ep; simpl; [|reflexivity].
  destruct edf as [[[pe e] eres]|]; simpl.
  - destruct (bs_eqb p pe) eqn:Epe; simpl; [|reflexivity].
    destruct (file_ok eres); simpl; [|reflexivity].
    destruct (file_ok mres); simpl; [|reflexivity].
    destruct rok; simpl; reflexivity.
  - destruct (file_ok mres); simpl; [|reflexivity].
    destruct rok; simpl; reflexivity.
Qed.

(* ------------------------------------------------------------------ sealed: nothing signed *)
Lemma sealed_run s : signer s = None -> forall p acc,
  snd (run_handler s p acc) = acc /\
  (fst (run_handler s p acc) = Done -> reaches_signing p = false /\ ~ In HGuard p).
Proof.
  intros Hs. induction p as [|h r IH]; intros acc; simpl.
  - split; [reflexivity|]. intros _. split; [reflexivity|intros []].
  - destruct h as [|kd ck ue|stt]; simpl; rewrite ?Hs; simpl.
    + split; [reflexivity|discriminate].
    + split; [reflexivity|discriminate].
    + destruct (IH acc) as [A B]. split; [exact A|]. intros D. destruct (B D) as [B1 B2].
      split; [exact B1|]. intros [X|X]; [discriminate|contradiction].
Qed.

Lemma sealed_inert s p :
  signer s = None ->
  snd (run_handler s p []) = [] /\
  (reaches_signing p = true -> is_error (fst (run_handler s p [])) = true) /\
  (In HGuard p -> is_error (fst (run_handler s p [])) = true) /\
  readyz s = 503.
Proof.
  intros Hs. destruct (sealed_run s Hs p []) as [A B]. split; [exact A|]. split; [|split].
  - intros R. destruct (fst (run_handler s p [])); try reflexivity. destruct (B eq_refl) as [B1 _]. congruence.
  - intros G. destruct (fst (run_handler s p [])); try reflexivity. destruct (B eq_refl) as [_ B2]. contradiction.
  - unfold readyz. rewrite Hs. reflexivity.
Qed.

(* ------------------------------------------------------------------ only the right passphrase *)
Lemma unseal_ca_sealed_or c s p s' ok :
  unseal_ca c s p = (s', ok) ->
  signer s = None ->
  (s' = s /\ ok = false) \/
  (signer s' = Some (main_key c) /\ ok = true /\ p = right_pass c /\ main_ok c = true /\ role_ok c = true /\
   match ed_file c with Some (pe, _, r) => p = pe /\ file_ok r = true | None => True end).
Proof.
  unfold unseal_ca. intros H Hs. rewrite Hs in H. simpl in H.
  destruct (bs_eqb p (right_pass c)) eqn:Ep; simpl in H; [|inversion H; subst; auto].
  apply bs_eqb_eq in Ep.
  destruct (ed_file c) as [[[pe e] eres]|] eqn:Ee.
  - destruct (bs_eqb p pe) eqn:Epe; simpl in H; [|inversion H; subst; auto].
    apply bs_eqb_eq in Epe.
    destruct (file_ok eres) eqn:Er; simpl in H; [|inversion H; subst; auto].
    destruct (main_ok c); simpl in H; [|inversion H; subst; simpl; auto].
    destruct (role_ok c); simpl in H; inversion H; subst; simpl; auto 10.
  - destruct (main_ok c); simpl in H; [|inversion H; subst; simpl; auto].
    destruct (role_ok c); simpl in H; inversion H; subst; simpl; auto 10.
Qed.

(* the passphrase decrypts every configured key file and every file loads *)
Definition all_good_pre (c : cfg) (p : bs) : bool :=
  bs_eqb p (right_pass c) && main_ok c && role_ok c &&
  match ed_file c with Some (pe, _, r) => bs_eqb p pe && file_ok r | None => true end.

(* an unsealing attempt that returns an error leaves the state exactly as it was *)
Lemma unseal_ca_error_unchanged c s p : snd (unseal_ca c s p) = false -> fst (unseal_ca c s p) = s.
Proof.
  unfold unseal_ca.
  destruct (is_some (signer s)); simpl; [reflexivity|].
  destruct (bs_eqb p (right_pass c)); simpl; [|reflexivity].
  destruct (ed_file c) as [[[pe e] eres]|].
  - destruct (bs_eqb p pe); simpl; [|reflexivity].
    destruct (file_ok eres); simpl; [|reflexivity].
    destruct (main_ok c); simpl; [|reflexivity].
    destruct (role_ok c); simpl; [discriminate|reflexivity].
  - destruct (main_ok c); simpl; [|reflexivity].
    destruct (role_ok c); simpl; [discriminate|reflexivity].
Qed.

(* the auto-unseal path (tryAwsUnseal) hands the stored secret to unsealCA directly, without the
   TLS / client-certificate gate of the handler: it unseals only with the passphrase of the key file *)
Lemma auto_unseal_only_right_pass c s p :
  signer s = None -> signer (fst (unseal_ca c s p)) <> None ->
  snd (unseal_ca c s p) = true /\ all_good_pre c p = true /\ signer (fst (unseal_ca c s p)) = Some (main_key c).
Proof.
  intros Hs Hn. destruct (unseal_ca c s p) as [s' ok] eqn:E. simpl in *.
  destruct (unseal_ca_sealed_or _ _ _ _ _ E Hs) as [[A _]|[A [B [C [D [F G]]]]]]; [subst; congruence|].
  split; [exact B|]. split; [|exact A].
  unfold all_good_pre. subst p. rewrite bs_eqb_refl, D, F. simpl.
  destruct (ed_file c) as [[[pe e] r]|]; [|reflexivity]. destruct G as [G1 G2]. rewrite <- G1, bs_eqb_refl, G2. reflexivity.
Qed.

Lemma refused_unchanged c s r : snd (inject c s r) <> 200 -> fst (inject c s r) = s.
Proof.
  unfold inject, inject_with.
  destruct (i_tls r); simpl; [|reflexivity].
  destruct (i_chain r); simpl; [|reflexivity]. destruct (i_leaf r) as [leaf|]; simpl; [|reflexivity].
  destruct (i_field r) as [p|]; [|reflexivity].
  pose proof (unseal_ca_error_unchanged c s p) as H.
  destruct (unseal_ca c s p) as [s' ok]. simpl in *. destruct ok; [congruence|auto].
Qed.

Lemma refused_still_sealed c s r :
  signer s = None -> snd (inject c s r) <> 200 ->
  signer (fst (inject c s r)) = None /\ readyz (fst (inject c s r)) = 503 /\
  ready_sent (fst (inject c s r)) = ready_sent s /\ pubkeys (fst (inject c s r)) = pubkeys s.
Proof.
  intros Hs H. rewrite (refused_unchanged c s r H). unfold readyz. rewrite Hs. auto.
Qed.

(* which injections are answered 200 on a sealed server: exactly those that come over TLS with a
   verified chain, carry the passphrase of the main file, and find every configured key file
   decryptable with it and loadable *)
Definition all_good (c : cfg) (p : bs) : bool := all_good_pre c p.

Lemma accepted_iff c s r : signer s = None ->
  (snd (inject c s r) = 200 <->
   i_tls r = true /\ i_chain r = true /\ i_leaf r <> None /\ exists p, i_field r = Some p /\ all_good c p = true).
Proof.
  intros Hs. unfold inject, inject_with, all_good, all_good_pre.
  destruct (i_tls r); simpl; [|split; [discriminate|intros [X _]; discriminate]].
  destruct (i_chain r); simpl; [|split; [discriminate|intros [_ [X _]]; discriminate]].
  destruct (i_leaf r) as [leaf|]; simpl; [|split; [discriminate|intros [_ [_ [X _]]]; congruence]].
  destruct (i_field r) as [p|]; [|split; [discriminate|intros [_ [_ [_ [p [X _]]]]]; discriminate]].
  assert (L : Some leaf <> None) by discriminate.
  unfold unseal_ca. rewrite Hs. simpl.
  destruct (bs_eqb p (right_pass c)) eqn:Ep; simpl.
  2:{ split; [discriminate|]. intros [_ [_ [_ [p' [X Y]]]]]. inversion X; subst p'. rewrite Ep in Y. discriminate. }
  destruct (ed_file c) as [[[pe e] eres]|].
  - destruct (bs_eqb p pe) eqn:Epe; simpl.
    2:{ split; [discriminate|]. intros [_ [_ [_ [p' [X Y]]]]]. inversion X; subst p'. rewrite Ep, Epe in Y.
        destruct (main_ok c), (role_ok c); discriminate. }
    destruct (file_ok eres) eqn:Er; simpl.
    2:{ split; [discriminate|]. intros [_ [_ [_ [p' [X Y]]]]]. inversion X; subst p'. rewrite Ep, Epe in Y.
        destruct (main_ok c), (role_ok c); discriminate. }
    destruct (main_ok c); simpl.
    2:{ split; [discriminate|]. intros [_ [_ [_ [p' [X Y]]]]]. inversion X; subst p'. rewrite Ep in Y. discriminate. }
    destruct (role_ok c); simpl.
    + split; [intros _|reflexivity]. split; [reflexivity|]. split; [reflexivity|]. split; [exact L|]. exists p. rewrite Ep, Epe. auto.
    + split; [discriminate|]. intros [_ [_ [_ [p' [X Y]]]]]. inversion X; subst p'. rewrite Ep in Y. discriminate.
  - destruct (main_ok c); simpl.
    2:{ split; [discriminate|]. intros [_ [_ [_ [p' [X Y]]]]]. inversion X; subst p'. rewrite Ep in Y. discriminate. }
    destruct (role_ok c); simpl.
    + split; [intros _|reflexivity]. split; [reflexivity|]. split; [reflexivity|]. split; [exact L|]. exists p. rewrite Ep. auto.
    + split; [discriminate|]. intros [_ [_ [_ [p' [X Y]]]]]. inversion X; subst p'. rewrite Ep in Y. discriminate.
Qed.

(* before the repair a refused injection could change the state: main file holding an unusable key,
   Ed25519 file good, right passphrase -> 400, but Ed25519Signer set and a CA certificate appended *)
Definition old_cfg : cfg :=
  {| right_pass := [112]; main_key := 1; main_res := FWrongType; role_ok := true;
     ed_file := Some ([112], 2, FGood); extra_pubkeys := [] |}.
Lemma old_refused_changes_state :
  let r := admin_inj (Some [112]) in
  snd (inject_old old_cfg (sealed_init old_cfg) r) = 400 /\
  ed (fst (inject_old old_cfg (sealed_init old_cfg) r)) = Some 2 /\
  ca_ders (fst (inject_old old_cfg (sealed_init old_cfg) r)) = [2] /\
  fst (inject old_cfg (sealed_init old_cfg) r) = sealed_init old_cfg.
Proof. vm_compute. repeat split; reflexivity. Qed.

Lemma old_refused_changes_state_refuted :
  exists c s r, snd (inject_old c s r) <> 200 /\ fst (inject_old c s r) <> s /\ fst (inject c s r) = s.
Proof.
  exists old_cfg, (sealed_init old_cfg), (admin_inj (Some [112])).
  destruct old_refused_changes_state as [A [B [C D]]]. split; [rewrite A; discriminate|]. split; [|exact D].
  intros X. rewrite X in B. discriminate.
Qed.

Lemma only_right_pass_b c s r s' code :
  inject c s r = (s', code) -> signer s = None -> signer s' <> None ->
  i_tls r = true /\ i_chain r = true /\ i_leaf r <> None /\ i_field r = Some (right_pass c) /\ code = 200 /\
  signer s' = Some (main_key c).
Proof.
  unfold inject, inject_with. intros H Hs Hn.
  destruct (i_tls r); simpl in H; [|inversion H; subst; congruence].
  destruct (i_chain r); simpl in H; [|inversion H; subst; congruence]. destruct (i_leaf r) as [leaf|]; simpl in H; [|inversion H; subst; congruence].
  destruct (i_field r) as [p|]; [|inversion H; subst; congruence].
  destruct (unseal_ca c s p) as [s1 ok] eqn:E. inversion H; subst.
  destruct (unseal_ca_sealed_or _ _ _ _ _ E Hs) as [[A _]|[A [B [C _]]]]; [congruence|].
  subst. repeat split; auto. discriminate.
Qed.

(* the three tests of the handler, read on the connection record *)
Lemma verified_leaf_iff r leaf :
  (i_tls r = true /\ i_chain r = true /\ i_leaf r = Some leaf) <->
  exists cs rest chains, i_conn r = Some cs /\ verified_chains cs = (leaf :: rest) :: chains.
Proof.
  unfold i_tls, i_chain, i_leaf, i_chains. destruct (i_conn r) as [cs|]; simpl.
  - destruct (verified_chains cs) as [|[|l rest] chains] eqn:E; simpl.
    + split; [intros [_ [X _]]; discriminate|intros [cs' [rest [chains [A B]]]]; inversion A; subst; congruence].
    + split; [intros [_ [_ X]]; discriminate|intros [cs' [rest [chains' [A B]]]]; inversion A; subst; congruence].
    + split.
      * intros [_ [_ X]]. inversion X; subst. exists cs, rest, chains. auto.
      * intros [cs' [rest' [chains' [A B]]]]. inversion A; subst cs'. rewrite E in B. inversion B; subst. auto.
  - split; [intros [X _]; discriminate|intros [cs [rest [chains [A _]]]]; discriminate].
Qed.

(* the property, on the record: the signer appears only through a request whose connection state carries a
   verified chain with a leaf, and whose field is exactly the passphrase; what the peer merely presented
   plays no part *)
Lemma only_right_pass c s r s' code :
  inject c s r = (s', code) -> signer s = None -> signer s' <> None ->
  (exists cs leaf rest chains, i_conn r = Some cs /\ verified_chains cs = (leaf :: rest) :: chains) /\
  i_field r = Some (right_pass c) /\ code = 200 /\ signer s' = Some (main_key c).
Proof.
  intros H Hs Hn. destruct (only_right_pass_b c s r s' code H Hs Hn) as [A [B [C [D [E F]]]]].
  split; [|auto]. destruct (i_leaf r) as [leaf|] eqn:L; [|congruence].
  destruct (proj1 (verified_leaf_iff r leaf) (conj A (conj B L))) as [cs [rest [chains [X Y]]]].
  exists cs, leaf, rest, chains. auto.
Qed.

(* PeerCertificates is never consulted: two requests that differ only there are treated alike *)
Lemma presented_irrelevant c s cs pcs field :
  inject c s {| i_conn := Some {| peer_certs := pcs; verified_chains := verified_chains cs |}; i_field := field |} =
  inject c s {| i_conn := Some cs; i_field := field |}.
Proof. reflexivity. Qed.

(* no verified chain (whatever was presented): refused with 403, nothing changes *)
Lemma presented_only_refused c s r cs :
  i_conn r = Some cs -> verified_chains cs = [] -> inject c s r = (s, 403).
Proof. intros A B. unfold inject, inject_with, i_tls, i_chain, i_chains. rewrite A, B. reflexivity. Qed.

Lemma wrong_pass_unchanged c s r p :
  i_field r = Some p -> p <> right_pass c -> fst (inject c s r) = s /\ snd (inject c s r) <> 200.
Proof.
  unfold inject, inject_with. intros Hf Hp. rewrite Hf.
  destruct (i_tls r); simpl; [|split; [reflexivity|discriminate]].
  destruct (i_chain r); simpl; [|split; [reflexivity|discriminate]]. destruct (i_leaf r) as [leaf|]; simpl; [|split; [reflexivity|discriminate]].
  unfold unseal_ca. destruct (is_some (signer s)); simpl; [split; [reflexivity|discriminate]|].
  apply bs_eqb_neq in Hp. rewrite Hp. simpl. split; [reflexivity|discriminate].
Qed.

Lemma no_chain_unchanged c s r :
  i_tls r && i_chain r = false -> fst (inject c s r) = s /\ snd (inject c s r) <> 200.
Proof.
  unfold inject, inject_with. destruct (i_tls r); simpl; [|intros _; split; [reflexivity|discriminate]].
  intros ->. simpl. split; [reflexivity|discriminate].
Qed.

Lemma unsealed_stays c s r : signer s <> None -> fst (inject c s r) = s /\ snd (inject c s r) <> 200.
Proof.
  intros Hn. unfold inject, inject_with.
  destruct (i_tls r); simpl; [|split; [reflexivity|discriminate]].
  destruct (i_chain r); simpl; [|split; [reflexivity|discriminate]]. destruct (i_leaf r) as [leaf|]; simpl; [|split; [reflexivity|discriminate]].
  destruct (i_field r); simpl; [|split; [reflexivity|discriminate]].
  unfold unseal_ca. destruct (signer s); [|congruence]. simpl. split; [reflexivity|discriminate].
Qed.

(* ------------------------------------------------------------------ sequential invariant *)
(* Q: the state is at rest: unsealed only with complete material, one message sent iff unsealed *)
Definition Q (c : cfg) (s : state) : Prop :=
  (is_some (signer s) = true -> completeb c s = true) /\
  ready_sent s = (if is_some (signer s) then 1 else 0)%nat.

Lemma completeb_intro c s :
  signer s = Some (main_key c) -> mem (main_key c) (ca_ders s) = true -> role_ca s = Some (main_key c) ->
  mem (main_key c) (pubkeys s) = true ->
  match ed_file c with Some (_, e, _) => ed s = Some e /\ mem e (ca_ders s) = true /\ mem e (pubkeys s) = true | None => True end ->
  completeb c s = true.
Proof.
  intros A B C D E. unfold completeb. rewrite A, B, C, D. simpl. rewrite N.eqb_refl. simpl.
  destruct (ed_file c) as [[[pe e] eok]|]; [|reflexivity].
  destruct E as [E1 [E2 E3]]. rewrite E1, E2, E3. simpl. rewrite N.eqb_refl. reflexivity.
Qed.

Lemma Q_sealed c s : signer s = None -> ready_sent s = 0%nat -> Q c s.
Proof. intros A B. split; rewrite A; simpl; [discriminate|exact B]. Qed.

Lemma Q_sealed_inv c s : Q c s -> signer s = None -> ready_sent s = 0%nat.
Proof. intros [_ B] A. rewrite A in B. exact B. Qed.

Lemma unseal_ca_Q c s p : Q c s -> Q c (fst (unseal_ca c s p)).
Proof.
  intros HQ. unfold unseal_ca.
  destruct (signer s) as [k0|] eqn:Hs; simpl; [exact HQ|].
  pose proof (Q_sealed_inv c s HQ Hs) as Hr.
  destruct (bs_eqb p (right_pass c)); simpl; [|exact HQ].
  destruct (ed_file c) as [[[pe e] eres]|] eqn:Ee.
  - destruct (bs_eqb p pe); simpl; [|exact HQ].
    destruct (file_ok eres); simpl; [|exact HQ].
    destruct (main_ok c); simpl; [|exact HQ].
    destruct (role_ok c); simpl; [|exact HQ].
    split; simpl; [intros _|rewrite Hr; reflexivity].
    apply completeb_intro; simpl; auto using mem_app_r.
    + unfold add_pubkeys. simpl. apply mem_add_same.
    + rewrite Ee. split; [reflexivity|]. split; [apply mem_app_l, mem_app_r|].
      unfold add_pubkeys. simpl. apply mem_add_other, mem_add_same.
  - destruct (main_ok c); simpl; [|exact HQ].
    destruct (role_ok c); simpl; [|exact HQ].
    split; simpl; [intros _|rewrite Hr; reflexivity].
    apply completeb_intro; simpl; auto using mem_app_r.
    + unfold add_pubkeys. simpl. destruct (ed s); apply mem_add_same.
    + rewrite Ee. exact I.
Qed.

Lemma inject_Q c s r : Q c s -> Q c (fst (inject c s r)).
Proof.
  intros HQ. unfold inject, inject_with.
  destruct (i_tls r); simpl; [|exact HQ]. destruct (i_chain r); simpl; [|exact HQ]. destruct (i_leaf r) as [leaf|]; simpl; [|exact HQ].
  destruct (i_field r) as [p|]; [|exact HQ].
  pose proof (unseal_ca_Q c s p HQ) as H. destruct (unseal_ca c s p); exact H.
Qed.

Lemma sealed_init_Q c : Q c (sealed_init c).
Proof. split; simpl; [discriminate|reflexivity]. Qed.

Lemma inject_all_Q c l : forall s, Q c s -> Q c (inject_all c s l).
Proof. induction l as [|r l IH]; intros s H; simpl; [exact H|]. apply IH, inject_Q, H. Qed.

(* the signer, once set, is never replaced; the number of successful injections is at most one *)
Fixpoint count200 (l : list (N * N * (bool * bool * nat * nat * nat * bool))) : nat :=
  match l with [] => O | (code, _, _) :: r => ((if (code =? 200)%N then 1 else 0) + count200 r)%nat end.

Lemma inject_200_iff c s r : signer s = None ->
  (snd (inject c s r) = 200 <-> signer (fst (inject c s r)) <> None).
Proof.
  intros Hs. unfold inject, inject_with.
  destruct (i_tls r); simpl; [|split; [discriminate|congruence]].
  destruct (i_chain r); simpl; [|split; [discriminate|congruence]]. destruct (i_leaf r) as [leaf|]; simpl; [|split; [discriminate|congruence]].
  destruct (i_field r) as [p|]; simpl; [|split; [discriminate|congruence]].
  destruct (unseal_ca c s p) as [s' ok] eqn:E. simpl.
  destruct (unseal_ca_sealed_or _ _ _ _ _ E Hs) as [[A B]|[A [B _]]]; subst; [rewrite Hs|rewrite A]; split; congruence.
Qed.

Lemma once_unsealed c l : forall s, signer s <> None -> count200 (inject_run c s l) = O.
Proof.
  induction l as [|r l IH]; intros s Hn; simpl; [reflexivity|].
  destruct (unsealed_stays c s r Hn) as [A B].
  destruct (inject c s r) as [s' code] eqn:E. simpl in *. subst s'.
  rewrite (IH s Hn). destruct (code =? 200) eqn:E2; [apply N.eqb_eq in E2; congruence|reflexivity].
Qed.

Lemma once_seq c l : forall s, signer s = None ->
  (count200 (inject_run c s l) <= 1)%nat /\
  (count200 (inject_run c s l) = 1%nat <-> signer (inject_all c s l) <> None).
Proof.
  induction l as [|r l IH]; intros s Hs; simpl.
  - split; [lia|]. split; [discriminate|congruence].
  - pose proof (inject_200_iff c s r Hs) as I2.
    destruct (inject c s r) as [s' code] eqn:E. simpl in *.
    destruct (signer s') as [k|] eqn:Es'.
    + assert (C : code = 200) by (apply I2; congruence). subst code. simpl.
      assert (Hn : signer s' <> None) by congruence.
      rewrite (once_unsealed c l s' Hn). split; [lia|]. split; [intros _|reflexivity].
      clear - Hn. revert s' Hn. induction l as [|r l IH]; intros s' Hn; simpl; [exact Hn|].
      destruct (unsealed_stays c s' r Hn) as [A _]. rewrite A. apply IH, Hn.
    + assert (C : code <> 200) by (intros X; apply I2 in X; congruence).
      apply N.eqb_neq in C. rewrite C. simpl. apply IH, Es'.
Qed.

(* ------------------------------------------------------------------ published keys *)
Lemma run_handler_keys s p : forall acc kd k ck,
  In (kd, k, ck) (snd (run_handler s p acc)) ->
  In (kd, k, ck) acc \/ (signer s <> None /\ (signer s = Some k \/ ed s = Some k)).
Proof.
  induction p as [|h r IH]; intros acc kd k ck H; simpl in H; [left; exact H|].
  destruct h as [|kd' ck' ue|stt].
  - destruct (is_some (signer s)); [apply IH, H|left; exact H].
  - destruct (signer s) as [k0|] eqn:Es; [|left; exact H].
    destruct ue.
    + destruct (ed s) as [e|] eqn:Ee; [|left; exact H].
      apply IH in H. destruct H as [H|H]; [|right; exact H].
      apply in_app_or in H. destruct H as [H|[H|[]]]; [left; exact H|].
      inversion H; subst. right. split; [congruence|right; reflexivity].
    + apply IH in H. destruct H as [H|H]; [|right; exact H].
      apply in_app_or in H. destruct H as [H|[H|[]]]; [left; exact H|].
      inversion H; subst. right. split; [congruence|left; reflexivity].
  - apply IH, H.
Qed.

Lemma completeb_elim c s : completeb c s = true ->
  signer s = Some (main_key c) /\ mem (main_key c) (ca_ders s) = true /\ mem (main_key c) (pubkeys s) = true /\
  forall e, ed s = Some e -> mem e (ca_ders s) = true /\ mem e (pubkeys s) = true \/ ed_file c = None.
Proof.
  unfold completeb. intros H.
  repeat (apply andb_true_iff in H; destruct H as [H ?]).
  apply okey_eqb_eq in H. split; [exact H|]. split; [assumption|]. split; [assumption|].
  intros e He. destruct (ed_file c) as [[[pe e'] eok]|]; [|right; reflexivity].
  left. rename H0 into X. repeat (apply andb_true_iff in X; destruct X as [X ?]).
  apply okey_eqb_eq in X. rewrite He in X. inversion X; subst. split; assumption.
Qed.

(* ------------------------------------------------------------------ interleavings *)
Lemma nth_error_upd_same {A} (l : list A) : forall i x t, nth_error l i = Some t -> nth_error (upd l i x) i = Some x.
Proof. induction l as [|y l IH]; intros [|i] x t H; simpl in *; try discriminate; [reflexivity|eapply IH; eauto]. Qed.

Lemma nth_error_upd_other {A} (l : list A) : forall i j x, i <> j -> nth_error (upd l i x) j = nth_error l j.
Proof.
  induction l as [|y l IH]; intros [|i] [|j] x H; simpl; try reflexivity; try congruence.
  apply IH. congruence.
Qed.

Lemma onat_eqb_true a b : onat_eqb a b = true <-> a = Some b.
Proof.
  destruct a as [x|]; simpl; [|split; discriminate].
  rewrite Nat.eqb_eq. split; congruence.
Qed.

Arguments onat_eqb : simpl never.

Definition inj_tail (p : bs) (n : nat) : list act := skipn (13 - n) (unseal_body p ++ [AUnlock]).

Definition edca c s := match ed_file c with Some (_, e, _) => mem e (ca_ders s) = true | None => True end.
Definition eded c s := match ed_file c with Some (_, e, _) => ed s = Some e | None => True end.

(* what holds while a not-aborted unsealCA has n actions left (13 = just locked, 1 = only Unlock left);
   NS = no request has read a non-nil signer.  Every action that can fail (Test, Decrypt, LoadEd,
   CheckMain, CheckRole: 13..9 left) comes before the first assignment (SetCaEd: 8 left). *)
Definition phase (c : cfg) (n : nat) (s : state) (NS : Prop) : Prop :=
  (n = 13 -> Q c s)%nat /\
  (3 <= n <= 12 -> NS)%nat /\
  (4 <= n <= 12 -> signer s = None /\ ready_sent s = 0)%nat /\
  (n <= 7 -> edca c s)%nat /\ (n <= 6 -> eded c s)%nat /\
  (n <= 5 -> role_ca s = Some (main_key c))%nat /\
  (n <= 4 -> mem (main_key c) (ca_ders s) = true)%nat /\
  (n <= 3 -> signer s = Some (main_key c))%nat /\
  (2 <= n <= 3 -> ready_sent s = 0)%nat /\
  (n <= 2 -> completeb c s = true)%nat /\
  (n = 1 -> ready_sent s = 1)%nat.

Definition idle (t : thread) : Prop :=
  (exists p, prog t = unseal_prog p /\ aborted t = false) \/
  (exists m, prog t = request_prog m /\ aborted t = false /\ saw t = None) \/
  (exists m, prog t = repeat AUse m).

Definition holder_ok (c : cfg) (s : state) (NS : Prop) (t : thread) : Prop :=
  (exists p n, (1 <= n <= 13)%nat /\ prog t = inj_tail p n /\ (if aborted t then Q c s else phase c n s NS)) \/
  (exists m, prog t = AReadSigner :: AUnlock :: repeat AUse m /\ aborted t = false /\ saw t = None /\ Q c s) \/
  (exists m, prog t = AUnlock :: repeat AUse m /\ aborted t = false /\ Q c s).

Definition nosaw (w : world) : Prop := forall j t, nth_error (threads w) j = Some t -> saw t = None.

Record Inv (c : cfg) (w : world) : Prop := {
  inv_G : forall j t k, nth_error (threads w) j = Some t -> saw t = Some k ->
          signer (st w) = Some k /\ completeb c (st w) = true;
  inv_obs : forall j t, nth_error (threads w) j = Some t -> Forall (fun b => b = true) (obs t);
  inv_tr : transitions w = if is_some (signer (st w)) then 1%nat else 0%nat;
  inv_free : lock w = None -> Q c (st w);
  inv_thr : forall j t, nth_error (threads w) j = Some t ->
            if onat_eqb (lock w) j then holder_ok c (st w) (nosaw w) t else idle t;
  inv_holder : forall h, lock w = Some h -> exists t, nth_error (threads w) h = Some t
}.

Lemma phase_mono c n s (A B : Prop) : (A -> B) -> phase c n s A -> phase c n s B.
Proof. unfold phase. intros H P. intuition. Qed.

Lemma holder_ok_mono c s (A B : Prop) t : (A -> B) -> holder_ok c s A t -> holder_ok c s B t.
Proof.
  intros H [[p [n [Hn [Hp Hc]]]]|[X|X]]; [left|right; left; exact X|right; right; exact X].
  exists p, n. split; [exact Hn|]. split; [exact Hp|].
  destruct (aborted t); [exact Hc|eapply phase_mono; eauto].
Qed.

(* signer is written by ASetSigner only *)
Lemma exec_signer c a s t : a <> ASetSigner -> signer (fst (exec c a s t)) = signer s.
Proof.
  intros H. destruct a; simpl; try reflexivity; try congruence.
  - destruct (is_some (signer s)); reflexivity.
  - destruct (decrypt_ok c p); reflexivity.
  - destruct (ed_file c) as [[[? ?] r]|]; [destruct (file_ok r)|]; reflexivity.
  - destruct (main_ok c); reflexivity.
  - destruct (role_ok c); reflexivity.
  - destruct (ed_file c) as [[[? ?] ?]|]; reflexivity.
  - destruct (ed_file c) as [[[? ?] ?]|]; reflexivity.
  - destruct (saw t); reflexivity.
Qed.

Lemma Q_ready_le c s : Q c s -> (ready_sent s <= 1)%nat.
Proof. intros [_ H]. rewrite H. destruct (is_some (signer s)); lia. Qed.

(* a generic way to re-establish the invariant after thread i was replaced by t' *)
Lemma Inv_upd c w i t s' l' t' tr' :
  Inv c w ->
  nth_error (threads w) i = Some t ->
  (forall j tj k, j <> i -> nth_error (threads w) j = Some tj -> saw tj = Some k ->
                  signer s' = Some k /\ completeb c s' = true) ->
  (forall k, saw t' = Some k -> signer s' = Some k /\ completeb c s' = true) ->
  Forall (fun b => b = true) (obs t') ->
  tr' = (if is_some (signer s') then 1%nat else 0%nat) ->
  (l' = None -> Q c s') ->
  (forall h, l' = Some h -> h = i \/ lock w = Some h) ->
  (forall w', w' = {| st := s'; lock := l'; threads := upd (threads w) i t'; transitions := tr' |} ->
     (forall j tj, j <> i -> nth_error (threads w) j = Some tj ->
                   if onat_eqb l' j then holder_ok c s' (nosaw w') tj else idle tj) /\
     (if onat_eqb l' i then holder_ok c s' (nosaw w') t' else idle t')) ->
  Inv c {| st := s'; lock := l'; threads := upd (threads w) i t'; transitions := tr' |}.
Proof.
  intros HI Ei HG HGi Hobs Htr Hfree Hh Hthr.
  destruct (Hthr _ eq_refl) as [Hoth Hme].
  constructor; simpl.
  - intros j tj k Hj Hs. destruct (Nat.eq_dec i j) as [->|Ne].
    + rewrite (nth_error_upd_same _ _ _ _ Ei) in Hj. inversion Hj; subst. apply HGi, Hs.
    + rewrite nth_error_upd_other in Hj by exact Ne. eapply HG; eauto.
  - intros j tj Hj. destruct (Nat.eq_dec i j) as [->|Ne].
    + rewrite (nth_error_upd_same _ _ _ _ Ei) in Hj. inversion Hj; subst. exact Hobs.
    + rewrite nth_error_upd_other in Hj by exact Ne. eapply (inv_obs _ _ HI); eauto.
  - exact Htr.
  - exact Hfree.
  - intros j tj Hj. destruct (Nat.eq_dec i j) as [->|Ne].
    + rewrite (nth_error_upd_same _ _ _ _ Ei) in Hj. inversion Hj; subst. exact Hme.
    + rewrite nth_error_upd_other in Hj by exact Ne. apply Hoth; auto.
  - intros h Hl. destruct (Nat.eq_dec i h) as [->|Ne].
    + eexists. eapply nth_error_upd_same; eauto.
    + rewrite nth_error_upd_other by exact Ne. destruct (Hh _ Hl) as [X|X]; [congruence|].
      eapply (inv_holder _ _ HI); eauto.
Qed.

Lemma others_idle c w i : Inv c w -> (lock w = Some i \/ lock w = None) ->
  forall j tj, j <> i -> nth_error (threads w) j = Some tj -> idle tj.
Proof.
  intros HI Hl j tj Ne Hj. pose proof (inv_thr _ _ HI j tj Hj) as H.
  destruct (onat_eqb (lock w) j) eqn:E; [|exact H].
  apply onat_eqb_true in E. destruct Hl as [Hl|Hl]; rewrite Hl in E; congruence.
Qed.

Lemma nosaw_upd w i t t' s' l' tr' :
  nth_error (threads w) i = Some t -> saw t' = saw t -> nosaw w ->
  nosaw {| st := s'; lock := l'; threads := upd (threads w) i t'; transitions := tr' |}.
Proof.
  intros Ei Hs H j tj Hj. simpl in Hj. destruct (Nat.eq_dec i j) as [->|Ne].
  - rewrite (nth_error_upd_same _ _ _ _ Ei) in Hj. inversion Hj; subst. rewrite Hs. eapply H; eauto.
  - rewrite nth_error_upd_other in Hj by exact Ne. eapply H; eauto.
Qed.

Lemma onat_eqb_refl i : onat_eqb (Some i) i = true.
Proof. unfold onat_eqb. apply Nat.eqb_refl. Qed.

Lemma onat_eqb_neq i j : j <> i -> onat_eqb (Some i) j = false.
Proof. unfold onat_eqb. intros H. apply Nat.eqb_neq. congruence. Qed.

Ltac phase_split := unfold phase; repeat match goal with |- (_ -> _) /\ _ => split end; intros.
Ltac neqb := match goal with |- context[Nat.eqb ?a ?b] => rewrite (proj2 (Nat.eqb_neq a b)) by congruence end.

(* a thread that does not hold the lock makes a step *)
Lemma step_idle c w i t a r :
  Inv c w -> nth_error (threads w) i = Some t -> prog t = a :: r -> onat_eqb (lock w) i = false ->
  Inv c (step c w i).
Proof.
  intros HI Ei Ep Eh. pose proof (inv_thr _ _ HI i t Ei) as Hi. rewrite Eh in Hi.
  unfold step. rewrite Ei, Ep.
  destruct Hi as [[p [Hp Ha]]|[[m [Hp [Ha Hs]]]|[m Hp]]]; rewrite Hp in Ep.
  - (* unsealCA about to lock *)
    unfold unseal_prog in Ep. inversion Ep; subst a r. clear Ep.
    destruct (lock w) as [h|] eqn:El; [exact HI|].
    eapply Inv_upd; [exact HI|exact Ei| | | | | | | ]; simpl.
    + intros j tj k Ne Hj Hk. eapply (inv_G _ _ HI); eauto.
    + intros k Hk. eapply (inv_G _ _ HI); eauto.
    + eapply (inv_obs _ _ HI); eauto.
    + apply (inv_tr _ _ HI).
    + discriminate.
    + intros h Hh. inversion Hh. left. reflexivity.
    + intros w' Hw'. split.
      * intros j tj Ne Hj. rewrite onat_eqb_neq by congruence. eapply others_idle; eauto.
      * rewrite onat_eqb_refl. left. exists p, 13%nat. split; [lia|]. split; [reflexivity|]. simpl. rewrite Ha.
        pose proof (inv_free _ _ HI El). phase_split; try lia; assumption.
  - (* request about to lock *)
    unfold request_prog in Ep. simpl in Ep. inversion Ep; subst a r. clear Ep.
    destruct (lock w) as [h|] eqn:El; [exact HI|].
    eapply Inv_upd; [exact HI|exact Ei| | | | | | | ]; simpl.
    + intros j tj k Ne Hj Hk. eapply (inv_G _ _ HI); eauto.
    + intros k Hk. congruence.
    + eapply (inv_obs _ _ HI); eauto.
    + apply (inv_tr _ _ HI).
    + discriminate.
    + intros h Hh. inversion Hh. left. reflexivity.
    + intros w' Hw'. split.
      * intros j tj Ne Hj. rewrite onat_eqb_neq by congruence. eapply others_idle; eauto.
      * rewrite onat_eqb_refl. right. left. exists m. simpl. split; [reflexivity|]. split; [exact Ha|]. split; [exact Hs|]. apply (inv_free _ _ HI El).
  - (* request body: unlocked uses *)
    destruct m as [|m]; simpl in Ep; [discriminate|]. inversion Ep; subst a r. clear Ep.
    assert (Hoth : forall tr' t', saw t' = saw t ->
       forall w', w' = {| st := st w; lock := lock w; threads := upd (threads w) i t'; transitions := tr' |} ->
       forall j tj, j <> i -> nth_error (threads w) j = Some tj ->
       if onat_eqb (lock w) j then holder_ok c (st w) (nosaw w') tj else idle tj).
    { intros tr' t' Hsaw w' Hw' j tj Ne Hj. pose proof (inv_thr _ _ HI j tj Hj) as H.
      destruct (onat_eqb (lock w) j); [|exact H].
      eapply holder_ok_mono; [|exact H]. intros NS. subst w'. eapply nosaw_upd; eauto. }
    destruct (aborted t) eqn:Ea.
    + eapply Inv_upd; [exact HI|exact Ei| | | | | | | ]; simpl.
      * intros j tj k Ne Hj Hk. eapply (inv_G _ _ HI); eauto.
      * intros k Hk. eapply (inv_G _ _ HI); eauto.
      * eapply (inv_obs _ _ HI); eauto.
      * apply (inv_tr _ _ HI).
      * apply (inv_free _ _ HI).
      * intros h Hh. right. exact Hh.
      * intros w' Hw'. split; [eapply Hoth; [|exact Hw']; simpl; first [reflexivity|assumption]|]. rewrite Eh. right. right. exists m. reflexivity.
    + simpl. destruct (saw t) as [k|] eqn:Es; simpl.
      * destruct (inv_G _ _ HI i t k Ei Es) as [G1 G2].
        rewrite okey_eqb_refl.
        eapply Inv_upd; [exact HI|exact Ei| | | | | | | ]; simpl.
        -- intros j tj k' Ne Hj Hk. eapply (inv_G _ _ HI); eauto.
        -- intros k' Hk. rewrite Es in Hk. inversion Hk; subst. auto.
        -- constructor; [rewrite G2, G1; simpl; apply N.eqb_refl|eapply (inv_obs _ _ HI); eauto].
        -- apply (inv_tr _ _ HI).
        -- apply (inv_free _ _ HI).
        -- intros h Hh. right. exact Hh.
        -- intros w' Hw'. split; [eapply Hoth; [|exact Hw']; simpl; first [reflexivity|assumption]|]. rewrite Eh. right. right. exists m. reflexivity.
      * rewrite okey_eqb_refl.
        eapply Inv_upd; [exact HI|exact Ei| | | | | | | ]; simpl.
        -- intros j tj k' Ne Hj Hk. eapply (inv_G _ _ HI); eauto.
        -- intros k' Hk. congruence.
        -- eapply (inv_obs _ _ HI); eauto.
        -- apply (inv_tr _ _ HI).
        -- apply (inv_free _ _ HI).
        -- intros h Hh. right. exact Hh.
        -- intros w' Hw'. split; [eapply Hoth; [|exact Hw']; simpl; first [reflexivity|assumption]|]. rewrite Eh. right. right. exists m. reflexivity.
Qed.

Lemma nosaw_of_sealed c w : Inv c w -> signer (st w) = None -> nosaw w.
Proof.
  intros HI Hs j tj Hj. destruct (saw tj) as [k|] eqn:E; [|reflexivity].
  destruct (inv_G _ _ HI j tj k Hj E) as [A _]. congruence.
Qed.

Lemma holder_step c w i t s' t' l' tr' :
  Inv c w -> nth_error (threads w) i = Some t -> lock w = Some i ->
  obs t' = obs t ->
  (forall k, saw t' = Some k -> signer s' = Some k /\ completeb c s' = true) ->
  ((signer s' = signer (st w) /\ completeb c s' = completeb c (st w)) \/ nosaw w) ->
  tr' = (if is_some (signer s') then 1 else 0)%nat ->
  ((l' = Some i /\ holder_ok c s' (nosaw w /\ saw t' = saw t) t') \/ (l' = None /\ Q c s' /\ idle t')) ->
  Inv c {| st := s'; lock := l'; threads := upd (threads w) i t'; transitions := tr' |}.
Proof.
  intros HI Ei El Hobs HGi HG Htr Hl.
  eapply Inv_upd; [exact HI|exact Ei| | | | | | | ].
  - intros j tj k Ne Hj Hk. destruct HG as [[A B]|NS].
    + rewrite A, B. eapply (inv_G _ _ HI); eauto.
    + rewrite (NS j tj Hj) in Hk. discriminate.
  - exact HGi.
  - rewrite Hobs. eapply (inv_obs _ _ HI); eauto.
  - exact Htr.
  - intros E. destruct Hl as [[A _]|[_ [B _]]]; [congruence|exact B].
  - intros h Hh. destruct Hl as [[A _]|[A _]]; [left; congruence|congruence].
  - intros w' Hw'. split.
    + intros j tj Ne Hj.
      assert (Hidle : idle tj) by (eapply others_idle; eauto).
      destruct Hl as [[A _]|[A _]]; subst l'; simpl; [rewrite onat_eqb_neq by congruence|]; exact Hidle.
    + destruct Hl as [[A B]|[A [_ B]]]; subst l'; simpl; [rewrite onat_eqb_refl|exact B].
      eapply holder_ok_mono; [|exact B]. intros [NS Hsaw]. subst w'. eapply nosaw_upd; eauto.
Qed.

Ltac use_phase P :=
  unfold phase in P;
  destruct P as (P12 & PNS & Psealed & Pedca & Peded & Prole & Pmainca & Psigner & Pr0 & Pcomplete & Pr1);
  try specialize (P12 ltac:(lia)); try specialize (PNS ltac:(lia)); try specialize (Psealed ltac:(lia));
  try specialize (Pedca ltac:(lia)); try specialize (Peded ltac:(lia)); try specialize (Prole ltac:(lia));
  try specialize (Pmainca ltac:(lia)); try specialize (Psigner ltac:(lia)); try specialize (Pr0 ltac:(lia));
  try specialize (Pcomplete ltac:(lia)); try specialize (Pr1 ltac:(lia)).

Lemma Q_of_unsealed c s : signer s = Some (main_key c) -> completeb c s = true -> ready_sent s = 1%nat -> Q c s.
Proof. intros A B C. split; rewrite A; simpl; auto. Qed.

Lemma edca_app c s x : edca c s -> edca c (set_ca_ders s (ca_ders s ++ [x])).
Proof. unfold edca. destruct (ed_file c) as [[[? e] ?]|]; simpl; [apply mem_app_l|auto]. Qed.

(* the thread holding the lock makes a step *)
Ltac hs HI Ei Eh := eapply holder_step; [exact HI|exact Ei|exact Eh|reflexivity| | | | ]; simpl.
Ltac gme_ns PNS i t Ei := let k := fresh "k" in let Hk := fresh "Hk" in
  intros k Hk; rewrite (PNS i t Ei) in Hk; discriminate.
Ltac inj_next p n := left; split; [reflexivity|]; left; exists p, n; split; [lia|]; split; [reflexivity|]; simpl.
Ltac ed_cases := unfold edca, eded in *; destruct (ed_file _) as [[[? ?] ?]|]; simpl; auto.

Lemma step_holder c w i t a r :
  Inv c w -> nth_error (threads w) i = Some t -> prog t = a :: r -> onat_eqb (lock w) i = true ->
  Inv c (step c w i).
Proof.
  intros HI Ei Ep Eh. pose proof (inv_thr _ _ HI i t Ei) as Hi. rewrite Eh in Hi.
  apply onat_eqb_true in Eh. pose proof (inv_tr _ _ HI) as Htr.
  unfold step. rewrite Ei, Ep, Eh.
  destruct Hi as [[p [n [Hn [Hp Hc]]]]|[[m [Hp [Ha [Hs HQ]]]]|[m [Hp [Ha HQ]]]]]; rewrite Hp in Ep.
  - (* unsealCA *)
    assert (Hcases : (n = 1 \/ n = 2 \/ n = 3 \/ n = 4 \/ n = 5 \/ n = 6 \/ n = 7 \/ n = 8 \/ n = 9 \/ n = 10 \/ n = 11 \/ n = 12 \/ n = 13)%nat) by lia.
    assert (Hab : forall n', (2 <= n' <= 13)%nat -> n = n' -> aborted t = true ->
              Inv c {| st := st w; lock := Some i; threads := upd (threads w) i (with_prog t (inj_tail p (n' - 1))); transitions := transitions w |}).
    { intros n' Hn' -> Ea. rewrite Ea in Hc. hs HI Ei Eh.
      - intros k Hk. eapply (inv_G _ _ HI); eauto.
      - left. split; reflexivity.
      - exact Htr.
      - inj_next p (n' - 1)%nat. rewrite Ea. exact Hc. }
    unfold inj_tail, unseal_body in Ep. simpl in Ep.
    destruct Hcases as [H|[H|[H|[H|[H|[H|[H|[H|[H|[H|[H|[H|H]]]]]]]]]]]]; subst n; simpl in Ep; inversion Ep; subst a r; clear Ep.
    + (* Unlock *)
      simpl. rewrite onat_eqb_refl.
      hs HI Ei Eh.
      * intros k Hk. eapply (inv_G _ _ HI); eauto.
      * left. split; reflexivity.
      * exact Htr.
      * right. split; [reflexivity|]. split; [|right; right; exists 0%nat; reflexivity].
        destruct (aborted t); [exact Hc|]. use_phase Hc. apply Q_of_unsealed; auto.
    + (* SendReady *)
      destruct (aborted t) eqn:Ea; [apply (Hab 2%nat); auto; lia|]. simpl. rewrite okey_eqb_refl.
      use_phase Hc.
      hs HI Ei Eh.
      * intros k Hk. destruct (inv_G _ _ HI i t k Ei Hk). auto.
      * left. split; reflexivity.
      * exact Htr.
      * inj_next p 1%nat. rewrite Ea.
        phase_split; try lia; simpl; auto.
    + (* SetPubkeys *)
      destruct (aborted t) eqn:Ea; [apply (Hab 3%nat); auto; lia|]. simpl. rewrite okey_eqb_refl.
      use_phase Hc.
      hs HI Ei Eh.
      * gme_ns PNS i t Ei.
      * right. exact PNS.
      * exact Htr.
      * inj_next p 2%nat. rewrite Ea.
        phase_split; try lia; simpl; auto.
        apply completeb_intro; simpl; auto.
        -- apply add_pubkeys_signer; auto.
        -- unfold edca, eded in *. destruct (ed_file c) as [[[? e] ?]|]; simpl; auto.
           split; [auto|]. split; [auto|]. apply add_pubkeys_ed; auto. rewrite Psigner. reflexivity.
    + (* SetSigner *)
      destruct (aborted t) eqn:Ea; [apply (Hab 4%nat); auto; lia|]. simpl.
      use_phase Hc. destruct Psealed as [Ps Pr]. rewrite Ps. simpl.
      hs HI Ei Eh.
      * gme_ns PNS i t Ei.
      * right. exact PNS.
      * rewrite Htr, Ps. reflexivity.
      * inj_next p 3%nat. rewrite Ea.
        phase_split; try lia; simpl; auto.
    + (* SetCa *)
      destruct (aborted t) eqn:Ea; [apply (Hab 5%nat); auto; lia|]. simpl. rewrite okey_eqb_refl.
      use_phase Hc. destruct Psealed as [Ps Pr].
      hs HI Ei Eh.
      * gme_ns PNS i t Ei.
      * right. exact PNS.
      * exact Htr.
      * inj_next p 4%nat. rewrite Ea.
        phase_split; try lia; simpl; auto.
        -- apply edca_app; auto.
        -- apply mem_app_r.
    + (* SetRoleCa *)
      destruct (aborted t) eqn:Ea; [apply (Hab 6%nat); auto; lia|]. simpl. rewrite okey_eqb_refl.
      use_phase Hc. destruct Psealed as [Ps Pr].
      hs HI Ei Eh.
      * gme_ns PNS i t Ei.
      * right. exact PNS.
      * exact Htr.
      * inj_next p 5%nat. rewrite Ea.
        phase_split; try lia; simpl; auto.
    + (* SetEd *)
      destruct (aborted t) eqn:Ea; [apply (Hab 7%nat); auto; lia|]. simpl.
      use_phase Hc. destruct Psealed as [Ps Pr].
      destruct (match ed_file c with Some (_, e, _) => (set_ed (st w) (Some e), t) | None => (st w, t) end) as [s' t'] eqn:Ex.
      assert (X : t' = t /\ signer s' = None /\ ready_sent s' = 0%nat /\ edca c s' /\ eded c s').
      { unfold edca, eded in *. destruct (ed_file c) as [[[? e] ?]|]; inversion Ex; subst; simpl; auto. }
      destruct X as [-> [X1 [X2 [X3 X4]]]]. rewrite Ps, X1. simpl.
      hs HI Ei Eh.
      * gme_ns PNS i t Ei.
      * right. exact PNS.
      * rewrite X1, Htr, Ps. reflexivity.
      * inj_next p 6%nat. rewrite Ea.
        phase_split; try lia; simpl; auto.
    + (* SetCaEd *)
      destruct (aborted t) eqn:Ea; [apply (Hab 8%nat); auto; lia|]. simpl.
      use_phase Hc. destruct Psealed as [Ps Pr].
      destruct (match ed_file c with Some (_, e, _) => (set_ca_ders (st w) (ca_ders (st w) ++ [e]), t) | None => (st w, t) end) as [s' t'] eqn:Ex.
      assert (X : t' = t /\ signer s' = None /\ ready_sent s' = 0%nat /\ edca c s').
      { unfold edca in *. destruct (ed_file c) as [[[? e] ?]|]; inversion Ex; subst; simpl; auto using mem_app_r. }
      destruct X as [-> [X1 [X2 X3]]]. rewrite Ps, X1. simpl.
      hs HI Ei Eh.
      * gme_ns PNS i t Ei.
      * right. exact PNS.
      * rewrite X1, Htr, Ps. reflexivity.
      * inj_next p 7%nat. rewrite Ea.
        phase_split; try lia; simpl; auto.
    + (* CheckRole *)
      destruct (aborted t) eqn:Ea; [apply (Hab 9%nat); auto; lia|]. simpl.
      use_phase Hc. destruct Psealed as [Ps Pr].
      destruct (role_ok c) eqn:Er; simpl; rewrite okey_eqb_refl.
      * hs HI Ei Eh.
        -- gme_ns PNS i t Ei.
        -- right. exact PNS.
        -- exact Htr.
        -- inj_next p 8%nat. rewrite Ea.
           phase_split; try lia; simpl; auto.
      * hs HI Ei Eh.
        -- gme_ns PNS i t Ei.
        -- right. exact PNS.
        -- exact Htr.
        -- inj_next p 8%nat. apply Q_sealed; simpl; auto.
    + (* CheckMain *)
      destruct (aborted t) eqn:Ea; [apply (Hab 10%nat); auto; lia|]. simpl.
      use_phase Hc. destruct Psealed as [Ps Pr].
      destruct (main_ok c) eqn:Em; simpl; rewrite okey_eqb_refl.
      * hs HI Ei Eh.
        -- gme_ns PNS i t Ei.
        -- right. exact PNS.
        -- exact Htr.
        -- inj_next p 9%nat. rewrite Ea.
           phase_split; try lia; simpl; auto.
      * hs HI Ei Eh.
        -- gme_ns PNS i t Ei.
        -- right. exact PNS.
        -- exact Htr.
        -- inj_next p 9%nat. apply Q_sealed; simpl; auto.
    + (* LoadEd *)
      destruct (aborted t) eqn:Ea; [apply (Hab 11%nat); auto; lia|]. simpl.
      use_phase Hc. destruct Psealed as [Ps Pr].
      destruct (match ed_file c with Some (_, _, r) => if file_ok r then (st w, t) else (st w, abort t) | None => (st w, t) end) as [s' t'] eqn:Ex.
      assert (X : s' = st w /\ (t' = t \/ t' = abort t)) by (destruct (ed_file c) as [[[? ?] r0]|]; [destruct (file_ok r0)|]; inversion Ex; auto).
      destruct X as [-> X]. rewrite okey_eqb_refl.
      destruct X as [->| ->].
      * hs HI Ei Eh.
        -- gme_ns PNS i t Ei.
        -- right. exact PNS.
        -- exact Htr.
        -- inj_next p 10%nat. rewrite Ea. phase_split; try lia; simpl; auto.
      * hs HI Ei Eh.
        -- gme_ns PNS i t Ei.
        -- right. exact PNS.
        -- exact Htr.
        -- inj_next p 10%nat. apply Q_sealed; auto.
    + (* Decrypt *)
      destruct (aborted t) eqn:Ea; [apply (Hab 12%nat); auto; lia|]. simpl.
      use_phase Hc. destruct Psealed as [Ps Pr].
      destruct (decrypt_ok c p); simpl; rewrite okey_eqb_refl.
      * hs HI Ei Eh.
        -- gme_ns PNS i t Ei.
        -- right. exact PNS.
        -- exact Htr.
        -- inj_next p 11%nat. rewrite Ea.
           phase_split; try lia; simpl; auto.
      * hs HI Ei Eh.
        -- gme_ns PNS i t Ei.
        -- right. exact PNS.
        -- exact Htr.
        -- inj_next p 11%nat. apply Q_sealed; auto.
    + (* Test *)
      destruct (aborted t) eqn:Ea; [apply (Hab 13%nat); auto; lia|]. simpl.
      use_phase Hc.
      destruct (signer (st w)) as [k0|] eqn:Es; simpl; rewrite ?N.eqb_refl.
      * hs HI Ei Eh.
        -- intros k Hk. eapply (inv_G _ _ HI); eauto.
        -- left. split; reflexivity.
        -- rewrite Es; simpl; rewrite ?N.eqb_refl, Htr; reflexivity.
        -- inj_next p 12%nat. exact P12.
      * pose proof (nosaw_of_sealed c w HI Es) as NS.
        hs HI Ei Eh.
        -- gme_ns NS i t Ei.
        -- right. exact NS.
        -- rewrite Es; simpl; rewrite ?N.eqb_refl, Htr; reflexivity.
        -- inj_next p 12%nat. rewrite Ea.
           pose proof (Q_sealed_inv c (st w) P12 Es).
           phase_split; try lia; simpl; auto.
  - (* request reads the signer under the lock *)
    inversion Ep; subst a r. clear Ep. rewrite Ha. simpl. rewrite okey_eqb_refl.
    hs HI Ei Eh.
    + intros k Hk. split; [exact Hk|]. destruct HQ as [HQ1 _]. apply HQ1. rewrite Hk. reflexivity.
    + left. split; reflexivity.
    + exact Htr.
    + left. split; [reflexivity|]. right. right. exists m. auto.
  - (* request unlocks *)
    inversion Ep; subst a r. clear Ep. simpl. rewrite onat_eqb_refl.
    hs HI Ei Eh.
    + intros k Hk. eapply (inv_G _ _ HI); eauto.
    + left. split; reflexivity.
    + exact Htr.
    + right. split; [reflexivity|]. split; [exact HQ|]. right. right. exists m. reflexivity.
Qed.

Lemma step_Inv c w i : Inv c w -> Inv c (step c w i).
Proof.
  intros HI. destruct (nth_error (threads w) i) as [t|] eqn:Ei; [|unfold step; rewrite Ei; exact HI].
  destruct (prog t) as [|a r] eqn:Ep; [unfold step; rewrite Ei, Ep; exact HI|].
  destruct (onat_eqb (lock w) i) eqn:Eh; [eapply step_holder|eapply step_idle]; eauto.
Qed.

Lemma run_Inv c sched : forall w, Inv c w -> Inv c (run c w sched).
Proof. induction sched as [|i l IH]; intros w H; simpl; [exact H|]. apply IH, step_Inv, H. Qed.

Lemma init_thread jobs j t : nth_error (map thread_of jobs) j = Some t ->
  saw t = None /\ obs t = [] /\ idle t.
Proof.
  intros H. apply nth_error_In in H. apply in_map_iff in H. destruct H as [jb [<- _]].
  destruct jb as [p|m]; simpl; split; try reflexivity; split; try reflexivity.
  - left. exists p. split; reflexivity.
  - right. left. exists m. repeat split; reflexivity.
Qed.

Lemma init_Inv c s jobs : signer s = None -> ready_sent s = 0%nat -> Inv c (init_world s jobs).
Proof.
  intros Hs Hr. constructor; simpl.
  - intros j t k Hj Hk. destruct (init_thread _ _ _ Hj) as [A _]. congruence.
  - intros j t Hj. destruct (init_thread _ _ _ Hj) as [_ [A _]]. rewrite A. constructor.
  - rewrite Hs. reflexivity.
  - intros _. apply Q_sealed; assumption.
  - intros j t Hj. unfold onat_eqb. destruct (init_thread _ _ _ Hj) as [_ [_ A]]. exact A.
  - intros h Hh. discriminate.
Qed.

Lemma Inv_ready_le c w : Inv c w -> (ready_sent (st w) <= 1)%nat.
Proof.
  intros HI. destruct (lock w) as [h|] eqn:El.
  - destruct (inv_holder _ _ HI h El) as [t Ht].
    pose proof (inv_thr _ _ HI h t Ht) as H. rewrite El, onat_eqb_refl in H.
    destruct H as [[p [n [Hn [Hp Hc]]]]|[[m [_ [_ [_ HQ]]]]|[m [_ [_ HQ]]]]]; try solve [eapply Q_ready_le; eauto].
    destruct (aborted t); [eapply Q_ready_le; eauto|].
    assert (Hcases : (n = 1 \/ 2 <= n <= 3 \/ 4 <= n <= 12 \/ n = 13)%nat) by lia.
    destruct Hcases as [H|[H|[H|H]]]; use_phase Hc.
    + lia.
    + lia.
    + destruct Psealed. lia.
    + eapply Q_ready_le; eauto.
  - eapply Q_ready_le. apply (inv_free _ _ HI El).
Qed.

Theorem once_any_interleaving c s jobs sched :
  signer s = None -> ready_sent s = 0%nat ->
  let w := run c (init_world s jobs) sched in
  (ready_sent (st w) <= 1)%nat /\ (transitions w <= 1)%nat /\
  (transitions w = 1%nat <-> signer (st w) <> None).
Proof.
  intros Hs Hr w. assert (HI : Inv c w) by (apply run_Inv, init_Inv; assumption).
  split; [apply (Inv_ready_le c w HI)|].
  rewrite (inv_tr _ _ HI). destruct (signer (st w)); simpl; split; try lia; split; congruence.
Qed.

Theorem no_half_init c s jobs sched :
  signer s = None -> ready_sent s = 0%nat ->
  let w := run c (init_world s jobs) sched in
  (lock w = None -> signer (st w) <> None -> completeb c (st w) = true /\ ready_sent (st w) = 1%nat) /\
  (forall j t, nth_error (threads w) j = Some t ->
     Forall (fun b => b = true) (obs t) /\
     forall k, saw t = Some k -> signer (st w) = Some k /\ completeb c (st w) = true).
Proof.
  intros Hs Hr w. assert (HI : Inv c w) by (apply run_Inv, init_Inv; assumption).
  split.
  - intros El Hn. destruct (inv_free _ _ HI El) as [A B].
    destruct (signer (st w)); [|congruence]. simpl in *. auto.
  - intros j t Hj. split; [eapply (inv_obs _ _ HI); eauto|]. intros k Hk. eapply (inv_G _ _ HI); eauto.
Qed.


Lemma once_sequential c l :
  (count200 (inject_run c (sealed_init c) l) <= 1)%nat /\
  (count200 (inject_run c (sealed_init c) l) = 1%nat <-> signer (inject_all c (sealed_init c) l) <> None) /\
  ready_sent (inject_all c (sealed_init c) l) = (if is_some (signer (inject_all c (sealed_init c) l)) then 1 else 0)%nat.
Proof.
  destruct (once_seq c l (sealed_init c) eq_refl) as [A B]. split; [exact A|]. split; [exact B|].
  apply (inject_all_Q c l (sealed_init c) (sealed_init_Q c)).
Qed.

Lemma no_ed_file_no_ed c : ed_file c = None -> forall l s0, ed s0 = None -> ed (inject_all c s0 l) = None.
Proof.
  intros A. induction l as [|r l IH]; intros s0 H0; simpl; [exact H0|]. apply IH.
  unfold inject, inject_with. destruct (i_tls r); simpl; [|exact H0]. destruct (i_chain r); simpl; [|exact H0]. destruct (i_leaf r) as [leaf|]; simpl; [|exact H0].
  destruct (i_field r) as [pp|]; [|exact H0]. unfold unseal_ca. rewrite A.
  destruct (is_some (signer s0)); simpl; [exact H0|].
  destruct (bs_eqb pp (right_pass c)); simpl; [|exact H0].
  destruct (main_ok c); simpl; [|exact H0]. destruct (role_ok c); simpl; exact H0.
Qed.

Lemma published c l (p : list hstep) kd k ck :
  let s := inject_all c (sealed_init c) l in
  In (kd, k, ck) (snd (run_handler s p [])) ->
  In k (ca_ders s) /\ In k (pubkeys s).
Proof.
  intros s H.
  apply run_handler_keys in H. destruct H as [[]|[Hn Hk]].
  assert (HQ : Q c s) by (apply inject_all_Q, sealed_init_Q).
  destruct HQ as [HQ _]. assert (Hc : completeb c s = true) by (apply HQ; destruct (signer s); [reflexivity|congruence]).
  destruct (completeb_elim c s Hc) as [E1 [E2 [E3 E4]]].
  destruct Hk as [Hk|Hk].
  - rewrite E1 in Hk. inversion Hk; subst. split; apply mem_In; assumption.
  - destruct (E4 k Hk) as [[A B]|A]; [split; apply mem_In; assumption|].
    exfalso. unfold s in Hk. rewrite (no_ed_file_no_ed c A l (sealed_init c) eq_refl) in Hk. discriminate.
Qed.

(* ------------------------------------------------------------------ publication is stable under other writers *)
(* a writer keeps publication if every key of a loaded signer that is listed stays listed *)
Definition keeps_signing (f : state -> list key) : Prop :=
  forall s k, (signer s = Some k \/ ed s = Some k) -> mem k (pubkeys s) = true -> mem k (f s) = true.

Lemma completeb_parts c s : completeb c s = true ->
  signer s = Some (main_key c) /\ mem (main_key c) (ca_ders s) = true /\ role_ca s = Some (main_key c) /\
  mem (main_key c) (pubkeys s) = true /\
  match ed_file c with Some (_, e, _) => ed s = Some e /\ mem e (ca_ders s) = true /\ mem e (pubkeys s) = true | None => True end.
Proof.
  unfold completeb. intros H.
  repeat (apply andb_true_iff in H; destruct H as [H ?]).
  apply okey_eqb_eq in H. split; [exact H|]. split; [assumption|].
  split; [apply okey_eqb_eq; assumption|]. split; [assumption|].
  destruct (ed_file c) as [[[pe e] eok]|]; [|exact I].
  rename H0 into X. repeat (apply andb_true_iff in X; destruct X as [X ?]).
  apply okey_eqb_eq in X. auto.
Qed.

Lemma completeb_write c s f : keeps_signing f -> completeb c s = true -> completeb c (set_pubkeys s (f s)) = true.
Proof.
  intros Hf H. destruct (completeb_parts c s H) as (A & B & C & D & E).
  apply completeb_intro; simpl; auto.
  destruct (ed_file c) as [[[pe e] eok]|]; [|exact I].
  destruct E as (E1 & E2 & E3). auto.
Qed.

Lemma Q_write c s f : keeps_signing f -> Q c s -> Q c (set_pubkeys s (f s)).
Proof. intros Hf [A B]. split; simpl; [intro H; apply completeb_write; auto|exact B]. Qed.

Lemma Inv_write c w f : keeps_signing f -> Inv c w -> Inv c (step2 c w (EWrite f)).
Proof.
  intros Hf HI. unfold step2. destruct (lock w) as [h|] eqn:El; [exact HI|].
  constructor; simpl.
  - intros j t k Hj Hk. destruct (inv_G _ _ HI j t k Hj Hk) as [A B]. split; [exact A|apply completeb_write; auto].
  - apply (inv_obs _ _ HI).
  - apply (inv_tr _ _ HI).
  - intros _. apply Q_write; [exact Hf|]. apply (inv_free _ _ HI El).
  - intros j t Hj. pose proof (inv_thr _ _ HI j t Hj) as H. rewrite El in H. unfold onat_eqb in *. exact H.
  - intros h Hh. discriminate.
Qed.

Lemma run2_Inv c evs : (forall f, In (EWrite f) evs -> keeps_signing f) -> forall w, Inv c w -> Inv c (run2 c w evs).
Proof.
  induction evs as [|e l IH]; intros Hf w H; simpl; [exact H|].
  apply IH; [intros f Hin; apply Hf; right; exact Hin|].
  destruct e as [i|f]; [apply step_Inv, H|apply Inv_write; [apply Hf; left; reflexivity|exact H]].
Qed.

(* without an Ed25519 file the Ed25519 signer never appears, whatever runs *)
Lemma exec_ed_none c a s t : ed_file c = None -> ed s = None -> ed (fst (exec c a s t)) = None.
Proof.
  intros A B. destruct a; simpl; try exact B; try rewrite A; try exact B.
  - destruct (is_some (signer s)); exact B.
  - destruct (decrypt_ok c p); exact B.
  - destruct (main_ok c); exact B.
  - destruct (role_ok c); exact B.
  - destruct (saw t); exact B.
Qed.

Lemma step_ed_none c w i : ed_file c = None -> ed (st w) = None -> ed (st (step c w i)) = None.
Proof.
  intros A B. unfold step. destruct (nth_error (threads w) i) as [t|]; [|exact B].
  destruct (prog t) as [|a r]; [exact B|].
  destruct a; try (destruct (lock w); exact B); try exact B;
    (destruct (aborted t); [exact B|]);
    match goal with |- context[exec c ?a (st w) t] =>
      pose proof (exec_ed_none c a (st w) t A B) as H; destruct (exec c a (st w) t) as [s' t']; exact H end.
Qed.

Lemma run2_ed_none c evs : ed_file c = None -> forall w, ed (st w) = None -> ed (st (run2 c w evs)) = None.
Proof.
  intros A. induction evs as [|e l IH]; intros w B; simpl; [exact B|]. apply IH.
  destruct e as [i|f]; [apply step_ed_none; assumption|]. simpl. destruct (lock w); exact B.
Qed.

(* in a state with complete material, whatever a handler signs is signed with a published key *)
Lemma complete_published c s (p : list hstep) kd k ck :
  completeb c s = true -> (ed_file c = None -> ed s = None) ->
  In (kd, k, ck) (snd (run_handler s p [])) -> In k (ca_ders s) /\ In k (pubkeys s).
Proof.
  intros Hc Hed H. apply run_handler_keys in H. destruct H as [[]|[Hn Hk]].
  destruct (completeb_elim c s Hc) as [E1 [E2 [E3 E4]]].
  destruct Hk as [Hk|Hk].
  - rewrite E1 in Hk. inversion Hk; subst. split; apply mem_In; assumption.
  - destruct (E4 k Hk) as [[A B]|A]; [split; apply mem_In; assumption|].
    rewrite (Hed A) in Hk. discriminate.
Qed.

(* Publication is stable: from a sealed state, ANY pool of injections and requests, ANY number of other
   writers of the published-key list that keep the signing keys listed, ANY interleaving: whenever the
   mutex is free and the server is unsealed — and at every moment for every request that has seen the
   signer — the key material is complete and whatever any handler signs is signed with a key in the
   published lists. *)
Theorem published_stable c s jobs evs :
  signer s = None -> ed s = None -> ready_sent s = 0%nat ->
  (forall f, In (EWrite f) evs -> keeps_signing f) ->
  let w := run2 c (init_world s jobs) evs in
  (lock w = None -> signer (st w) <> None ->
     completeb c (st w) = true /\
     forall p kd k ck, In (kd, k, ck) (snd (run_handler (st w) p [])) -> In k (ca_ders (st w)) /\ In k (pubkeys (st w))) /\
  (forall j t k0, nth_error (threads w) j = Some t -> saw t = Some k0 ->
     signer (st w) = Some k0 /\ completeb c (st w) = true /\
     forall p kd k ck, In (kd, k, ck) (snd (run_handler (st w) p [])) -> In k (ca_ders (st w)) /\ In k (pubkeys (st w))).
Proof.
  intros Hs He Hr Hf w.
  assert (HI : Inv c w) by (apply run2_Inv; [exact Hf|apply init_Inv; assumption]).
  assert (Hed : ed_file c = None -> ed (st w) = None) by (intro A; apply run2_ed_none; assumption).
  split.
  - intros El Hn. destruct (inv_free _ _ HI El) as [A _].
    assert (Hc : completeb c (st w) = true) by (apply A; destruct (signer (st w)); [reflexivity|congruence]).
    split; [exact Hc|]. intros p kd k ck Hin. eapply complete_published; eauto.
  - intros j t k0 Hj Hk. destruct (inv_G _ _ HI j t k0 Hj Hk) as [A B].
    split; [exact A|]. split; [exact B|]. intros p kd k ck Hin. eapply complete_published; eauto.
Qed.

(* the two writers of Model/Seal.v keep the signing keys *)
Lemma mem_fold_add file : forall l k, mem k l = true -> mem k (fold_left (fun a x => add_key x a) file l) = true.
Proof. induction file as [|x r IH]; intros l k H; simpl; [exact H|]. apply IH, mem_add_other, H. Qed.

Lemma w_append_keeps k : keeps_signing (w_append k).
Proof. intros s k0 _ H. unfold w_append. apply mem_add_other, H. Qed.

Lemma w_reload_keeps file : keeps_signing (w_reload file).
Proof.
  intros s k Hk _. unfold w_reload. apply mem_fold_add. unfold local_keys, mem. rewrite existsb_app.
  destruct Hk as [Hk|Hk]; rewrite Hk; simpl; rewrite N.eqb_refl; simpl; [apply orb_true_r|reflexivity].
Qed.

(* the reloader that snapshots in one critical section and replaces in another loses the signer's key:
   snapshot while sealed, the injection completes, the replacement installs the stale list *)
Definition stale_cfg : cfg :=
  {| right_pass := [112]; main_key := 1; main_res := FGood; role_ok := true; ed_file := Some ([112], 2, FGood); extra_pubkeys := [9] |}.
Definition stale_evs : list ev3 :=
  [ESnap] ++ repeat (E3 (EThread 0%nat)) 14 ++ [EReplace [9]].

Lemma stale_replace_refuted :
  let x := run3 stale_cfg {| w3 := init_world (sealed_init stale_cfg) [JInject [112]]; snap := None |} stale_evs in
  let s := st (w3 x) in
  lock (w3 x) = None /\ signer s = Some 1 /\ ready_sent s = 1%nat /\ readyz s = 200 /\
  pubkeys s = [9] /\ mem 1 (pubkeys s) = false /\ mem 2 (pubkeys s) = false /\
  run_handler s [HGuard; HSign 3 true false; HSign 2 false true] [] = (Done, [(3, 1, true); (2, 2, false)]) /\
  (* the same schedule with the reload done in ONE critical section keeps both keys published *)
  pubkeys (st (run2 stale_cfg (init_world (sealed_init stale_cfg) [JInject [112]])
                     (repeat (EThread 0%nat) 14 ++ [EWrite (w_reload [9])]))) = [2; 1; 9].
Proof. vm_compute. repeat split; reflexivity. Qed.

(* ------------------------------------------------------------------ presented is not verified *)
(* the variant "a presented certificate suffices" (inject_presented) unseals on a connection state whose
   VerifiedChains is empty: a self-signed certificate in PeerCertificates and the right passphrase; the
   code's handler answers 403 and changes nothing *)
Definition presented_cfg : cfg :=
  {| right_pass := [112; 119]; main_key := 1; main_res := FGood; role_ok := true; ed_file := None; extra_pubkeys := [] |}.
Definition presented_req : inj :=
  {| i_conn := Some {| peer_certs := [3]; verified_chains := [] |}; i_field := Some [112; 119] |}.

Lemma presented_suffices_refuted :
  exists c s r, signer s = None /\ i_chains r = [] /\ i_presented r <> [] /\
    signer (fst (inject_presented c s r)) <> None /\ snd (inject_presented c s r) = 200 /\
    inject c s r = (s, 403).
Proof.
  exists presented_cfg, (sealed_init presented_cfg), presented_req.
  vm_compute. repeat split; try reflexivity; discriminate.
Qed.

(* ------------------------------------------------------------------ whatever the listener's ClientAuth policy *)
Lemma handshake_chains policy pool presented cs :
  handshake policy pool presented = Some cs -> verified_chains cs <> [] ->
  (policy = VerifyClientCertIfGiven \/ policy = RequireAndVerifyClientCert) /\
  exists x, presented = Some x /\ cert_verifies pool x = true /\ peer_certs cs = [c_id x] /\ verified_chains cs = [[c_id x; c_issuer x]].
Proof.
  unfold handshake. intros H Hn.
  destruct policy, presented as [x|]; try (inversion H; subst; simpl in Hn; congruence).
  - destruct (cert_verifies pool x) eqn:V; [|discriminate]. inversion H; subst; simpl.
    split; [left; reflexivity|]. exists x. auto.
  - destruct (cert_verifies pool x) eqn:V; [|discriminate]. inversion H; subst; simpl.
    split; [right; reflexivity|]. exists x. auto.
Qed.

Lemma any_listener policy pool presented field c s reached s' code :
  inject_over policy pool c s presented field = (reached, s', code) ->
  signer s = None -> signer s' <> None ->
  reached = true /\
  (policy = VerifyClientCertIfGiven \/ policy = RequireAndVerifyClientCert) /\
  (exists x, presented = Some x /\ cert_verifies pool x = true) /\
  field = Some (right_pass c) /\ code = 200 /\ signer s' = Some (main_key c).
Proof.
  unfold inject_over. intros H Hs Hn.
  destruct (handshake policy pool presented) as [cs|] eqn:Hh; [|inversion H; subst; congruence].
  destruct (inject c s {| i_conn := Some cs; i_field := field |}) as [s1 code1] eqn:E.
  inversion H; subst reached s1 code1.
  destruct (only_right_pass _ _ _ _ _ E Hs Hn) as [[cs' [leaf [rest [chains [A B]]]]] [C [D F]]].
  simpl in A, C. inversion A; subst cs'.
  assert (Hne : verified_chains cs <> []) by (rewrite B; discriminate).
  destruct (handshake_chains _ _ _ _ Hh Hne) as [P [x [X1 [X2 _]]]].
  split; [reflexivity|]. split; [exact P|]. split; [exists x; auto|]. auto.
Qed.

(* a listener that verifies nothing (or does not even ask) in front of the handler: nobody unseals *)
Lemma unverifying_listener_never_unseals policy pool presented field c s :
  (policy = NoClientCert \/ policy = RequestClientCert \/ policy = RequireAnyClientCert) ->
  signer s = None ->
  let '(_, s', code) := inject_over policy pool c s presented field in s' = s /\ code <> 200.
Proof.
  intros P Hs. destruct (inject_over policy pool c s presented field) as [[reached s'] code] eqn:E.
  destruct (signer s') as [k|] eqn:K.
  - assert (Hn : signer s' <> None) by congruence.
    destruct (any_listener _ _ _ _ _ _ _ _ _ E Hs Hn) as [_ [[Q|Q] _]]; destruct P as [P|[P|P]]; congruence.
  - unfold inject_over in E. destruct (handshake policy pool presented) as [cs|]; [|inversion E; subst; split; [reflexivity|discriminate]].
    destruct (inject c s {| i_conn := Some cs; i_field := field |}) as [s1 code1] eqn:E1. inversion E; subst.
    pose proof (inject_200_iff c s {| i_conn := Some cs; i_field := field |} Hs) as I2. rewrite E1 in I2. simpl in I2.
    assert (code <> 200) as Hc by (intros X; apply I2 in X; congruence).
    split; [|exact Hc]. pose proof (refused_unchanged c s {| i_conn := Some cs; i_field := field |}) as R. rewrite E1 in R. simpl in R. auto.
Qed.

(* ------------------------------------------------------------------ the observation predicate is sound *)
(* on the model's own run no step is flagged: a flagged observed step is a step on which the real code
   left the behaviour c09_only_right_pass proves of the model *)
Lemma seq_violation_model c ops : forall s,
  seq_violation c (negb (is_some (signer s))) ops (inject_run c s ops) = 0.
Proof.
  induction ops as [|r ops IH]; intros s; simpl; [reflexivity|].
  destruct (inject c s r) as [s' code] eqn:E. simpl.
  destruct (signer s) as [k|] eqn:Hs; simpl.
  - (* already unsealed: stays *)
    assert (Hn : signer s <> None) by congruence.
    destruct (unsealed_stays c s r Hn) as [A _]. rewrite E in A. simpl in A. subst s'.
    specialize (IH s). rewrite Hs in IH. simpl in IH. rewrite Hs. simpl. exact IH.
  - destruct (signer s') as [k'|] eqn:Hs'; simpl.
    + assert (Hn : signer s' <> None) by congruence.
      destruct (only_right_pass_b _ _ _ _ _ E Hs Hn) as [A [B [C [D _]]]].
      unfold inj_verified, inj_right_pass. rewrite A, B, D, bs_eqb_refl. destruct (i_leaf r); [|congruence]. simpl.
      specialize (IH s'). rewrite Hs' in IH. exact IH.
    + specialize (IH s'). rewrite Hs' in IH. exact IH.
Qed.
