(* C02 — what an issued certificate contains: binding to user and key, SSH extension map,
   user-name normalisation *)
From Coq Require Import ZArith.
From KM Require Import Base.Bytes Base.Tactics Model.Auth Model.Certgen Model.CertgenCases Proofs.CertgenSpec Proofs.CertgenAuth Proofs.Certgen.
From KM Require Model.Seal Proofs.Seal.
Open Scope N_scope.

(* ---- maps *)
Lemma bs_eqb_sym a b : bs_eqb a b = bs_eqb b a.
Proof.
  destruct (bs_eqb a b) eqn:E.
  - apply bs_eqb_eq in E. subst. symmetry. apply bs_eqb_refl.
  - symmetry. apply bs_eqb_neq. apply bs_eqb_neq in E. congruence.
Qed.
Lemma lookup_map_set m k v k' :
  lookup (map_set m k v) k' = if bs_eqb k k' then Some v else lookup m k'.
Proof.
  induction m as [|[a b] r IH]; simpl.
  - destruct (bs_eqb k k'); reflexivity.
  - destruct (bs_eqb a k) eqn:E; simpl.
    + apply bs_eqb_eq in E. subst a. destruct (bs_eqb k k'); reflexivity.
    + destruct (bs_eqb a k') eqn:E'.
      * apply bs_eqb_eq in E'. subst a. rewrite bs_eqb_sym, E. reflexivity.
      * exact IH.
Qed.

Definition keys (m : list (bs * bs)) : list bs := map fst m.

Lemma keys_map_set m k v : forall x, In x (keys (map_set m k v)) <-> x = k \/ In x (keys m).
Proof.
  induction m as [|[a b] r IH]; intro x; simpl.
  - split; intros [H|H]; auto.
  - destruct (bs_eqb a k) eqn:E; simpl.
    + apply bs_eqb_eq in E. subst a. split; [intros [H|H]; auto|intros [H|[H|H]]; auto].
    + rewrite IH. split; [intros [H|[H|H]]; auto|intros [H|[H|H]]; auto].
Qed.

Lemma nodup_map_set m k v : NoDup (keys m) -> NoDup (keys (map_set m k v)).
Proof.
  induction m as [|[a b] r IH]; simpl; intro H.
  - constructor; [intros []|constructor].
  - inversion H as [|? ? Hn Hr]; subst. destruct (bs_eqb a k) eqn:E; simpl.
    + apply bs_eqb_eq in E. subst a. constructor; assumption.
    + constructor; [|apply IH; exact Hr].
      intro Hin. apply keys_map_set in Hin. destruct Hin as [->|Hin]; [|exact (Hn Hin)].
      rewrite bs_eqb_refl in E. discriminate.
Qed.

Lemma lookup_none_keys m k : lookup m k = None <-> ~ In k (keys m).
Proof.
  induction m as [|[a b] r IH]; simpl; [tauto|].
  destruct (bs_eqb a k) eqn:E.
  - apply bs_eqb_eq in E. split; [discriminate|]. intro H. exfalso. apply H. auto.
  - apply bs_eqb_neq in E. rewrite IH. tauto.
Qed.

Section Ext.
Variable expand : bs -> bs -> option bs.

(* expandSSHExtensions: the last writer of a key wins, earlier content survives otherwise *)
Lemma expand_extensions_lookup tpl user : forall m r k,
  expand_extensions expand tpl user m = Some r ->
  lookup r k = match last_writer expand tpl user k with Some v => Some v | None => lookup m k end.
Proof.
  induction tpl as [|[tk tv] rest IH]; intros m r k H; simpl in *.
  - inversion H. reflexivity.
  - destruct (expand tk user) as [k'|]; [|discriminate]. destruct (expand tv user) as [v'|]; [|discriminate].
    rewrite (IH _ _ k H). destruct (last_writer expand rest user k); [reflexivity|].
    rewrite lookup_map_set. destruct (bs_eqb k' k); reflexivity.
Qed.

(* ... and the result exists only if EVERY configured template expands, name and value *)
Lemma expand_extensions_all tpl user : forall m r,
  expand_extensions expand tpl user m = Some r ->
  forall k v, In (k, v) tpl -> expand k user <> None /\ expand v user <> None.
Proof.
  induction tpl as [|[tk tv] rest IH]; intros m r H k v I; simpl in *; [destruct I|].
  destruct (expand tk user) as [k'|] eqn:EK; [|discriminate]. destruct (expand tv user) as [v'|] eqn:EV; [|discriminate].
  destruct I as [I|I].
  - inversion I; subst. rewrite EK, EV. split; discriminate.
  - eapply IH; eauto.
Qed.

Lemma expand_extensions_complete tpl user : forall m,
  (forall k v, In (k, v) tpl -> expand k user <> None /\ expand v user <> None) ->
  expand_extensions expand tpl user m <> None.
Proof.
  induction tpl as [|[tk tv] rest IH]; intros m A; simpl; [discriminate|].
  destruct (A tk tv (or_introl eq_refl)) as [K V].
  destruct (expand tk user); [|contradiction]. destruct (expand tv user); [|contradiction].
  apply IH. intros k v I. apply A. right. exact I.
Qed.

Lemma expand_extensions_nodup tpl user : forall m r,
  expand_extensions expand tpl user m = Some r -> NoDup (keys m) -> NoDup (keys r).
Proof.
  induction tpl as [|[tk tv] rest IH]; intros m r H N; simpl in *.
  - inversion H. subst. exact N.
  - destruct (expand tk user) as [k'|]; [|discriminate]. destruct (expand tv user) as [v'|]; [|discriminate].
    eapply IH; eauto. apply nodup_map_set. exact N.
Qed.

(* GenSSHCertFileString's merge over a map with distinct keys *)
Definition merge_step (m : list (bs * bs)) (kv : bs * bs) : list (bs * bs) :=
  match fst kv with [] => m | _ => map_set m (fst kv) (snd kv) end.

Lemma merge_lookup custom : forall base k,
  NoDup (keys custom) ->
  lookup (fold_left merge_step custom base) k =
    match k with
    | [] => lookup base k
    | _ => match lookup custom k with Some v => Some v | None => lookup base k end
    end.
Proof.
  induction custom as [|[a b] r IH]; intros base k N; simpl.
  - destruct k; reflexivity.
  - inversion N as [|? ? Hn Hr]; subst. rewrite (IH _ k Hr). unfold merge_step. simpl.
    destruct k as [|k0 kr].
    + destruct a; [reflexivity|]. rewrite lookup_map_set. reflexivity.
    + destruct (bs_eqb a (k0 :: kr)) eqn:E.
      * apply bs_eqb_eq in E. subst a. apply lookup_none_keys in Hn. rewrite Hn.
        rewrite lookup_map_set, bs_eqb_refl. reflexivity.
      * destruct (lookup r (k0 :: kr)); [reflexivity|].
        destruct a; [reflexivity|]. rewrite lookup_map_set, E. reflexivity.
Qed.

Lemma lookup_const_map (l : list bs) k :
  lookup (map (fun k => (k, [])) l) k = if mem_bs k l then Some [] else None.
Proof.
  induction l as [|a r IH]; [reflexivity|]. cbn [map lookup mem_bs].
  rewrite (bs_eqb_sym k a). destruct (bs_eqb a k); [reflexivity|exact IH].
Qed.

Theorem ssh_extensions_spec tpl user custom k :
  expand_extensions expand tpl user [] = Some custom ->
  lookup (ssh_extensions custom) k = spec_ext expand tpl user k.
Proof.
  intro H. unfold ssh_extensions, spec_ext.
  change (fun (m : list (bs * bs)) (kv : bs * bs) => match fst kv with [] => m | _ => map_set m (fst kv) (snd kv) end) with merge_step.
  rewrite merge_lookup by (eapply expand_extensions_nodup; [exact H|constructor]).
  destruct k as [|k0 kr]; [reflexivity|].
  rewrite (expand_extensions_lookup _ _ _ _ (k0 :: kr) H).
  destruct (last_writer expand tpl user (k0 :: kr)); [reflexivity|].
  change (lookup [] (k0 :: kr)) with (@None bs). apply lookup_const_map.
Qed.

Lemma merge_nodup custom : forall base, NoDup (keys base) -> NoDup (keys (fold_left merge_step custom base)).
Proof.
  induction custom as [|[a b] r IH]; intros base N; simpl; [exact N|].
  apply IH. unfold merge_step. simpl. destruct a; [exact N|apply nodup_map_set; exact N].
Qed.

Lemma ssh_extensions_nodup custom : NoDup (keys (ssh_extensions custom)).
Proof.
  unfold ssh_extensions.
  change (fun (m : list (bs * bs)) (kv : bs * bs) => match fst kv with [] => m | _ => map_set m (fst kv) (snd kv) end) with merge_step.
  apply merge_nodup. unfold std5, keys. simpl.
  repeat (constructor; [simpl; intro H; repeat (destruct H as [H|H]; [discriminate H|]); exact H|]).
  constructor.
Qed.
End Ext.

Section C02.
Variable expand : bs -> bs -> option bs.

Lemma ssh_cert_fields st u user q c :
  ssh_cert expand st u user q = Issued u c ->
  d_ssh c = true /\ d_names c = [user] /\ d_keyid c = s_host st ++ [95] ++ user /\
  (exists ed, q_key q = Some (d_key c, ed) /\ d_signer c = (if ed then ed_key_of st else main_key_of st) /\
              (ed = true -> s_ed25519_ca st = true)) /\
  d_user_type c = true /\ d_is_ca c = false /\
  exists custom, expand_extensions expand (s_templates st) user [] = Some custom /\
                 d_exts c = ssh_extensions custom.
Proof.
  unfold ssh_cert. destruct (q_key q) as [[k ed]|]; [|discriminate].
  destruct (ed && negb (s_ed25519_ca st)) eqn:E; [discriminate|].
  destruct (expand_extensions expand (s_templates st) user []) as [custom|]; [|discriminate].
  intro H. inversion H; subst; clear H. cbn.
  repeat split; auto.
  - exists ed. repeat split. intro Hed. subst ed. simpl in E. apply negb_false_iff in E. exact E.
  - exists custom. auto.
Qed.

Lemma x509_cert_fields st u user q kube c :
  x509_cert st u user q kube = Issued u c ->
  d_ssh c = false /\ d_names c = [user] /\ (exists ed, q_key q = Some (d_key c, ed)) /\
  d_signer c = main_key_of st /\ d_user_type c = true /\ d_is_ca c = false /\ In EkuClientAuth (d_ekus c) /\
  d_krb c = match s_realm st with Some r => Some (r, user) | None => None end /\
  exists ug, (if kube || q_add_groups q then s_groups st user else Some []) = Some ug /\
             d_orgs c = (if kube then ug else [s_keymaster]) /\
             d_groups c = (if q_add_groups q then ug else []).
Proof.
  unfold x509_cert.
  destruct (if kube || q_add_groups q then s_groups st user else Some []) as [ug|]; [|discriminate].
  destruct (s_methods st user); [|discriminate]. destruct (q_key q) as [[k ed]|]; [|discriminate].
  intro H. inversion H; subst; clear H. cbn. repeat split; eauto.
Qed.

(* the key that signs an issued certificate is one of the loaded signers: the main signer, or for
   an SSH certificate on an Ed25519 user key the Ed25519 signer *)
Lemma issued_signer st now lim q u c :
  certgen expand st now lim q = Issued u c ->
  Seal.signer (s_keys st) <> None /\
  (Seal.signer (s_keys st) = Some (d_signer c) \/ (d_ssh c = true /\ Seal.ed (s_keys st) = Some (d_signer c))).
Proof.
  intro H. apply certgen_issued in H. destruct H as [S [l2 [iat [_ [_ [_ [_ [_ K]]]]]]]].
  unfold s_sealed in S. apply negb_false_iff in S.
  assert (M : Seal.signer (s_keys st) = Some (main_key_of st)).
  { unfold main_key_of. destruct (Seal.signer (s_keys st)); [reflexivity|discriminate]. }
  split; [rewrite M; discriminate|].
  destruct K as [[_ K]|[[_ K]|[_ K]]].
  - apply ssh_cert_fields in K. destruct K as [SS [_ [_ [[ed [K1 [K2 K3]]] _]]]].
    destruct ed.
    + right. split; [exact SS|]. specialize (K3 eq_refl). unfold s_ed25519_ca in K3. rewrite K2. unfold ed_key_of.
      destruct (Seal.ed (s_keys st)); [reflexivity|discriminate].
    + left. rewrite K2. exact M.
  - apply x509_cert_fields in K. destruct K as [_ [_ [_ [SG _]]]]. left. rewrite SG. exact M.
  - apply x509_cert_fields in K. destruct K as [_ [_ [_ [SG _]]]]. left. rewrite SG. exact M.
Qed.

(* in every state the sealing model reaches by injections - whatever the key files, whatever the
   configured public-key list (any keys, any order, duplicates), whatever the injections - a loaded
   signer's key is among the published CA certificates and among the published keys *)
Lemma loaded_keys_published kc l k :
  let s := Seal.inject_all kc (Seal.sealed_init kc) l in
  Seal.signer s <> None -> (Seal.signer s = Some k \/ Seal.ed s = Some k) ->
  In k (Seal.ca_ders s) /\ In k (Seal.pubkeys s).
Proof.
  intros s Hn [H|H].
  - apply (KM.Proofs.Seal.published kc l [Seal.HSign 0 false false] 0 k false). fold s. simpl. rewrite H. simpl. left. reflexivity.
  - destruct (Seal.signer s) as [k0|] eqn:E; [|congruence].
    apply (KM.Proofs.Seal.published kc l [Seal.HSign 0 false true] 0 k false). fold s. simpl. rewrite E, H. simpl. left. reflexivity.
Qed.

(* signerPublicKeyToKeymasterKeys: whatever the list was before, every loaded signer's key is in
   the list afterwards *)
Lemma published_for_every_initial_list s k :
  (Seal.signer s = Some k \/ (Seal.ed s = Some k /\ Seal.signer s <> None)) ->
  Seal.mem k (Seal.add_pubkeys s) = true.
Proof.
  intros [H|[H N]].
  - apply KM.Proofs.Seal.add_pubkeys_signer. exact H.
  - apply KM.Proofs.Seal.add_pubkeys_ed; [exact H|]. destruct (Seal.signer s); [reflexivity|congruence].
Qed.

(* C02: what every issued certificate says.  The key material of the server is any state the
   sealing model reaches from a freshly loaded configuration kc by any list l of injections. *)
Theorem binding_fields st now lim q u c :
  certgen expand st now lim q = Issued u c ->
  (exists level, proves st now q u level) /\
  d_names c = [s_name st u] /\ q_target q = s_name st u /\
  (exists ed, q_key q = Some (d_key c, ed)) /\
  d_user_type c = true /\ d_is_ca c = false /\
  (d_ssh c = false -> In EkuClientAuth (d_ekus c)).
Proof.
  intros H.
  pose proof (certgen_sound _ _ _ _ _ _ _ H) as [_ [[level [P _]] [T _]]].
  apply certgen_issued in H. destruct H as [_ [l2 [iat [_ [_ [_ [_ [_ K]]]]]]]].
  split; [eauto|]. split; [|split; [exact T|]].
  - destruct K as [[_ K]|[[_ K]|[_ K]]].
    + apply ssh_cert_fields in K. tauto.
    + apply x509_cert_fields in K. tauto.
    + apply x509_cert_fields in K. tauto.
  - destruct K as [[_ K]|[[_ K]|[_ K]]].
    + apply ssh_cert_fields in K. destruct K as [S [_ [_ [[ed [K1 [K2 K3]]] [U [C _]]]]]].
      split; [eauto|]. split; [exact U|]. split; [exact C|]. congruence.
    + apply x509_cert_fields in K. destruct K as [S [_ [KK [SG [U [C [E _]]]]]]].
      split; [exact KK|]. split; [exact U|]. split; [exact C|]. auto.
    + apply x509_cert_fields in K. destruct K as [S [_ [KK [SG [U [C [E _]]]]]]].
      split; [exact KK|]. split; [exact U|]. split; [exact C|]. auto.
Qed.

Theorem binding kc l st now lim q u c :
  s_keys st = Seal.inject_all kc (Seal.sealed_init kc) l ->
  certgen expand st now lim q = Issued u c ->
  (exists level, proves st now q u level) /\
  d_names c = [s_name st u] /\ q_target q = s_name st u /\
  (exists ed, q_key q = Some (d_key c, ed)) /\
  d_user_type c = true /\ d_is_ca c = false /\
  (d_ssh c = false -> In EkuClientAuth (d_ekus c)) /\
  In (d_signer c) (published_ssh st) /\ In (d_signer c) (published_x509 st).
Proof.
  intros HK H. pose proof (issued_signer _ _ _ _ _ _ H) as [SN SK].
  pose proof (binding_fields _ _ _ _ _ _ H) as [A [B [C [D [E [F G]]]]]].
  repeat (split; [assumption|]).
  unfold published_ssh, published_x509. rewrite HK in *.
  destruct (loaded_keys_published kc l (d_signer c) SN) as [X Y]; [tauto|]. split; assumption.
Qed.

(* a request on behalf of any other name: whoever the request authenticates as, if that name is
   not byte for byte the URL segment nothing is issued; an otherwise qualified one gets 403 *)
Theorem other_user_refused st now lim q u level iat :
  check_auth now lim bAny (auth_request st q) = Admit u level iat ->
  s_name st u <> q_target q ->
  (exists code, certgen expand st now lim q = Refused code /\ 400 <= code) /\
  (s_sealed st = false -> qualifies (s_cfg st) level -> certgen expand st now lim q = Refused 403).
Proof.
  intros CA NE. split.
  - destruct (certgen expand st now lim q) as [u' c|code] eqn:E.
    + exfalso. apply certgen_issued in E. destruct E as [_ [l2 [i2 [CA2 [_ [T _]]]]]].
      rewrite CA in CA2. inversion CA2. subst. exact (NE T).
    + exists code. split; [reflexivity|eapply refused_is_error; eauto].
  - intros S Q. unfold certgen. rewrite S, CA. apply sufficient_iff in Q. rewrite Q. simpl.
    apply bs_eqb_neq in NE. rewrite NE. reflexivity.
Qed.

(* SSH extensions: exactly the five standard ones plus the configured ones with the user name
   substituted; last writer wins, empty keys dropped; each key once *)
Theorem extensions st now lim q u c :
  certgen expand st now lim q = Issued u c -> d_ssh c = true ->
  (forall k, lookup (d_exts c) k = spec_ext expand (s_templates st) (s_name st u) k) /\
  NoDup (map fst (d_exts c)).
Proof.
  intros H SSH. apply certgen_issued in H. destruct H as [_ [l2 [iat [_ [_ [_ [_ [_ K]]]]]]]].
  destruct K as [[_ K]|[[_ K]|[_ K]]].
  - apply ssh_cert_fields in K. destruct K as [_ [_ [_ [_ [_ [_ [custom [E X]]]]]]]].
    rewrite X. split; [intro k; apply ssh_extensions_spec; exact E|apply ssh_extensions_nodup].
  - apply x509_cert_fields in K. destruct K as [S _]. congruence.
  - apply x509_cert_fields in K. destruct K as [S _]. congruence.
Qed.

(* an SSH certificate is issued only if every configured extension template - name AND value -
   expands for this user: one template the expander rejects (for everybody, or for this user name
   only) and nothing is issued; no template is ever skipped *)
Theorem failed_expansion_refused st now lim q u c :
  certgen expand st now lim q = Issued u c -> d_ssh c = true ->
  forall k v, In (k, v) (s_templates st) ->
    expand k (s_name st u) <> None /\ expand v (s_name st u) <> None.
Proof.
  intros H SSH. apply certgen_issued in H. destruct H as [_ [l2 [iat [_ [_ [_ [_ [_ K]]]]]]]].
  destruct K as [[_ K]|[[_ K]|[_ K]]].
  - apply ssh_cert_fields in K. destruct K as [_ [_ [_ [_ [_ [_ [custom [E _]]]]]]]].
    eapply expand_extensions_all; eauto.
  - apply x509_cert_fields in K. destruct K as [S _]. congruence.
  - apply x509_cert_fields in K. destruct K as [S _]. congruence.
Qed.

(* no two distinct authenticated users ever receive the same certified name: whatever the two
   servers, requests, certificate types and key types, equal name lists (SSH principals / X.509 common
   name) mean the same user name, byte for byte - nothing is cut, folded or normalised on the way
   into the certificate *)
Theorem names_injective st1 now1 lim1 q1 u1 c1 st2 now2 lim2 q2 u2 c2 :
  certgen expand st1 now1 lim1 q1 = Issued u1 c1 ->
  certgen expand st2 now2 lim2 q2 = Issued u2 c2 ->
  d_names c1 = d_names c2 -> s_name st1 u1 = s_name st2 u2.
Proof.
  intros H1 H2 E. apply binding_fields in H1, H2.
  destruct H1 as [_ [N1 _]]. destruct H2 as [_ [N2 _]]. rewrite N1, N2 in E. inversion E. reflexivity.
Qed.

(* the authenticated user's name is the ONLY identity in the certificate: no further principal, no
   critical option, no DNS / e-mail / URI / address / directory / other-name entry, no further subject
   attribute beside the organisations (the PKINIT name, d_krb, is the same user in the configured realm) *)
Theorem no_other_names st now lim q u c :
  certgen expand st now lim q = Issued u c ->
  d_other_names c = [] /\ d_names c = [s_name st u] /\
  match d_krb c with Some (r, p) => s_realm st = Some r /\ p = s_name st u | None => True end.
Proof.
  intros H. pose proof (binding_fields _ _ _ _ _ _ H) as [_ [N _]].
  apply certgen_issued in H. destruct H as [_ [l2 [iat [_ [_ [_ [_ [_ K]]]]]]]].
  destruct K as [[_ K]|[[_ K]|[_ K]]].
  - unfold ssh_cert in K. destruct (q_key q) as [[k ed]|]; [|discriminate].
    destruct (ed && negb (s_ed25519_ca st)); [discriminate|].
    destruct (expand_extensions expand (s_templates st) (s_name st u) []); [|discriminate].
    inversion K; subst; cbn. auto.
  - unfold x509_cert in K. destruct (if false || q_add_groups q then s_groups st (s_name st u) else Some []); [|discriminate].
    destruct (s_methods st (s_name st u)); [|discriminate]. destruct (q_key q) as [[k ed]|]; [|discriminate].
    inversion K; subst; cbn. repeat split; auto. destruct (s_realm st); auto.
  - unfold x509_cert in K. destruct (if true || q_add_groups q then s_groups st (s_name st u) else Some []); [|discriminate].
    destruct (s_methods st (s_name st u)); [|discriminate]. destruct (q_key q) as [[k ed]|]; [|discriminate].
    inversion K; subst; cbn. repeat split; auto. destruct (s_realm st); auto.
Qed.

(* X.509 certificates carry no SSH extensions; SSH ones no X.509 attributes *)
End C02.

(* ---- normalisation *)
Lemma lower_byte_idem c : lower_byte (lower_byte c) = lower_byte c.
Proof.
  unfold lower_byte. destruct ((65 <=? c) && (c <=? 90)) eqn:E; [|rewrite E; reflexivity].
  apply andb_true_iff in E. destruct E as [A B]. apply N.leb_le in A, B.
  assert (H : (c + 32 <=? 90) = false) by (apply N.leb_gt; lia). rewrite H, andb_false_r. reflexivity.
Qed.

Lemma normalise_idem disable name :
  normalise None disable (normalise None disable name) = normalise None disable name.
Proof.
  unfold normalise. destruct disable; [reflexivity|]. rewrite map_map. apply map_ext. apply lower_byte_idem.
Qed.

Lemma normalise_no_upper name : Forall (fun c => ~ (65 <= c <= 90)) (normalise None false name).
Proof.
  unfold normalise. induction name as [|c r IH]; simpl; constructor; auto.
  unfold lower_byte. destruct ((65 <=? c) && (c <=? 90)) eqn:E.
  - apply andb_true_iff in E. destruct E as [A B]. apply N.leb_le in A, B. lia.
  - apply andb_false_iff in E. destruct E as [E|E]; apply N.leb_gt in E; lia.
Qed.

(* the password credential minted for a submitted name is for its normalisation, and the
   certificate endpoint compares the raw URL segment with that: a different spelling of the
   submitted name is refused *)
Theorem user_is_normalised expand okta disable st now lim q submitted u c :
  s_name st u = normalise okta disable submitted ->
  certgen expand st now lim q = Issued u c ->
  q_target q = normalise okta disable submitted /\ d_names c = [normalise okta disable submitted].
Proof.
  intros N H. apply binding_fields in H. destruct H as [_ [D [T _]]]. rewrite <- N. auto.
Qed.
